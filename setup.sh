#!/bin/sh
# setup_cmd: build the libTooling fact extractor (E1) from files on disk only.
set -e
cd "$(dirname "$0")"
mkdir -p bin evidence
if [ ! -x bin/cppcms-facts ] || [ tools/facts/facts.cpp -nt bin/cppcms-facts ]; then
  clang++ $(llvm-config-14 --cxxflags) -O1 -fno-rtti tools/facts/facts.cpp -o bin/cppcms-facts \
     /usr/lib/llvm-14/lib/libclang-cpp.so.14 /usr/lib/llvm-14/lib/libLLVM-14.so
fi
echo "setup ok"
