"""C12 — uploaded form data: limits before allocation, end-of-content consistency, per-chunk size checks, temp-file removal,
and the boundary matcher's re-emission (structural clauses)."""
from vlib import build, model, q
from vlib.build import AnalysisBroken, REPO
from rules.C05 import load

RQ = 'cppcms::http::request'
MP = 'cppcms::impl::multipart_parser'


def run(ctx):
    ctx.explanation = ('Structural rules over http_request.cpp, multipart_parser.h and http_file.cpp: every allocation sized by the declared length is dominated by a limit test (and the sign test); '
                       'the switch over the parser result is exhaustive with the right status per result; the size check runs on both the partial and the ready edge; temp files are removed by the destructor; '
                       'a failed partial boundary match is re-emitted from the boundary string with the matched length read before it is reset, and each input byte is either counted or written, never both.')
    P = load(ctx, ['src/http_request.cpp', 'src/http_file.cpp', 'src/http_content_filter.cpp'])
    R1 = ctx.rule('C12.R1', 'on_content_start: allocation / parser creation only past the limit comparison for the content type and the sign test')
    R2 = ctx.rule('C12.R2', 'on_content_progress: parser results are handled exhaustively; ready only when read_size == content_length; premature / late eof is 400')
    R3 = ctx.rule('C12.R3', 'non-file field size is checked on both the content_partial and the content_ready edge before the filter is told')
    R4 = ctx.rule('C12.R4', 'an unsaved temporary upload file is removed when the file object dies')
    R6 = ctx.rule('C12.R6', 'urlencoded splitter: for every input up to a bounded length over the classes {&, =, other} (E3, decoder and map insertion summarised) the pairs handed to the form are exactly the &-separated pieces cut at their first =, each decoded from its own bytes, in order; a piece without a name or without = fails the whole parse; prepare() parses the query string as a whole, drops a half-parsed result, parses the cookies and marks a body-less request ready')
    R5 = ctx.rule('C12.R5', 'boundary matcher: failed partial match re-emitted from the boundary text with the matched length; each byte counted or written exactly once')

    cs = P.fn(RQ + '::on_content_start')
    CL = '_data::content_length'

    def limit_ok(atom, pol):
        n = cs.N(atom)
        if n['k'] != 'BinaryOperator' or n.get('op') not in ('>', '>=', '<', '<='):
            return False
        l, r = n['ch']
        cl_l = any(model.strip_targs(x).endswith(CL) for x in cs.subtree_refs(l))
        cl_r = any(model.strip_targs(x).endswith(CL) for x in cs.subtree_refs(r))
        lim_r = any(q.short_of(cs.callee(j)) in ('multipart_form_data_limit', 'content_length_limit') for j in cs.calls(r))
        lim_l = any(q.short_of(cs.callee(j)) in ('multipart_form_data_limit', 'content_length_limit') for j in cs.calls(l))
        if cl_l and lim_r:
            return (n['op'] in ('>', '>=') and pol is False) or (n['op'] in ('<', '<=') and pol is True)
        if cl_r and lim_l:
            return (n['op'] in ('<', '<=') and pol is False) or (n['op'] in ('>', '>=') and pol is True)
        return False

    def nonneg(atom, pol):
        n = cs.N(atom)
        if n['k'] != 'BinaryOperator' or n.get('op') not in ('<', '<=', '>=', '>'):
            return False
        if not any(model.strip_targs(x).endswith(CL) for x in cs.subtree_refs(n['ch'][0])) or cs.const_value(n['ch'][1]) != 0:
            return False
        return (n['op'] == '<' and pol is False) or (n['op'] == '>=' and pol is True) or (n['op'] == '>' and pol is True)
    g_lim, g_pos = cs.gate_edges(limit_ok), cs.gate_edges(nonneg)
    allocs = [('resize', i) for i in cs.calls() if q.short_of(cs.callee(i)) in ('resize', 'reserve') and any(model.strip_targs(x).endswith(CL) for x in cs.subtree_refs(i))]
    allocs += [('new-parser', i) for i in cs.all_nodes() if cs.N(i)['k'] == 'CXXNewExpr' and 'multipart_parser' in cs.N(i).get('nt', '')]
    ctx.require(len(allocs) >= 2, 'C12.R1: allocation sites in on_content_start not found')
    for kind, i in allocs:
        ctx.check(cs.only_through(i, g_lim), R1, 'on_content_start:%s:after-limit-test' % kind, 'allocation reachable without a limit comparison of the declared length', cs.loc(i))
        if kind == 'resize':
            ctx.check(cs.only_through(i, g_pos), R1, 'on_content_start:%s:after-sign-test' % kind, 'a negative declared length reaches resize()', cs.loc(i))
    # both content kinds have their own limit test returning 413
    for nm in ('multipart_form_data_limit', 'content_length_limit'):
        c = [i for i in cs.calls() if q.short_of(cs.callee(i)) == nm]
        ctx.check(len(c) >= 1, R1, 'on_content_start:uses-%s' % nm, 'limit %s is not consulted' % nm, cs.where)
    r413 = [r for r in cs.returns() if cs.const_value(cs.ret_value(r)) == 413]
    ctx.check(len(r413) >= 2, R1, 'on_content_start:413-on-both-limits', 'expected a 413 for each limit', cs.where)

    # ---------------- R2 / R3
    cp = P.fn(RQ + '::on_content_progress')
    enum = [e for e in P.enums.values() if e['name'].endswith('multipart_parser::parsing_result_type')]
    ctx.require(enum, 'C12.R2: parsing_result_type enum not found')
    enum = enum[0]
    sws = [i for i in cp.walk() if cp.N(i)['k'] == 'SwitchStmt']
    ctx.require(len(sws) == 1, 'C12.R2: expected one switch in on_content_progress')
    sw = sws[0]
    cases = {}
    for j in cp.walk(sw):
        if cp.N(j)['k'] == 'CaseStmt':
            cases[cp.const_value(cp.N(j)['lhs'])] = j
    dflt = [j for j in cp.walk(sw) if cp.N(j)['k'] == 'DefaultStmt']
    names = {e['value']: e['name'] for e in enum['enumerators']}
    for v, nm in sorted(names.items()):
        ctx.check(v in cases, R2, 'on_content_progress:case-%s' % nm, 'parser result %s is not handled explicitly' % nm, cp.loc(sw))

    def first_return_in_case(c):
        """constant of the return reachable from the case label before any break"""
        out = []
        start = cp.point_of(c) or cp.point_of(cp.N(c)['sub'])
        blk = None
        for B in cp.blocks.values():
            if B.label == c:
                blk = B.id
        if blk is None:
            return out
        seen, stack = set(), [blk]
        brk = set(b for b in cp.blocks if cp.blocks[b].term is not None and cp.N(cp.blocks[b].term)['k'] == 'BreakStmt')
        while stack:
            b = stack.pop()
            if b in seen:
                continue
            seen.add(b)
            for e in cp.blocks[b].elems:
                if 'n' in e and cp.N(e['n'])['k'] == 'ReturnStmt':
                    out.append(cp.const_value(cp.ret_value(e['n'])))
            if b in brk:
                continue
            for (s, _) in cp.succ_edges(b):
                if cp.blocks[s].label is not None and cp.blocks[s].label != c and cp.N(cp.blocks[s].label)['k'] in ('CaseStmt', 'DefaultStmt') and not out and False:
                    continue
                if s != cp.exit and cp.contains(sw, _first_node(cp, s)):
                    stack.append(s)
        return out
    val = {nm: v for v, nm in names.items()}
    want = {'no_room_left': 413, 'parsing_error': 400}
    for nm, code in want.items():
        if val.get(nm) in cases:
            rs = first_return_in_case(cases[val[nm]])
            ctx.check(bool(rs) and rs[0] == code, R2, 'on_content_progress:%s->%d' % (nm, code), '%s answered with %s' % (nm, rs[:1]), cp.loc(cases[val[nm]]))
    if dflt:
        rs = first_return_in_case(dflt[0])
        ctx.check(bool(rs) and rs[0] == 400, R2, 'on_content_progress:default->400', 'unknown parser result is not rejected', cp.loc(dflt[0]))
    else:
        ctx.check(False, R2, 'on_content_progress:default->400', 'no default arm', cp.loc(sw))
    if val.get('eof') in cases:
        rs = first_return_in_case(cases[val['eof']])
        # inside the eof arm the only way not to answer 400 is with no bytes left over and read_size == content_length
        cblk = [B.id for B in cp.blocks.values() if B.label == cases[val['eof']]]

        def g_left(atom, pol):
            n = cp.N(atom)
            if n['k'] != 'BinaryOperator' or n.get('op') not in ('!=', '==') or not all(r.startswith(('v:', 'p:')) for r in cp.subtree_refs(atom)) or len(cp.subtree_refs(atom)) != 2:
                return False
            names_ = sorted(r.split(':', 1)[1].split('@')[0] for r in cp.subtree_refs(atom))
            return names_ == ['begin', 'end'] and ((n['op'] == '!=' and pol is False) or (n['op'] == '==' and pol is True))

        def g_len(atom, pol):
            n = cp.N(atom)
            if n['k'] != 'BinaryOperator' or n.get('op') not in ('!=', '=='):
                return False
            refs = set(r.rsplit('::', 1)[-1] for r in cp.subtree_refs(atom) if r.startswith('f:'))
            return {'read_size', 'content_length'} <= refs and ((n['op'] == '!=' and pol is False) or (n['op'] == '==' and pol is True))
        ok = bool(cblk) and all(c == 400 for c in rs if c is not None) and 400 in rs
        if ok:
            inarm = set()
            stack = [cblk[0]]
            brkb = set(b for b in cp.blocks if cp.blocks[b].term is not None and cp.N(cp.blocks[b].term)['k'] == 'BreakStmt')
            while stack:
                b = stack.pop()
                if b in inarm:
                    continue
                inarm.add(b)
                if b in brkb:
                    continue
                for (s_, _) in cp.succ_edges(b):
                    if s_ != cp.exit and cp.contains(sw, _first_node(cp, s_)):
                        stack.append(s_)
            leave = [b for b in inarm if b in brkb]
            for gate in (g_left, g_len):
                ge = cp.gate_edges(gate)
                ge = [e for e in ge if len(e) == 4 and e[0] in inarm]
                reach = cp.reachable_blocks(start=cblk[0], cut_edges=ge)
                ok = ok and bool(ge) and bool(leave) and not any(b in reach for b in leave)
        ctx.check(ok, R2, 'on_content_progress:eof-with-leftover-or-length-mismatch->400', 'eof with trailing bytes / wrong declared length accepted', cp.loc(cases[val['eof']]))
    rw = [w for w in q.field_writes(cp, '_data::ready') if cp.const_value(cp.N(w)['ch'][1]) == 1]

    def all_read(atom, pol):
        n = cp.N(atom)
        refs = [model.strip_targs(x) for x in cp.subtree_refs(atom)]
        return n['k'] == 'BinaryOperator' and n.get('op') == '==' and any(x.endswith('_data::read_size') for x in refs) and any(x.endswith(CL) for x in refs) and pol is True
    g_all = cp.gate_edges(all_read)
    ctx.check(len(rw) == 1 and cp.only_through(rw[0], g_all), R2, 'on_content_progress:ready-only-when-all-read', 'request marked ready before the declared length was read', cp.where)
    # declared length reached without eof -> 400 (a return 400 whose guard mentions r != eof, after the loop)
    after = [r for r in cp.returns() if cp.const_value(cp.ret_value(r)) == 400 and not cp.contains(sw, r)]
    ok = False
    for r in after:
        g = cp.gate_edges(lambda atom, pol: cp.N(atom)['k'] == 'BinaryOperator' and cp.N(atom).get('op') == '!=' and any(x.endswith('multipart_parser::eof') for x in cp.subtree_refs(atom)) and pol is True)
        ok = ok or (bool(g) and cp.only_through(r, g))
    ctx.check(ok, R2, 'on_content_progress:length-reached-without-eof->400', 'a multipart body that ends without the closing boundary is accepted', cp.where)
    # catch handlers set no_on_error
    trys = [i for i in cp.walk() if cp.N(i)['k'] == 'CXXTryStmt']
    okc = len(trys) == 1
    if okc:
        for h in cp.N(trys[0])['handlers']:
            w = [j for j in cp.walk(h) if cp.N(j)['k'] == 'BinaryOperator' and cp.N(j).get('op') == '=' and model.strip_targs(cp.ref_of(cp.N(j)['ch'][0]) or '').endswith('_data::no_on_error')]
            okc = okc and len(w) == 1
        okc = okc and any(cp.N(h).get('ctype') == '...' for h in cp.N(trys[0])['handlers'])
    ctx.check(okc, R2, 'on_content_progress:exceptions-contained', 'an exception from a filter / parser escapes or double-reports the error', cp.where)

    for nm in ('content_partial', 'content_ready'):
        c = cases.get(val.get(nm))
        if c is None:
            continue
        body = cp.N(c)['sub']
        so = [i for i in cp.calls(body) if cp.bcallee(i) == RQ + '::size_ok']
        notif = [i for i in cp.calls(body) if q.short_of(cp.callee(i)) in ('on_upload_progress', 'on_data_ready')]
        ok = len(so) == 1 and bool(notif)
        if ok:
            g = q.call_gate(cp, lambda i: i == so[0], True)
            ok = all(cp.only_through(nf, g) for nf in notif)
            gf = q.call_gate(cp, lambda i: i == so[0], False)
            r413 = [r for r in cp.returns() if cp.contains(body, r) and cp.const_value(cp.ret_value(r)) == 413]
            ok = ok and len(r413) == 1 and cp.only_through(r413[0], gf)
        ctx.check(ok, R3, 'on_content_progress:%s:size-checked' % nm, 'field size limit is not enforced on the %s edge' % nm, cp.loc(c))
        for i in so:
            lim = [q.short_of(cp.bcallee(j) or cp.callee(j) or '') for j in q.expr_calls_deep(cp, cp.args(i)[1])]
            ctx.check('content_length_limit' in lim and 'multipart_form_data_limit' not in lim, R3, 'on_content_progress:%s:limit-is-content_length_limit' % nm,
                      'an in-memory form field is measured against %s instead of security.content_length_limit (the whole body was already admitted under the multipart limit: the field check can never fire)' % (lim or 'nothing'), cp.loc(i))
    szok = P.fn(RQ + '::size_ok')
    g = szok.gate_edges(lambda atom, pol: szok.N(atom)['k'] == 'BinaryOperator' and szok.N(atom).get('op') == '>' and any(q.short_of(szok.callee(j)) == 'size' for j in szok.calls(szok.N(atom)['ch'][0])) and pol is False)
    gm = q.call_gate(szok, lambda i: q.short_of(szok.callee(i)) == 'has_mime', True)
    succ = q.nonfalse_returns(szok)
    ctx.check(bool(succ) and all(szok.only_through(r, list(g) + list(gm)) for r in succ), R3, 'size_ok:true-only-within-limit-or-file', 'an over-limit non-file field passes size_ok', szok.where)

    # ---------------- R4
    fd = [f for f in P.fns.values() if f.brecord == 'cppcms::http::file' and f.kind == 'dtor']
    ctx.require(fd, 'C12.R4: http::file destructor not found')
    fd = fd[0]
    cc = [i for i in fd.calls() if fd.bcallee(i) == 'cppcms::http::file::close']
    ctx.check(len(cc) == 1 and q.always_before_exit(fd, cc), R4, '~file:calls-close', 'destructor does not close the upload', fd.where)
    cl = P.fn('cppcms::http::file::close')
    rm = [i for i in cl.calls() if cl.bcallee(i) in ('booster::nowide::remove', 'remove', 'unlink')]

    def must_remove_path():
        # cut the remove call; then no path may pass  !in_memory && !removed_ && file_temporary_ && !name.empty()  to the exit
        gates_needed = [
            q.call_gate(cl, lambda i: q.short_of(cl.callee(i)) == 'in_memory', False),
            cl.gate_edges(lambda atom, pol: model.strip_targs(cl.ref_of(atom) or '').endswith('file::removed_') and pol is False),
            cl.gate_edges(lambda atom, pol: model.strip_targs(cl.ref_of(atom) or '').endswith('file::file_temporary_') and pol is True),
        ]
        if not all(gates_needed) or not rm:
            return False
        # the remove site is reachable, and only through those conditions
        return all(cl.only_through(rm[0], g) for g in gates_needed)
    ctx.check(len(rm) == 1 and must_remove_path(), R4, 'file::close:temporary-unsaved-file-removed', 'temporary upload file is not removed (or a permanent one is)', cl.where)
    if rm:
        # on the temporary branch the remove is unconditional apart from the name test
        tg = cl.gate_edges(lambda atom, pol: model.strip_targs(cl.ref_of(atom) or '').endswith('file::file_temporary_') and pol is True)
        ng = q.empty_gate(cl)
        okp = True
        for (b, s, lab, tag) in tg:
            reach = cl.reachable_blocks(start=s, cut_edges=ng, cut_blocks=q.blocks_of(cl, rm))
            okp = okp and cl.exit not in reach
        ctx.check(okp, R4, 'file::close:remove-on-every-temporary-path', 'a path through the temporary branch skips the removal', cl.where)
    st = P.fn('cppcms::http::file::save_to')
    w = [i for i in q.field_writes(st, 'file::removed_') if st.const_value(st.N(i)['ch'][1]) == 1]
    ctx.check(len(w) >= 1, R4, 'file::save_to:marks-moved', 'a saved file would be deleted by the destructor', st.where)
    # removed_ = 1 switches the destructor's clean-up off: it may be set only when the temporary file is really gone
    # (renamed away, or explicitly removed after the copy fall-back)
    rn = [i for i in st.calls() if q.short_of(st.callee(i)) == 'rename']
    rmv = [i for i in st.calls() if q.short_of(st.callee(i)) in ('remove', 'unlink')]
    g_moved = st.gate_edges(lambda atom, pol: st.N(atom)['k'] == 'BinaryOperator' and st.N(atom).get('op') in ('!=', '==') and any(j in rn for j in st.calls(atom)) and st.const_value(st.N(atom)['ch'][1]) == 0 and pol is (st.N(atom)['op'] == '=='))
    g_mem = q.call_gate(st, lambda i: q.short_of(st.callee(i)) == 'in_memory', True)
    for k_, w_ in enumerate(w):
        reach = st.reachable_blocks(cut_edges=[e for e in list(g_moved) + list(g_mem) if len(e) == 4], cut_blocks=q.blocks_of(st, rmv))
        ctx.check(bool(rn) and st.point_of(w_)[0] not in reach, R4, 'file::save_to:marked-moved#%d:only-when-temp-file-gone' % k_,
                  'save_to disables the clean-up although the temporary file can still exist (rename failed, copy made, no remove)', st.loc(w_))
    # a field value is copied into post() from the start of its stream, whatever a content filter read before
    rfs = [f for f in P.fns.values() if f.short == 'read_file' and f.file.endswith('/src/http_request.cpp')]
    ctx.require(len(rfs) == 1, 'C12.R3: helper read_file not found in http_request.cpp')
    rf_ = rfs[0]
    sp_ = [p_['ref'] for p_ in rf_.params if 'basic_istream' in rf_.types[p_['t']]]
    sk = [i for i in rf_.calls() if q.short_of(rf_.callee(i)) == 'seekg' and sp_ and rf_.ref_of(rf_.obj(i)) == sp_[0] and any(rf_.N(j)['k'] == 'IntegerLiteral' and rf_.const_value(j) == 0 for j in rf_.walk(rf_.args(i)[0])) and not [r for r in rf_.subtree_refs(rf_.args(i)[0]) if r.startswith(('v:', 'p:', 'f:'))]]
    drains = [i for i in rf_.calls() if q.short_of(rf_.callee(i)) in ('sbumpc', 'sgetc', 'sgetn', 'snextc', 'read', 'get', 'getline', 'readsome')]
    ctx.check(bool(sp_) and len(sk) >= 1 and bool(drains) and all(q.before(rf_, sk[0], dcall) for dcall in drains), R3, 'read_file:rewinds-before-copying', 'a form field is copied into post() from wherever the stream position was left (a reading content filter truncates it)', rf_.where)

    # ---------------- R5
    cons = [f for f in P.fns.values() if f.brecord == MP and f.short == 'consume']
    ctx.require(cons, 'C12.R5: multipart_parser::consume not found')
    cons = cons[0]
    spn = [i for i in cons.calls() if q.short_of(cons.callee(i)) == 'sputn']
    spc = [i for i in cons.calls() if q.short_of(cons.callee(i)) == 'sputc']
    ctx.check(len(spn) == 1 and len(spc) == 1, R5, 'consume:one-reemit-and-one-emit-site', 'expected one sputn and one sputc site', cons.where)
    if len(spn) == 1 and len(spc) == 1:
        a = cons.args(spn[0])
        src = a[0]
        r = cons.ref_of(src)
        prov = False
        if r and r.startswith('v:'):
            ds = cons.defs_of_var(r)
            prov = len(ds) == 1 and ds[0][1] is not None and any(model.strip_targs(x).endswith('multipart_parser::boundary_') for x in cons.subtree_refs(ds[0][1])) and \
                any(q.short_of(cons.callee(j)) in ('c_str', 'data') for j in cons.calls(ds[0][1]))
        else:
            prov = any(model.strip_targs(x).endswith('multipart_parser::boundary_') for x in cons.subtree_refs(src)) and not any(x.startswith('p:') for x in cons.subtree_refs(src))
        ctx.check(prov, R5, 'consume:reemit-source-is-boundary-text', 'failed partial match is re-emitted from something other than the boundary string (bytes of an earlier chunk are gone)', cons.loc(spn[0]))
        ln = model.strip_targs(cons.ref_of(a[1]) or '')
        # the matched length is consumed (by the sputn) before position_ is given its next value on that path: every write of
        # position_ in the block of the re-emission comes after it, and there is one (0, 1, or `c==boundary_[0] ? 1 : 0`)
        pws = [w for w in q.field_writes(cons, 'multipart_parser::position_') if cons.point_of(w)]
        same = [w for w in pws if cons.point_of(w)[0] == cons.point_of(spn[0])[0]]
        after = [w for w in pws if w not in same and q.before(cons, spn[0], w)]
        ctx.check(ln.endswith('multipart_parser::position_') and (len(same) + len(after)) >= 1 and all(cons.point_of(w)[1] > cons.point_of(spn[0])[1] for w in same), R5, 'consume:reemit-length-read-before-reset',
                  're-emitted length is not the matched length (position_ read after it was reset)', cons.loc(spn[0]))
        g_pos = cons.gate_edges(lambda atom, pol: cons.N(atom)['k'] == 'BinaryOperator' and cons.N(atom).get('op') == '>' and model.strip_targs(cons.ref_of(cons.N(atom)['ch'][0]) or '').endswith('multipart_parser::position_') and
                                cons.const_value(cons.N(atom)['ch'][1]) == 0 and pol is True)
        ctx.check(cons.only_through(spn[0], g_pos), R5, 'consume:reemit-only-after-partial-match', 'boundary prefix emitted without a failed partial match', cons.loc(spn[0]))
        g_zero = cons.gate_edges(lambda atom, pol: cons.N(atom)['k'] == 'BinaryOperator' and cons.N(atom).get('op') == '==' and model.strip_targs(cons.ref_of(cons.N(atom)['ch'][0]) or '').endswith('multipart_parser::position_') and
                                 cons.const_value(cons.N(atom)['ch'][1]) == 0 and pol is True)
        ctx.check(cons.only_through(spc[0], g_zero), R5, 'consume:byte-written-only-when-not-counted', 'a byte that was counted into the match is also written', cons.loc(spc[0]))
        # the byte written is the current input byte
        cv = cons.ref_of(cons.args(spc[0])[0])
        ds = cons.defs_of_var(cv) if cv else []
        bufp = q.param_by_index(cons, 0)
        ctx.check(len(ds) == 1 and ds[0][1] is not None and bufp in cons.subtree_refs(ds[0][1]), R5, 'consume:writes-current-byte', 'emitted byte is not the current input byte', cons.loc(spc[0]))
        # short writes of either kind are reported as no_room_left
        nr = [r_ for r_ in cons.returns() if any(x.endswith('::no_room_left') for x in cons.subtree_refs(cons.ret_value(r_)))]
        ctx.check(len(nr) >= 2, R5, 'consume:short-write-reported', 'a failed write to the upload buffer is not reported', cons.where)


    # ---------------- R6 urlencoded splitter (E3 with summaries) and prepare()
    import itertools as _it6
    from vlib import absint as _ai
    from vlib.absint import AV as _AV, Arr as _Arr, PV as _PV, Out as _Out, Unsupported as _Uns
    pfu = P.fn(RQ + '::parse_form_urlencoded')

    def run_form(box_classes):
        L = len(box_classes)
        ev = []

        def h_find(it, fn, i, env):
            a = [it.rvalue(fn, x, env) for x in fn.args(i)]
            if not (len(a) == 3 and isinstance(a[0], _PV) and isinstance(a[1], _PV) and isinstance(a[2], _AV) and a[2].is_const()):
                raise _Uns('std::find shape')
            for j in range(a[0].off, a[1].off):
                e = it.load(('elem', _PV(a[0].arr, j)))
                if e.is_const():
                    if e.lo == a[2].lo:
                        return _PV(a[0].arr, j)
                    continue
                if not (e.lo <= a[2].lo <= e.hi):
                    continue
                it.split_on(e.deps)
            return a[1]

        def h_dec(it, fn, i, env):
            a = [it.rvalue(fn, x, env) for x in fn.args(i)]
            if not (len(a) == 2 and isinstance(a[0], _PV) and isinstance(a[1], _PV)):
                raise _Uns('urldecode shape')
            if a[0].off < 0 or a[1].off > L or a[0].off > a[1].off:
                raise _ai.OutOfBounds('urldecode over [%d,%d) of an input of %d bytes' % (a[0].off, a[1].off, L))
            o = _Out('dec')
            o.items = [('range', a[0].off, a[1].off)]
            return o

        class _Pair(object):
            def __init__(self, a, b):
                self.a, self.b = a, b

        def h_pair(it, fn, i, env):
            a = [it.rvalue(fn, x, env) for x in fn.args(i)]
            return _Pair(a[0], a[1])

        def h_ins(it, fn, i, env):
            a = [it.rvalue(fn, x, env) for x in fn.args(i)]
            pr = a[0]
            if not (hasattr(pr, 'a') and all(isinstance(x, _Out) and x.items and x.items[0][0] == 'range' for x in (pr.a, pr.b))):
                raise _Uns('insert of something that is not make_pair(decoded name, decoded value)')
            ev.append((pr.a.items[0][1:], pr.b.items[0][1:]))
            return _AV.const(0)
        hooks = {'std::find': h_find, 'cppcms::util::urldecode': h_dec, 'std::make_pair': h_pair, 'std::multimap::insert': h_ins, 'std::map::insert': h_ins}
        it = _ai.Interp(P, list(box_classes), hooks=hooks)
        arr = _Arr([it.inbyte(k_) for k_ in range(L)], 'input')
        r = it.call_fn(pfu, [_PV(arr, 0), _PV(arr, L), _Out('form')])
        return r, ev

    def ref_form(cls):
        """cls: string over {'&','=','x'}"""
        out, p, n = [], 0, len(cls)
        while p < n:
            e = cls.find('&', p)
            e = n if e < 0 else e
            q_ = cls.find('=', p, e)
            if q_ < 0 or q_ == p:
                return False, out
            out.append(((p, q_), (q_ + 1, e)))
            p = e + 1
        return True, out
    CLS6 = {'&': (38, 38), '=': (61, 61)}
    OTHERS = [(-128, 37), (39, 60), (62, 127)]
    bad6, nrun = None, 0
    for L in range(0, (5 if ctx.tier == 'quick' else 7)):
        for cls in _it6.product('&=x', repeat=L):
            for ob in (OTHERS if 'x' in cls else OTHERS[:1]):
                boxes = [CLS6.get(c_, ob) for c_ in cls]
                nrun += 1
                try:
                    r, ev = run_form(boxes)
                except (_ai.Split, _ai.OutOfBounds, _Uns) as e_:
                    bad6 = bad6 or ('input classes %r: %s' % (''.join(cls), e_))
                    continue
                wok, wev = ref_form(''.join(cls))
                if not (isinstance(r, _AV) and r.is_const()) or bool(r.lo) != wok or (wok and ev != wev) or (not wok and ev != wev):
                    bad6 = bad6 or ('input classes %r: returns %s with pairs (name range, value range) %s; expected %s with %s' % (''.join(cls), getattr(r, 'lo', r), ev, wok, wev))
    ctx.check(bad6 is None, R6, 'parse_form_urlencoded:all-class-strings-up-to-%d' % (4 if ctx.tier == 'quick' else 6), bad6 or '', pfu.where, detail={'runs': nrun})
    pr = P.fn(RQ + '::prepare')
    pc = [i for i in pr.calls() if pr.bcallee(i) == RQ + '::parse_form_urlencoded']
    ok6 = len(pc) == 1
    if ok6:
        S6 = q.symb_with_locals(pr)
        a = pr.args(pc[0])
        b_, e_ = S6.lin(a[0]), S6.lin(a[1])
        qs = any(q.short_of(pr.bcallee(j) or '') == 'env_query_string' for j in q.expr_calls_deep(pr, a[0]))
        d_ = e_ - b_
        ok6 = qs and len(d_.t) == 1 and d_.c == 0 and any(pr.callee(j) == 'strlen' for j in q.expr_calls_deep(pr, a[1])) and model.strip_targs(pr.ref_of(a[2]) or '').endswith('request::get_')
        g_fail = q.call_gate(pr, lambda i: i == pc[0], False)
        clr = [i for i in pr.calls() if q.short_of(pr.bcallee(i) or '') == 'clear' and pr.obj(i) is not None and model.strip_targs(pr.ref_of(pr.obj(i)) or '').endswith('request::get_')]
        ok6 = ok6 and len(clr) == 1 and bool(g_fail) and pr.only_through(clr[0], g_fail)
        reach = pr.reachable_blocks(cut_blocks=q.blocks_of(pr, clr), cut_edges=q.call_gate(pr, lambda i: i == pc[0], True))
        ok6 = ok6 and pr.exit not in reach
        ck = [i for i in pr.calls() if pr.bcallee(i) == RQ + '::parse_cookies']
        clw = [w for w in q.field_writes(pr, '_data::content_length')]
        rdy = [w for w in q.field_writes(pr, '_data::ready') if pr.const_value(pr.N(w)['ch'][1]) == 1]
        g_zero = pr.gate_edges(lambda atom, pol: pr.N(atom)['k'] == 'BinaryOperator' and pr.N(atom).get('op') in ('==', '!=') and model.strip_targs(pr.ref_of(pr.N(atom)['ch'][0]) or '').endswith('_data::content_length') and
                               pr.const_value(pr.N(atom)['ch'][1]) == 0 and ((pr.N(atom)['op'] == '==') == pol))
        ok6 = ok6 and len(ck) == 1 and q.always_before_exit(pr, ck) and len(clw) == 1 and any(q.short_of(pr.bcallee(j) or '') == 'env_content_length' for j in pr.calls(clw[0])) and q.always_before_exit(pr, clw) and \
            len(rdy) == 1 and bool(g_zero) and pr.only_through(rdy[0], g_zero) and q.before(pr, clw[0], rdy[0])
        if ok6:
            g_nz = pr.gate_edges(lambda atom, pol: pr.N(atom)['k'] == 'BinaryOperator' and pr.N(atom).get('op') in ('==', '!=') and model.strip_targs(pr.ref_of(pr.N(atom)['ch'][0]) or '').endswith('_data::content_length') and
                                 pr.const_value(pr.N(atom)['ch'][1]) == 0 and ((pr.N(atom)['op'] == '!=') == pol))
            reach = pr.reachable_blocks(cut_blocks=q.blocks_of(pr, rdy), cut_edges=g_nz)
            ok6 = pr.exit not in reach
    ctx.check(ok6, R6, 'prepare:query-string-parsed-whole:failure-drops-it:cookies:ready-iff-no-body', 'prepare() does not parse the whole query string into the GET form (dropping a failed parse), parse the cookies, take the content length from the connection and mark a body-less request ready', pr.where)
    # ---------------- R7 saving an upload keeps every byte
    R7 = ctx.rule('C12.R7', 'http::file::save_to stores the whole upload: the reading side is cleared and rewound to offset 0 and the buffer synchronised before anything is copied or moved; an in-memory upload is copied '
                            'out, an on-disk one is renamed and copied only if the rename failed; save_by_copy opens the target in binary mode, refuses an unopened target, copies the whole stream and flushes')
    FI = 'cppcms::http::file::'
    st_ = P.fn(FI + 'save_to')
    sbc = P.fn(FI + 'save_by_copy')
    cps = P.fn(FI + 'copy_stream')
    fnp = q.param_by_index(st_, 0)
    on_in = lambda f, i: f.obj(i) is not None and any(model.strip_targs(x).endswith('_data::in') for x in f.subtree_refs(f.obj(i)))
    on_fb = lambda f, i: f.obj(i) is not None and any(model.strip_targs(x).endswith('_data::fb') for x in f.subtree_refs(f.obj(i)))
    rew = [i for i in st_.calls() if q.short_of(st_.callee(i) or '') == 'seekg' and on_in(st_, i) and any(st_.const_value(j) == 0 for j in st_.walk(st_.args(i)[0]))]
    clr = [i for i in st_.calls() if q.short_of(st_.callee(i) or '') == 'clear' and on_in(st_, i)]
    syn = [i for i in st_.calls() if q.short_of(st_.callee(i) or '') in ('pubsync', 'sync') and on_fb(st_, i)]
    movers = [i for i in st_.calls() if st_.bcallee(i) == FI + 'save_by_copy' or q.short_of(st_.callee(i) or '') == 'rename']
    ok7 = len(rew) == 1 and len(clr) >= 1 and len(syn) == 1 and bool(movers) and q.before(st_, clr[0], rew[0]) and all(q.before(st_, rew[0], m_) and q.before(st_, syn[0], m_) for m_ in movers)
    ctx.check(ok7, R7, 'save_to:rewound-and-synchronised-before-the-bytes-move', 'the upload is copied / moved without clear() + seekg(0) on the reading side and a sync of the buffer first (a partly read or unflushed upload is saved short)', st_.where)
    g_mem = q.call_gate(st_, lambda i: q.short_of(st_.callee(i) or '') == 'in_memory' and on_fb(st_, i), True)
    g_disk = q.call_gate(st_, lambda i: q.short_of(st_.callee(i) or '') == 'in_memory' and on_fb(st_, i), False)
    copies = [i for i in st_.calls() if st_.bcallee(i) == FI + 'save_by_copy']
    rn = [i for i in st_.calls() if q.short_of(st_.callee(i) or '') == 'rename']
    mem_copy = [i for i in copies if bool(g_mem) and st_.only_through(i, g_mem)]
    ok7 = bool(g_mem) and len(mem_copy) == 1 and fnp in st_.subtree_refs(st_.args(mem_copy[0])[0]) and any(model.strip_targs(x).endswith('_data::in') for x in st_.subtree_refs(st_.args(mem_copy[0])[1]))
    if ok7:
        for (b_, s_, lab_, tag_) in g_mem:
            rb = st_.reachable_blocks(start=s_, cut_blocks=[st_.point_of(mem_copy[0])[0]])
            if st_.exit in rb:
                ok7 = False
    ctx.check(ok7, R7, 'save_to:in-memory-upload-copied-out', 'an upload held in memory is not written to the named file on every path', st_.where)
    ok7 = len(rn) == 1 and bool(g_disk) and st_.only_through(rn[0], g_disk)
    why7 = 'an upload on disk is not moved to the named file'
    if ok7:
        a_ = st_.args(rn[0])
        g_rfail = st_.gate_edges(lambda atom, pol: st_.N(atom)['k'] == 'BinaryOperator' and st_.N(atom).get('op') in ('!=', '==') and rn[0] in set(st_.walk(atom)) and st_.const_value(st_.N(atom)['ch'][1]) == 0 and
                                 pol is (st_.N(atom)['op'] == '!='))
        fb_copy = [i for i in copies if i not in mem_copy]
        ok7 = fnp in st_.subtree_refs(a_[1]) and any(q.short_of(st_.callee(j) or '') == 'name' for j in st_.calls(a_[0])) and bool(g_rfail) and len(fb_copy) == 1 and st_.only_through(fb_copy[0], g_rfail) and \
            fnp in st_.subtree_refs(st_.args(fb_copy[0])[0])
        why7 = 'the temporary file is not renamed to the target, or a failed rename is not followed by a copy into the target'
        if ok7:
            for (b_, s_, lab_, tag_) in g_rfail:
                rb = st_.reachable_blocks(start=s_, cut_blocks=[st_.point_of(fb_copy[0])[0]])
                if st_.exit in rb:
                    ok7, why7 = False, 'a failed rename can leave save_to without the copy'
    ctx.check(ok7, R7, 'save_to:on-disk-upload-renamed-or-copied', why7, st_.where)
    op_ = [i for i in sbc.calls() if sbc.N(i)['k'] == 'CXXConstructExpr' and 'ofstream' in (sbc.callee(i) or '')]
    cp_ = [i for i in sbc.calls() if sbc.bcallee(i) == FI + 'copy_stream']
    inl_ = [i for i in sbc.calls() if (sbc.callee(i) or '').endswith('operator<<') and any(q.short_of(sbc.callee(j) or '') == 'rdbuf' and sbc.obj(j) is not None and sbc.ref_of(sbc.obj(j)) == q.param_by_index(sbc, 1) for j in sbc.calls(i))]
    direct_copy = not cp_ and len(inl_) == 1
    if direct_copy:
        cp_ = inl_
    thr = [i for i in sbc.all_nodes() if sbc.N(i)['k'] == 'CXXThrowExpr']
    ok7 = len(op_) == 1 and len(cp_) == 1 and len(thr) >= 1
    if ok7:
        fv = [d['ref'] for i in sbc.all_nodes() if sbc.N(i)['k'] == 'DeclStmt' for d in sbc.N(i)['decls'] if d.get('init') is not None and sbc.strip(d['init']) == op_[0]]
        g_bad = sbc.gate_edges(lambda atom, pol: bool(fv) and (sbc.ref_of(atom) == fv[0] or (sbc.N(atom)['k'] in model.CALL_KINDS and fv[0] in sbc.subtree_refs(atom) and
                                                                                         ('operator bool' in (sbc.callee(atom) or '') or 'operator!' in (sbc.callee(atom) or '') or q.short_of(sbc.callee(atom) or '') in ('fail', 'is_open', 'good')))) and pol is not None)
        a_ = sbc.args(cp_[0]) if not direct_copy else [[x for x in sbc.N(cp_[0])['ch'][1:] if q.param_by_index(sbc, 1) in sbc.subtree_refs(x)][0], [x for x in sbc.N(cp_[0])['ch'][1:] if q.param_by_index(sbc, 1) not in sbc.subtree_refs(x)][0]]
        flags = sbc.N(op_[0])['ch'][1] if len(sbc.N(op_[0])['ch']) > 1 else None
        ok7 = bool(fv) and q.param_by_index(sbc, 0) in sbc.subtree_refs(sbc.N(op_[0])['ch'][0]) and flags is not None and any(x.endswith('ios_base::binary') or x.endswith('::binary') for x in sbc.subtree_refs(flags)) and \
            q.param_by_index(sbc, 1) in sbc.subtree_refs(a_[0]) and fv[0] in sbc.subtree_refs(a_[1]) and q.before(sbc, op_[0], cp_[0]) and bool(g_bad) and \
            any(q.short_of(sbc.callee(i) or '') in ('flush', 'close') or 'flush' in ''.join(sbc.subtree_refs(i)) for i in sbc.calls() if q.reaches(sbc, cp_[0], i))
        # the copy runs only with an opened target: the throw is reached through the "not open" edge and the copy is not
        nthr = q.truth_gate(sbc, lambda e: sbc.ref_of(e) == fv[0] or (sbc.N(e)['k'] in model.CALL_KINDS and fv and fv[0] in sbc.subtree_refs(e) and 'operator bool' in (sbc.callee(e) or '')), False) if ok7 else []
        ok7 = ok7 and (not nthr or all(sbc.only_through(t_, nthr) for t_ in thr))
    ctx.check(ok7, R7, 'save_by_copy:binary-target-whole-stream-flushed', 'the target is not opened in binary mode from the given name, an unopened target is not refused, or the stream is not copied whole into it and flushed', sbc.where)
    rd = [i for i in cps.calls() if q.short_of(cps.callee(i) or '') == 'rdbuf' and cps.obj(i) is not None and cps.ref_of(cps.obj(i)) == q.param_by_index(cps, 0)]
    ins = [i for i in cps.calls() if (cps.callee(i) or '').endswith('operator<<') and q.param_by_index(cps, 1) in cps.subtree_refs(i) and rd and cps.contains(i, rd[0])]
    ctx.check((len(rd) == 1 and len(ins) == 1 and q.always_before_exit(cps, ins)) or (direct_copy and not [i for i in P.fns.values() if any(g_.bcallee(c_) == FI + 'copy_stream' for g_ in [i] for c_ in g_.calls())]), R7, 'copy_stream:whole-source-buffer-into-the-target', 'copy_stream does not stream the source\'s buffer into the target', cps.where)
    ctx.floor(R7, 5)
    # ---------------- R9 the configured limits are the ones enforced
    R9 = ctx.rule('C12.R9', 'the limits compared in on_content_start are the configured ones: content_limits(cached_settings) takes each limit from the settings entry of the same name, the two limits configured in KB '
                            '(content_length_limit, multipart_form_data_limit - config.js documents the unit) are scaled by exactly 1024 and file_in_memory_limit (bytes) is taken as is; cached_security reads each entry under its '
                            'own key "security.<name>"; content_limits accessors read / write the member of their own name')
    CL = 'cppcms::http::content_limits'
    KB = {'content_length_limit': 1024, 'multipart_form_data_limit': 1024, 'file_in_memory_limit': 1, 'uploads_path': None}
    cl = [f for f in P.fns.values() if f.kind == 'ctor' and f.record == CL and f.body is not None and len(f.params) == 1 and 'cached_settings' in (f.params[0].get('t') if isinstance(f.params[0].get('t'), str) else f.types[f.params[0]['t']])]
    ctx.require(len(cl) == 1, 'C12.R9: content_limits(cached_settings const &) not found')
    f = cl[0]
    seen = set()
    for x in f.d.get('inits', []):
        fld = model.strip_targs(x.get('field', '')).rsplit('::', 1)[-1]
        name = fld.rstrip('_')
        if name not in KB:
            continue
        seen.add(name)
        e = f.strip(x['n'])
        srcs = [r_ for r_ in f.subtree_refs(e) if r_.startswith('f:') and 'cached_security::' in r_]
        ctx.check(srcs == ['f:cppcms::impl::cached_settings::cached_security::' + name] or [s_.rsplit('::', 1)[-1] for s_ in srcs] == [name], R9, 'content_limits(settings):%s:from-its-own-entry' % name,
                  'the limit is taken from %s' % (srcs,), f.loc(x['n']))
        if KB[name] is None:
            continue
        n_ = f.N(e)
        scale = 1
        shape = True
        if n_['k'] == 'BinaryOperator' and n_.get('op') == '*':
            cs = [f.const_value(c_) for c_ in n_['ch']]
            shape = sum(1 for c_ in cs if c_ is not None) == 1
            scale = [c_ for c_ in cs if c_ is not None][0] if shape else None
        elif n_['k'] == 'BinaryOperator' and n_.get('op') == '<<' and f.const_value(n_['ch'][1]) is not None:
            scale = 1 << f.const_value(n_['ch'][1])
        elif f.ref_of(e) is None:
            shape = False
        ctx.check(shape and scale == KB[name], R9, 'content_limits(settings):%s:scaled-by-%d' % (name, KB[name]),
                  'the configured value is scaled by %r, its unit makes that %d: the limit enforced is not the one configured' % (scale, KB[name]), f.loc(x['n']))
    ctx.check(seen == set(KB), R9, 'content_limits(settings):all-limits-initialised', 'not initialised from the settings: %s' % sorted(set(KB) - seen), f.where)
    cs_ = [g for g in P.fns.values() if g.kind == 'ctor' and (g.record or '').endswith('cached_settings::cached_security') and g.body is not None and len(g.params) == 1 and not g.d.get('implicit')]
    cs_ = [g for g in cs_ if [i for i in g.calls() if q.short_of(g.callee(i) or '') == 'get']]
    ctx.require(len(cs_) == 1, 'C12.R9: cached_security(json::value const &) not found (%d)' % len(cs_))
    g = cs_[0]
    got = {}
    for w in g.all_nodes():
        n_ = g.N(w)
        if n_['k'] in ('BinaryOperator', 'CXXOperatorCallExpr') and n_.get('op') == '=' and len(n_['ch']) >= 2:
            ch = n_['ch'][-2:]
            t = (g.ref_of(ch[0]) or '').rsplit('::', 1)[-1]
            if t in KB:
                got.setdefault(t, []).append([g.N(j).get('s') for c_ in g.walk(ch[1]) if g.N(c_)['k'] in ('CXXMemberCallExpr', 'CallExpr') and q.short_of(g.callee(c_) or '') == 'get' and g.args(c_)
                                                 for j in g.walk(g.args(c_)[0]) if g.N(j)['k'] == 'StringLiteral'][:1])
    for name in sorted(KB):
        ctx.check(got.get(name) == [['security.' + name]], R9, 'cached_security:%s:read-under-its-own-key' % name, 'the entry is read from %r' % (got.get(name),), g.where)
    for name in sorted(KB):
        acc = [h for h in P.fns.values() if h.record == CL and h.short == name and h.body is not None]
        ctx.check(len(acc) == 2, R9, 'content_limits::%s:getter-and-setter' % name, 'found %d accessors' % len(acc), f.where)
        for h in acc:
            own = 'f:%s::%s_' % (CL, name)
            if len(h.params) == 0:
                vals = [r2_ for r_ in h.returns() if h.ret_value(r_) is not None for r2_ in h.subtree_refs(h.ret_value(r_)) if r2_.startswith('f:')]
                ctx.check(vals == [own], R9, 'content_limits::%s():returns-own-member' % name, 'returns %s' % (vals,), h.where)
            else:
                ws = [(w_, fl_) for fl_ in ('content_length_limit_', 'multipart_form_data_limit_', 'file_in_memory_limit_', 'uploads_path_') for w_ in q.field_writes(h, 'content_limits::' + fl_)]
                okw = len(ws) == 1 and ws[0][1] == name + '_' and q.param_by_index(h, 0) in h.subtree_refs(ws[0][0])
                ctx.check(okw, R9, 'content_limits::%s(v):writes-own-member-from-v' % name, 'writes %s' % ([x_[1] for x_ in ws],), h.where)
    ctx.floor(R9, 20)
    # ---------------- R10 the kind flags of the content filter follow the filter
    R10 = ctx.rule('C12.R10', 'request keeps what kind of filter is installed in two flags next to the pointer and on_content_progress dispatches on the flags alone: every function that writes _data::filter '
                              'brings both flags up to date on every path from that write to its exit (a cleared pointer with a flag left set is a call through a null filter when the next chunk arrives)')
    FLT = 'cppcms::http::request::_data::filter'
    flags_ = ('filter_is_raw_content_filter', 'filter_is_multipart_filter')
    n10 = 0
    for f in sorted([g for g in P.fns.values() if g.record == RQ and g.body is not None], key=lambda g: g.id):
        ws = [w_ for w_ in q.field_writes(f, '_data::filter') if (f.ref_of(f.N(w_)['ch'][0]) if f.N(w_)['k'] == 'BinaryOperator' else '') == 'f:' + FLT]
        if not ws:
            continue
        for k_, w_ in enumerate(ws):
            n10 += 1
            miss = [fl for fl in flags_ if not q.always_after(f, w_, q.field_writes(f, '_data::' + fl))]
            ctx.check(not miss, R10, '%s:filter-write#%d:flags-follow' % (f.short, k_), 'the filter pointer is written and %s can keep its old value: content is dispatched to a filter that is no longer there' % miss, f.loc(w_))
    ctx.require(n10 >= 3 or ctx.violations, 'C12.R10: writes of request::_data::filter not found (%d)' % n10)
    # the dispatch side reads the flags, not the pointer: keep that coupling visible
    ocp = P.fn(RQ + '::on_content_progress')
    rdf = [i for i in ocp.all_nodes() if ocp.N(i)['k'] == 'MemberExpr' and (ocp.N(i).get('ref') or '').endswith('::filter_is_raw_content_filter')]
    ctx.check(bool(rdf), R10, 'on_content_progress:dispatches-on-the-flags', 'the dispatch no longer reads the flags (rule out of date)', ocp.where)
    ctx.floor(R10, 4)
    # ---------------- R8 the upload stream buffer hands characters out as int_type without sign extension
    R8 = ctx.rule('C12.R8', 'http::impl::file_buffer (the stream buffer uploads are read back through): underflow / uflow / pbackfail return a character only through traits_type::to_int_type or an unsigned char '
                            'conversion - a plain char converted to int makes byte 0xFF equal to EOF and cuts the content short at a refill boundary')
    n8 = 0
    for f in sorted([g for g in P.fns.values() if g.short in ('underflow', 'uflow', 'pbackfail') and 'file_buffer' in (g.record or '') and g.body is not None], key=lambda g: g.id):
        bad = []
        for rt in f.returns():
            v = f.ret_value(rt)
            if v is None:
                continue
            for j in f.walk(v):
                n_ = f.N(j)
                if n_['k'] == 'ImplicitCastExpr' and n_.get('cast') == 'IntegralCast' and n_.get('ch'):
                    src_t = (f.types[f.N(n_['ch'][0])['t']] if f.N(n_['ch'][0]).get('t') is not None else '') or ''
                    if src_t.replace('const ', '').strip() in ('char', 'signed char'):
                        bad.append(rt)
        n8 += 1
        ctx.check(not bad, R8, 'file_buffer::%s:characters-returned-through-to_int_type' % f.short, 'a char is returned as int without to_int_type / unsigned char: 0xFF reads as end of file', f.loc(bad[0]) if bad else f.where)
    for f in sorted([g for g in P.fns.values() if g.short == 'overflow' and 'file_buffer' in (g.record or '') and g.body is not None], key=lambda g: g.id):
        nb_ = q.narrowed_char_eof_tests(f)
        ctx.check(not nb_, R8, 'file_buffer::overflow:EOF-tested-on-the-int', 'the overflowing character is compared with EOF after narrowing to char: byte 0xFF of an upload is dropped', f.loc(nb_[0]) if nb_ else f.where)
        dr_ = q.overflow_drops_char(f)
        ctx.check(not dr_, R8, 'file_buffer::overflow:takes-the-character', 'overflow(c) can report success without having taken c (neither stored, put nor handed on, and c was not EOF): the byte that did not fit is lost', f.loc(dr_[0]) if dr_ else f.where)
    ctx.require(n8 >= 2 or ctx.violations, 'C12.R8: file_buffer::underflow / pbackfail not found')
    ctx.floor(R8, 2)
    ctx.floor(R6, 2)
    ctx.floor(R1, 6)
    ctx.floor(R2, 12)
    ctx.floor(R3, 3)
    ctx.floor(R4, 4)
    ctx.floor(R5, 7)


def _first_node(fn, b):
    B = fn.blocks[b]
    for e in B.elems:
        if 'n' in e:
            return e['n']
    return B.term if B.term is not None else fn.body
