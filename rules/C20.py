"""C20 — URL routing is deterministic and whole-string (structural clauses)."""
from vlib import build, model, q
from vlib.build import AnalysisBroken, REPO
from rules.C05 import load

RX = 'booster::regex'
PCRE_ANCHORED = 0x10


def rx_arg(f, call):
    """the booster::regex argument of a regex_match call"""
    for a in f.args(call):
        t = (f.type_of(f.N(f.strip(a))) or '').replace('const ', '')
        if t == 'booster::regex':
            return a
    return None


def real_args(f, call):
    return [a for a in f.args(call) if f.N(a)['k'] != 'CXXDefaultArgExpr']


def run(ctx):
    ctx.explanation = ('Whole-string matching: the dispatcher / mount point / pool sources call only regex_match; booster::regex::match runs the separately compiled anchored program with '
                       'PCRE_ANCHORED (constant-evaluated from <pcre.h>) and the capture overload additionally demands the span [0,len); assign() builds that program as "(?:" pattern ")\\z". '
                       'First-match order, method-then-path, mount guards and group arity are CFG / table rules.')
    P = load(ctx, ['src/url_dispatcher.cpp', 'src/mount_point.cpp', 'src/applications_pool.cpp', 'booster/lib/regex/src/pcre_regex.cpp', 'src/url_mapper.cpp'],
             include_re='^/repo/(src|private|cppcms|booster/lib|booster/booster/regex_match\\.h|booster/booster/perl_regex\\.h)')
    R1 = ctx.rule('C20.R1', 'routing uses whole-string matching: regex_match only; anchored program + PCRE_ANCHORED + full span; "(?:...)\\z"')
    R2 = ctx.rule('C20.R2', 'the first registered rule that matches wins; rules are only ever appended')
    R3 = ctx.rule('C20.R3', 'a rule matches only if its method filter passed and the path matched as a whole')
    R4 = ctx.rule('C20.R4', 'mount_point::match succeeds only if host, script name and path info each are unconstrained or matched')
    R5 = ctx.rule('C20.R5', 'handler overload k receives capture groups select_[0..k-1] in order')

    # ---------------- R1
    for unit in ('url_dispatcher.cpp', 'mount_point.cpp', 'applications_pool.cpp'):
        fs = [f for f in P.fns.values() if f.file.endswith('/src/' + unit)]
        ctx.require(fs, 'C20.R1: no functions from %s' % unit)
        bad = [(f, i) for f in fs for i in f.calls() if (f.bcallee(i) or '') in ('booster::regex_search', RX + '::search')]
        n_match = sum(1 for f in fs for i in f.calls() if (f.bcallee(i) or '') == 'booster::regex_match')
        ctx.check(not bad, R1, '%s:no-regex_search' % unit, 'routing code uses a substring search', bad[0][0].loc(bad[0][1]) if bad else fs[0].file, detail={'regex_match_calls': n_match})
    ms = P.by_bname.get(RX + '::match', [])
    ctx.require(len(ms) == 2, 'C20.R1: expected two overloads of booster::regex::match, found %d' % len(ms))
    for f in sorted(ms, key=lambda g: len(g.params)):
        tag = 'match/%d' % len(f.params)
        ex = [i for i in f.calls() if f.callee(i) == 'pcre_exec']
        ok = len(ex) == 1
        if ok:
            a = f.args(ex[0])
            prog = model.strip_targs(f.ref_of(a[0]) or '')
            opt = f.const_value(a[5])
            ctx.check(prog.endswith('regex::data::are'), R1, tag + ':runs-anchored-program', 'match() runs %s instead of the end-anchored program' % prog, f.loc(ex[0]))
            ctx.check(opt is not None and (opt & PCRE_ANCHORED), R1, tag + ':PCRE_ANCHORED', 'pcre_exec options %s lack PCRE_ANCHORED' % opt, f.loc(ex[0]))
            ctx.check(f.const_value(a[4]) == 0, R1, tag + ':start-offset-0', 'matching does not start at offset 0', f.loc(ex[0]))
            # subject is [begin, end-begin)
            b, e = q.param_by_index(f, 0), q.param_by_index(f, 1)
            ctx.check(f.ref_of(a[2]) == b and {b, e} <= f.subtree_refs(a[3]), R1, tag + ':whole-subject', 'subject is not the whole [begin,end) range', f.loc(ex[0]))
            g_ok = f.gate_edges(lambda atom, pol, f=f, ex=ex: f.N(atom)['k'] == 'BinaryOperator' and f.N(atom).get('op') == '<' and f.const_value(f.N(atom)['ch'][1]) == 0 and pol is False)
            succ = q.nonfalse_returns(f)
            ctx.check(bool(succ) and all(f.only_through(r, g_ok) for r in succ), R1, tag + ':true-only-if-pcre-matched', 'match() can return true when pcre_exec failed', f.where)
            if len(f.params) == 4:
                def span(atom, pol, f=f, b=b, e=e):
                    n = f.N(atom)
                    if n['k'] != 'BinaryOperator' or n.get('op') not in ('!=', '=='):
                        return False
                    refs = f.subtree_refs(atom)
                    if not ({b, e} <= refs):
                        return False
                    return (n['op'] == '!=' and pol is False) or (n['op'] == '==' and pol is True)
                ctx.check(all(f.only_through(r, f.gate_edges(span)) for r in succ), R1, tag + ':match-spans-whole-input', 'capturing match() accepts a match that does not end at `end`', f.where)
        else:
            ctx.check(False, R1, tag + ':single-pcre_exec', 'expected one pcre_exec call', f.where)
    asg = P.fn(RX + '::assign')
    pat = q.param_by_index(asg, 0)
    comp = [i for i in asg.calls() if asg.callee(i) == 'pcre_compile']
    are_w = q.field_writes(asg, 'regex::data::are')
    ok = len(comp) == 2 and len(are_w) == 1
    anch = None
    if ok:
        src = asg.ref_of(asg.N(are_w[0])['ch'][1])
        defs = [v for (_, v) in asg.defs_of_var(src) if v is not None] if src else []
        comp2 = [c for c in comp if any(c in set(asg.walk(v)) for v in defs)]
        ok = len(comp2) >= 1 and q.before(asg, comp2[-1], are_w[0]) if comp2 else False
        if ok:
            c = max(comp2, key=lambda c: asg.point_of(c))
            # the definition reaching the store is the second compile
            rd = asg.reaching_defs(src, are_w[0])
            cands = [d for d in rd if d != '<entry>' and any(asg.callee(j) == 'pcre_compile' for j in asg.calls(d))]
            c = [j for d in cands for j in asg.calls(d) if asg.callee(j) == 'pcre_compile']
            ok = len(c) == 1
            if ok:
                anch = [r for r in asg.subtree_refs(asg.args(c[0])[0]) if r.startswith('v:')]
                ok = len(anch) == 1
    ctx.check(ok, R1, 'assign:anchored-program-compiled-separately', 'the end-anchored program is not compiled from its own pattern string', asg.where)
    if ok:
        av = anch[0]
        pieces = []
        for i in asg.calls():
            n = asg.N(i)
            if n['k'] == 'CXXOperatorCallExpr' and n.get('op') == '+=' and asg.ref_of(n['ch'][1]) == av:
                arg = asg.strip(n['ch'][2])
                an = asg.N(arg)
                if an['k'] == 'StringLiteral':
                    pieces.append((asg.point_of(i), 'lit', an.get('s')))
                elif asg.ref_of(arg) == pat:
                    pieces.append((asg.point_of(i), 'pattern', None))
                else:
                    pieces.append((asg.point_of(i), 'other', None))
        pieces.sort()
        shape = [(k, s) for (_, k, s) in pieces]
        good = len(shape) == 3 and shape[0] == ('lit', '(?:') and shape[1][0] == 'pattern' and shape[2] == ('lit', ')\\z')
        same_block = len(set(p[0][0] for p in pieces)) == 1
        ctx.check(good and same_block, R1, 'assign:anchored="(?:"+pattern+")\\\\z"', 'anchored pattern is built as %s: a top-level alternation would escape the \\z anchor' % shape, asg.where)
    # same flags for both programs
    if len(comp) == 2:
        f1, f2 = asg.ref_of(asg.args(comp[0])[1]), asg.ref_of(asg.args(comp[1])[1])
        ctx.check(f1 is not None and f1 == f2, R1, 'assign:same-flags-for-both-programs', 'search and match programs are compiled with different flags', asg.where)
    rms = [f for f in P.fns.values() if f.bname == 'booster::regex_match']
    ctx.require(len(rms) >= 2, 'C20.R1: booster::regex_match instantiations not found (%d)' % len(rms))
    for k, f in enumerate(sorted(rms, key=lambda g: g.id)):
        calls = [(f.bcallee(i) or '') for i in f.calls()]
        inner = [c for c in calls if c in (RX + '::match', RX + '::search', 'booster::regex_match', 'booster::regex_search')]
        ctx.check(bool(inner) and all(c in (RX + '::match', 'booster::regex_match') for c in inner), R1, 'regex_match#%d:delegates-to-match' % k, 'regex_match delegates to %s' % inner, f.where)

    # ---------------- R2
    dp = P.fn('cppcms::url_dispatcher::dispatch')
    lp = [L for L in q.loops(dp) if dp.N(L)['k'] in ('ForStmt', 'WhileStmt')]
    ctx.check(len(lp) == 1, R2, 'dispatch:single-scan-loop', 'expected one scan loop', dp.where)
    if lp:
        L = dp.N(lp[0])
        cl = q.counting_loop(dp, lp[0])
        iv = cl['var'] if cl else None
        full = cl is not None and cl['start'] == 0 and cl['step'] == 1 and cl['op'] == '<' and q.mentions_field_call(dp, cl['bound'], '_data::options', 'size')
        ctx.check(full, R2, 'dispatch:scans-from-0-upward-to-size', 'rules are not scanned in registration order over the whole table', dp.loc(lp[0]))
        dcs = [i for i in dp.calls(L['body']) if (dp.bcallee(i) or '').endswith('::option::dispatch')]
        g = q.call_gate(dp, lambda i: i in dcs, True)
        succ = q.nonfalse_returns(dp)
        ctx.check(len(dcs) == 1 and bool(succ) and all(dp.only_through(r, g) and dp.contains(L['body'], r) for r in succ), R2, 'dispatch:return-at-first-hit', 'dispatch does not stop at the first rule that handled the URL', dp.where)
        if dcs:
            idx = [j for j in dp.walk(dcs[0]) if dp.N(j)['k'] == 'CXXOperatorCallExpr' and dp.N(j).get('op') == '[]']
            ctx.check(len(idx) == 1 and dp.ref_of(dp.N(idx[0])['ch'][2]) == iv, R2, 'dispatch:tries-rule-i', 'the rule tried is not options[i]', dp.loc(dcs[0]))
        esc = [j for j in dp.walk(L['body']) if dp.N(j)['k'] in ('BreakStmt', 'ContinueStmt', 'GotoStmt')]
        ctx.check(not esc, R2, 'dispatch:no-skips', 'scan loop skips rules', dp.loc(lp[0]))
    nw = 0
    for f in [g for g in P.fns.values() if g.file.endswith('/src/url_dispatcher.cpp')]:
        for i in q.field_calls(f, '_data::options'):
            n = f.N(i)
            sh = q.short_of(n.get('cn')) if n['k'] == 'CXXMemberCallExpr' else 'operator' + n.get('op', '')
            nw += 1
            ctx.check(sh in ('push_back', 'size', 'operator[]', 'empty', 'begin', 'end'), R2, '%s:options.%s' % (f.short, sh), 'rule table modified other than by appending', f.loc(i))
    ctx.require(nw >= 10 or ctx.violations, 'C20.R2: accesses to the rule table not found')
    ap = P.fn('cppcms::applications_pool::get_application_specific_pool')
    lps = [L for L in q.loops(ap) if ap.N(L)['k'] == 'ForStmt' and any(model.strip_targs(r).endswith('_data::apps') for r in ap.subtree_refs(ap.N(L).get('init', L)))]
    ctx.check(len(lps) == 1, R2, 'applications_pool:scan-loop-over-apps', 'no scan over the mounted applications', ap.where)
    if lps:
        L = ap.N(lps[0])
        begin = q.mentions_field_call(ap, L['init'], '_data::apps', 'begin')
        end = q.mentions_field_call(ap, L['cond'], '_data::apps', 'end')
        rets = [r for r in ap.returns() if ap.contains(L['body'], r)]
        mc = [i for i in ap.calls(L['body']) if ap.bcallee(i) == 'cppcms::mount_point::match']
        mv = None
        for i in ap.walk(L['body']):
            if ap.N(i)['k'] == 'DeclStmt':
                for d in ap.N(i)['decls']:
                    if d.get('init') is not None and mc and mc[0] in set(ap.walk(d['init'])):
                        mv = d['ref']
        g = ap.gate_edges(lambda atom, pol: model.strip_targs(ap.ref_of(atom) or '').endswith('pair::first') and mv in ap.subtree_refs(atom) and pol is True)
        ctx.check(begin and end and len(mc) == 1 and len(rets) == 1 and ap.only_through(rets[0], g), R2, 'applications_pool:first-matching-mount-wins', 'pool lookup does not return at the first matching mount point', ap.where)

    # every scan over mount points is first-hit: once a mount point matched, a later one never replaces the selection
    outp = q.param_by_index(ap, 3)
    scans = [L for L in q.loops(ap) if [i for i in ap.calls(ap.N(L)['body']) if ap.bcallee(i) == 'cppcms::mount_point::match']]
    ctx.check(len(scans) >= 2, R2, 'applications_pool:scans', 'expected the scan over pools and the scan over asynchronous application objects', ap.where)
    for k, L in enumerate(scans):
        body = ap.N(L)['body']
        sel = [w for w in q.writes_to(ap, outp, body)]
        leave = [r for r in ap.returns() if ap.contains(body, r)] + [j for j in ap.walk(body) if ap.N(j)['k'] == 'BreakStmt' and q.enclosing_loops(ap, j)[0] == L]
        retv = set()
        for r in ap.returns():
            v = ap.ret_value(r)
            if v is not None and not ap.contains(L, r):
                retv |= set(x for x in ap.subtree_refs(v) if x.startswith('v:'))

        def none_yet(atom, pol):
            refs = set(x for x in ap.subtree_refs(atom) if x.startswith(('v:', 'f:', 'p:')))
            return pol is False and bool(refs) and refs <= retv and ap.N(atom)['k'] in ('CXXMemberCallExpr', 'DeclRefExpr', 'ImplicitCastExpr', 'CXXOperatorCallExpr')
        g_none = ap.gate_edges(none_yet)
        for n_, w in enumerate(sel):
            marks = [x for rv in retv for x in q.writes_to(ap, rv, body)]
            ok = (bool(leave) and q.always_after(ap, w, leave)) or (bool(g_none) and ap.only_through(w, g_none) and bool(marks) and q.always_after(ap, w, marks))
            ctx.check(ok, R2, 'applications_pool:scan#%d:selection#%d:first-hit-final' % (k, n_), 'a later matching mount point can replace the one selected first (sub-path and pool of the last match win)', ap.loc(w))
        ctx.check(bool(sel), R2, 'applications_pool:scan#%d:reports-sub-path' % k, 'the matched sub-path is not handed back', ap.loc(L))

    # ---------------- R3
    om = [f for f in P.fns.values() if f.short == 'matches' and 'option' in (f.record or '')]
    ctx.require(om, 'C20.R3: option::matches not found')
    om = om[0]
    pathp, methp = q.param_by_index(om, 0), q.param_by_index(om, 1)
    succ = q.nonfalse_returns(om)
    ok = bool(succ)
    for r in succ:
        v = om.strip(om.ret_value(r))
        ok = ok and om.N(v)['k'] in model.CALL_KINDS and om.bcallee(v) == 'booster::regex_match' and pathp in om.subtree_refs(om.args(v)[0]) and \
            model.strip_targs(om.ref_of(rx_arg(om, v)) or '').endswith('option::expr_')
    ctx.check(ok, R3, 'matches:result-is-whole-path-match', 'a rule can match without regex_match(path, match_, expr_)', om.where)

    def mm(k):
        return om.gate_edges(lambda atom, pol: om.N(atom)['k'] == 'BinaryOperator' and om.N(atom).get('op') == '==' and om.const_value(om.N(atom)['ch'][1]) == k and
                             model.strip_targs(om.ref_of(om.N(atom)['ch'][0]) or '').endswith('option::match_method_') and pol is True)
    # the mode constants are read off the constructors (writer side) and must be the ones matches() tests (reader side)
    octs = [f for f in P.fns.values() if f.kind == 'ctor' and (f.record or '').endswith('::option') and f.file.endswith('/src/url_dispatcher.cpp') and f.body is not None]
    mode_of = {}
    for f in octs:
        for x in f.d.get('inits', []):
            if model.strip_targs(x.get('field', '')).endswith('option::match_method_'):
                mode_of[len(f.params)] = f.const_value(x['n'])
    W0, W1 = mode_of.get(1), mode_of.get(2)
    W2s = set(f.const_value(f.N(w)['ch'][1]) for f in octs if len(f.params) == 2 for w in q.field_writes(f, 'option::match_method_') if f.N(w)['k'] == 'BinaryOperator')
    W2 = list(W2s)[0] if len(W2s) == 1 else None
    ctx.check(None not in (W0, W1, W2) and len({W0, W1, W2}) == 3, R3, 'option:three-distinct-modes', 'the constructors do not establish three distinct filter modes (no filter %r, literal %r, expression %r)' % (W0, W1, W2), om.where)
    tested = set(om.const_value(om.N(a_)['ch'][1]) for a_ in om.all_nodes() if om.N(a_)['k'] == 'BinaryOperator' and om.N(a_).get('op') in ('==', '!=') and
                 model.strip_targs(om.ref_of(om.N(a_)['ch'][0]) or '').endswith('option::match_method_'))
    ctx.check(W0 not in tested and tested <= {W1, W2}, R3, 'matches:modes-tested-are-the-modes-set', 'matches() tests modes %s, the constructors set no-filter=%r literal=%r expression=%r' % (sorted(x for x in tested if x is not None), W0, W1, W2), om.where)
    g1 = mm(W1)
    g_same = om.gate_edges(lambda atom, pol: om.N(atom)['k'] == 'CXXOperatorCallExpr' and om.N(atom).get('op') in ('!=', '==') and methp in om.subtree_refs(atom) and
                           any(model.strip_targs(r).endswith('option::method_') for r in om.subtree_refs(atom)) and ((om.N(atom)['op'] == '!=' and pol is False) or (om.N(atom)['op'] == '==' and pol is True)))
    g_rx = q.call_gate(om, lambda i: om.bcallee(i) == 'booster::regex_match' and any(model.strip_targs(r).endswith('option::mexpr_') for r in om.subtree_refs(i)), True)
    ctx.check(bool(g1) and bool(mm(W2)) and bool(g_same) and bool(g_rx), R3, 'matches:method-filters-present', 'method filter branches not found', om.where)
    for r in succ:
        # from each method-mode edge, the success return is reachable only through the corresponding filter
        for (b, s, lab, tag) in g1:
            reach = om.reachable_blocks(start=s, cut_edges=g_same)
            ctx.check(om.point_of(r)[0] not in reach, R3, 'matches:exact-method-filter-passed', 'rule with an exact method matches another method', om.where)
        for (b, s, lab, tag) in mm(W2):
            reach = om.reachable_blocks(start=s, cut_edges=g_rx)
            ctx.check(om.point_of(r)[0] not in reach, R3, 'matches:regex-method-filter-passed', 'rule with a method expression matches without testing it', om.where)

    # classification of the method filter at registration: the filter is treated as an exact method name (compared literally) only if
    # every character was looked at; the scan is left early only on a character outside 'A'..'Z'
    octors = [f for f in P.fns.values() if f.kind == 'ctor' and (f.record or '').endswith('::option') and f.file.endswith('/src/url_dispatcher.cpp') and len(f.params) == 2 and f.body is not None and f.body >= 0]
    ctx.require(len(octors) == 1, 'C20.R3: option(expr, method) constructor not found')
    oc = octors[0]
    mp_ = q.param_by_index(oc, 1)
    ls = [L for L in q.loops(oc) if mp_ in oc.subtree_refs(L)]
    ctx.check(len(ls) == 1, R3, 'option:classifies-method-in-one-scan', 'expected one scan over the method filter', oc.where)
    for L in ls:
        body = oc.N(L)['body']

        def outside_upper(atom, pol):
            n = oc.N(atom)
            if n['k'] != 'BinaryOperator' or n.get('op') not in ('<', '<=', '>', '>=', '==', '!='):
                return False
            lc, rc_ = oc.const_value(n['ch'][0]), oc.const_value(n['ch'][1])
            if (lc is None) == (rc_ is None):
                return False
            op = n['op']
            holds = []
            for c in range(256):
                a_, b_ = (lc, c) if lc is not None else (c, rc_)
                v = {'<': a_ < b_, '<=': a_ <= b_, '>': a_ > b_, '>=': a_ >= b_, '==': a_ == b_, '!=': a_ != b_}[op]
                if v == pol:
                    holds.append(c)
            return bool(holds) and all(not (65 <= c <= 90) for c in holds)
        g_out = oc.gate_edges(outside_upper)
        leaves = [j for j in oc.walk(body) if oc.N(j)['k'] in ('BreakStmt', 'ReturnStmt', 'GotoStmt') and (oc.N(j)['k'] != 'BreakStmt' or q.enclosing_loops(oc, j)[0] == L)]
        for k, j in enumerate(leaves):
            ctx.check(bool(g_out) and oc.only_through(j, g_out), R3, 'option:scan-left-early#%d:only-on-a-non-upper-case-char' % k,
                      'the scan over the method filter stops although the character is in A..Z: a filter such as "PUT|POST" is then compared literally instead of as an expression', oc.loc(j))
        cl = q.counting_loop(oc, L)
        if cl is not None:
            full = cl['start'] == 0 and cl['step'] == 1 and cl['op'] in ('<', '!=') and mp_ in oc.subtree_refs(cl['bound']) and any(q.short_of(oc.bcallee(c) or '') in ('size', 'length') for c in oc.calls(cl['bound']))
            ctx.check(full, R3, 'option:scan-covers-whole-filter', 'the classification does not look at every character of the method filter', oc.loc(L))
        ws = [w for w in q.field_writes(oc, 'option::match_method_') if oc.contains(body, w)]
        ctx.check(bool(ws) and all(oc.only_through(w, g_out) for w in ws), R3, 'option:expression-mode-only-on-a-non-upper-case-char', 'mode switched to "expression" for an all upper-case filter or never', oc.loc(L))

    # ---------------- R4
    mps = [f for f in P.by_bname.get('cppcms::mount_point::match', []) if 'const char *' in f.id]
    ctx.require(len(mps) == 1, 'C20.R4: mount_point::match(char const*,...) not found')
    mp = mps[0]
    PARS = {q.param_by_index(mp, 0): 'P:host', q.param_by_index(mp, 1): 'P:script', q.param_by_index(mp, 2): 'P:path'}
    FLDS = ('host_', 'script_name_', 'path_info_', 'group_', 'selection_')

    def resolver(f, binding):
        """canonical name of what an expression denotes: F:<field of mount_point>, P:<parameter of match>, or None"""
        def res(node):
            if node is None:
                return None
            r = f.ref_of(node)
            if r is None:
                return None
            if r in binding:
                return binding[r]
            if f is mp and r in PARS:
                return PARS[r]
            sfx = model.strip_targs(r).rsplit('::', 1)[-1]
            if r.startswith('f:') and 'mount_point::' in model.strip_targs(r) and sfx in FLDS:
                return 'F:' + sfx
            return None
        return res
    # analysis contexts: match itself, and every same-file helper it calls that also reports success (writes pair::first = true),
    # with the helper's parameters bound to what match passes
    ctxs = [(mp, {}, None)]
    rmp = resolver(mp, {})
    for c in mp.calls():
        g = P.fns.get(mp.N(c).get('callee'))
        if g is None or g is mp or g.entry is None or g.file != mp.file or mp.N(c).get('virt'):
            continue
        if not [i for i in q.field_writes(g, 'pair::first') if g.const_value(g.N(i)['ch'][1]) == 1]:
            continue
        bind = {}
        for prm, a_ in zip(g.params, mp.args(c)):
            v = rmp(a_)
            if v is not None:
                bind[prm['ref']] = v
        ctxs.append((g, bind, c))
    allw = []
    for (f, bind, c) in ctxs:
        allw += [(f, bind, c, i) for i in q.field_writes(f, 'pair::first') if f.const_value(f.N(i)['ch'][1]) == 1]
    ctx.require(len(allw) >= 2, 'C20.R4: success writes of mount_point::match not found')

    def gate_for(f, bind, fld, par):
        res = resolver(f, bind)

        def pred(atom, pol):
            n = f.N(atom)
            em = q.emptiness(f, atom, pol)
            if em is not None and res(f.obj(em[0])) == 'F:' + fld:
                return em[1]
            if n['k'] in model.CALL_KINDS and f.bcallee(atom) == 'booster::regex_match':
                a = f.args(atom)
                return pol is True and res(rx_arg(f, atom)) == 'F:' + fld and res(a[0]) == par
            return False
        return f.gate_edges(pred)
    SIDES = (('host_', 'P:host'), ('script_name_', 'P:script'), ('path_info_', 'P:path'))
    for k, (f, bind, c, w) in enumerate(allw):
        for fld, par in SIDES:
            ok = f.only_through(w, gate_for(f, bind, fld, par))
            if not ok and c is not None:
                # the helper decides one side only: the other constraints must already hold where match calls it
                ok = mp.only_through(c, gate_for(mp, {}, fld, par))
            ctx.check(ok, R4, 'match:success#%d:%s-unconstrained-or-matched' % (k, fld), 'mount point matches although %s was neither empty nor matched' % fld, f.loc(w))
    # the returned sub-path comes from the selected side
    sel = mp.gate_edges(lambda atom, pol: mp.N(atom)['k'] == 'BinaryOperator' and mp.N(atom).get('op') == '==' and any(model.strip_targs(r).endswith('mount_point::selection_') for r in mp.subtree_refs(atom)) and
                        any(r.endswith('match_path_info') for r in mp.subtree_refs(atom)) and pol is True)
    nsw = 0
    for (f, bind, c) in ctxs:
        res = resolver(f, bind)
        sw = [i for i in f.all_nodes() if f.N(i)['k'] == 'CXXOperatorCallExpr' and f.N(i).get('op') == '=' and model.strip_targs(f.ref_of(f.N(i)['ch'][1]) or '').endswith('pair::second')]
        for w in sw:
            nsw += 1
            on_path_side = mp.only_through(w, sel) if c is None else mp.only_through(c, sel)
            want_par, want_fld = ('P:path', 'F:path_info_') if on_path_side else ('P:script', 'F:script_name_')
            src = f.N(w)['ch'][2]
            refs = f.subtree_refs(src)
            mvars = [r for r in refs if r.startswith('v:')]
            if mvars:
                # m[group_]: m was filled by regex_match(X, m, R): X and R must belong to the selected side
                rm = [j for j in f.calls() if f.bcallee(j) == 'booster::regex_match' and len(real_args(f, j)) == 3 and f.ref_of(f.args(j)[1]) == mvars[0]]
                grp = [x for x in f.walk(src) if res(x) == 'F:group_']
                ok = len(rm) == 1 and res(f.args(rm[0])[0]) == want_par and res(rx_arg(f, rm[0])) == want_fld and bool(grp)
            else:
                ok = any(res(x) == want_par for x in f.walk(src))
            ctx.check(ok, R4, 'match:sub-path#%d:from-selected-side' % nsw, 'returned sub-path is not taken from the selected component', f.loc(w))
    ctx.check(nsw >= 3, R4, 'match:sub-path-writes-found', 'expected the sub-path assignments of mount_point::match', mp.where)

    # ---------------- R5
    ehs = [f for f in P.fns.values() if f.short == 'execute_handler' and 'base_handler' in (f.record or '')]
    pending_broken = [] if len(ehs) >= 8 else ['C20.R5: execute_handler overloads not instantiated (%d)' % len(ehs)]
    done = set()
    for f in sorted(ehs, key=lambda g: g.id):
        pt = f.types[f.params[0]['t']]
        inv = [i for i in f.calls() if f.N(i)['k'] == 'CXXOperatorCallExpr' and f.N(i).get('op') == '()' and f.ref_of(f.N(i)['ch'][1]) == f.params[0]['ref']]
        if len(inv) != 1:
            ctx.check(False, R5, 'execute_handler(%s):single-invocation' % pt[:60], 'handler not invoked exactly once', f.where)
            continue
        args = f.N(inv[0])['ch'][2:]
        # arity expected from the callback signature: number of std::string parameters
        sig = pt[pt.index('<') + 1:] if '<' in pt else pt
        want = sig.count('std::basic_string<char>') if 'sub_match' not in sig and 'match_results' not in sig else None
        sels = []
        for a in args:
            idx = None
            for j in f.walk(a):
                n = f.N(j)
                if n['k'] == 'ArraySubscriptExpr' and model.strip_targs(f.ref_of(n['ch'][0]) or '').endswith('::select_'):
                    idx = f.const_value(n['ch'][1])
            sels.append(idx)
        key = 'execute_handler/%d' % len(args)
        if want is None:
            # rhandler: the whole match object
            ok = len(args) == 1 and any(model.strip_targs(r).endswith('option::match_') for r in f.subtree_refs(args[0]))
        else:
            ok = len(args) == want and sels == list(range(want)) and all(any(model.strip_targs(r).endswith('option::match_') for r in f.subtree_refs(a)) for a in args)
        if (key, pt) in done:
            continue
        done.add((key, pt))
        ctx.check(ok, R5, '%s<%s>' % (key, sig[:40]), 'capture groups passed %s, expected select_[0..%s) in order' % (sels, want), f.loc(inv[0]))
    mt = [f for f in P.fns.values() if f.short == 'dispatch' and (f.record or '').endswith('::mounted')]
    for f in mt:
        mn = [i for i in f.calls() if f.bcallee(i) == 'cppcms::application::main']
        ok = len(mn) == 1 and any(model.strip_targs(r).endswith('mounted::select_') for r in f.subtree_refs(mn[0])) and any(model.strip_targs(r).endswith('option::match_') for r in f.subtree_refs(mn[0]))
        g = q.call_gate(f, lambda i: (f.bcallee(i) or '').endswith('option::matches'), True)
        ctx.check(ok and f.only_through(mn[0], g), R5, 'mounted::dispatch:passes-selected-group-after-match', 'mounted application gets a different group / runs without a match', f.where)

    # ---------------- R8 dispatch overriders, registration, selectors, request method
    R8 = ctx.rule('C20.R8', 'dispatcher plumbing: every option::dispatch overrider runs its handler exactly when matches(url, method) held and reports that verdict (generic: the handler\'s own verdict); every registration '
                            'function appends exactly one option built from its own arguments, selectors in order; the base_handler constructor stores selector k in select_[k]; url_dispatcher::dispatch hands every option '
                            'the url, the request method of the application\'s context (none without a context) and the application')
    dvs = sorted([f for f in P.fns.values() if f.short == 'dispatch' and f.file.endswith('/src/url_dispatcher.cpp') and (f.record or '').split('<')[0].endswith(('::mounted', '::base_handler', '::generic_option'))], key=lambda g: g.id)
    ctx.require(len(dvs) >= 3 or ctx.violations, 'C20.R8: option::dispatch overriders not found (%d)' % len(dvs))
    seen8 = set()
    for f in dvs:
        kind = (f.record or '').split('<')[0].rsplit('::', 1)[-1]
        mcs = [i for i in f.calls() if (f.bcallee(i) or '').endswith('option::matches')]
        ok = len(mcs) == 1 and [f.ref_of(x) for x in f.args(mcs[0])] == [q.param_by_index(f, 0), q.param_by_index(f, 1)]
        why = 'matches(url, method) is not asked exactly once about the arguments of dispatch'
        if ok:
            g_t = q.call_gate(f, lambda i: i == mcs[0], True)
            g_f = q.call_gate(f, lambda i: i == mcs[0], False)
            if kind == 'mounted':
                hs = [i for i in f.calls() if f.bcallee(i) == 'cppcms::application::main']
            elif kind == 'base_handler':
                hs = [i for i in f.calls() if q.short_of(f.callee(i) or '') == 'execute_handler']
            else:
                hs = [i for i in f.calls() if f.N(i)['k'] == 'CXXOperatorCallExpr' and f.N(i).get('op') == '()' and model.strip_targs(f.ref_of(f.N(i)['ch'][1]) or '').endswith('::handle_')]
            rets = [i for i in f.returns() if f.ret_value(i) is not None]
            r_true = [i for i in rets if f.const_value(f.ret_value(i)) == 1 or any(h_ in set(f.walk(i)) for h_ in hs)]
            r_false = [i for i in rets if f.const_value(f.ret_value(i)) == 0]
            ok = len(hs) == 1 and bool(g_t) and bool(g_f) and q.always_before_exit(f, rets) and f.only_through(hs[0], g_t) and bool(r_true) and all(f.only_through(i, g_t) for i in r_true) and len(r_true) + len(r_false) == len(rets)
            why = 'the handler runs / success is reported without matches() having held'
            if ok:
                # after a successful match every path runs the handler, and no path reports success without it
                reach = f.reachable_blocks(cut_edges=g_t)
                ok = all(f.point_of(i)[0] not in reach or f.only_through(i, g_t) for i in r_true)
                for (b_, s_, lab_, tag_) in g_t:
                    rb = f.reachable_blocks(start=s_, cut_blocks=[f.point_of(hs[0])[0]])
                    if kind == 'generic_option':
                        continue
                    if any(f.point_of(i)[0] in rb for i in rets) or f.exit in rb:
                        ok, why = False, 'after a successful match a path leaves dispatch without running the handler'
                for (b_, s_, lab_, tag_) in g_f:
                    rb = f.reachable_blocks(start=s_)
                    if any(f.point_of(i)[0] in rb for i in r_true) or f.point_of(hs[0])[0] in rb:
                        ok, why = False, 'a failed match still runs the handler or reports success'
            if ok and kind == 'generic_option':
                a_ = f.N(hs[0])['ch'][2:]
                appp = q.param_by_index(f, 2)
                g_app = f.gate_edges(lambda atom, pol: f.ref_of(atom) == appp and pol is True) + f.gate_edges(
                    lambda atom, pol: f.N(atom)['k'] == 'BinaryOperator' and f.N(atom).get('op') in ('==', '!=') and appp in f.subtree_refs(atom) and f.const_value(f.N(atom)['ch'][1]) == 0 and pol is (f.N(atom)['op'] == '!='))
                ok = len(a_) == 2 and appp in f.subtree_refs(a_[0]) and any(model.strip_targs(x).endswith('option::match_') for x in f.subtree_refs(a_[1])) and bool(g_app) and f.only_through(hs[0], g_app)
                why = 'the generic handler is not called with (*app, match_) for a non-null application'
        key = '%s::dispatch:handler-iff-match' % kind
        if key in seen8 and ok:
            continue
        seen8.add(key)
        ctx.check(ok, R8, key, why, f.where)
    # base_handler constructor: selector k -> select_[k]   (E3 on the constructor body)
    bcs = sorted([f for f in P.fns.values() if f.kind == 'ctor' and 'base_handler' in (f.record or '') and f.body is not None and len(f.params) == 8], key=lambda g: g.id)
    ctx.require(bool(bcs) or ctx.violations, 'C20.R8: base_handler constructors not instantiated')
    from vlib import absint as _ai8
    okb, whyb = bool(bcs), ''
    for f in bcs:
        fld = [x for x in set(f.N(i).get('ref') for i in f.all_nodes() if f.N(i)['k'] == 'MemberExpr') if x and model.strip_targs(x).endswith('::select_')]
        if len(fld) != 1:
            okb, whyb = False, 'select_ is not written by the constructor'
            break
        it = _ai8.Interp(P, [])
        arr = _ai8.Arr([_ai8.AV.const(-1)] * 6, 'select_')
        it.fields = {fld[0]: _ai8.Cell(arr)}
        try:
            it.call_fn(f, [_ai8.AV.const(0), _ai8.AV.const(0)] + [_ai8.AV.const(11 + k) for k in range(6)])
        except _ai8.Unsupported as e:
            raise AnalysisBroken('C20.R8: base_handler constructor: %s' % e)
        got = [e.lo for e in arr.elems]
        if got != [11 + k for k in range(6)]:
            okb, whyb = False, 'selectors (a..f) = 11..16 are stored as %s' % got
            break
        hi_ = [x for x in f.d.get('inits', []) if model.strip_targs(x.get('field', '')).endswith('::handle_')]
        bi_ = [x for x in f.d.get('inits', []) if 'option' in (x.get('base') or '')]
        if not (hi_ and q.param_by_index(f, 1) in f.subtree_refs(hi_[0]['n']) and bi_ and q.param_by_index(f, 0) in f.subtree_refs(bi_[0]['n'])):
            okb, whyb = False, 'expression / handler are not the constructor arguments'
            break
    ctx.check(okb, R8, 'base_handler:selector-k-stored-in-select_[k]', whyb, bcs[0].where if bcs else None, detail={'instantiations': len(bcs)})
    mhs = sorted([f for f in P.fns.values() if f.short == 'make_handler' and f.body is not None], key=lambda g: g.id)
    okm = bool(mhs)
    for f in mhs:
        news = [i for i in f.all_nodes() if f.N(i)['k'] == 'CXXNewExpr']
        ce = [j for i in news for j in f.walk(i) if f.N(j)['k'] == 'CXXConstructExpr' and 'base_handler' in (f.N(j).get('callee') or '')]
        want = [q.param_by_index(f, k) for k in range(8)]
        okm = okm and len(news) == 1 and len(ce) == 1 and [[p_ for p_ in want if p_ in f.subtree_refs(x)] for x in f.N(ce[0])['ch']] == [[p_] for p_ in want] and \
            any(news[0] in set(f.walk(i)) for i in f.returns())
    ctx.check(okm, R8, 'make_handler:arguments-in-order', 'make_handler does not return new base_handler(expr, handler, a..f) with its arguments in order', mhs[0].where if mhs else None, detail={'instantiations': len(mhs)})
    regs = sorted([f for f in P.fns.values() if (f.record or '') == 'cppcms::url_dispatcher' and f.short in ('assign', 'assign_generic', 'map_generic', 'mount') and f.body is not None], key=lambda g: g.id)
    ctx.require(len(regs) >= 11 or ctx.violations, 'C20.R8: url_dispatcher registration functions not found (%d)' % len(regs))
    for f in regs:
        pb = [i for i in f.calls() if q.short_of(f.callee(i) or '') in ('push_back', 'emplace_back') and any(model.strip_targs(x).endswith('_data::options') for x in f.subtree_refs(f.obj(i)))]
        ok = len(pb) == 1 and q.always_before_exit(f, pb)
        why = 'does not append exactly one option on every path'
        if ok:
            built = q.deep_refs(f, f.args(pb[0])[0])
            want = [q.param_by_index(f, k) for k in range(len(f.params))]
            mk = [i for i in q.expr_calls_deep(f, f.args(pb[0])[0]) if q.short_of(f.callee(i) or '') == 'make_handler' or f.N(i)['k'] == 'CXXConstructExpr' and any(t_ in (f.callee(i) or '') for t_ in ('mounted::mounted', 'generic_option::generic_option'))]
            ok = set(want) <= set(built) and len(mk) == 1
            why = 'the option is not built from all arguments of the registration call'
            if ok and q.short_of(f.callee(mk[0]) or '') == 'make_handler':
                a_ = [([p_ for p_ in want if p_ in f.subtree_refs(x)] + [None])[0] for x in f.args(mk[0]) if f.N(x)['k'] != 'CXXDefaultArgExpr']
                ok = a_ == want and all(len([p_ for p_ in want if p_ in f.subtree_refs(x)]) == 1 for x in f.args(mk[0]) if f.N(x)['k'] != 'CXXDefaultArgExpr')
                why = 'make_handler receives %s, the registration arguments are %s' % (a_, want)
            elif ok and 'mounted::mounted' in (f.callee(mk[0]) or ''):
                a_ = f.N(mk[0])['ch']
                ok = len(a_) == 3 and want[0] in f.subtree_refs(a_[0]) and f.ref_of(a_[1]) == want[2] and want[1] in f.subtree_refs(a_[2])
                why = 'mounted(match, select, &app) does not receive the registration arguments in these roles'
            elif ok:
                a_ = [x for x in f.N(mk[0])['ch'] if f.N(x)['k'] != 'CXXDefaultArgExpr']
                names = [[p_['name'] for p_ in f.params if p_['ref'] in f.subtree_refs(x)] for x in a_]
                g_ = P.fns.get(f.N(mk[0]).get('callee'))
                ok = g_ is not None and len(a_) == len(g_.params) and all(len(n_) == 1 for n_ in names) and \
                    all(('regex' in (g_.types[pp['t']] or '')) == ('regex' in (f.types[[p_ for p_ in f.params if p_['name'] == n_[0]][0]['t']] or '')) and
                        ('function' in (g_.types[pp['t']] or '')) == ('function' in (f.types[[p_ for p_ in f.params if p_['name'] == n_[0]][0]['t']] or '')) for pp, n_ in zip(g_.params, names))
                why = 'generic_option does not receive (method,) expression, handler in their roles'
        ctx.check(ok, R8, '%s/%d:appends-one-option-built-from-its-arguments' % (f.short, len(f.params)), why, f.where)
    gcs = [f for f in P.fns.values() if f.kind == 'ctor' and (f.record or '').endswith('::generic_option') and f.body is not None]
    for f in sorted(gcs, key=lambda g: g.id):
        bi_ = [x for x in f.d.get('inits', []) if 'option' in (x.get('base') or '')]
        hi_ = [x for x in f.d.get('inits', []) if model.strip_targs(x.get('field', '')).endswith('::handle_')]
        ok = bool(bi_) and bool(hi_)
        if ok:
            ba = [x for x in f.N(f.strip(bi_[0]['n']))['ch']] if f.N(f.strip(bi_[0]['n']))['k'] == 'CXXConstructExpr' else []
            rx = [p_['ref'] for p_ in f.params if 'regex' in (f.types[p_['t']] or '')]
            st_ = [p_['ref'] for p_ in f.params if 'basic_string' in (f.types[p_['t']] or '')]
            hp = [p_['ref'] for p_ in f.params if 'function' in (f.types[p_['t']] or '')]
            ok = len(rx) == 1 and len(hp) == 1 and len(ba) == 1 + len(st_) and rx[0] in f.subtree_refs(ba[0]) and (not st_ or st_[0] in f.subtree_refs(ba[1])) and hp[0] in f.subtree_refs(hi_[0]['n'])
        ctx.check(ok, R8, 'generic_option/%d:expression-method-handler-in-their-roles' % len(f.params), 'the constructor does not hand (expression, method) to option and keep the handler', f.where)
    ud = P.fn('cppcms::url_dispatcher::dispatch')
    dc = [i for i in ud.calls() if (ud.bcallee(i) or '').endswith('option::dispatch')]
    ok = len(dc) == 1
    why = 'the options are not asked through option::dispatch'
    if ok:
        a_ = ud.args(dc[0])
        mv, av = ud.ref_of(a_[1]), ud.ref_of(a_[2])
        ok = ud.ref_of(a_[0]) == q.param_by_index(ud, 0) and (mv or '').startswith('v:') and (av or '').startswith('v:')
        why = 'option::dispatch is not given (url, method, application)'
        if ok:
            g_ctx = q.call_gate(ud, lambda i: q.short_of(ud.callee(i) or '') == 'has_context', True)
            mdefs = [(dn, val) for (dn, val) in ud.defs_of_var(mv) if val is not None]
            live = [(dn, val) for (dn, val) in mdefs if ud.const_value(val) != 0]
            def from_request(val):
                if any(q.short_of(ud.callee(j) or '') == 'request_method' for j in q.expr_calls_deep(ud, val)):
                    return True
                for v_ in [x for x in ud.subtree_refs(val) if x.startswith('v:')]:
                    asg = [i for i in ud.calls() if ud.N(i)['k'] == 'CXXOperatorCallExpr' and ud.N(i).get('op') == '=' and ud.ref_of(ud.N(i)['ch'][1]) == v_]
                    if len(asg) == 1 and any(q.short_of(ud.callee(j) or '') == 'request_method' for j in ud.calls(ud.N(asg[0])['ch'][2])) and q.before(ud, asg[0], live[0][0]) and ud.only_through(asg[0], g_ctx):
                        return True
                return False
            adefs = [(dn, val) for (dn, val) in ud.defs_of_var(av) if val is not None]
            ok = len(live) == 1 and from_request(live[0][1]) and bool(g_ctx) and ud.only_through(live[0][0], g_ctx) and any(ud.const_value(val) == 0 for (dn, val) in mdefs) and \
                any(any(model.strip_targs(x).endswith('_data::app') for x in q.deep_refs(ud, val)) for (dn, val) in adefs)
            why = 'the method handed to the options is not the request method of the application\'s context (and none without a context)'
            if ok:
                # without a context neither the method nor the application is passed on
                zero_app = [dn for (dn, val) in adefs if ud.const_value(val) == 0]
                g_noctx = q.call_gate(ud, lambda i: q.short_of(ud.callee(i) or '') == 'has_context', False)
                reach = ud.reachable_blocks(cut_blocks=[ud.point_of(z)[0] for z in zero_app] + [ud.point_of(live[0][0])[0]])
                ok = bool(zero_app) and ud.point_of(dc[0])[0] not in reach
                why = 'an application without a context is still handed to the options'
    if ok:
        ok = q.always_before_exit(ud, [i for i in ud.returns() if ud.ret_value(i) is not None])
        why = 'a path leaves dispatch without a verdict'
    ctx.check(ok, R8, 'url_dispatcher::dispatch:url-method-application-handed-on', why, ud.where)
    # mount points are stored by value (the pool keeps copies): a copy carries every pattern and selector
    PM = model.Program(build.extract([REPO + '/src/mount_point.cpp'], include_re='^/repo/(src|cppcms)/'))
    flds, cov = q.copy_coverage(PM, 'cppcms::mount_point', skip=('d',))
    ctx.require(len(flds) >= 5 and len(cov) >= 2 or ctx.violations, 'C20.R8: mount_point fields / copy operations not found (%d fields, %d copy operations)' % (len(flds), len(cov)))
    for g_, missing in sorted(cov.items(), key=lambda kv: kv[0].id):
        ctx.check(not missing, R8, 'mount_point::%s:copies-every-pattern-and-selector' % ('mount_point(mount_point const&)' if g_.kind == 'ctor' else 'operator='),
                  'the copy does not take %s from the source: the copy stored in the pool matches requests the original would refuse' % [x.rsplit('::', 1)[-1] for x in missing], g_.where)
    # generated URLs are collected in a stack-then-heap stream buffer (steal_buffer, instantiated by url_mapper.cpp): growing it keeps the byte that did not fit
    sbo = [g for g in P.fns.values() if g.short == 'overflow' and 'stackbuf' in (g.record or '') and g.body is not None and len(g.params) == 1]
    ctx.require(sbo or ctx.violations, 'C20.R8: util::stackbuf<N>::overflow(int) not found in url_mapper.cpp')
    for g_ in sorted(sbo, key=lambda g: g.id)[:1]:
        dr_ = q.overflow_drops_char(g_)
        nb_ = q.narrowed_char_eof_tests(g_)
        ctx.check(not dr_ and not nb_, R8, 'stackbuf::overflow:takes-the-character', 'overflow(c) can report success without having taken c, or tests EOF on a narrowed char: a generated URL longer than the '
                  'stack area loses the byte at the boundary', g_.loc((dr_ + nb_)[0]) if dr_ or nb_ else g_.where)
    ctx.floor(R8, 20)
    if pending_broken and not ctx.violations:
        raise AnalysisBroken(pending_broken[0])

    # ---------------- R6: URL generation passes same-named parameters straight through (no swapped roles)
    R6 = ctx.rule('C20.R6', 'url_mapper: a parameter handed to a callee that has a parameter of the same name is passed in that parameter\'s position')
    um = [f for f in P.fns.values() if f.file.endswith('/src/url_mapper.cpp')]
    ctx.require(len(um) >= 10, 'C20.R6: url_mapper.cpp functions not found')
    n6 = 0
    for f in sorted(um, key=lambda g: g.id):
        mine = {p['ref']: p['name'] for p in f.params if p['name']}
        if len(mine) < 2:
            continue
        for i in f.calls():
            g = P.fns.get(f.N(i).get('callee'))
            if g is None:
                continue
            gnames = [p['name'] for p in g.params]
            args = f.args(i)
            if f.N(i)['k'] == 'CXXOperatorCallExpr' and f.N(i).get('rec'):
                args = args[1:]
            for j, a in enumerate(args[:len(gnames)]):
                r = f.ref_of(a)
                if r is None:
                    s_ = f.strip(a)
                    if f.N(s_)['k'] == 'UnaryOperator' and f.N(s_).get('op') in ('&', '*'):
                        r = f.ref_of(f.N(s_)['ch'][0])
                if r in mine and mine[r] in gnames and gnames.count(mine[r]) == 1:
                    n6 += 1
                    k = gnames.index(mine[r])
                    ctx.check(k == j, R6, '%s->%s:%s' % (f.short, g.short, mine[r]), 'parameter %s is passed as %s (position %d instead of %d): roles swapped' % (mine[r], gnames[j], j, k), f.loc(i))
    ctx.require(n6 >= 6 or ctx.violations, 'C20.R6: only %d pass-through arguments found in url_mapper.cpp' % n6)

    ctx.floor(R1, 16)
    ctx.floor(R2, 14)
    ctx.floor(R3, 4)
    ctx.floor(R4, 18)
    ctx.floor(R5, 8)
    ctx.trust('PCRE semantics of PCRE_ANCHORED and \\z')

    # ---------------- R7 keyword defaults live in the root-most mapper only
    R7 = ctx.rule('C20.R7', 'url_mapper keyword defaults (set_value): the table is read and written through the root-most mapper only; a mounted child\'s own table is only drained by mount()')
    n7 = 0
    for f in um:
        for i in f.all_nodes():
            n = f.N(i)
            if n['k'] != 'MemberExpr' or not model.strip_targs(n.get('ref') or '').endswith('data::helpers') or not n['ch']:
                continue
            base = n['ch'][0]
            # local references / pointers bound once stand for their initialiser (`data &mounted = *app.mapper().d;`)
            via_root = any(q.short_of(f.bcallee(c) or '') in ('root_mapper', 'topmost') for c in q.expr_calls_deep(f, base))
            ptypes = dict((pp_['ref'], f.types[pp_['t']] or '') for pp_ in f.params)
            of_child = any(r.startswith('p:') and 'application' in ptypes.get(r, '') for r in q.deep_refs(f, base))
            n7 += 1
            ctx.check(via_root or (of_child and f.short == 'mount'), R7, '%s:helpers#%d:root-most-table' % (f.short, n7),
                      'keyword defaults are stored in / read from a mapper that is not the root-most one: real_map() never looks there', f.loc(i))
    ctx.require(n7 >= 4 or ctx.violations, 'C20.R7: accesses to url_mapper::data::helpers not found')
    # the last component of a mapping key may be "." / ".." (this mapper / its parent) whether or not a ";keyword" list follows: every way the component is cut out of the key
    # reaches the lookup only through both comparisons
    gm = [f for f in um if f.short == 'get_mapper_for_key' and f.body is not None]
    ctx.require(len(gm) == 1, 'C20.R7: url_mapper::get_mapper_for_key not found')
    for f in gm:
        rk = q.param_by_index(f, 1)
        asg = [i for i in f.all_nodes() if f.N(i)['k'] == 'CXXOperatorCallExpr' and f.N(i).get('op') == '=' and f.args(i) and f.ref_of(f.args(i)[0]) == rk]
        look = [i for i in f.calls() if q.short_of(f.callee(i) or '') == 'is_app']
        def cmp_with(lit):
            return [i for i in f.all_nodes() if f.N(i)['k'] == 'CXXOperatorCallExpr' and f.N(i).get('op') == '==' and rk in f.subtree_refs(i) and
                    lit in [f.N(j).get('s') for j in f.walk(i) if f.N(j)['k'] == 'StringLiteral']]
        ctx.check(len(asg) >= 2 and len(look) == 1, R7, 'get_mapper_for_key:last-component-cut-and-looked-up', 'found %d assignments of the last component and %d lookups' % (len(asg), len(look)), f.where)
        for lit in ('.', '..'):
            cs = cmp_with(lit)
            for k_, a_ in enumerate(asg):
                ok_ = bool(cs) and bool(look)
                if ok_ and lit == '..':
                    # behind a "." that matched there is nothing left to compare: the ".." test has to lie on a way from the cut to the lookup
                    ok_ = any(q.between(f, a_, c_, look[0]) for c_ in cs)
                elif ok_:
                    pa, pl = f.last_point_of(a_), f.point_of(look[0])
                    cb = q.blocks_of(f, cs)
                    if pa[0] == pl[0] and pa[1] < pl[1]:
                        ok_ = any(f.point_of(c_)[0] == pa[0] and pa[1] < f.point_of(c_)[1] < pl[1] for c_ in cs)
                    else:
                        after_in_block = any(f.point_of(c_)[0] == pa[0] and f.point_of(c_)[1] > pa[1] for c_ in cs)
                        reach = f.reachable_blocks(start=pa[0], cut_blocks=(cb - {pa[0]}) | f.abnormal_blocks(), with_catch=False)
                        ok_ = after_in_block or pl[0] not in reach or (pl[0] in cb and any(f.point_of(c_)[0] == pl[0] and f.point_of(c_)[1] < pl[1] for c_ in cs))
                ctx.check(ok_, R7, 'get_mapper_for_key:component#%d:compared-with-%s-before-the-lookup' % (k_, 'dot' if lit == '.' else 'dotdot'),
                          'a last component cut out of the key reaches is_app() without having been compared with "%s": "%s;keyword" is looked up as an ordinary name' % (lit, lit), f.loc(a_))
    ctx.floor(R7, 4)
