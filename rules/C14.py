"""C14 — text validators accept exactly the well-formed strings of their encoding (abstract interpretation, exhaustive over input boxes)."""
import time
from vlib import build, model, q, absint
from vlib.absint import AV, Arr, PV, Cell, Split, Unsupported, OutOfBounds
from vlib.build import AnalysisBroken, REPO, VERIF

ILLEGAL = 0xFFFFFFFF
INCOMPLETE = 0xFFFFFFFE
# RFC 3629 / Unicode table 3-7: lead class -> (number of trail bytes, range of the first trail byte)
LEADS = [((0x00, 0x7F), 0, None), ((0x80, 0xC1), -1, None), ((0xC2, 0xDF), 1, (0x80, 0xBF)), ((0xE0, 0xE0), 2, (0xA0, 0xBF)), ((0xE1, 0xEC), 2, (0x80, 0xBF)),
         ((0xED, 0xED), 2, (0x80, 0x9F)), ((0xEE, 0xEF), 2, (0x80, 0xBF)), ((0xF0, 0xF0), 3, (0x90, 0xBF)), ((0xF1, 0xF3), 3, (0x80, 0xBF)), ((0xF4, 0xF4), 3, (0x80, 0x8F)),
         ((0xF5, 0xFF), -1, None)]


def spec_utf8(box, html):
    """reference verdict on a box: ('split', idx) | ('illegal',) | ('short',) | ('ok', cp_lo, cp_hi, npoints, consumed)"""
    if not box:
        return ('short',)
    lo, hi = box[0]
    cls = None
    for (a, b), nt, r1 in LEADS:
        if a <= lo and hi <= b:
            cls = (nt, r1)
        elif not (hi < a or b < lo):
            return ('split', 0)
    nt, r1 = cls
    if nt < 0:
        return ('illegal',)
    if nt == 0:
        if html:
            # C0 controls other than TAB, LF, CR and DEL are not allowed
            for v in range(lo, hi + 1):
                bad = (v < 0x20 and v not in (9, 10, 13)) or v == 0x7F
                if bad != ((lo < 0x20 and lo not in (9, 10, 13)) or lo == 0x7F):
                    return ('split', 0)
            if (lo < 0x20 and lo not in (9, 10, 13)) or lo == 0x7F:
                return ('illegal',)
        return ('ok', lo, hi, hi - lo + 1, 1)
    for k in range(1, nt + 1):
        if len(box) <= k:
            return ('short',)
        a, b = r1 if k == 1 else (0x80, 0xBF)
        tl, th = box[k]
        if a <= tl and th <= b:
            continue
        if th < a or b < tl:
            # ill-formed; if the sequence is also cut short a decoder may report either verdict
            return ('illegal', len(box) < nt + 1)
        return ('split', k)
    mask = (1 << (6 - nt)) - 1
    cl, ch = lo & mask, hi & mask
    n = hi - lo + 1
    for k in range(1, nt + 1):
        tl, th = box[k]
        cl = (cl << 6) | (tl & 0x3F)
        ch = (ch << 6) | (th & 0x3F)
        n *= th - tl + 1
    if html and cl < 0xA0:
        if ch >= 0xA0:
            return ('split', max(range(nt + 1), key=lambda k: box[k][1] - box[k][0]))
        return ('illegal',)
    return ('ok', cl, ch, n, nt + 1)


def run_decoder(P, fn, length, extra_args, tag, ctx, R, incomplete_code, html=False, trailing=0):
    """explore all inputs of `length` bytes (+ `trailing` unconstrained bytes that must not be consumed)"""
    n_boxes = 0
    samples = []
    start = [[(0, 255)] * (length + trailing)]
    work = start
    fails = []

    def run(it):
        arr = Arr([it.inbyte(i) for i in range(length + trailing)], 'input')
        p = Cell(PV(arr, 0))
        e = PV(arr, length + trailing)
        r = it.call_fn(fn, [p, e] + extra_args)
        return r, p.v.off
    # spec-driven refinement: a box on which the reference is not uniform is split first
    pending = [list(b) for b in start]
    while pending:
        box = pending.pop()
        sp = spec_utf8(box[:length + trailing], html)
        if sp[0] == 'split':
            idx = sp[1]
            lo, hi = box[idx]
            mid = absint._aligned_mid(lo, hi)
            b1, b2 = list(box), list(box)
            b1[idx] = (lo, mid - 1)
            b2[idx] = (mid, hi)
            pending += [b2, b1]
            continue
        for (bx, (r, consumed), it) in absint.explore(P, run, [box]):
            sp2 = spec_utf8(bx, html)
            if sp2[0] == 'split':
                # the code distinguished more than the reference needs; re-evaluate the reference on the finer box
                pending.append(bx)
                continue
            n_boxes += 1
            ok = True
            why = ''
            if sp2[0] == 'illegal':
                ok = isinstance(r, AV) and r.is_const() and (r.lo == ILLEGAL or (len(sp2) > 1 and sp2[1] and r.lo == incomplete_code))
                why = 'reference: ill-formed, decoder returned %r' % (r,)
            elif sp2[0] == 'short':
                ok = isinstance(r, AV) and r.is_const() and r.lo == incomplete_code
                why = 'reference: truncated sequence, decoder returned %r' % (r,)
            else:
                _, cl, ch, npts, cons = sp2
                ok = isinstance(r, AV) and r.lo == cl and r.hi == ch and r.size() <= npts and consumed == cons and r.hi < 0x110000
                if ok and r.size() != npts:
                    ok = False
                why = 'reference: code points [%X..%X] (%d values, %d bytes), decoder returned %r consuming %d' % (cl, ch, npts, cons, r, consumed)
            if len(samples) < 4:
                samples.append({'box': ['%02X-%02X' % b for b in bx], 'reference': sp2[0], 'decoder': repr(r)})
            if not ok:
                fails.append((bx, why))
    key = '%s:len=%d%s%s' % (tag, length, ':html' if html else '', ':+%d' % trailing if trailing else '')
    ctx.check(not fails, R, key, ('on bytes %s: %s' % (' '.join('%02X-%02X' % b for b in fails[0][0]), fails[0][1])) if fails else '', fn.where,
              detail={'boxes': n_boxes, 'samples': samples, 'counterexamples': [(' '.join('%02X-%02X' % b for b in bx), w) for bx, w in fails[:5]]})
    return n_boxes


def run(ctx):
    import itertools as _it8
    ctx.level = 'proof'
    ctx.explanation = ('Abstract interpretation of the decoder / validator sources over boxes of input bytes (value sets and strided intervals, boxes bisected wherever the code or the '
                       'reference distinguishes values): for every box the verdict, the code-point set and the number of bytes consumed are compared with the RFC 3629 table. '
                       'All 2^(8*len) inputs of each covered length are covered by construction; nothing is executed.')
    ctx.units = ['witness/c14_text.cpp']
    P = model.Program(build.extract([VERIF + '/witness/c14_text.cpp'], include_re='^/repo/(private/(utf_iterator|encoding_validators)\\.h|booster/booster/locale/(utf|encoding_utf)\\.h)'))
    ctx.stats['functions'] = len(P.fns)
    R1 = ctx.rule('C14.R1', 'UTF-8 decoders are exact: verdict, code point and length equal RFC 3629 on every box (lengths 0-4, html on/off, both decoders)')
    nx = P.fn('cppcms::utf8::next')
    bd = P.fn('booster::locale::utf::utf_traits::decode')
    total = 0
    t0 = time.time()
    lens = [0, 1, 2, 3, 4]
    for L in lens:
        for html in (False, True):
            total += run_decoder(P, nx, L, [AV.const(1 if html else 0), AV.const(0)], 'cppcms::utf8::next', ctx, R1, ILLEGAL, html=html)
        total += run_decoder(P, bd, L, [], 'booster::utf_traits<char>::decode', ctx, R1, INCOMPLETE)
    if ctx.tier == 'thorough':
        for L in (1, 2, 3):
            total += run_decoder(P, nx, L, [AV.const(0), AV.const(0)], 'cppcms::utf8::next', ctx, R1, ILLEGAL, trailing=1)
    ctx.stats['boxes'] = total
    ctx.stats['seconds_R1'] = round(time.time() - t0, 1)
    ctx.floor(R1, 15)

    # ---------------- R2 single-byte validators
    R2 = ctx.rule('C14.R2', 'single-byte validators: the accepted byte set equals the defined non-control characters of each code page the validator serves (reference: the codec tables of the Python standard library, Unicode category Cc excluded, TAB/LF/CR included), one count per byte, no context')
    vals = sorted([f for f in P.fns.values() if f.bname.startswith('cppcms::encoding::') and f.short.endswith('_valid') and f.short != 'utf8_valid'], key=lambda g: g.id)
    ctx.require(len(vals) >= 16, 'C14.R2: validator instantiations not found (%d)' % len(vals))

    def run_val(fn, length):
        def run(it):
            arr = Arr([it.inbyte(i) for i in range(length)], 'input')
            cnt = Cell(AV.const(0))
            r = it.call_fn(fn, [PV(arr, 0), PV(arr, length), cnt])
            return r, cnt.v
        return run
    accept_map = {}
    for fn in vals:
        acc = {}
        bad = []
        nb = 0
        for (bx, (r, cnt), it) in absint.explore(P, run_val(fn, 1), [[(0, 255)]]):
            nb += 1
            lo, hi = bx[0]
            if not (isinstance(r, AV) and r.is_const()):
                bad.append((bx, 'verdict not uniform'))
                continue
            for v in range(lo, hi + 1):
                acc[v] = bool(r.lo)
            if r.lo and not (cnt.is_const() and cnt.lo == 1):
                bad.append((bx, 'count %r after one accepted byte' % (cnt,)))
        accept_map[fn.short] = acc
        for v in range(256):
            a = acc.get(v)
            if 0x20 <= v <= 0x7E and not a:
                bad.append(([(v, v)], 'printable ASCII byte rejected'))
            if ((v < 0x20 and v not in (9, 10, 13)) or v == 0x7F) and a:
                bad.append(([(v, v)], 'control byte accepted'))
            if fn.short.startswith('iso_8859') and 0x80 <= v <= 0x9F and a:
                bad.append(([(v, v)], 'C1 control accepted by an ISO-8859 validator'))
            if fn.short == 'ascii_valid' and v >= 0x80 and a:
                bad.append(([(v, v)], 'non-ASCII byte accepted as ASCII'))
        pages = _CODE_PAGES.get(fn.short)
        ctx.require(pages is not None, 'C14.R2: no reference code page known for validator %s' % fn.short)
        for cp in pages:
            ref = _defined_text_bytes(cp)
            got = set(v for v in range(256) if acc.get(v))
            for v in sorted(got ^ ref)[:3]:
                bad.append(([(v, v)], ('byte is undefined in %s (or a control) but accepted' % cp) if v in got else ('byte is a defined character of %s but rejected' % cp)))
        ctx.check(not bad, R2, '%s:single-byte-classes' % fn.short, ('byte %02X: %s' % (bad[0][0][0][0], bad[0][1])) if bad else '', fn.where,
                  detail={'boxes': nb, 'accepted': _ranges([v for v in range(256) if acc.get(v)])})
    if ctx.tier == 'thorough':
        for fn in vals:
            acc = accept_map[fn.short]
            bad = []
            for (bx, (r, cnt), it) in absint.explore(P, run_val(fn, 2), [[(0, 255), (0, 255)]]):
                a0 = set(acc[v] for v in range(bx[0][0], bx[0][1] + 1))
                a1 = set(acc[v] for v in range(bx[1][0], bx[1][1] + 1))
                expected = set(x and y for x in a0 for y in a1)       # verdicts the conjunction takes on this box
                if not (isinstance(r, AV) and r.is_const()) or expected != {bool(r.lo)}:
                    bad.append(bx)
            ctx.check(not bad, R2, '%s:pairs-are-conjunction' % fn.short, 'verdict of a 2-byte string is not the conjunction of its bytes: %s' % (bad[:1],), fn.where)
    ctx.floor(R2, 16)
    ctx.stats['accepted_bytes'] = {k: _ranges([v for v in range(256) if a.get(v)]) for k, a in accept_map.items()}

    # ---------------- R3 registry, R4 filter (structural, src/encoding.cpp)
    PE = model.Program(build.extract([REPO + '/src/encoding.cpp']))
    ctx.units.append('src/encoding.cpp')
    R3 = ctx.rule('C14.R3', 'every registered encoding name maps to the validator of that code page')
    ctor = [f for f in PE.fns.values() if f.kind == 'ctor' and 'validators_set' in (f.record or '')]
    ctx.require(ctor, 'C14.R3: validators_set constructor not found')
    ctor = ctor[0]
    for i in ctor.all_nodes():
        n = ctor.N(i)
        if n['k'] != 'BinaryOperator' or n.get('op') != '=':
            continue
        lhs = ctor.strip(n['ch'][0])
        ln = ctor.N(lhs)
        if ln['k'] != 'CXXOperatorCallExpr' or ln.get('op') != '[]':
            continue
        names = [ctor.N(j).get('s') for j in ctor.walk(lhs) if ctor.N(j)['k'] == 'StringLiteral']
        # chained assignment a["x"]=a["y"]=&f
        rhs = n['ch'][1]
        fnref = [r for r in ctor.subtree_refs(rhs) if r.startswith('fn:cppcms::encoding::')]
        if not fnref:
            v = [r for r in ctor.subtree_refs(rhs) if r.startswith('v:')]
            for r in v:
                for (_, dv) in ctor.defs_of_var(r):
                    if dv is not None:
                        fnref += [x for x in ctor.subtree_refs(dv) if x.startswith('fn:cppcms::encoding::')]
        if not fnref or not names:
            continue
        fname = fnref[0].split('::')[-1].split('<')[0]
        for nm in names:
            ctx.check(_name_matches(nm, fname), R3, 'registry:%s' % nm, 'encoding name %s is validated by %s' % (nm, fname), ctor.loc(i))
    ctx.floor(R3, 30)
    R4 = ctx.rule('C14.R4', 'filters copy input bytes to the output only under the validator\'s success for exactly those bytes; valid input is returned untouched')
    fu = PE.fn('cppcms::encoding::(anonymous namespace)::validate_or_filter_utf8')
    outp = q.param_by_index(fu, 2)
    g_ok = q.call_gate(fu, lambda i: False, True)
    # the filtering pass is the loop that appends to the output (the validating pass may be a loop here or a helper)
    lps = [L for L in q.loops(fu) if [i for i in fu.calls(fu.N(L)['body']) if q.short_of(fu.callee(i)) == 'append' and fu.ref_of(fu.obj(i)) == outp]]
    ctx.check(len(lps) == 1, R4, 'filter_utf8:filtering-pass', 'expected one filtering loop that appends to the output', fu.where)
    if len(lps) == 1:
        L2 = lps[0]
        body = fu.N(L2)['body']
        aps = [i for i in fu.calls(body) if q.short_of(fu.callee(i)) == 'append' and fu.ref_of(fu.obj(i)) == outp]
        g_valid = fu.gate_edges(lambda atom, pol: fu.N(atom)['k'] == 'BinaryOperator' and fu.N(atom).get('op') in ('!=', '==') and any(fu.bcallee(j) == 'cppcms::utf8::next' and fu.const_value(fu.args(j)[2]) == 1 for j in fu.calls(atom)) and
                                any(r.endswith('utf::illegal') for r in fu.subtree_refs(atom)) and ((fu.N(atom)['op'] == '!=' and pol is True) or (fu.N(atom)['op'] == '==' and pol is False)))
        ctx.check(len(aps) == 1 and fu.only_through(aps[0], g_valid), R4, 'filter_utf8:copy-only-validated-sequence', 'bytes copied to the output without passing the html-safe decoder', fu.loc(aps[0]) if aps else fu.where)
        if aps:
            a = fu.args(aps[0])
            nx = [j for j in fu.calls(body) if fu.bcallee(j) == 'cppcms::utf8::next' and fu.const_value(fu.args(j)[2]) == 1]
            okr = len(nx) == 1 and fu.ref_of(a[1]) == fu.ref_of(fu.args(nx[0])[0])
            pv = fu.ref_of(a[0])
            # prev was set to ptr immediately before the decoder advanced ptr
            pd = [w for (w, v) in fu.defs_of_var(pv) if v is not None and fu.contains(body, w)]
            okr = okr and len(pd) == 1 and fu.ref_of([v for (w, v) in fu.defs_of_var(pv) if w == pd[0]][0]) == fu.ref_of(a[1]) and q.before(fu, pd[0], nx[0])
            ctx.check(okr, R4, 'filter_utf8:copied-range-is-the-decoded-sequence', 'copied range is not exactly [start of sequence, position after decoding)', fu.loc(aps[0]))
        raw = [i for i in fu.calls(body) if fu.N(i)['k'] == 'CXXOperatorCallExpr' and fu.N(i).get('op') == '+=' and fu.ref_of(fu.N(i)['ch'][1]) == outp]
        repl = q.param_by_index(fu, 3)
        ctx.check(all(fu.ref_of(fu.N(i)['ch'][2]) == repl for i in raw), R4, 'filter_utf8:only-replacement-char-inserted', 'something other than the replacement character is inserted', fu.where)
    succ = q.nonfalse_returns(fu)
    ctx.check(len(succ) == 1 and not [w for w in q.writes_to(fu, outp) if q.before(fu, w, succ[0])], R4, 'filter_utf8:valid-input-untouched', 'output modified although the input was valid', fu.where)
    fs = PE.fn('cppcms::encoding::(anonymous namespace)::validate_or_filter_single_byte_charset')
    outp, tst = q.param_by_index(fs, 3), q.param_by_index(fs, 0)
    lps = q.loops(fs)
    ctx.check(len(lps) == 1, R4, 'filter_8bit:single-pass', 'expected one filtering loop', fs.where)
    if lps:
        body = fs.N(lps[0])['body']
        tc = [i for i in fs.calls(body) if fs.N(i)['k'] == 'CallExpr' and fs.ref_of(fs.N(i)['ch'][0]) == tst]
        raw = [i for i in fs.calls(body) if fs.N(i)['k'] == 'CXXOperatorCallExpr' and fs.N(i).get('op') == '+=' and fs.ref_of(fs.N(i)['ch'][1]) == outp]
        g = q.call_gate(fs, lambda i: i in tc, True)
        copies = [i for i in raw if fs.ref_of(fs.N(i)['ch'][2]) != q.param_by_index(fs, 4)]
        ok = len(tc) == 1 and len(copies) == 1 and fs.only_through(copies[0], g)
        if ok:
            a = fs.args(tc[0])
            lv = [r for r in fs.subtree_refs(copies[0]) if r.startswith('v:')]
            # tester(ptr, ptr+1): exactly one byte, and it is the byte that is copied
            ptr = fs.ref_of(a[0])
            pd = fs.defs_of_var(ptr)
            one = any(fs.const_value(j) == 1 for j in fs.walk(a[1])) and ptr in fs.subtree_refs(a[1])
            if lv and ptr == lv[0]:
                # the copied pointer itself is handed to the tester: by value (so it cannot be advanced), and not
                # moved between the test and the copy within one iteration
                byval = fs.N(a[0])['k'] == 'ImplicitCastExpr' and fs.N(a[0]).get('cast') == 'LValueToRValue'
                cb = fs.point_of(fs.N(lps[0])['cond'])[0] if fs.N(lps[0]).get('cond', -1) >= 0 and fs.point_of(fs.N(lps[0])['cond']) else None
                moved = False
                for w in q.writes_to(fs, ptr, body):
                    pw, pt, pc = fs.point_of(w), fs.point_of(tc[0]), fs.point_of(copies[0])
                    if pw is None:
                        continue
                    after_t = (pw[0] == pt[0] and pw[1] > pt[1]) or (pw[0] != pt[0] and pw[0] in fs.reachable_blocks(start=pt[0], cut_blocks=[cb] if cb is not None else []))
                    before_c = (pw[0] == pc[0] and pw[1] < pc[1]) or (pw[0] != pc[0] and pc[0] in fs.reachable_blocks(start=pw[0], cut_blocks=[cb] if cb is not None else []))
                    moved = moved or (after_t and before_c)
                ok = one and byval and not moved
            else:
                ok = one and len(pd) == 1 and pd[0][1] is not None and lv and fs.ref_of(pd[0][1]) == lv[0]
        ctx.check(ok, R4, 'filter_8bit:copy-only-the-validated-byte', 'a byte is copied without being validated on its own', fs.where)
    g_all = q.call_gate(fs, lambda i: fs.N(i)['k'] == 'CallExpr' and fs.ref_of(fs.N(i)['ch'][0]) == tst and not q.enclosing_loops(fs, i), True)
    succ = q.nonfalse_returns(fs)
    ctx.check(len(succ) == 1 and fs.only_through(succ[0], g_all) and not [w for w in q.writes_to(fs, outp) if q.before(fs, w, succ[0])], R4, 'filter_8bit:valid-input-untouched', 'true returned without validating the whole input / output touched', fs.where)
    ctx.floor(R4, 6)

    # ---------------- R5 the UTF-8 filter is exact (E3): verdict and filtered text against the RFC 3629 reference, all inputs of length 0..2 (0..3 in the thorough tier)
    R5 = ctx.rule('C14.R5', 'validate_or_filter_utf8 is exact: true and output untouched iff the input is well-formed html-safe UTF-8; otherwise the output is the input with every '
                            'well-formed safe sequence copied, every well-formed unsafe code point and every ill-formed byte replaced (or dropped when no replacement is given)')
    from vlib.absint import Out

    def ref_filter(box, repl):
        """('split', idx) or (valid, [('copy', a, b) | ('repl',)])"""
        i, n, valid, outp_ = 0, len(box), True, []
        while i < n:
            sp = spec_utf8(box[i:], True)
            if sp[0] == 'split':
                return ('split', i + sp[1])
            if sp[0] == 'ok':
                outp_.append(('copy', i, i + sp[4]))
                i += sp[4]
                continue
            valid = False
            sp2 = spec_utf8(box[i:], False)
            if sp2[0] == 'split':
                return ('split', i + sp2[1])
            if repl:
                outp_.append(('repl',))
            i += sp2[4] if sp2[0] == 'ok' else 1
        return (valid, outp_)
    for L in ((0, 1, 2, 3) if ctx.tier == 'thorough' else (0, 1, 2)):
        for repl in (0, 0x3F):
            fails = []
            nb = 0

            def runf(it, L=L, repl=repl):
                arr = Arr([it.inbyte(i) for i in range(L)] + [AV.const(0)], 'input')
                o = Out('output')
                o.items.append(AV.const(0x58))          # pre-existing content: must stay when the input is valid, must go when it is not
                r = it.call_fn(fu, [PV(arr, 0), PV(arr, L), Cell(o), AV.const(repl)])
                return r, o
            pending = [[(0, 255)] * L]
            while pending:
                box = pending.pop()
                rf = ref_filter(box, repl)
                if rf[0] == 'split':
                    idx = rf[1]
                    lo, hi = box[idx]
                    mid = absint._aligned_mid(lo, hi)
                    b1, b2 = list(box), list(box)
                    b1[idx] = (lo, mid - 1)
                    b2[idx] = (mid, hi)
                    pending += [b2, b1]
                    continue
                for (bx, (r, o), it) in absint.explore(PE, runf, [box], max_boxes=2000000):
                    rf2 = ref_filter(bx, repl)
                    if rf2[0] == 'split':
                        pending.append(bx)
                        continue
                    nb += 1
                    valid, segs = rf2
                    got = [frozenset(x & 0xFF for x in (e.vals if e.vals is not None else range(e.lo, e.hi + 1))) for e in o.items]
                    if valid:
                        want = [frozenset([0x58])]
                    else:
                        want = []
                        for sg in segs:
                            if sg[0] == 'repl':
                                want.append(frozenset([repl]))
                            else:
                                want += [frozenset(range(bx[k][0], bx[k][1] + 1)) for k in range(sg[1], sg[2])]
                    if not (isinstance(r, AV) and r.is_const() and bool(r.lo) == valid) or got != want:
                        fails.append((bx, 'reference: %s %s; filter returned %r with output %s' % (valid, segs, r, [sorted(x)[:3] for x in got])))
            ctx.check(not fails, R5, 'filter_utf8:len=%d:repl=%02X' % (L, repl), ('on bytes %s: %s' % (' '.join('%02X-%02X' % b for b in fails[0][0]), fails[0][1])) if fails else '', fu.where,
                      detail={'boxes': nb, 'counterexamples': [(' '.join('%02X-%02X' % b for b in bx), w) for bx, w in fails[:4]]})
    ctx.floor(R5, 6)

    # ---------------- R6 the support library's UTF-8 -> UTF-8 conversion (conv::utf_to_utf<char,char>) as validator (stop) and filter (skip)
    R6 = ctx.rule('C14.R6', 'booster utf_to_utf<char,char>: with `stop` it throws exactly on ill-formed or truncated input; with `skip` the result is always well-formed UTF-8 and equals the input when the input is well-formed (E3); '
                            'the charset fall-back of encoding::valid converts with `stop`')
    u2u = [f for f in P.fns.values() if f.bname == 'booster::locale::conv::utf_to_utf' and len(f.params) == 3 and f.entry is not None and 'const char *' in f.id]
    ctx.require(len(u2u) >= 1, 'C14.R6: utf_to_utf<char,char>(begin,end,how) not instantiated by the witness unit')
    u2u = u2u[0]
    from vlib.absint import Out as _Out

    def whole_ok(box):
        """('split', idx) | True | False: is every string of the box well-formed (same verdict over the box)"""
        i = 0
        while i < len(box):
            sp = spec_utf8(box[i:], False)
            if sp[0] == 'split':
                return ('split', i + sp[1])
            if sp[0] != 'ok':
                return False
            i += sp[4]
        return True
    for L in ((0, 1, 2, 3) if ctx.tier == 'thorough' else (0, 1, 2)):
        for how in (1, 0):
            fails = []
            nb = 0

            def runu(it, L=L, how=how):
                arr = Arr([it.inbyte(i) for i in range(L)] + [AV.const(0)], 'input')
                return it.call_fn(u2u, [PV(arr, 0), PV(arr, L), AV.const(how)])
            pending = [[(0, 255)] * L]
            while pending:
                box = pending.pop()
                w = whole_ok(box)
                if isinstance(w, tuple):
                    idx = w[1]
                    lo, hi = box[idx]
                    mid = absint._aligned_mid(lo, hi)
                    b1, b2 = list(box), list(box)
                    b1[idx] = (lo, mid - 1)
                    b2[idx] = (mid, hi)
                    pending += [b2, b1]
                    continue
                for (bx, r, it) in absint.explore(P, runu, [box], max_boxes=2000000):
                    w2 = whole_ok(bx)
                    if isinstance(w2, tuple):
                        pending.append(bx)
                        continue
                    nb += 1
                    threw = isinstance(r, tuple) and r and r[0] == 'throw'
                    if how == 1:
                        if threw != (not w2):
                            fails.append((bx, 'stop: input is %s but conversion %s' % ('well-formed' if w2 else 'ill-formed', 'threw' if threw else 'returned normally')))
                        if threw:
                            continue
                    if threw or not isinstance(r, _Out):
                        fails.append((bx, 'skip: no string returned (%r)' % (r,)))
                        continue
                    got = [(min(x & 0xFF for x in (e.vals if e.vals is not None else (e.lo, e.hi))), max(x & 0xFF for x in (e.vals if e.vals is not None else (e.lo, e.hi)))) if (e.vals is not None or (e.lo >= 0) == (e.hi >= 0)) else (0, 255) for e in r.items]
                    if w2:
                        if got != [tuple(b) for b in bx]:
                            fails.append((bx, 'well-formed input changed: %s' % got))
                    else:
                        wo = whole_ok(got)
                        if wo is not True:
                            fails.append((bx, 'filtered output %s is not (provably) well-formed UTF-8' % (['%02X-%02X' % g for g in got],)))
            ctx.check(not fails, R6, 'utf_to_utf<char,char>:%s:len=%d' % ('stop' if how else 'skip', L), ('on bytes %s: %s' % (' '.join('%02X-%02X' % tuple(b) for b in fails[0][0]), fails[0][1])) if fails else '', u2u.where,
                      detail={'boxes': nb, 'counterexamples': [(' '.join('%02X-%02X' % tuple(b) for b in bx), w_) for bx, w_ in fails[:4]]})
    # the convenience overloads hand the whole text and the caller's method to the range overload
    for f in sorted([g for g in P.fns.values() if g.bname == 'booster::locale::conv::utf_to_utf' and len(g.params) == 2 and g.body is not None], key=lambda g: g.id):
        sp, hp = q.param_by_index(f, 0), q.param_by_index(f, 1)
        fw = [i for i in f.calls() if f.N(i).get('callee') == u2u.id]
        is_str = 'basic_string' in (f.types[f.params[0]['t']] or '')
        ok = len(fw) == 1 and q.always_before_exit(f, fw) and any(f.contains(i, fw[0]) or f.strip(f.ret_value(i)) == fw[0] for i in f.returns() if f.ret_value(i) is not None)
        if ok:
            a_ = f.args(fw[0])
            dcalls = lambda e: set(q.short_of(f.callee(j) or '') for j in q.expr_calls_deep(f, e))
            ok = f.ref_of(a_[2]) == hp and sp in q.deep_refs(f, a_[0]) and (sp in q.deep_refs(f, a_[1]) or not is_str)
            if ok and is_str:
                ok = bool(dcalls(a_[0]) & {'c_str', 'data', 'begin'}) and not (dcalls(a_[0]) & {'size', 'length', 'end'}) and bool(dcalls(a_[1]) & {'size', 'length', 'end'})
            elif ok:
                # NUL-terminated text: the end is found by a scan for the terminator that starts at the text
                ev = f.ref_of(a_[1])
                ok = f.ref_of(a_[0]) == sp and bool(ev) and ev.startswith('v:') and any(v_ is not None and sp in f.subtree_refs(v_) for (d_, v_) in f.defs_of_var(ev)) and \
                    any(f.N(w_)['k'] == 'UnaryOperator' and f.N(w_).get('op') in ('++',) and ev in f.subtree_refs(w_) for L_ in q.loops(f) for w_ in f.walk(L_))
        ctx.check(ok, R6, 'utf_to_utf(%s, how):whole-text-and-method-forwarded' % ('string' if is_str else 'c-string'), 'the convenience overload does not convert the whole text [begin, end) with the caller\'s method '
                  '(a std::string must not be cut at its first NUL)', f.where)
    # the iconv back-end (the converter behind encodings that have no table here): an error other than "output buffer full" ends a `stop` conversion with an exception
    PI = model.Program(build.extract([REPO + '/booster/lib/locale/src/encoding/codepage.cpp'], include_re='^/repo/booster/lib/locale/src/encoding/'))
    ctx.units.append('booster/lib/locale/src/encoding/codepage.cpp')
    rcs = sorted([g for g in PI.fns.values() if g.short == 'real_convert' and 'iconverter_base' in (g.record or '') and g.body is not None], key=lambda g: g.id)
    if not rcs:
        ctx.notes.append('C14.R6: the iconv converter is not compiled in this configuration: clause not applicable')
    seen_ic = False
    for g in rcs:
        resv = [d['ref'] for i in g.all_nodes() if g.N(i)['k'] == 'DeclStmt' for d in g.N(i)['decls'] if d.get('name') == 'res']
        def is_fail(atom, pol, g=g):
            n_ = g.N(atom)
            if n_['k'] != 'BinaryOperator' or n_.get('op') not in ('==', '!='):
                return False
            vals = [g.const_value(x) for x in n_['ch']]
            refs = [g.ref_of(x) for x in n_['ch']]
            return any(v_ in (-1, 2 ** 64 - 1, 2 ** 32 - 1) for v_ in vals if v_ is not None) and any((x or '').startswith('v:') for x in refs) and pol is (n_['op'] == '==')
        # the edges on which a failed step is known: the test that is the whole branch condition (a fact inferred from one arm of a
        # larger condition would start the walk before the place where the code itself asks the question)
        g_fail = []
        for B_ in g.blocks.values():
            if B_.tcond is None:
                continue
            a_ = g.strip(B_.tcond)
            for (s_, lab_) in g.succ_edges(B_.id):
                if lab_ in (True, False) and is_fail(a_, lab_):
                    g_fail.append((B_.id, s_, lab_, None))
        g_big = g.gate_edges(lambda atom, pol, g=g: g.N(atom)['k'] == 'BinaryOperator' and g.N(atom).get('op') in ('==', '!=') and 7 in [g.const_value(x) for x in g.N(atom)['ch']] and pol is (g.N(atom)['op'] == '=='))
        g_skip = g.gate_edges(lambda atom, pol, g=g: g.N(atom)['k'] == 'BinaryOperator' and g.N(atom).get('op') in ('==', '!=') and any(model.strip_targs(x).endswith('iconverter_base::how_') for x in g.subtree_refs(atom)) and
                              any((x or '').endswith('conv::stop') for x in g.subtree_refs(atom)) and pol is (g.N(atom)['op'] != '=='))
        thr = [g.point_of(t_)[0] for t_ in g.all_nodes() if g.N(t_)['k'] == 'CXXThrowExpr' and g.point_of(t_) is not None]
        ok_ic = bool(g_fail) and bool(g_big) and bool(g_skip) and bool(thr)
        if ok_ic:
            for (b_, s_, lab_, tag_) in g_fail:
                if len((b_, s_, lab_, tag_)) != 4:
                    continue
                rb = g.reachable_blocks(start=s_, cut_edges=list(g_big) + list(g_skip), cut_blocks=thr)
                if g.exit in rb:
                    ok_ic = False
        if seen_ic and ok_ic:
            continue
        seen_ic = True
        ctx.check(ok_ic, R6, 'iconv real_convert:a-failed-step-under-stop-throws-unless-E2BIG', 'with method stop a conversion step that failed for a reason other than a full output buffer (ill-formed or truncated '
                  'input) can end the conversion normally: ill-formed text in such an encoding is reported valid', g.where)
    # the ICU back-end: every converter an open() creates is told the caller's method (a converter left at its default skips malformed input)
    nicu = 0
    for g in sorted([x for x in PI.fns.values() if x.short == 'open' and (x.record or '').rsplit('::', 1)[-1].startswith('uconv_') and x.body is not None], key=lambda x: x.id):
        hp_ = [p_['ref'] for p_ in g.params if 'method_type' in (g.types[p_['t']] or '')]
        for i in g.all_nodes():
            if g.N(i)['k'] != 'CXXNewExpr' or 'icu_std_converter' not in (g.N(i).get('nt') or ''):
                continue
            ce = [c_ for c_ in g.N(i)['ch'] if g.N(g.strip(c_))['k'] == 'CXXConstructExpr']
            args_ = [x for x in g.N(g.strip(ce[0]))['ch'] if g.N(x)['k'] != 'CXXDefaultArgExpr'] if ce else []
            nicu += 1
            ctx.check(len(hp_) == 1 and len(args_) >= 2 and hp_[0] in q.deep_refs(g, args_[1]), R6, '%s::open:converter#%d-gets-the-callers-method' % ((g.record or '').rsplit('::', 1)[-1], nicu),
                      'an ICU converter is created without the mode derived from the caller\'s method: with stop, malformed input in that direction is skipped instead of reported', g.loc(i))
    if rcs is not None and not nicu:
        ctx.notes.append('C14.R6: the ICU converter is not compiled in this configuration: clause not applicable')
    # the generic (iconv / ICU) fall-back of encoding::valid must let conversion errors surface
    vf = [f for f in PE.by_bname.get('cppcms::encoding::valid', []) if len(f.params) == 4 and 'basic_string' in f.id]
    ctx.require(len(vf) >= 1, 'C14.R6: encoding::valid(encoding,begin,end,count) not found')
    vf = vf[0]
    CONV = ('booster::locale::conv::between', 'booster::locale::conv::to_utf', 'booster::locale::conv::from_utf', 'booster::locale::conv::utf_to_utf')

    def conv_calls(f, depth=2, seen=None):
        seen = seen if seen is not None else set()
        out = []
        for i in f.calls():
            bc = f.bcallee(i) or ''
            if bc in CONV:
                out.append((f, i))
            elif depth > 0 and bc.startswith('cppcms::encoding::') and f.N(i).get('callee') in PE.fns and f.N(i)['callee'] not in seen:
                seen.add(f.N(i)['callee'])
                out += conv_calls(PE.fns[f.N(i)['callee']], depth - 1, seen)
        return out
    stopv = [e['value'] for en in PE.enums.values() if en['name'].endswith('conv::method_type') for e in en['enumerators'] if e['name'].endswith('stop')]
    ctx.require(stopv, 'C14.R6: booster::locale::conv::method_type::stop not found')
    cc = conv_calls(vf)
    ctx.check(bool(cc), R6, 'encoding::valid:fallback-converts', 'no charset conversion on the fall-back path of valid()', vf.where)
    for k, (f, i) in enumerate(cc):
        hows = [f.const_value(a) for a in f.args(i) if 'method_type' in (f.type_of(f.N(a)) or '')]
        ctx.check(hows == [stopv[0]], R6, 'encoding::valid:conversion#%d:method-is-stop' % k, 'the fall-back conversion skips invalid input instead of stopping (method %s): malformed text is dropped and the rest accepted' % hows, f.loc(i))
    ctx.floor(R6, 8)
    ctx.trust('RFC 3629 table embedded in rules/C14.py; interval/stride arithmetic of vlib/absint.py')

    # ---------------- R7 form text widgets
    R7 = ctx.rule('C14.R7', 'form text widgets: the loaded value is validated as a whole by encoding::valid, invalid text marks the widget invalid, and both length limits are compared with the code-point count that call produced')
    PF = model.Program(build.extract([REPO + '/src/form.cpp'], include_re='^/repo/src/form\\.cpp'))
    ctx.units.append('src/form.cpp')
    ld, vd = PF.fn('cppcms::widgets::base_text::load'), PF.fn('cppcms::widgets::base_text::validate')
    CP, VAL = 'base_text::code_points_', 'base_text::value_'

    def fld(f, node, suffix):
        return any(model.strip_targs(r).endswith(suffix) for r in f.subtree_refs(node))
    vc = [i for i in ld.calls() if ld.bcallee(i) == 'cppcms::encoding::valid']
    ctx.check(len(vc) >= 1, R7, 'load:validates', 'base_text::load does not call encoding::valid', ld.where)
    for k, i in enumerate(vc):
        a = ld.args(i)
        dfld = lambda node: any(model.strip_targs(r).endswith(VAL) for r in q.deep_refs(ld, node))      # through `char const *begin = value_.data();`
        whole = len(a) >= 4 and dfld(a[1]) and dfld(a[2]) and any(q.short_of(ld.bcallee(j) or '') in ('data', 'c_str', 'begin') for j in q.expr_calls_deep(ld, a[1])) and \
            any(q.short_of(ld.bcallee(j) or '') in ('size', 'length', 'end') for j in q.expr_calls_deep(ld, a[2])) and \
            not any(ld.N(j)['k'] in ('BinaryOperator', 'UnaryOperator', 'CompoundAssignOperator') and ld.N(j).get('op') in ('+', '-', '++', '--') for j in ld.walk(a[1]))
        ctx.check(whole, R7, 'load:valid#%d:whole-value' % k, 'the validated range is not the whole loaded value', ld.loc(i))
        ctx.check(len(a) >= 4 and fld(ld, a[3], CP), R7, 'load:valid#%d:counts-into-code_points_' % k, 'the character count of the validator is not stored in code_points_', ld.loc(i))
        bad = q.call_gate(ld, lambda j, i=i: j == i, False)
        inv = [j for j in ld.calls() if q.short_of(ld.bcallee(j) or '') == 'valid' and ld.bcallee(j) != 'cppcms::encoding::valid' and len(ld.args(j)) == 1 and ld.const_value(ld.args(j)[0]) == 0]
        reach = set()
        for (b, s_, lab, tag) in [e for e in bad if len(e) == 4]:
            reach |= set(ld.reachable_blocks(start=s_, cut_blocks=[ld.point_of(j)[0] for j in inv]))
        ctx.check(bool(bad) and bool(inv) and ld.exit not in reach, R7, 'load:valid#%d:invalid-text-marks-widget-invalid' % k, 'text that failed validation leaves the widget valid', ld.loc(i))
        # the value validated is the one stored: no assignment to value_ after the validation
        later = [w for w in q.field_writes(ld, VAL) if q.reaches(ld, i, w)]
        ctx.check(not later, R7, 'load:valid#%d:value-not-changed-afterwards' % k, 'value_ is modified after it was validated', ld.loc(later[0]) if later else ld.where)
    nlim = 0
    for i in vd.all_nodes():
        n = vd.N(i)
        if n['k'] != 'BinaryOperator' or n.get('op') not in ('<', '>', '<=', '>='):
            continue
        l, r = n['ch']
        for lim, other in ((l, r), (r, l)):
            if (fld(vd, lim, 'base_text::low_') or fld(vd, lim, 'base_text::high_')) and vd.const_value(other) is None:
                nlim += 1
                ok = fld(vd, other, CP) and not fld(vd, other, VAL)
                ctx.check(ok, R7, 'validate:limit#%d:compared-with-code-points' % nlim, 'a length limit is compared with something other than the code-point count (bytes of a multi-byte value are not characters)', vd.loc(i))
    ctx.check(nlim >= 2, R7, 'validate:both-limits-found', 'expected the lower and the upper limit comparison in base_text::validate', vd.where)
    ctx.floor(R7, 7)

    # ---------------- R9 dispatch by encoding name, the single-byte filter, name comparison
    R9 = ctx.rule('C14.R9', 'dispatch and single-byte filtering: valid_utf8 / valid(name) / valid(locale) hand (begin,end,count) unchanged to the validator registered for the name and return its verdict; an unregistered '
                            'name is converted to UTF-8 with method stop, validated as UTF-8, conversion errors mean invalid; the single-byte filter (validator summarised per byte as good / bad, E3 over every '
                            'good/bad string of length 0..4) returns true and leaves the output alone iff every byte is good, else the output is exactly the good bytes with each bad byte replaced or dropped, asking '
                            'the validator once per byte inside the range; encoding names compare equal iff their lower-cased alphanumeric characters agree (E3 over a name grid)')
    from vlib.absint import FnRef
    ENC = 'cppcms::encoding::'
    vu = PE.fn(ENC + 'valid_utf8')
    cu = [i for i in vu.calls() if q.short_of(vu.callee(i) or '') == 'utf8_valid']
    rets = [i for i in vu.all_nodes() if vu.N(i)['k'] == 'ReturnStmt']
    ctx.check(len(cu) == 1 and [vu.ref_of(x) for x in vu.args(cu[0])] == [q.param_by_index(vu, k) for k in range(3)] and len(rets) == 1 and vu.strip(vu.N(rets[0])['ch'][0]) == cu[0], R9,
              'valid_utf8:returns-utf8_valid(begin,end,count)', 'valid_utf8 does not return the verdict of the html-safe UTF-8 validator on its own arguments', vu.where)
    vmain = vf
    ctx.require(vmain is not None, 'C14.R9: encoding::valid(std::string const&, ...) not found')
    for f in [g for g in PE.by_bname.get(ENC + 'valid', []) if g is not vmain and len(g.params) == 4]:
        cs_ = [i for i in f.calls() if f.N(i).get('callee') == vmain.id]
        rets = [i for i in f.all_nodes() if f.N(i)['k'] == 'ReturnStmt']
        okf = len(cs_) == 1 and [f.ref_of(x) for x in f.args(cs_[0])[1:]] == [q.param_by_index(f, k) for k in (1, 2, 3)] and q.param_by_index(f, 0) in f.subtree_refs(f.args(cs_[0])[0]) and \
            len(rets) == 1 and f.strip(f.N(rets[0])['ch'][0]) == cs_[0]
        ctx.check(okf, R9, 'valid(%s):forwards-to-valid(name)' % (f.types[f.params[0]['t']] or '')[:18].strip(), 'does not return valid(name, begin, end, count) for its own arguments', f.where)
    f = vmain
    P0, P1, P2, P3 = [q.param_by_index(f, k) for k in range(4)]
    gets = [i for i in f.calls() if q.short_of(f.callee(i) or '') == 'get' and 'validators_set' in (f.callee(i) or '')]
    byname = [i for i in gets if f.ref_of(f.args(i)[0]) == P0]
    tv = [d['ref'] for i in f.all_nodes() if f.N(i)['k'] == 'DeclStmt' for d in f.N(i)['decls'] if d.get('init') is not None and any(f.contains(d['init'], g_) or f.strip(d['init']) == g_ for g_ in byname)]
    ind = [i for i in f.all_nodes() if f.N(i)['k'] == 'CallExpr' and not f.N(i).get('callee')]
    direct = [i for i in ind if tv and f.ref_of(f.N(i)['ch'][0]) == tv[0]]
    g_nonnull = f.gate_edges(lambda atom, pol: bool(tv) and f.ref_of(atom) == tv[0] and pol is True) + f.gate_edges(
        lambda atom, pol: bool(tv) and f.N(atom)['k'] == 'BinaryOperator' and f.N(atom).get('op') in ('!=', '==') and tv[0] in f.subtree_refs(atom) and f.const_value(f.N(atom)['ch'][1]) == 0 and pol is (f.N(atom)['op'] == '!='))
    okd = len(byname) == 1 and len(tv) == 1 and len(direct) == 1 and [f.ref_of(x) for x in f.args(direct[0])] == [P1, P2, P3] and bool(g_nonnull) and f.only_through(direct[0], g_nonnull) and \
        any(f.N(i)['k'] == 'ReturnStmt' and f.strip(f.N(i)['ch'][0]) == direct[0] for i in f.all_nodes())
    ctx.check(okd, R9, 'valid(name):registered-validator-decides', 'the validator registered under the name is not the one that is asked about (begin,end,count), or its verdict is not returned', f.where)
    conv = [i for i in f.calls() if (f.callee(i) or '').startswith('booster::locale::conv::between')]
    okc = len(conv) == 1
    if okc:
        a_ = f.args(conv[0])
        lit = [f.N(j).get('s') for j in f.walk(a_[2]) if f.N(j)['k'] == 'StringLiteral']
        okc = [f.ref_of(a_[0]), f.ref_of(a_[1])] == [P1, P2] and [x.upper().replace('-', '') for x in lit] == ['UTF8'] and P0 in f.subtree_refs(a_[3]) and (f.ref_of(a_[4]) or '').endswith('conv::stop') and \
            f.only_through(conv[0], f.gate_edges(lambda atom, pol: bool(tv) and f.ref_of(atom) == tv[0] and pol is False) + f.gate_edges(
                lambda atom, pol: bool(tv) and f.N(atom)['k'] == 'BinaryOperator' and f.N(atom).get('op') in ('!=', '==') and tv[0] in f.subtree_refs(atom) and f.const_value(f.N(atom)['ch'][1]) == 0 and pol is (f.N(atom)['op'] == '==')))
    ctx.check(okc, R9, 'valid(name):unregistered-name-converted-to-UTF-8-with-stop', 'the fallback does not convert (begin,end) from the named encoding to UTF-8 with method stop', f.where)
    second = [i for i in ind if i not in direct]
    oks = len(second) == 1 and okc
    if oks:
        cvar = [d['ref'] for i in f.all_nodes() if f.N(i)['k'] == 'DeclStmt' for d in f.N(i)['decls'] if d.get('init') is not None and f.contains(d['init'], conv[0])]
        a_ = f.args(second[0])
        g2 = [j for j in q.expr_calls_deep(f, f.N(second[0])['ch'][0]) if j in gets]
        lit = [f.N(j).get('s') for g_ in g2 for j in f.walk(g_) if f.N(j)['k'] == 'StringLiteral']
        dcalls = lambda e: set(q.short_of(f.callee(j) or '') for j in q.expr_calls_deep(f, e))
        oks = len(cvar) == 1 and len(g2) == 1 and [x.lower().replace('-', '').replace('_', '') for x in lit] == ['utf8'] and f.ref_of(a_[2]) == P3 and \
            cvar[0] in q.deep_refs(f, a_[0]) and bool(dcalls(a_[0]) & {'c_str', 'data'}) and not (dcalls(a_[0]) & {'size', 'length'}) and \
            cvar[0] in q.deep_refs(f, a_[1]) and bool(dcalls(a_[1]) & {'size', 'length'}) and bool(dcalls(a_[1]) & {'c_str', 'data'}) and \
            any(f.N(i)['k'] == 'ReturnStmt' and f.strip(f.N(i)['ch'][0]) == second[0] for i in f.all_nodes())
    ctx.check(oks, R9, 'valid(name):converted-text-validated-as-UTF-8-whole', 'the converted text is not validated whole (c_str(), c_str()+size(), count) by the validator registered as utf-8', f.where)
    tries = [i for i in f.all_nodes() if f.N(i)['k'] == 'CXXTryStmt']
    okt = len(tries) == 1 and okc and f.contains(tries[0], conv[0])
    if okt:
        hs = f.N(tries[0]).get('handlers') or []
        okt = bool(hs)
        for h_ in hs:
            rr = [i for i in f.walk(h_) if f.N(i)['k'] == 'ReturnStmt']
            okt = okt and bool(rr) and all(f.const_value(f.N(i)['ch'][0]) == 0 for i in rr) and not [i for i in f.walk(h_) if f.N(i)['k'] == 'CXXThrowExpr']
    ctx.check(okt, R9, 'valid(name):conversion-error-means-invalid', 'a conversion error does not yield false', f.where)
    # single-byte filter against a summarised validator
    fsb = [g for g in PE.fns.values() if g.short == 'validate_or_filter_single_byte_charset']
    ctx.require(len(fsb) == 1, 'C14.R9: validate_or_filter_single_byte_charset not found')
    fsb = fsb[0]
    bad = []
    nrun = 0
    for L in range(0, 5):
        for good in _it8.product((True, False), repeat=L):
            for repl in (0, 0x3F):
                asked = []

                def tester(it, fn_, i_, env_, good=good, asked=asked, L=L):
                    a_ = fn_.args(i_)
                    b_, e_, cl = it.rvalue(fn_, a_[0], env_), it.rvalue(fn_, a_[1], env_), it.lval(fn_, a_[2], env_)
                    if not (isinstance(b_, PV) and isinstance(e_, PV)) or b_.off < 0 or e_.off > L or b_.off > e_.off:
                        raise OutOfBounds('the validator is asked about [%s,%s) of an input of %d bytes' % (getattr(b_, 'off', '?'), getattr(e_, 'off', '?'), L))
                    asked.append((b_.off, e_.off))
                    it.store(cl, absint.binop('+', it.load(cl), AV.const(e_.off - b_.off)))
                    return AV.const(1 if all(good[b_.off:e_.off]) else 0)
                arr = Arr([AV.const(0x61 + k) for k in range(L)] + [AV.const(0)], 'input')
                o = Out('output')
                o.items.append(AV.const(0x58))
                it = absint.Interp(PE, [])
                rv = it.call_fn(fsb, [FnRef(tester, 'tester'), PV(arr, 0), PV(arr, L), Cell(o), AV.const(repl)])
                nrun += 1
                got = [e.lo & 0xFF for e in o.items]
                want = [0x58] if all(good) else [x for k in range(L) for x in ([0x61 + k] if good[k] else ([repl] if repl else []))]
                per_byte = [x for x in asked if x != (0, L) or L == 1]
                if not (isinstance(rv, AV) and rv.is_const() and bool(rv.lo) == all(good)) or got != want:
                    bad.append('bytes %s repl=%02X: returns %r, output %s, expected %s %s' % (''.join('g' if g_ else 'b' for g_ in good) or '(empty)', repl, rv, bytes(got), all(good), bytes(want)))
                elif not all(good) and sorted(set(x for x in asked if x[1] - x[0] == 1)) != [(k, k + 1) for k in range(L)]:
                    bad.append('bytes %s: validator asked about %s' % (''.join('g' if g_ else 'b' for g_ in good), asked))
            if bad:
                break
        if bad:
            break
    ctx.check(not bad, R9, 'filter_single_byte:good-bytes-kept-bad-replaced-or-dropped', '; '.join(bad[:2]), fsb.where, detail={'runs': nrun})
    # name comparison
    cmpf = [g for g in PE.fns.values() if g.short == 'operator()' and 'encodings_comparator' in g.id and len(g.params) == 2 and all('basic_string' not in (g.types[p_['t']] or '') for p_ in g.params)]
    ctx.require(len(cmpf) == 1, 'C14.R9: encodings_comparator::operator()(char const*, char const*) not found')
    alphabet = '09azAZ-_/:@[`{ '
    names = [''] + list(alphabet) + [x + y for x in 'a9Z-' for y in alphabet] + ['utf8', 'UTF-8', 'Utf_8', 'utf-16', 'utf7', 'u-t-f-8-', 'ISO-8859-1', 'iso88591', 'iso885910', 'latin1', 'LATIN-1']
    norm = lambda s_: ''.join(c.lower() for c in s_ if c.isascii() and c.isalnum())
    bad = []
    ncmp = 0
    for x in names:
        for y in names:
            it = absint.Interp(PE, [])
            ax, ay = Arr([AV.const(ord(c)) for c in x] + [AV.const(0)], 'l'), Arr([AV.const(ord(c)) for c in y] + [AV.const(0)], 'r')
            rv = it.call_fn(cmpf[0], [PV(ax, 0), PV(ay, 0)])
            ncmp += 1
            if not (isinstance(rv, AV) and rv.is_const() and bool(rv.lo) == (norm(x) < norm(y))):
                bad.append('%r < %r gives %r, the normalised names are %r and %r' % (x, y, rv, norm(x), norm(y)))
                break
        if bad:
            break
    ctx.check(not bad, R9, 'encodings_comparator:order-of-normalised-names', '; '.join(bad[:2]), cmpf[0].where, detail={'pairs': ncmp})
    iu = [g for g in PE.fns.values() if g.short == 'is_utf8' and g.body is not None]
    ctx.require(len(iu) == 1, 'C14.R9: is_utf8 not found')
    bad = []
    for x in ('utf8', 'UTF-8', 'Utf_8', 'u t f 8', 'utf-16', 'utf7', 'utf', 'utf88', '', 'latin1', '8ftu'):
        it = absint.Interp(PE, [])
        rv = it.call_fn(iu[0], [PV(Arr([AV.const(ord(c)) for c in x] + [AV.const(0)], 'name'), 0)])
        if not (isinstance(rv, AV) and rv.is_const() and bool(rv.lo) == (norm(x) == 'utf8')):
            bad.append('is_utf8(%r) = %r' % (x, rv))
    ctx.check(not bad, R9, 'is_utf8:exactly-the-spellings-of-utf8', '; '.join(bad[:3]), iu[0].where)
    vo = PE.fn(ENC + 'validate_or_filter')
    P0, P1, P2, P3, P4 = [q.param_by_index(vo, k) for k in range(5)]
    cu_ = [i for i in vo.calls() if q.short_of(vo.callee(i) or '') == 'validate_or_filter_utf8' and [vo.ref_of(x) for x in vo.args(i)] == [P1, P2, P3, P4]]
    cs_ = [i for i in vo.calls() if q.short_of(vo.callee(i) or '') == 'validate_or_filter_single_byte_charset']
    g_utf = vo.gate_edges(lambda atom, pol: any(q.short_of(vo.callee(j) or '') == 'is_utf8' for j in ([atom] if vo.N(atom)['k'] == 'CallExpr' else [])) and pol is True)
    oku = len(cu_) == 1 and bool(g_utf) and vo.only_through(cu_[0], g_utf) and any(vo.N(i)['k'] == 'ReturnStmt' and vo.strip(vo.N(i)['ch'][0]) == cu_[0] for i in vo.all_nodes())
    ctx.check(oku, R9, 'validate_or_filter:utf8-names-use-the-utf8-filter', 'a UTF-8 name does not return validate_or_filter_utf8(begin,end,output,replace)', vo.where)
    oks_ = len(cs_) == 1
    if oks_:
        a_ = vo.args(cs_[0])
        tvar = vo.ref_of(a_[0])
        dd = [d for i in vo.all_nodes() if vo.N(i)['k'] == 'DeclStmt' for d in vo.N(i)['decls'] if d['ref'] == tvar]
        oks_ = [vo.ref_of(x) for x in a_[1:]] == [P1, P2, P3, P4] and bool(dd) and dd[0].get('init') is not None and \
            any(q.short_of(vo.callee(j) or '') == 'get' and vo.ref_of(vo.args(j)[0]) == P0 for j in vo.calls(dd[0]['init'])) and \
            vo.only_through(cs_[0], vo.gate_edges(lambda atom, pol: vo.ref_of(atom) == tvar and pol is True)) and any(vo.N(i)['k'] == 'ReturnStmt' and vo.strip(vo.N(i)['ch'][0]) == cs_[0] for i in vo.all_nodes())
    ctx.check(oks_, R9, 'validate_or_filter:registered-names-use-their-validator', 'a registered single-byte name is not filtered with the validator registered under that name', vo.where)
    # generic (conversion based) filter for names that are neither UTF-8 nor registered
    vcall = [i for i in vo.calls() if vo.N(i).get('callee') == vmain.id]
    okg = len(vcall) == 1 and [vo.ref_of(x) for x in vo.args(vcall[0])][:3] == [P0, P1, P2]
    if okg:
        g_valid = vo.gate_edges(lambda atom, pol: atom == vcall[0] and pol is True)
        rt = [i for i in vo.all_nodes() if vo.N(i)['k'] == 'ReturnStmt' and vo.const_value(vo.N(i)['ch'][0]) == 1]
        okg = bool(g_valid) and len(rt) == 1 and vo.only_through(rt[0], g_valid) and not any(P3 in vo.subtree_refs(i) for i in vo.all_nodes() if vo.N(i)['k'] in ('CXXOperatorCallExpr', 'CXXMemberCallExpr') and
                                                                                           not vo.only_through(i, vo.gate_edges(lambda atom, pol: atom == vcall[0] and pol is False)))
    ctx.check(okg, R9, 'validate_or_filter:generic:valid-text-returns-true-untouched', 'text that valid(name, ...) accepts is not returned as valid with the output left alone', vo.where)
    bw = sorted([i for i in vo.calls() if (vo.callee(i) or '').startswith('booster::locale::conv::between')], key=lambda i: (vo.N(i)['l'], vo.N(i)['c']))
    okb = len(bw) == 2
    if okb:
        a1, a2 = vo.args(bw[0]), vo.args(bw[1])
        lit = lambda e: [vo.N(j).get('s', '').upper().replace('-', '') for j in vo.walk(e) if vo.N(j)['k'] == 'StringLiteral']
        v1 = [d['ref'] for i in vo.all_nodes() if vo.N(i)['k'] == 'DeclStmt' for d in vo.N(i)['decls'] if d.get('init') is not None and vo.contains(d['init'], bw[0])]
        fl = [i for i in vo.calls() if q.short_of(vo.callee(i) or '') == 'validate_or_filter_utf8' and i not in cu_]
        okb = [vo.ref_of(a1[0]), vo.ref_of(a1[1])] == [P1, P2] and lit(a1[2]) == ['UTF8'] and P0 in vo.subtree_refs(a1[3]) and (vo.ref_of(a1[4]) or '').endswith('conv::skip') and len(v1) == 1 and len(fl) == 1 and \
            P0 in vo.subtree_refs(a2[2]) and lit(a2[3]) == ['UTF8'] and (vo.ref_of(a2[4]) or '').endswith('conv::skip')
        if okb:
            fa = vo.args(fl[0])
            outv = vo.ref_of(fa[2])
            okb = (vo.const_value(fa[3]) == 0 or vo.ref_of(fa[3]) == P4) and v1[0] in vo.subtree_refs(fa[0]) and v1[0] in vo.subtree_refs(fa[1]) and any(q.short_of(vo.callee(j) or '') in ('size', 'length') for j in vo.calls(fa[1])) and (outv or '').startswith('v:') and \
                outv in vo.subtree_refs(a2[0]) and outv in vo.subtree_refs(a2[1]) and any(q.short_of(vo.callee(j) or '') in ('size', 'length') for j in vo.calls(a2[1])) and not any(q.short_of(vo.callee(j) or '') in ('size', 'length') for j in vo.calls(a2[0]))
            sw = [i for i in vo.calls() if q.short_of(vo.callee(i) or '') in ('swap', 'operator=', 'assign') and {outv, v1[0]} <= set(vo.subtree_refs(i))]
            okb = okb and len(sw) == 1 and vo.only_through(sw[0], vo.gate_edges(lambda atom, pol: atom == fl[0] and pol is True)) and q.before(vo, fl[0], bw[1]) and q.reaches(vo, sw[0], bw[1])
            asg = [i for i in vo.all_nodes() if vo.N(i)['k'] in ('CXXOperatorCallExpr', 'CXXMemberCallExpr') and q.short_of(vo.callee(i) or '') in ('operator=', 'assign', 'swap') and P3 in vo.subtree_refs(i) and vo.contains(i, bw[1])]
            rf_ = [i for i in vo.all_nodes() if vo.N(i)['k'] == 'ReturnStmt' and vo.const_value(vo.N(i)['ch'][0]) == 0]
            okb = okb and len(asg) == 1 and bool(rf_) and all(q.before(vo, asg[0], i) for i in rf_ if vo.point_of(i) is not None)
    ctx.check(okb, R9, 'validate_or_filter:generic:to-UTF-8(skip)-filter-back(skip)-into-output', 'the conversion based filter does not convert to UTF-8 with skip, filter the whole converted text, convert the filtered (or already valid) text back with skip '
              'into the output and return false', vo.where)
    ctx.floor(R9, 13)

    # ---------------- R8 the UTF-8 string validators are "every code point decodes": the loop around next(), with next() summarised
    R8 = ctx.rule('C14.R8', 'UTF-8 string validators (utf8::validate both overloads, utf8_valid): with next() replaced by a scripted summary (units of 1-4 bytes, well- or ill-formed), '
                            'for every script of total length <= 6 the decoder is asked exactly once per unit, in order, at the unit boundary, with the caller\'s end and html mode; the verdict is true iff every unit '
                            'decoded and the whole range was consumed; the count grows by one per code point')
    scripts = []

    def gen(prefix, total):
        scripts.append(list(prefix))
        if total >= 6 or (prefix and not prefix[-1][1]):
            return
        for ln in (1, 2, 3, 4):
            if total + ln <= 6:
                for okv in (True, False):
                    gen(prefix + [(ln, okv)], total + ln)
    gen([], 0)
    targets = [(f, None) for f in sorted(P.by_bname.get('cppcms::utf8::validate', []), key=lambda g: g.id)] + [(f, 1) for f in P.by_bname.get('cppcms::encoding::utf8_valid', [])]
    ctx.require(len(targets) >= 3, 'C14.R8: utf8::validate (two overloads) / utf8_valid instantiations not found (%d)' % len(targets))
    for (fn, fixed_html) in targets:
        with_count = any('size_t' in (fn.types[p_['t']] or '') or 'unsigned long' in (fn.types[p_['t']] or '') for p_ in fn.params)
        has_html = any((fn.types[p_['t']] or '').strip() in ('bool', '_Bool') for p_ in fn.params)
        bad = []
        nrun = 0
        for sc in scripts:
            for html in ((0, 1) if has_html else (fixed_html,)):
                N = sum(l_ for l_, _ in sc)
                bounds = {}
                o_ = 0
                for (l_, okv) in sc:
                    bounds[o_] = (l_, okv)
                    o_ += l_
                calls = []
                arr = Arr([AV.const(0x41)] * N, 'input')

                def hook(it, f_, i_, env_, bounds=bounds, calls=calls, arr=arr, N=N):
                    a_ = f_.args(i_)
                    pl = it.lval_or_tmp(f_, a_[0], env_)
                    p_ = it.load(pl) if not isinstance(pl, Cell) else pl.v
                    e_ = it.rvalue(f_, a_[1], env_)
                    h_ = it.rvalue(f_, a_[2], env_) if len(a_) > 2 else AV.const(0)
                    if not (isinstance(p_, PV) and isinstance(e_, PV) and p_.arr is arr and e_.arr is arr):
                        raise Unsupported('next() called on something that is not the validated range')
                    calls.append((p_.off, e_.off, h_.lo if isinstance(h_, AV) and h_.is_const() else None))
                    l_, okv = bounds.get(p_.off, (1, False))
                    it.store(pl, PV(arr, min(N, p_.off + l_)))
                    return AV.const(0x41) if okv else AV.const(ILLEGAL)
                it = absint.Interp(P, [], hooks={'cppcms::utf8::next': hook})
                cnt = Cell(AV.const(10))
                args = [PV(arr, 0), PV(arr, N)] + ([cnt] if with_count else []) + ([AV.const(html)] if has_html else [])
                r = it.call_fn(fn, args)
                nrun += 1
                allok = all(okv for _, okv in sc)
                firstbad = next((k for k, (_, okv) in enumerate(sc) if not okv), len(sc))
                want_calls = []
                o_ = 0
                for k, (l_, okv) in enumerate(sc[:firstbad + 1]):
                    want_calls.append((o_, N, html))
                    o_ += l_
                why = None
                if not (isinstance(r, AV) and r.is_const() and bool(r.lo) == allok):
                    why = 'verdict %r, expected %s' % (r, allok)
                elif calls != want_calls:
                    why = 'decoder calls (offset, end, html) %s, expected %s' % (calls[:4], want_calls[:4])
                elif with_count and allok and not (cnt.v.is_const() and cnt.v.lo == 10 + len(sc)):
                    why = 'count grows by %s for %d code points' % (cnt.v.lo - 10 if cnt.v.is_const() else cnt.v, len(sc))
                if why:
                    bad.append('units %s%s: %s' % (''.join('%d%s' % (l_, '' if okv else '!') for l_, okv in sc) or '(empty)', ' html' if html else '', why))
                    break
        ctx.check(not bad, R8, '%s(%s):one-decode-per-unit:verdict:count' % (fn.short, 'count' if with_count else 'plain'), '; '.join(bad[:2]), fn.where, detail={'scripts': nrun})
    ctx.floor(R8, 3)


def _ranges(vs):
    out, start, prev = [], None, None
    for v in vs:
        if start is None:
            start = prev = v
        elif v == prev + 1:
            prev = v
        else:
            out.append('%02X-%02X' % (start, prev))
            start = prev = v
    if start is not None:
        out.append('%02X-%02X' % (start, prev))
    return ' '.join(out)


_CODE_PAGES = {'ascii_valid': ['ascii'], 'iso_8859_3_valid': ['iso8859_3'], 'iso_8859_6_valid': ['iso8859_6'], 'iso_8859_7_valid': ['iso8859_7'], 'iso_8859_8_valid': ['iso8859_8'],
               'iso_8859_11_valid': ['iso8859_11'], 'iso_8859_1_2_4_5_9_10_13_14_15_16_valid': ['iso8859_%d' % k for k in (1, 2, 4, 5, 9, 10, 13, 14, 15, 16)],
               'koi8_valid': ['koi8_r', 'koi8_u'], **{'windows_125%d_valid' % k: ['cp125%d' % k] for k in range(9)}}


def _defined_text_bytes(codec):
    """reference, independent of the analysed source: bytes that the code page (Python's codec table) maps to a character that is not a control
    (Unicode category Cc), plus TAB / LF / CR"""
    import unicodedata
    out = set()
    for v in range(256):
        try:
            ch = bytes([v]).decode(codec)
        except UnicodeDecodeError:
            continue
        if unicodedata.category(ch) != 'Cc' or v in (9, 10, 13):
            out.add(v)
    return out


def _name_matches(name, fname):
    """registered (normalised) encoding name vs validator function name"""
    f = fname.replace('_valid', '')
    if f == 'utf8':
        return name == 'utf8'
    if f == 'ascii':
        return name in ('ascii', 'usascii')
    if f == 'koi8':
        return name in ('koi8r', 'koi8u', 'koi8')
    if f.startswith('windows_'):
        num = f.split('_')[1]
        return name in ('windows' + num, 'cp' + num)
    if f.startswith('iso_8859_'):
        nums = f.split('_')[2:]
        return name in ['iso8859' + x for x in nums] or (name == 'latin1' and '1' in nums)
    return False
