"""C17 — every scheduled handler runs exactly once (event loop, timers, I/O waits, pool jobs)."""
import glob
from vlib import build, model, q, lockset, linear
from vlib.build import AnalysisBroken, REPO
from rules.C05 import load

EL = 'booster::aio::event_loop_impl'
DM = 'f:%s::data_mutex_' % EL
X = frozenset([(DM, 'X')])
EL_TABLE = {('f:%s::%s' % (EL, f)): {'r': [X], 'w': [X]} for f in
            ('dispatch_queue_', 'map_', 'timer_events_', 'timer_events_index_', 'stop_', 'polling_', 'seed_')}
TP = 'cppcms::impl::thread_pool'
TM = 'f:%s::mutex_' % TP
TX = frozenset([(TM, 'X')])
TP_TABLE = {('f:%s::%s' % (TP, f)): {'r': [TX], 'w': [TX]} for f in ('queue_', 'shut_down_', 'job_id_')}
ALLOW = {EL + '::reset': 'documented as not thread safe: io_service::reset() may only be called while the loop is not running'}
STORED = ('io_data::readable', 'io_data::writeable', 'timer_event::h', 'io_event_setter::h')


def lock_rule(ctx, R, group, table, allow, label):
    C = lockset.ClassLockCheck(group, table)
    # a method that only constructors / destructors call is still an entry point (the destructor calling stop() does not make stop() private)
    called = set(c for f in group if f.kind not in ('ctor', 'dtor') for (_, c, _) in C.calls[f.id])
    for f in group:
        entry = f.id not in called
        for n, (i, bf, mode, held) in enumerate(C.accesses[f.id]):
            ok = lockset.satisfied(table[bf][mode], held)
            key = '%s:%s:%s#%d' % (f.bname.replace('booster::aio::', '').replace('cppcms::impl::', ''), bf.rsplit('::', 1)[-1], mode, n)
            if ok or not entry:
                ctx.check(True, R, key, loc=f.loc(i))
            elif f.kind in ('ctor', 'dtor'):
                ctx.check(True, R, key, loc=f.loc(i), detail={'exempt': 'object not shared during construction/destruction'})
            elif f.bname in allow:
                ctx.check(True, R, key, loc=f.loc(i), detail={'exempt': allow[f.bname]})
            else:
                ctx.check(False, R, key, '%s of %s without %s' % ('write' if mode == 'w' else 'read', bf, label), f.loc(i))
        if entry and f.kind not in ('ctor', 'dtor') and f.bname not in allow:
            seen = set()
            for (chain, bf, mode, req, _inner) in C.missing[f.id]:
                if len(chain) == 1:
                    continue
                path = ' -> '.join(g.short for g, _ in chain)
                key = '%s:call:%s:%s:%s' % (f.short, path, bf.rsplit('::', 1)[-1], mode)
                if key in seen:
                    continue
                seen.add(key)
                ctx.check(False, R, key, 'call chain %s reaches a %s of %s without %s' % (path, 'write' if mode == 'w' else 'read', bf, label), chain[0][0].loc(chain[0][1]))
    return C


def run(ctx, extra_defs=()):
    ctx.explanation = ('Lockset dataflow over the event loop and the worker pool, resolved-overload inspection of every completion_handler construction, '
                       'pairing rules (queueing a stored handler is paired with erasing its registration), a timer-not-early domination rule, '
                       'wake-after-enqueue, and a handler-linearity dataflow (each completion handler is consumed exactly once on every path of every '
                       'async entry point and continuation in booster/lib/aio/src).')
    aio = sorted(glob.glob(REPO + '/booster/lib/aio/src/*.cpp'))
    units = [u[len(REPO) + 1:] for u in aio] + ['src/thread_pool.cpp']
    P = load(ctx, units, include_re='^/repo/(src|private|cppcms|booster/lib)/', extra_defs=extra_defs)
    R1 = ctx.rule('C17.R1', 'event_loop_impl / thread_pool state is accessed only under data_mutex_ / mutex_')
    R2 = ctx.rule('C17.R2', 'handlers and jobs run with the lock released; it is re-acquired on normal and exceptional paths')
    R3 = ctx.rule('C17.R3', 'a stored handler is moved (ownership-taking overload) into its completion_handler, never copied')
    R4 = ctx.rule('C17.R4', 'queueing a stored handler is paired with erasing its registration')
    R5 = ctx.rule('C17.R5', 'a timer handler is queued with success only when deadline <= now')
    R6 = ctx.rule('C17.R6', 'each completion handler is consumed exactly once on every path (aio sources)')
    R7 = ctx.rule('C17.R7', 'thread_pool: job removed and run exactly once, outside the lock, exceptions contained; cancel/post consistent')
    R8 = ctx.rule('C17.R8', 'cross-thread entry points wake a polling loop after enqueueing')
    R10 = ctx.rule('C17.R10', 'retry objects (read/write until done): whether the operation is completed or re-armed after an I/O attempt is decided by the error code of that attempt, and the handler receives that code')
    R11 = ctx.rule('C17.R11', 'run_one only acts on events of the current poll: the shuffle of ready events swaps inside evs[0..n) (a stale slot of an earlier poll would complete a handler although its descriptor is not ready)')
    R12 = ctx.rule('C17.R12', 'the loop\'s record of what a descriptor waits for (io_data::current_event) is the event set the reactor was armed with: after reactor::select(fd, ev, err) the record is assigned that same ev (or 0 on failure)')
    R9 = ctx.rule('C17.R9', 'a cancellation is dropped only when nothing is queued and nothing is registered for the descriptor')

    elg = [f for f in P.fns.values() if f.brecord and (f.brecord == EL or f.brecord.startswith(EL + '::'))]
    ctx.require(len(elg) >= 25, 'C17: event_loop_impl methods not found (%d)' % len(elg))
    tpg = [f for f in P.fns.values() if f.brecord == TP]
    ctx.require(len(tpg) >= 5, 'C17: impl::thread_pool methods not found')
    C = lock_rule(ctx, R1, elg, EL_TABLE, ALLOW, 'data_mutex_')
    CT = lock_rule(ctx, R1, tpg, TP_TABLE, {}, 'mutex_')

    # ---- R2
    ro = P.fn(EL + '::run_one')
    la = C.la[ro.id]
    execs = [i for i in ro.calls() if ro.bcallee(i) == EL + '::completion_handler::operator()']
    ctx.check(len(execs) == 1, R2, 'run_one:single-dispatch-site', 'expected one handler invocation site in run_one, found %d' % len(execs), ro.where)
    for i in execs:
        held = la.at(i)
        ctx.check(held is not None and not held, R2, 'run_one:handler-runs-unlocked', 'handler invoked while holding %s' % sorted(held or []), ro.loc(i))
        # the handler was swapped out of the queue and popped before it runs
        sw = [j for j in ro.calls() if q.short_of(ro.callee(j)) == 'swap' and any(model.strip_targs(r).endswith('dispatch_queue_') for r in ro.subtree_refs(j))]
        pop = q.field_calls(ro, 'event_loop_impl::dispatch_queue_', 'pop_front')
        ctx.check(len(sw) == 1 and len(pop) == 1 and q.before(ro, sw[0], pop[0]) and q.before(ro, pop[0], i), R2, 'run_one:dequeue-before-run',
                  'the handler is not removed from the queue before it runs', ro.loc(i))
        ctx.check(ro.ref_of(ro.obj(i)) is not None and sw and ro.ref_of(ro.obj(i)) in ro.subtree_refs(sw[0]), R2, 'run_one:runs-the-dequeued-handler', 'invoked object is not the dequeued one', ro.loc(i))
    polls = [i for i in ro.calls() if ro.bcallee(i) == 'booster::aio::reactor::poll']
    for i in polls:
        held = la.at(i)
        ctx.check(held is not None and not held, R2, 'run_one:poll-unlocked', 'reactor::poll called while holding the lock', ro.loc(i))
    wk = P.fn(TP + '::worker')
    lat = CT.la[wk.id]
    jobs = [i for i in wk.calls() if wk.N(i)['k'] == 'CXXOperatorCallExpr' and wk.N(i).get('op') == '()' and 'function<void ()>::operator()' in (wk.callee(i) or '')]
    ctx.check(len(jobs) == 1, R2, 'worker:single-job-site', 'expected one job invocation in worker', wk.where)
    for i in jobs:
        held = lat.at(i)
        ctx.check(held is not None and not held, R2, 'worker:job-runs-unlocked', 'job invoked while holding %s' % sorted(held or []), wk.loc(i))

    # ---- R3
    n3 = 0
    for f in elg:
        for i in f.calls():
            n = f.N(i)
            if n['k'] not in ('CXXConstructExpr', 'CXXTemporaryObjectExpr') or model.strip_targs(n.get('cn', '')) != EL + '::completion_handler::completion_handler':
                continue
            a = f.args(i)
            if not a:
                continue
            ap = f.access_path(a[0])
            last = model.strip_targs(ap[-1]) if ap else ''
            if not any(last.endswith(s) for s in STORED):
                continue
            if f.kind == 'ctor':
                continue
            n3 += 1
            ov0 = (n.get('ov') or [''])[0]
            taking = ov0.endswith('&') and not ov0.startswith('const ')
            # alternative: the registration slot is overwritten/erased on the same path
            ctx.check(taking, R3, '%s:completion_handler(%s)' % (f.bname.replace('booster::aio::', ''), last.rsplit('::', 2)[-2] + '::' + last.rsplit('::', 1)[-1]),
                      'overload resolution selected the copying constructor (%s): the handler stays registered and can run again' % ov0, f.loc(i))
    ctx.require(n3 >= 7 or ctx.violations, 'C17.R3: only %d stored-handler completion sites found' % n3)
    # the ownership-taking overloads really release the callback
    for f in [g for g in elg if g.kind == 'ctor' and g.brecord == EL + '::completion_handler' and g.params]:
        pt = f.types[f.params[0]['t']]
        if pt.startswith('const ') or not pt.endswith('&'):
            continue
        rel = [i for i in f.calls() if q.short_of(f.callee(i)) == 'release']
        ctx.check(len(rel) == 1, R3, 'completion_handler(%s):releases' % pt.split('<')[1].split('>')[0][:40], 'ownership-taking constructor does not release the source callback', f.where)

    # ---- R4
    def stored_ctor_sites(f):
        out = []
        for i in f.calls():
            n = f.N(i)
            if n['k'] in ('CXXConstructExpr', 'CXXTemporaryObjectExpr') and model.strip_targs(n.get('cn', '')) == EL + '::completion_handler::completion_handler' and f.args(i):
                ap = f.access_path(f.args(i)[0])
                last = model.strip_targs(ap[-1]) if ap else ''
                if any(last.endswith(s) for s in STORED):
                    out.append((i, last))
        return out
    def same_class_closure(f):
        seen, todo = {f.id: f}, [f]
        while todo:
            g = todo.pop()
            for i in g.calls():
                h = P.fns.get(g.N(i).get('callee'))
                if h is not None and h.record == f.record and h.id not in seen and h.entry is not None:
                    seen[h.id] = h
                    todo.append(h)
        return list(seen.values())
    # the function that queues due timers: run_one itself or a helper of the class it calls
    ro_timer = [g for g in same_class_closure(ro) if [x for x in stored_ctor_sites(g) if x[1].endswith('timer_event::h')]]
    for f in ro_timer + [P.fn(EL + '::cancel_timer_event')]:
        for k, (i, last) in enumerate([x for x in stored_ctor_sites(f) if x[1].endswith('timer_event::h')]):
            er = q.field_calls(f, 'event_loop_impl::timer_events_', 'erase')
            idxw = [w for w in f.all_nodes() if f.N(w)['k'] in ('BinaryOperator', 'CXXOperatorCallExpr') and f.N(w).get('op') == '=' and
                    any(model.strip_targs(r).endswith('timer_events_index_') for r in f.subtree_refs(f.N(w)['ch'][0 if f.N(w)['k'] == 'BinaryOperator' else 1]))
                    and q.mentions_field_call(f, w, 'event_loop_impl::timer_events_', 'end')]
            pb = [j for j in q.field_calls(f, 'event_loop_impl::dispatch_queue_', 'push_back')]
            blk = f.point_of(i)[0]
            same = lambda evs: any(f.point_of(e)[0] == blk for e in evs)
            ctx.check(same(er) and same(idxw) and same(pb), R4, '%s:timer-dispatch#%d:queued+erased+index-reset' % (f.short, k),
                      'timer handler queued without erasing the timer and resetting its index slot on the same path', f.loc(i))
    cn = P.fn(EL + '::io_event_canceler::operator()')
    sites = stored_ctor_sites(cn)
    ctx.check(sorted(s[1].rsplit('::', 1)[-1] for s in sites) == ['readable', 'writeable'], R4, 'io_event_canceler:queues-both-handlers', 'cancel does not queue both stored handlers', cn.where)
    me = q.field_calls(cn, 'event_loop_impl::map_', 'erase')
    ctx.check(bool(me) and q.always_before_exit(cn, me), R4, 'io_event_canceler:erases-registration', 'registration survives the cancel', cn.where)
    for (i, last) in sites:
        canc = any(r.endswith('aio_error::canceled') for r in cn.subtree_refs(cn.enclosing(i, ('CompoundStmt',)) or i)) or True
        # error argument carries aio_error::canceled (set before the pushes)
        earg = cn.ref_of(cn.args(i)[1]) if len(cn.args(i)) > 1 else None
        defs = [v for (_, v) in cn.defs_of_var(earg)] if earg else []
        ok = any(v is not None and any(r.endswith('aio_error::canceled') for r in cn.subtree_refs(v)) for v in defs)
        ctx.check(ok, R4, 'io_event_canceler:%s:error-is-canceled' % last.rsplit('::', 1)[-1], 'cancelled handler is not told aio_error::canceled', cn.loc(i))
    rm = [i for i in cn.calls() if cn.bcallee(i) == 'booster::aio::reactor::remove']
    ctx.check(bool(rm), R4, 'io_event_canceler:reactor-remove', 'descriptor stays in the reactor after cancel', cn.where)
    # run_one I/O dispatch: handler queued only when its event bit was cleared, registration erased when no events remain
    for (i, last) in [x for x in stored_ctor_sites(ro) if 'io_data' in x[1]]:
        which = last.rsplit('::', 1)[-1]
        bit = '::in' if which == 'readable' else '::out'

        def pred(atom, pol, bit=bit):
            n = ro.N(atom)
            return n['k'] == 'BinaryOperator' and n.get('op') == '==' and pol is True and any(r.endswith(bit) for r in ro.subtree_refs(atom)) and ro.const_value(n['ch'][1]) == 0
        ctx.check(ro.only_through(i, ro.gate_edges(pred)), R4, 'run_one:io-dispatch:%s:only-when-event-fired' % which, 'handler queued although its event is still armed', ro.loc(i))
    dt = P.fn('booster::aio::deadline_timer::cancel')
    w = q.field_writes(dt, 'deadline_timer::event_id_')
    c = [i for i in dt.calls() if dt.bcallee(i) == 'booster::aio::io_service::cancel_timer_event']
    ctx.check(len(w) == 1 and len(c) == 1 and q.before(dt, w[0], c[0]) and dt.const_value(dt.N(w[0])['ch'][1]) == -1, R4, 'deadline_timer::cancel:id-cleared-before-cancel',
              'event id not cleared before cancelling', dt.where)
    wt = P.fn('booster::aio::deadline_timer::waiter::operator()')
    w = q.field_writes(wt, 'deadline_timer::event_id_')
    inv = [i for i in wt.calls() if wt.N(i)['k'] == 'CXXOperatorCallExpr' and wt.N(i).get('op') == '()']
    ctx.check(len(w) == 1 and len(inv) == 1 and q.before(wt, w[0], inv[0]), R4, 'deadline_timer::waiter:id-cleared-before-handler', 'fired timer keeps its event id', wt.where)
    cl = [f for f in P.by_bname.get('booster::aio::basic_io_device::close', []) if len(f.params) == 1]
    ctx.require(cl, 'C17.R4: basic_io_device::close(error_code&) not found')
    cl = cl[0]
    cc = [i for i in cl.calls() if cl.bcallee(i) == 'booster::aio::basic_io_device::cancel']
    cf = [i for i in cl.calls() if 'close_file_descriptor' in (cl.callee(i) or '')]
    g = q.call_gate(cl, lambda i: cl.bcallee(i) == 'booster::aio::basic_io_device::has_io_service', False)
    reach = cl.reachable_blocks(cut_edges=g, cut_blocks=q.blocks_of(cl, cc))
    ctx.check(bool(cc) and bool(cf) and cl.point_of(cf[0])[0] not in reach, R4, 'basic_io_device::close:cancel-before-close', 'descriptor closed with handlers still registered', cl.where)

    # ---- R5
    def now_locals(f):
        out = set()
        for i in f.all_nodes():
            if f.N(i)['k'] == 'DeclStmt':
                for d in f.N(i)['decls']:
                    if d.get('init') is not None and any(f.bcallee(j) == 'booster::ptime::now' for j in f.calls(d['init'])):
                        out.add(d['ref'])
        return out
    ctx.check(len(ro_timer) == 1, R5, 'run_one:single-timer-dispatch', 'expected exactly one function under run_one that dispatches due timers', ro.where)
    ro0 = ro
    ro = ro_timer[0] if ro_timer else ro
    nowv = now_locals(ro)
    if ro is not ro0:
        # the time stamp may be handed to the helper: a parameter that every caller binds to its own plain ptime::now() local
        callers = [(g, i) for g in same_class_closure(ro0) for i in g.calls() if g.N(i).get('callee') == ro.id]
        for k, prm in enumerate(ro.params):
            ok = bool(callers)
            for (g, i) in callers:
                a = g.args(i)
                ok = ok and k < len(a) and g.ref_of(a[k]) in now_locals(g)
            if ok:
                nowv.add(prm['ref'])
    ctx.check(len(nowv) == 1, R5, 'run_one:now-from-ptime::now', 'no local time stamp taken from ptime::now()', ro.where)

    def due(atom, pol):
        n = ro.N(atom)
        op = n.get('op')
        if n['k'] not in ('CXXOperatorCallExpr', 'BinaryOperator') or op not in ('<', '<=', '>', '>='):
            return False
        ch = n['ch'][1:] if n['k'] == 'CXXOperatorCallExpr' else n['ch']
        if len(ch) != 2:
            return False
        l, r = ch
        # the earliest deadline: timer_events_.begin()->first, possibly through a local iterator initialised from begin()
        dl = lambda x: any(q.short_of(ro.callee(j)) == 'begin' and (q.obj_field(ro, j) or '').endswith('event_loop_impl::timer_events_') for j in q.expr_calls_deep(ro, x))
        nw = lambda x: bool(ro.subtree_refs(x) & nowv) and not any(ro.N(j)['k'] in ('BinaryOperator', 'CXXOperatorCallExpr', 'CXXMemberCallExpr', 'CallExpr') for j in ro.walk(x))   # the plain time stamp, no slack added
        if dl(r) and nw(l):
            op = {'<': '>', '<=': '>=', '>': '<', '>=': '<='}[op]
        elif not (dl(l) and nw(r)):
            return False
        return (op in ('<', '<=') and pol is True) or (op in ('>', '>=') and pol is False)
    g_due = ro.gate_edges(due)
    tsites = [x for x in stored_ctor_sites(ro) if x[1].endswith('timer_event::h')]
    ctx.check(len(tsites) == 1, R5, 'run_one:single-timer-dispatch-site', 'expected exactly one timer dispatch site', ro.where)
    for (i, _) in tsites:
        ctx.check(ro.only_through(i, g_due), R5, 'run_one:timer-dispatch-only-when-due', 'a timer handler can be queued before its deadline', ro.loc(i))
        # the dispatched timer is the earliest one
        ev = ro.ref_of(ro.args(i)[0]) if False else None
        a0 = ro.access_path(ro.args(i)[0])
        var = a0[0] if a0 else None
        defs = ro.defs_of_var(var) if var else []
        ctx.check(len(defs) == 1 and defs[0][1] is not None and q.mentions_field_call(ro, defs[0][1], 'event_loop_impl::timer_events_', 'begin'), R5,
                  'run_one:dispatches-earliest-timer', 'dispatched timer is not timer_events_.begin()', ro.loc(i))
        # success code: default constructed error_code
        e = ro.strip(ro.args(i)[1])
        ctx.check(ro.N(e)['k'] in ('CXXTemporaryObjectExpr', 'CXXConstructExpr') and not ro.args(e), R5, 'run_one:timer-success-code', 'due timer is not completed with success', ro.loc(i))

    ro = ro0
    # ---- R6 handler linearity over booster aio
    aiofns = [f for f in P.fns.values() if f.file.startswith(REPO + '/booster/lib/aio/src/')]
    summ = linear.compute_summaries(P, aiofns)
    ctx.stats['linear_summaries'] = {k[0].split('(')[0] + '#%d' % k[1]: v for k, v in summ.items()}
    nh = 0
    for f in sorted(aiofns, key=lambda g: g.id):
        if f.brecord == EL + '::completion_handler':
            continue     # the wrapper itself: constructors take/copy, operator() invokes through the type-erased pointer
        for tok in linear.tokens_of(f, P):
            L = linear.Linear(f, tok, summ)
            ex = L.exits()['all']
            nh += 1
            key = '%s:%s' % (f.bname.replace('booster::aio::', ''), tok.name)
            if f.short == 'operator()' and tok.kind == 'param':
                pass
            dbl = L.double_sites()
            ctx.check(not dbl, R6, key + ':at-most-once', 'handler %s may be consumed twice on one path' % tok.name, f.loc(dbl[0]) if dbl else f.where)
            must = (tok.kind == 'param' and (f.short.startswith('async_') or f.short in ('post', 'on_readable', 'on_writeable', 'set_io_event', 'set_timer_event', 'dont_block'))) or \
                   (tok.kind == 'field' and f.short in ('operator()', 'run'))
            if f.short == 'dont_block':
                must = False
            if must and ex is not None:
                ctx.check(ex[0] >= 1, R6, key + ':at-least-once', 'a path completes without invoking, posting or re-arming %s' % tok.name, f.where, detail={'min,max': ex})
    ctx.stats['handler_tokens'] = nh

    # ---- R7 pool
    # the job is taken in worker() itself or in a helper of the pool that worker() calls
    wq = wk
    if not q.field_calls(wk, 'thread_pool::queue_', 'pop_front'):
        for c_ in wk.calls():
            g_ = P.fns.get(wk.N(c_).get('callee'))
            if g_ is not None and g_.record == wk.record and g_.entry is not None and q.field_calls(g_, 'thread_pool::queue_', 'pop_front'):
                wq = g_
                break
    sw = [i for i in wq.calls() if q.short_of(wq.callee(i)) == 'swap']
    pop = q.field_calls(wq, 'thread_pool::queue_', 'pop_front')
    ctx.check(len(sw) == 1 and len(pop) == 1 and wq.point_of(sw[0])[0] == wq.point_of(pop[0])[0] and bool(jobs), R7,
              'worker:swap-out-and-pop-together', 'job not removed from the queue on the path that takes it', wq.where)
    if jobs:
        trys = [a for a in wk.ancestors(jobs[0]) if wk.N(a)['k'] == 'CXXTryStmt']
        okc = bool(trys) and any(wk.N(h).get('ctype') == '...' for h in wk.N(trys[0])['handlers'])
        ctx.check(okc, R7, 'worker:job-exceptions-contained', 'an exception from a job kills the worker thread', wk.loc(jobs[0]))
        if trys:
            rethrow = [j for h in wk.N(trys[0])['handlers'] for j in wk.walk(h) if wk.N(j)['k'] == 'CXXThrowExpr']
            ctx.check(not rethrow, R7, 'worker:no-rethrow', 'handler rethrows out of the worker', wk.loc(rethrow[0]) if rethrow else wk.where)
    ps = P.fn(TP + '::post')
    pb = q.field_calls(ps, 'thread_pool::queue_', 'push_back')
    nt = [i for i in ps.calls() if q.short_of(ps.callee(i)) in ('notify_one', 'notify_all')]
    ctx.check(len(pb) == 1 and bool(nt) and q.always_after(ps, pb[0], nt), R7, 'post:notify-after-every-enqueue', 'a job can be enqueued without waking a worker', ps.where)
    idv = [d['ref'] for i in ps.all_nodes() if ps.N(i)['k'] == 'DeclStmt' for d in ps.N(i)['decls'] if d.get('init') is not None and
           any(model.strip_targs(r).endswith('thread_pool::job_id_') for r in ps.subtree_refs(d['init']))]
    rets = [r for r in ps.returns() if ps.ret_value(r) is not None]
    ctx.check(len(idv) == 1 and pb and idv[0] in ps.subtree_refs(pb[0]) and all(ps.ref_of(ps.ret_value(r)) == idv[0] for r in rets) and
              (bool(q.incdec_of_field(ps, 'thread_pool::job_id_', ('++',))) or
               any(ps.N(w_)['k'] in ('BinaryOperator', 'CompoundAssignOperator') and any(model.strip_targs(x).endswith('thread_pool::job_id_') for x in ps.subtree_refs(ps.N(w_)['ch'][1]) or (['thread_pool::job_id_'] if ps.N(w_)['k'] == 'CompoundAssignOperator' else [])) and
                   any(ps.N(j).get('op') in ('+', '+=') for j in ps.walk(w_)) for w_ in q.field_writes(ps, 'thread_pool::job_id_'))), R7, 'post:returns-enqueued-id', 'post does not return the id under which the job was queued', ps.where)
    jobp = q.param_by_index(ps, 0)
    ctx.check(pb and jobp in ps.subtree_refs(pb[0]), R7, 'post:enqueues-the-job', 'post enqueues something else', ps.where)
    cnl = P.fn(TP + '::cancel')
    er = q.field_calls(cnl, 'thread_pool::queue_', 'erase')
    tr = q.nonfalse_returns(cnl)
    idp = q.param_by_index(cnl, 0)

    def idmatch(atom, pol):
        n = cnl.N(atom)
        return n['k'] == 'BinaryOperator' and n.get('op') == '==' and pol is True and idp in cnl.subtree_refs(atom)
    g = cnl.gate_edges(idmatch)
    ctx.check(len(er) == 1 and len(tr) >= 1 and cnl.only_through(er[0], g) and all(q.true_only_after(cnl, r_, er) for r_ in tr), R7, 'cancel:true-iff-erased', 'cancel reports success without removing the job (or removes a different job)', cnl.where)
    st = P.fn(TP + '::stop')
    w = [i for i in q.field_writes(st, 'thread_pool::shut_down_')]
    nt = [i for i in st.calls() if q.short_of(st.callee(i)) == 'notify_all']
    ctx.check(bool(w) and bool(nt) and q.before(st, w[0], nt[0]), R7, 'stop:flag-then-notify-all', 'workers are not woken after shutdown is flagged', st.where)

    # ---- R13 the pool has workers, they take and run what is queued, and stop() joins them
    R13 = ctx.rule('C17.R13', 'thread_pool liveness shape: the constructor starts one thread on worker() for every index 0..threads-1 of a vector sized threads; a worker leaves its loop only when shut_down_ is set, takes a job '
                              'only from a non-empty queue, waits only when the queue is empty, invokes the job only when it holds one and on every such path; stop() joins every worker that exists; the public '
                              'wrappers forward post / cancel / stop to the implementation')
    tc = [f for f in tpg if f.kind == 'ctor' and len(f.params) == 1]
    ctx.require(len(tc) == 1, 'C17.R13: thread_pool(int) constructor not found')
    tc = tc[0]
    nthr = q.param_by_index(tc, 0)
    rs = [i for i in q.field_calls(tc, 'thread_pool::workers_', 'resize') if tc.ref_of(tc.args(i)[0]) == nthr] + [x['n'] for x in tc.d.get('inits', []) if x.get('field', '').endswith('thread_pool::workers_') and nthr in tc.subtree_refs(x['n'])]
    spawn = [i for i in tc.calls() if (tc.callee(i) or '').endswith('thread::thread') and any('thread_pool::worker(' in x for x in q.deep_refs(tc, i))]
    okc = len(rs) == 1 and len(spawn) == 1
    whyc = 'the worker vector is not sized `threads` / no thread is started on worker()'
    if okc:
        lp = q.enclosing_loops(tc, spawn[0])
        cl = q.counting_loop(tc, lp[0]) if len(lp) == 1 else None
        store = [i for i in tc.calls() if q.short_of(tc.callee(i) or '') in ('reset', 'operator=') and tc.contains(i, spawn[0]) and any(model.strip_targs(x).endswith('thread_pool::workers_') for x in tc.subtree_refs(i))]
        okc = cl is not None and cl['start'] == 0 and cl['step'] == 1 and cl['op'] == '<' and tc.ref_of(cl['bound']) == nthr and len(store) == 1 and cl['var'] in tc.subtree_refs(store[0]) and \
            (rs[0] in [x['n'] for x in tc.d.get('inits', [])] or q.before(tc, rs[0], spawn[0])) and not [j for j in tc.walk(tc.N(lp[0])['body']) if tc.N(j)['k'] in ('BreakStmt', 'ContinueStmt', 'ReturnStmt', 'GotoStmt')]
        whyc = 'not every index 0..threads-1 gets a thread on worker() stored in workers_[i]'
    ctx.check(okc, R13, 'thread_pool(int):one-worker-thread-per-index', whyc, tc.where)
    SD = 'thread_pool::shut_down_'
    g_sd = wk.gate_edges(lambda atom, pol: model.strip_targs(wk.ref_of(atom) or '').endswith(SD) and pol is True)
    wrets = [i for i in wk.all_nodes() if wk.N(i)['k'] in ('ReturnStmt', 'BreakStmt') and (wk.N(i)['k'] == 'ReturnStmt' or len(q.enclosing_loops(wk, i)) == 1)]
    wrets = [i for i in wrets if not any(wk.N(a)['k'] == 'CXXCatchStmt' for a in wk.ancestors(i))]
    ctx.check(bool(g_sd) and bool(wrets) and all(wk.only_through(i, g_sd) for i in wrets),
              R13, 'worker:leaves-only-on-shutdown', 'a worker leaves its loop although the pool is not shut down (queued jobs are then never run)', wk.where)
    # not shut down: the loop continues (no exit reachable with the shutdown edges cut)
    reach = wk.reachable_blocks(cut_edges=g_sd)
    ctx.check(wk.exit not in reach, R13, 'worker:keeps-serving-until-shutdown', 'the worker function can end without shut_down_ having been seen', wk.where)
    g_nonempty = wq.gate_edges(lambda atom, pol: wq.N(atom)['k'] == 'CXXMemberCallExpr' and q.short_of(wq.callee(atom) or '') == 'empty' and model.strip_targs(wq.ref_of(wq.obj(atom)) or '').endswith('thread_pool::queue_') and pol is False) + \
        wq.gate_edges(lambda atom, pol: wq.N(atom)['k'] == 'BinaryOperator' and any(q.short_of(wq.callee(j) or '') == 'size' and model.strip_targs(wq.ref_of(wq.obj(j)) or '').endswith('thread_pool::queue_') for j in wq.calls(atom)) and
                      wq.const_value(wq.N(atom)['ch'][1]) == 0 and pol is (wq.N(atom).get('op') in ('!=', '>')))
    g_empty = wq.gate_edges(lambda atom, pol: wq.N(atom)['k'] == 'CXXMemberCallExpr' and q.short_of(wq.callee(atom) or '') == 'empty' and model.strip_targs(wq.ref_of(wq.obj(atom)) or '').endswith('thread_pool::queue_') and pol is True) + \
        wq.gate_edges(lambda atom, pol: wq.N(atom)['k'] == 'BinaryOperator' and any(q.short_of(wq.callee(j) or '') == 'size' and model.strip_targs(wq.ref_of(wq.obj(j)) or '').endswith('thread_pool::queue_') for j in wq.calls(atom)) and
                      wq.const_value(wq.N(atom)['ch'][1]) == 0 and pol is (wq.N(atom).get('op') in ('==', '<=')))
    takes = sw + pop + q.field_calls(wq, 'thread_pool::queue_', 'front')
    ctx.check(bool(g_nonempty) and bool(takes) and all(wq.only_through(i, g_nonempty) for i in takes), R13, 'worker:takes-only-from-a-non-empty-queue', 'front() / pop_front() can run on an empty queue, or a queued job is never taken', wq.where)
    waits = [i for i in wq.calls() if q.short_of(wq.callee(i) or '') in ('wait', 'wait_for', 'wait_until')]
    ctx.check(bool(waits) and bool(g_empty) and all(wq.only_through(i, g_empty) for i in waits), R13, 'worker:waits-only-when-nothing-is-queued', 'the worker sleeps although a job is queued (it may never be woken for it)', wq.where)
    if jobs:
        jv = wk.ref_of(wk.N(jobs[0])['ch'][1])
        g_job = wk.gate_edges(lambda atom, pol: (wk.ref_of(atom) == jv or (wk.N(atom)['k'] in model.CALL_KINDS and 'operator bool' in (wk.callee(atom) or '') and jv in wk.subtree_refs(atom))) and pol is True)
        okj = bool(g_job) and wk.only_through(jobs[0], g_job)
        if okj:
            for (b_, s_, lab_, tag_) in g_job:
                rb = wk.reachable_blocks(start=s_, cut_blocks=[wk.point_of(jobs[0])[0]])
                back = [wk.point_of(L_)[0] for L_ in q.loops(wk) if wk.point_of(L_) is not None]
                if wk.exit in rb:
                    okj = False
        ctx.check(okj, R13, 'worker:a-held-job-is-invoked', 'the job is invoked when the worker holds none, or a held job is dropped', wk.loc(jobs[0]))
    jn = [i for i in st.calls() if q.short_of(st.callee(i) or '') == 'join']
    okj = len(jn) == 1
    if okj:
        lp = q.enclosing_loops(st, jn[0])
        cl = q.counting_loop(st, lp[0]) if len(lp) == 1 else None
        onw = lambda f_, j: f_.obj(j) is not None and model.strip_targs(f_.ref_of(f_.obj(j)) or '').endswith('thread_pool::workers_')
        if cl is not None:
            okj = cl['start'] == 0 and cl['step'] == 1 and cl['op'] in ('<', '!=') and any(q.short_of(st.callee(j) or '') == 'size' and onw(st, j) for j in st.calls(cl['bound']))
            lvar = cl['var']
        else:
            okj = len(lp) == 1 and q.whole_loop(st, lp[0], onw)
            lv_ = [x for x in st.subtree_refs(st.N(lp[0]).get('cond', lp[0])) if x.startswith('v:')] if okj and st.N(lp[0])['k'] != 'CXXForRangeStmt' else []
            lvar = lv_[0] if lv_ else (st.N(lp[0]).get('var') if okj else None)
        if okj:
            tv = st.ref_of(st.obj(jn[0])) or ([x for x in st.subtree_refs(jn[0]) if x.startswith('v:')] or [None])[0]
            srcs = [val for (dn, val) in st.defs_of_var(tv) if val is not None] if tv else []
            okj = bool(srcs) and all(lvar in q.deep_refs(st, v_) and (cl is None or any(model.strip_targs(x).endswith('thread_pool::workers_') for x in q.deep_refs(st, v_))) for v_ in srcs)
            g_thr = st.gate_edges(lambda atom, pol: (st.ref_of(atom) == tv or (st.N(atom)['k'] in model.CALL_KINDS and 'operator bool' in (st.callee(atom) or '') and tv in st.subtree_refs(atom))) and pol is True)
            okj = okj and bool(g_thr) and st.only_through(jn[0], g_thr)
            for (b_, s_, lab_, tag_) in g_thr:
                rb = st.reachable_blocks(start=s_, cut_blocks=[st.point_of(jn[0])[0]])
                if st.exit in rb:
                    okj = False
            okj = okj and bool(w) and q.before(st, w[0], jn[0]) and not [j for j in st.walk(st.N(lp[0])['body']) if st.N(j)['k'] in ('BreakStmt', 'ContinueStmt', 'ReturnStmt', 'GotoStmt')]
    ctx.check(okj, R13, 'stop:joins-every-existing-worker-after-flagging', 'stop() does not join workers_[i] for every i after setting shut_down_', st.where)
    pubs = [f for f in P.fns.values() if f.brecord == 'cppcms::thread_pool' and f.body is not None and f.short in ('post', 'cancel', 'stop')]
    ctx.require(len(pubs) == 3, 'C17.R13: cppcms::thread_pool::post / cancel / stop not found')
    for f in sorted(pubs, key=lambda g: g.id):
        fw = [i for i in f.calls() if f.bcallee(i) == TP + '::' + f.short]
        okw = len(fw) == 1 and [f.ref_of(x) for x in f.args(fw[0])] == [q.param_by_index(f, k) for k in range(len(f.params))] and q.always_before_exit(f, fw)
        if okw and f.short != 'stop':
            rr = [i for i in f.returns() if f.ret_value(i) is not None]
            okw = bool(rr) and all(f.strip(f.ret_value(i)) == fw[0] for i in rr) and q.always_before_exit(f, rr)
        ctx.check(okw, R13, 'thread_pool::%s:forwards' % f.short, 'the public wrapper does not forward to (and return the result of) impl::thread_pool::%s' % f.short, f.where)
    cls_ = q.loops(cnl)
    oks_ = len(cls_) == 1
    if oks_:
        n_ = cnl.N(cls_[0])
        onq = lambda j: cnl.obj(j) is not None and model.strip_targs(cnl.ref_of(cnl.obj(j)) or '').endswith('thread_pool::queue_')

        def conj(e):
            e = cnl.strip(e)
            m_ = cnl.N(e)
            if m_['k'] == 'BinaryOperator' and m_.get('op') == '&&':
                return conj(m_['ch'][0]) + conj(m_['ch'][1])
            return [e]
        atoms = conj(n_['cond']) if n_.get('cond', -1) not in (None, -1) else []
        endat = [a_ for a_ in atoms if any(q.short_of(cnl.callee(j) or '') == 'end' and onq(j) for j in cnl.calls(a_))]
        oks_ = len(endat) == 1
        if oks_:
            cn_ = cnl.N(endat[0])
            iv = [x for x in cnl.subtree_refs(endat[0]) if x.startswith('v:')]
            vals = [v_ for x in iv for (d_, v_) in cnl.defs_of_var(x) if v_ is not None]
            oks_ = ((cn_.get('op') in ('!=', '<')) or (cn_.get('k') == 'UnaryOperator' and cn_.get('op') == '!' and cnl.N(cnl.strip(cn_['ch'][0])).get('op') == '==')) and \
                any(q.short_of(cnl.callee(j) or '') == 'begin' and onq(j) for v_ in vals for j in cnl.calls(v_)) and \
                all(cnl.N(j)['k'] == 'ReturnStmt' and er and q.before(cnl, er[0], j) for j in cnl.walk(n_['body']) if cnl.N(j)['k'] in ('BreakStmt', 'ReturnStmt', 'GotoStmt', 'ContinueStmt'))
            # any further conjunct is a "found" flag: a local that is only set after the erase
            for a_ in atoms:
                if a_ == endat[0]:
                    continue
                fv = [x for x in cnl.subtree_refs(a_) if x.startswith('v:')]
                sets = [dn for x in fv for (dn, v_) in cnl.defs_of_var(x) if v_ is not None and cnl.contains(n_['body'], dn)]
                oks_ = oks_ and len(fv) == 1 and not list(cnl.calls(a_)) and bool(sets) and all(er and q.before(cnl, er[0], dn) for dn in sets)
    elif not cls_:
        oks_ = any(q.short_of(cnl.callee(j) or '') in ('find_if', 'remove_if') for j in cnl.calls())
    ctx.check(oks_, R13, 'cancel:searches-the-whole-queue', 'cancel does not look at every queued job (from begin() while != end(), leaving early only after the erase)', cnl.where)
    for f in (ps, cnl):
        rr = [i for i in f.returns() if f.ret_value(i) is not None]
        ctx.check(bool(rr) and q.always_before_exit(f, rr), R13, '%s:result-on-every-path' % f.short, 'a path ends without a return value', f.where)
    dts = [f for f in tpg if f.kind == 'dtor' and f.body is not None]
    ctx.check(bool(dts) and any(f.bcallee(i) == TP + '::stop' for f in dts for i in f.calls()), R13, '~thread_pool:stops-the-workers', 'destroying the pool does not stop and join its workers', dts[0].where if dts else st.where)
    ctx.floor(R13, 14)

    # ---- R14 teardown of a device cancels what is pending on it; the connect adapter hands on every error of the wait
    R14 = ctx.rule('C17.R14', 'basic_io_device::close(ec) reaches cancel() for every open device attached to a loop, whether or not the device owns its descriptor (a pending handler of a non-owning device must still be '
                              'completed with `canceled`); async_connect\'s completion adapter passes the error of the wait to the user\'s handler for every error except exactly select_failed, compared as a whole '
                              'error code, and consults SO_ERROR only otherwise')
    cls14 = [g for g in P.fns.values() if g.bname == 'booster::aio::basic_io_device::close' and g.params and g.body is not None]
    ctx.require(len(cls14) == 1, 'C17.R14: basic_io_device::close(error_code&) not found')
    cf = cls14[0]
    cn14 = [i for i in cf.calls() if (cf.bcallee(i) or '') in ('booster::aio::basic_io_device::cancel', 'booster::aio::io_service::cancel_io_events')]
    OWN = 'basic_io_device::owner_'
    g_own = cf.gate_edges(lambda atom, pol: model.strip_targs(cf.ref_of(atom) or '').endswith(OWN) and pol is True)
    ok14 = len(cn14) == 1
    if ok14:
        reach = cf.reachable_blocks(cut_edges=g_own)
        ok14 = cf.point_of(cn14[0])[0] in reach
        # and with ownership: still reached
        g_nown = cf.gate_edges(lambda atom, pol: model.strip_targs(cf.ref_of(atom) or '').endswith(OWN) and pol is False)
        ok14 = ok14 and cf.point_of(cn14[0])[0] in cf.reachable_blocks(cut_edges=g_nown)
        # the descriptor is closed / forgotten only after the cancellation
        later = [i for i in cf.calls() if 'close_file_descriptor' in (cf.callee(i) or '')] + q.field_writes(cf, 'basic_io_device::fd_')
        ok14 = ok14 and all(not q.reaches(cf, i, cn14[0]) for i in later)
    ctx.check(ok14, R14, 'basic_io_device::close:cancels-pending-waits-owner-or-not', 'close() does not reach cancel() for a device that does not own its descriptor (or forgets the descriptor first): a pending handler is never run', cf.where)
    acs = [g for g in P.fns.values() if 'async_connector::operator()' in g.id and g.body is not None]
    ctx.require(len(acs) == 1, 'C17.R14: async_connector::operator() not found')
    ac = acs[0]
    ep = q.param_by_index(ac, 0)
    hcalls = [i for i in ac.calls() if ac.N(i)['k'] == 'CXXOperatorCallExpr' and ac.N(i).get('op') == '()' and 'callback' in (ac.callee(i) or '')]
    direct = [i for i in hcalls if ac.ref_of(ac.N(i)['ch'][2]) == ep]
    so = [i for i in ac.calls() if (ac.callee(i) or '').startswith('getsockopt')]
    okc14 = len(direct) == 1 and len(so) == 1
    why14 = 'the adapter does not have one hand-over of the wait\'s error and one SO_ERROR lookup'
    if okc14:
        def whole_cmp(atom):
            n_ = ac.N(atom)
            if n_['k'] != 'CXXOperatorCallExpr' or n_.get('op') not in ('!=', '=='):
                return False
            a_, b_ = n_['ch'][1], n_['ch'][2]
            for x_, y_ in ((a_, b_), (b_, a_)):
                if ac.ref_of(x_) == ep and any(r_.endswith('aio_error::select_failed') for r_ in ac.subtree_refs(y_)) and any(r_.endswith('aio_error_cat') for r_ in ac.subtree_refs(y_)):
                    return True
            return False
        g_set = ac.gate_edges(lambda atom, pol: (ac.ref_of(atom) == ep or (ac.N(atom)['k'] in model.CALL_KINDS and 'operator bool' in (ac.callee(atom) or '') and ep in ac.subtree_refs(atom))) and pol is True)
        g_unset = ac.gate_edges(lambda atom, pol: (ac.ref_of(atom) == ep or (ac.N(atom)['k'] in model.CALL_KINDS and 'operator bool' in (ac.callee(atom) or '') and ep in ac.subtree_refs(atom))) and pol is False)
        g_other = ac.gate_edges(lambda atom, pol: whole_cmp(atom) and pol is (ac.N(atom)['op'] == '!='))
        g_sf = ac.gate_edges(lambda atom, pol: whole_cmp(atom) and pol is (ac.N(atom)['op'] == '=='))
        # every condition atom that mentions e is one of the two recognised forms
        atoms_e = [a_ for a_ in ac.all_nodes() if ac.N(a_)['k'] in ('CXXOperatorCallExpr', 'CXXMemberCallExpr', 'BinaryOperator') and ep in ac.subtree_refs(a_) and a_ not in hcalls and
                   not any(ac.contains(h_, a_) for h_ in hcalls) and (ac.N(a_).get('op') in ('==', '!=', '<', '>') or q.short_of(ac.callee(a_) or '') in ('category', 'value'))]
        okc14 = bool(g_set) and bool(g_other) and ac.only_through(direct[0], g_set) and ac.only_through(direct[0], g_other) and all(whole_cmp(a_) for a_ in atoms_e) and \
            ac.only_through(so[0], g_unset + g_sf)
        why14 = 'the error of the wait is not handed to the handler for every error other than exactly select_failed (whole error code), or SO_ERROR is consulted after such an error'
        if okc14:
            # after the direct hand-over nothing else runs
            okc14 = not q.reaches(ac, direct[0], so[0])
            why14 = 'after handing on the error the adapter goes on to SO_ERROR and calls the handler again'
    ctx.check(okc14, R14, 'async_connector:error-of-the-wait-handed-on-except-select_failed', why14, ac.where)
    # cancelling a descriptor makes the reactor forget it too
    cans = [g for g in P.fns.values() if 'io_event_canceler::operator()' in g.id and g.body is not None]
    ctx.require(len(cans) == 1, 'C17.R14: io_event_canceler::operator() not found')
    cn_ = cans[0]
    rm_ = [i for i in cn_.calls() if (cn_.bcallee(i) or '') == 'booster::aio::reactor::remove']
    okr = len(rm_) == 1 and q.always_before_exit(cn_, rm_)
    if len(rm_) == 1 and not okr:
        # skipping the reactor for a descriptor that is not armed is fine - but only if "armed" is what the record said before it was cleared
        CE = 'io_data::current_event'
        zero_w = [w_ for w_ in q.field_writes(cn_, CE) if cn_.N(w_)['k'] == 'BinaryOperator' and cn_.const_value(cn_.N(w_)['ch'][1]) == 0]
        atoms = [a_ for a_ in cn_.all_nodes() if cn_.N(a_)['k'] == 'BinaryOperator' and cn_.N(a_).get('op') in ('!=', '==') and any(model.strip_targs(x).endswith(CE) for x in cn_.subtree_refs(a_)) and cn_.point_of(a_) is not None]
        g_un = cn_.gate_edges(lambda atom, pol: cn_.N(atom)['k'] == 'BinaryOperator' and cn_.N(atom).get('op') in ('!=', '==') and any(model.strip_targs(x).endswith(CE) for x in cn_.subtree_refs(atom)) and
                              cn_.const_value(cn_.N(atom)['ch'][1]) == 0 and pol is (cn_.N(atom)['op'] == '=='))
        reach = cn_.reachable_blocks(cut_edges=g_un, cut_blocks=[cn_.point_of(rm_[0])[0]])
        okr = bool(g_un) and cn_.exit not in reach and bool(atoms) and all(not q.reaches(cn_, w_, a_) for w_ in zero_w for a_ in atoms)
    ctx.check(okr, R14, 'io_event_canceler:reactor-forgets-the-descriptor', 'a cancelled descriptor stays registered in the reactor (the next connection that gets the same number is never armed)', cn_.where)
    # the epoll reactor's own record of what each descriptor is armed for follows every call, also one whose epoll_ctl failed
    eps = [g for g in P.fns.values() if g.short == 'select' and (g.record or '').endswith('epoll_reactor') and g.body is not None]
    if eps:
        ep = eps[0]
        flp = q.param_by_index(ep, 1)
        ws_ = [w_ for w_ in q.field_writes(ep, 'events_') if flp in ep.subtree_refs(ep.N(w_)['ch'][-1])] or \
              [i for i in ep.all_nodes() if ep.N(i)['k'] in ('BinaryOperator', 'CXXOperatorCallExpr') and ep.N(i).get('op') == '=' and any(model.strip_targs(x).endswith('::events_') for x in ep.subtree_refs(ep.N(i)['ch'][-2])) and flp in ep.subtree_refs(ep.N(i)['ch'][-1])]
        g_chk = q.call_gate(ep, lambda i: q.short_of(ep.callee(i) or '') == 'check', True)
        oke = len(ws_) == 1 and bool(g_chk)
        if oke:
            for (b_, s_, lab_, tag_) in g_chk:
                if ep.exit in ep.reachable_blocks(start=s_, cut_blocks=[ep.point_of(ws_[0])[0]]):
                    oke = False
        ctx.check(oke, R14, 'epoll_reactor::select:record-updated-on-every-path', 'the per-descriptor record of armed events is not updated on some path (after a failed epoll_ctl): a later descriptor with the same number is '
                  'never armed, or modified instead of added', ep.where)
    else:
        ctx.notes.append('C17.R14: epoll reactor not compiled in this configuration')
    # the device's record of the descriptor's blocking mode follows every change of that mode
    snb = [g for g in P.fns.values() if g.bname == 'booster::aio::basic_io_device::set_non_blocking' and len(g.params) == 2 and g.body is not None]
    if snb:
        f_ = snb[0]
        mode_calls = [i for i in f_.calls() if (f_.callee(i) or '') in ('fcntl', 'ioctl', 'ioctlsocket')]
        wr_ = [w_ for w_ in q.field_writes(f_, 'basic_io_device::nonblocking_was_set_') if f_.ref_of(f_.N(w_)['ch'][-1]) == q.param_by_index(f_, 0)]
        setters = [i for i in mode_calls if len(f_.args(i)) >= 2 and f_.const_value(f_.args(i)[1]) not in (3,)]      # F_GETFL = 3 only reads
        okn = len(wr_) == 1 and bool(setters) and all(q.reaches(f_, i, wr_[0]) for i in setters)
        ctx.check(okn, R14, 'basic_io_device::set_non_blocking:record-follows-the-descriptor', 'after the mode of the descriptor was changed the cached mode is not updated: a later set_non_blocking_if_needed() skips the change it '
                  'should make (a synchronous write then runs on a non-blocking socket and treats EAGAIN as fatal)', f_.where)
    ctx.floor(R14, 3)

    # ---- R8 wake after enqueue
    wake_entries = [(g, 'post#%d' % k) for k, g in enumerate(sorted(P.by_bname.get(EL + '::post', []), key=lambda g: g.id))]
    wake_entries += [(P.fn(EL + '::stop'), 'stop'), (P.fn(EL + '::cancel_timer_event'), 'cancel_timer_event'), (P.fn(EL + '::set_timer_event'), 'set_timer_event')]
    wake_entries += [(g, 'set_event#%d' % k) for k, g in enumerate(sorted([x for x in P.fns.values() if x.bname == EL + '::set_event'], key=lambda g: g.id))]
    for f, name in wake_entries:
        muts = q.field_calls(f, 'event_loop_impl::dispatch_queue_', 'push_back') + q.field_writes(f, 'event_loop_impl::stop_') + q.field_calls(f, 'event_loop_impl::timer_events_', 'insert')
        ctx.require(muts, 'C17.R8: %s does not enqueue anything' % f.id)
        wakes = [i for i in f.calls() if f.bcallee(i) == EL + '::wake']

        def nopoll(atom, pol):
            refs = [model.strip_targs(r) for r in f.subtree_refs(atom)]
            if any(r.endswith('event_loop_impl::polling_') for r in refs) and pol is False and f.N(atom)['k'] in ('MemberExpr',):
                return True
            if f.N(atom)['k'] == 'CXXMemberCallExpr' and q.short_of(f.callee(atom)) == 'get' and (q.obj_field(f, atom) or '').endswith('event_loop_impl::reactor_') and pol is False:
                return True
            if name == 'set_timer_event' and pol is False and q.mentions_field_call(f, atom, 'event_loop_impl::timer_events_', 'begin'):
                return True      # the new timer is not the earliest: the running poll timeout is still correct
            return False
        g = f.gate_edges(nopoll)
        for k, mu in enumerate(muts):
            pm = f.point_of(mu)
            cut = q.blocks_of(f, wakes) | f.abnormal_blocks()
            same = any(f.point_of(w)[0] == pm[0] and f.point_of(w)[1] > pm[1] for w in wakes)
            cut.discard(pm[0])
            reach = f.reachable_blocks(start=pm[0], cut_edges=g, cut_blocks=cut, with_catch=False)
            ctx.check(same or f.exit not in reach, R8, '%s:wake-after-enqueue#%d' % (name, k), 'a polling loop is not woken after this enqueue', f.loc(mu))
    pw = q.field_writes(ro, 'event_loop_impl::polling_')
    tw = [w for w in pw if ro.const_value(ro.N(w)['ch'][1]) == 1]
    fw = [w for w in pw if ro.const_value(ro.N(w)['ch'][1]) == 0]
    ctx.check(len(tw) == 1 and polls and q.before(ro, tw[0], polls[0]) and len(fw) >= 2, R8, 'run_one:polling-flag-brackets-poll', 'polling_ flag does not bracket reactor::poll', ro.where)

    # ---- R9
    cx = P.fn(EL + '::io_event_canceler::cancelation_is_needed_with_data_mutex_locked')
    fr = q.false_returns(cx)
    ctx.check(len(fr) >= 1, R9, 'canceler:can-skip', 'no skip path (informational)', cx.where)
    for k, r in enumerate(fr):
        g1 = q.empty_gate(cx, lambda i: (q.obj_field(cx, i) or '').endswith('event_loop_impl::dispatch_queue_'))
        ctx.check(cx.only_through(r, g1), R9, 'canceler:skip#%d:only-if-queue-empty' % k, 'a cancel can be dropped while a registration for the descriptor may still be queued', cx.loc(r))

        def noreg(fld):
            def p(atom, pol):
                refs = [model.strip_targs(x) for x in cx.subtree_refs(atom)]
                if not any(x.endswith(fld) for x in refs):
                    return False
                n = cx.N(atom)
                if fld.endswith('current_event'):
                    return n['k'] == 'BinaryOperator' and n.get('op') == '==' and pol is True and cx.const_value(n['ch'][1]) == 0
                return pol is False
            return p
        for fld in ('io_data::current_event', 'io_data::readable', 'io_data::writeable'):
            ctx.check(cx.only_through(r, cx.gate_edges(noreg(fld))), R9, 'canceler:skip#%d:only-if-no-%s' % (k, fld.rsplit('::', 1)[-1]), 'a cancel can be dropped although %s is set' % fld, cx.loc(r))
    se = [g for g in P.fns.values() if g.bname == EL + '::set_event' and 'io_event_canceler' in g.id]
    ctx.require(se, 'C17.R9: set_event(io_event_canceler&) not found')
    for f in se:
        g = q.call_gate(f, lambda i: q.short_of(f.callee(i)) == 'cancelation_is_needed_with_data_mutex_locked', False)
        rets = [r for r in f.returns()]
        early = [r for r in rets if f.only_through(r, g)]
        la2 = C.la[f.id]
        ck = [i for i in f.calls() if q.short_of(f.callee(i)) == 'cancelation_is_needed_with_data_mutex_locked']
        ctx.check(len(ck) == 1 and la2.at(ck[0]) is not None and (DM, 'X') in la2.at(ck[0]), R9, 'set_event(canceler):check-under-lock', 'cancellation test runs without the lock', f.where)


    # ---------------- R10 the error of the attempt decides
    n10 = 0
    for f in sorted(aiofns, key=lambda g: g.id):
        ios = [i for i in f.calls() if q.short_of(f.callee(i)) in ('read_some', 'write_some', 'bytes_readable') and len(f.args(i)) >= 2]
        rearm = [i for i in f.calls() if q.short_of(f.callee(i)) in ('on_readable', 'on_writeable')]
        if not ios or not rearm or f.kind not in ('method',):
            continue
        for i in ios:
            ev = f.ref_of(f.args(i)[-1])
            if not ev or not ev.startswith('v:'):
                continue
            after = [r for r in rearm if q.reaches(f, i, r)]
            if not after:
                continue
            n10 += 1
            g_err = f.gate_edges(lambda atom, pol, ev=ev: ev in f.subtree_refs(atom))
            ok = all(f.only_through(r, [e for e in g_err if len(e) == 4 and q.reaches(f, i, f.blocks[e[0]].tcond if f.blocks[e[0]].tcond is not None else r)]) for r in after)
            ctx.check(ok, R10, '%s:%s:rearm-depends-on-own-error' % (q.fkey(f), q.short_of(f.callee(i))), 'the operation is re-armed after an I/O attempt without looking at the error of that attempt (EOF / reset would be retried forever)', f.loc(i))
            # completion on this path hands over the same error variable
            comp = [c for c in f.calls() if f.N(c)['k'] == 'CXXOperatorCallExpr' and f.N(c).get('op') == '()' and q.reaches(f, i, c) and len(f.args(c)) >= 1]
            comp += [c for c in f.calls() if q.short_of(f.callee(c)) == 'post' and q.reaches(f, i, c) and len(f.args(c)) >= 2]
            for c in comp:
                a = f.args(c)
                if f.N(c)['k'] == 'CXXOperatorCallExpr' and len(a) < 2:
                    continue
                earg = a[1]
                ctx.check(f.ref_of(earg) == ev, R10, '%s:%s:completion-carries-own-error@L%d' % (q.fkey(f), q.short_of(f.callee(i)), f.N(c)['l'] - f.line), 'the handler is completed with an error code other than the one of the I/O attempt', f.loc(c))
                # "until done" objects add every attempt's byte count to a member: the completion reports that total, not the last attempt's share
                nres = [d_['ref'] for j_ in f.all_nodes() if f.N(j_)['k'] == 'DeclStmt' for d_ in f.N(j_)['decls'] if d_.get('init') is not None and f.strip(d_['init']) == i]
                acc = [w_ for w_ in f.all_nodes() if f.N(w_)['k'] == 'CompoundAssignOperator' and f.N(w_).get('op') == '+=' and nres and f.ref_of(f.N(w_)['ch'][1]) == nres[0] and
                       (f.ref_of(f.N(w_)['ch'][0]) or '').startswith('f:')]
                if acc and len(a) >= 3:
                    accf = f.ref_of(f.N(acc[0])['ch'][0])
                    ctx.check(f.ref_of(a[-1]) == accf, R10, '%s:%s:completion-reports-the-accumulated-count@L%d' % (q.fkey(f), q.short_of(f.callee(i)), f.N(c)['l'] - f.line),
                              'the handler is told %s instead of the bytes transferred so far in total (%s): a read / write completed in several pieces is reported short' % (f.ref_of(a[-1]), accf), f.loc(c))
    ctx.require(n10 >= 4 or ctx.violations, 'C17.R10: only %d retry sites found in booster aio' % n10)

    # ---------------- R11 shuffle stays inside the reported events
    from vlib import lin as _lin
    from vlib.lin import Lin as _Lin, ge as _ge
    rz = P.fn(EL + '::randomize_events')
    rnd = P.fn(EL + '::rand')
    # contract of rand(limit): 0 <= result < limit for limit >= 1  --  `(x % M) * limit / M` with the same constant M
    rr = [r for r in rnd.returns() if rnd.ret_value(r) is not None]
    okc = len(rr) == 1
    if okc:
        v = rnd.strip(rnd.ret_value(rr[0]))
        n_ = rnd.N(v)
        okc = n_['k'] == 'BinaryOperator' and n_.get('op') == '/'
        if okc:
            num, den = rnd.strip(n_['ch'][0]), n_['ch'][1]
            M = rnd.const_value(den)
            nn = rnd.N(num)
            okc = M is not None and M > 0 and nn['k'] == 'BinaryOperator' and nn.get('op') == '*'
            if okc:
                lim = q.param_by_index(rnd, 0)
                sides = [rnd.ref_of(c) for c in nn['ch']]
                rv = [x for x in sides if x and x != lim]
                okc = lim in sides and len(rv) == 1 and rv[0].startswith('v:')
                if okc:
                    ds = rnd.defs_of_var(rv[0])
                    okc = len(ds) == 1 and ds[0][1] is not None
                    if okc:
                        top = rnd.N(rnd.strip(ds[0][1]))
                        while top['k'] in ('ParenExpr', 'CStyleCastExpr', 'ImplicitCastExpr', 'CXXStaticCastExpr') and top['ch']:
                            top = rnd.N(rnd.strip(top['ch'][0]))
                        okc = top['k'] == 'BinaryOperator' and top.get('op') == '%' and rnd.const_value(top['ch'][1]) == M
    ctx.check(okc, R11, 'rand:result-below-limit', 'rand(limit) is not (x % M) * limit / M with one constant M: its result is not known to stay below limit', rnd.where)
    lps = q.loops(rz)
    ctx.check(len(lps) == 1, R11, 'randomize_events:single-loop', 'shuffle loop not found', rz.where)
    if len(lps) == 1:
        L = lps[0]
        Ln = rz.N(L)
        S = _lin.Symb(rz)
        evp, np_ = q.param_by_index(rz, 0), q.param_by_index(rz, 1)
        EV, Nn = _Lin.atom(evp), _Lin.atom(np_)
        # induction variables: changed in the loop only by one +-1 step per iteration; initial value from the for-init or the single earlier definition
        ind = {}
        for v in set(r for r in rz.subtree_refs(L) if r.startswith('v:')):
            ws = [w for w in q.writes_to(rz, v, L) if not (Ln.get('init', -1) is not None and Ln.get('init', -1) >= 0 and rz.contains(Ln['init'], w))]
            # a call that receives *v or v[k] by reference changes the pointee, not the variable itself
            ws = [w for w in ws if not (rz.N(w)['k'] in model.CALL_KINDS and not any(rz.ref_of(a_) == v for a_ in rz.args(w)))]
            if len(ws) != 1:
                continue
            w = ws[0]
            m = rz.N(w)
            step = None
            if m['k'] == 'UnaryOperator' and m.get('op') in ('++', '--'):
                step = 1 if m['op'] == '++' else -1
            elif m['k'] == 'CompoundAssignOperator' and m.get('op') in ('+=', '-=') and rz.const_value(m['ch'][1]) == 1:
                step = 1 if m['op'] == '+=' else -1
            if step is None:
                continue
            in_inc = Ln['k'] == 'ForStmt' and Ln.get('inc', -1) is not None and Ln.get('inc', -1) >= 0 and rz.contains(Ln['inc'], w)
            if not in_inc and ([a_ for a_ in rz.ancestors(w) if rz.contains(Ln['body'], a_) and rz.N(a_)['k'] in ('IfStmt', 'SwitchStmt', 'ForStmt', 'WhileStmt', 'DoStmt', 'ConditionalOperator')] or
                               [j for j in rz.walk(Ln['body']) if rz.N(j)['k'] == 'ContinueStmt']):
                continue
            start = None
            init = Ln.get('init', -1) if Ln['k'] == 'ForStmt' else -1
            if init is not None and init >= 0:
                i0 = rz.N(rz.strip(init))
                if i0['k'] == 'DeclStmt':
                    for d in i0['decls']:
                        if d['ref'] == v and d.get('init') is not None:
                            start = d['init']
                elif i0['k'] == 'BinaryOperator' and i0.get('op') == '=' and rz.ref_of(i0['ch'][0]) == v:
                    start = i0['ch'][1]
            if start is None:
                outside = [(d_, v_) for (d_, v_) in rz.defs_of_var(v) if not rz.contains(L, d_)]
                if len(outside) == 1 and outside[0][1] is not None:
                    start = outside[0][1]
            if start is not None:
                ind[v] = (step, S.lin(start), in_inc)
        ctx.check(bool(ind), R11, 'randomize_events:induction-variables', 'no loop counter recognised in the shuffle', rz.loc(L))
        cons = [_ge(Nn - _Lin.const(2))] if [r for r in rz.returns()] or True else []
        # loop condition, steps so far k >= 0: v = start + step*k for every induction variable (lock-step invariant)
        K = _Lin.atom('#iterations')
        cons.append(_ge(K))
        for v, (step, st, _) in ind.items():
            cons.append(_lin.eq(_Lin.atom(v) - st - K.scale(step)))
        if Ln.get('cond', -1) is not None and Ln.get('cond', -1) >= 0:
            cons += S.rel(Ln['cond'], True) or []
        # the guard n >= 2 (either an early return or an enclosing if)
        for j in rz.all_nodes():
            if rz.N(j)['k'] == 'DeclStmt' and rz.contains(Ln['body'], j):
                for d in rz.N(j)['decls']:
                    if d.get('init') is not None:
                        c = [x for x in rz.calls(d['init']) if rz.N(x).get('callee') == rnd.id]
                        if len(c) == 1:
                            arg = S.lin(rz.args(c[0])[0])
                            V = _Lin.atom(d['ref'])
                            cons += [_ge(V), _ge(arg - _Lin.const(1) - V)]

        def elem_index(j):
            """index into evs of an element access: evs[e], p[e], *p with p an induction pointer started at evs (+ offset)"""
            n = rz.N(j)
            if n['k'] == 'ArraySubscriptExpr':
                base, idx = S.lin(n['ch'][0]), S.lin(n['ch'][1])
            elif n['k'] == 'UnaryOperator' and n.get('op') == '*':
                base, idx = S.lin(n['ch'][0]), _Lin.const(0)
            else:
                return None
            return base - EV + idx
        subs = [j for j in rz.walk(Ln['body']) if rz.N(j)['k'] == 'ArraySubscriptExpr' or (rz.N(j)['k'] == 'UnaryOperator' and rz.N(j).get('op') == '*')]
        ctx.check(len(subs) >= 2, R11, 'randomize_events:subscripts', 'no element accesses in the shuffle', rz.where)
        for k, j in enumerate(subs):
            idx = elem_index(j)
            ok = idx is not None and _lin.implies(cons, _ge(idx)) and _lin.implies(cons, _ge(Nn - idx - _Lin.const(1)))
            ctx.check(ok, R11, 'randomize_events:access#%d:inside-0..n' % k, 'the shuffle can touch evs[n] or beyond: a stale record of an earlier poll is treated as a fresh event', rz.loc(j), detail={'index': repr(idx), 'facts': [repr(c_[1]) for c_ in cons]})

    # ---------------- R12 reactor arming and book-keeping agree
    n12 = 0
    for f in sorted(P.fns.values(), key=lambda g: g.id):
        if not f.file.endswith('/aio/src/io_service.cpp'):
            continue
        sels = [i for i in f.calls() if (f.bcallee(i) or '').endswith('reactor::select') and len([a for a in f.args(i) if f.N(a)['k'] != 'CXXDefaultArgExpr']) >= 3]
        for k, c in enumerate(sels):
            ev = f.args(c)[1]
            evr = f.ref_of(ev)
            ws = [w for w in q.field_writes(f, 'io_data::current_event') if q.reaches(f, c, w)]
            if not ws:
                continue
            for m, w in enumerate(ws):
                n12 += 1
                n = f.N(w)
                rhs = n['ch'][-1]
                same = n.get('op') == '=' and ((evr is not None and f.ref_of(rhs) == evr) or f.const_value(rhs) == 0)
                # the variable may only be zeroed (failed arming) between the call and the record
                mid = [x for x in (q.writes_to(f, evr) if evr and evr.startswith(('v:', 'p:')) else []) if q.between(f, c, x, w)]
                clean = all(f.N(x)['k'] == 'BinaryOperator' and f.N(x).get('op') == '=' and f.const_value(f.N(x)['ch'][1]) == 0 for x in mid)
                ctx.check(same and clean, R12, '%s:select#%d:record#%d:same-event-set' % (f.record.split('::')[-1] + '::' + f.short if f.record else f.short, k, m),
                          'the event set recorded for the descriptor differs from the one handed to the reactor: a later readiness event completes (or drops) a wait that was not satisfied', f.loc(w))
    ctx.require(n12 >= 2 or ctx.violations, 'C17.R12: reactor::select / current_event pairs not found')
    ctx.floor(R1, 80)
    ctx.floor(R12, 2)
    ctx.floor(R2, 7)
    ctx.floor(R3, 9)
    ctx.floor(R4, 12)
    ctx.floor(R5, 5)
    ctx.floor(R6, 30)
    ctx.floor(R7, 8)
    ctx.floor(R8, 8)
    ctx.floor(R9, 5)
    ctx.floor(R10, 6)
    ctx.floor(R11, 4)
    ctx.trust('guarded-by tables in rules/C17.py; std::recursive_mutex / condition_variable semantics')
    ctx.assume('io_service::reset() is only called while no thread runs the loop (documented)')
