"""C06 — session state carries over between requests exactly, never after it ended (structural clauses)."""
from vlib import build, model, q, lockset, linbound
from vlib.lin import Lin, ge
from vlib.build import AnalysisBroken, REPO
from rules.C05 import load, REL_NOT_EXPIRED, SWAP

SID = 'cppcms::sessions::session_sid'
ST = 'cppcms::sessions::session_storage'
MS = 'cppcms::sessions::session_memory_storage'


def storage_calls(f, which=None):
    return [i for i in f.calls() if (f.bcallee(i) or '').startswith(ST + '::') and (which is None or q.short_of(f.callee(i)) in which)]


def run(ctx):
    ctx.explanation = ('Provenance (reaching definitions + gate edges) of every session id handed to the storage back-end, pairing rules for id renewal and removal, '
                       'expiry gates on every session_api::load overrider, lockset of the in-memory storage, index/record agreement of the in-memory storage, '
                       'and linear bounds of the session (de)serialiser.')
    P = load(ctx, ['src/session_sid.cpp', 'src/session_dual.cpp', 'src/session_cookies.cpp', 'src/session_memory_storage.cpp', 'src/session_interface.cpp'])
    R1 = ctx.rule('C06.R1', 'every id given to storage load/save/remove is a validated cookie id or a freshly generated one')
    R2 = ctx.rule('C06.R2', 'new ids come only from the random device; renewing removes the OLD id and saves under the NEW one')
    R3 = ctx.rule('C06.R3', 'every session_api::load overrider returns data only after the deadline-vs-time() test; expired records are removed')
    R4 = ctx.rule('C06.R4', 'session_memory_storage state only under mutex_ (writes exclusive)')
    R5 = ctx.rule('C06.R5', 'session (de)serialiser: header and payload reads stay inside the string; limits agree with the bit-field widths')
    R10 = ctx.rule('C06.R10', 'session (de)serialiser agree: every entry is written as header(key length, exposed flag, value length) + key + value, for all entries in order; the reader takes the key from the 4 bytes after the header start for key_size bytes, the value right behind it for data_size bytes, advances by exactly header + key + value, and stores value and flag under that key')
    R11 = ctx.rule('C06.R11', 'cookie-only storage: what is saved is deadline (sizeof(time_t) bytes) + data, encrypted, base64url-encoded behind the letter C and handed to set_session_cookie; load undoes exactly that - text after the C decoded, decrypted, the first sizeof(time_t) bytes are the deadline, the rest is handed out as the data')
    R12 = ctx.rule('C06.R12', 'session_interface: a changed or new non-empty session is always written (serialised data_, deadline from session_age(), cookie from cookie_age()); saving is skipped only for an unchanged session, an emptied session clears the stored one; load installs what the storage returned; a fixed-deadline session that already existed keeps its original deadline')
    R6 = ctx.rule('C06.R6', 'session_dual dispatches on the cookie type and clears the server record when switching to client storage')
    R7 = ctx.rule('C06.R7', 'in-memory storage: the expiry index entry of a record is keyed by the deadline stored in the record')

    # ---------------- R1 / R2
    vs = P.fn(SID + '::valid_sid')
    for name in ('save', 'load', 'clear'):
        f = P.fn(SID + '::' + name)
        g_valid = q.call_gate(f, lambda i: f.bcallee(i) == SID + '::valid_sid', True)
        for k, c in enumerate(storage_calls(f, ('load', 'save', 'remove'))):
            op = q.short_of(f.callee(c))
            a0 = f.args(c)[0]
            ref = f.ref_of(a0)
            ctx.check(ref is not None and ref.startswith('v:'), R1, '%s:%s#%d:id-is-local' % (name, op, k), 'storage id is not a tracked local', f.loc(c))
            if not ref:
                continue
            rds = f.reaching_defs(ref, c)
            ok = True
            kinds = set()
            for d in rds:
                if d == '<entry>':
                    ok = False
                    continue
                n = f.N(d)
                if n['k'] in model.CALL_KINDS and f.bcallee(d) == SID + '::valid_sid':
                    kinds.add('validated')
                    if not f.def_reaches_only_through(ref, d, c, g_valid):
                        ok = False
                elif n['k'] in ('CXXOperatorCallExpr', 'BinaryOperator') and n.get('op') == '=':
                    val = [v for (dd, v) in f.defs_of_var(ref) if dd == d][0]
                    if val is not None and any(f.bcallee(j) == SID + '::get_new_sid' for j in f.calls(val)):
                        kinds.add('fresh')
                    else:
                        ok = False
                else:
                    ok = False     # e.g. the default-constructed (empty) id reaches the storage
            ctx.check(ok and bool(rds), R1, '%s:%s#%d:id-validated-or-fresh' % (name, op, k), 'an unvalidated / empty id can reach the storage back-end', f.loc(c), detail={'sources': sorted(kinds)})
            if op == 'remove':
                ctx.check(kinds == {'validated'}, R2, '%s:remove#%d:removes-the-presented-id' % (name, k), 'remove() is applied to %s id instead of the id presented by the client' % sorted(kinds), f.loc(c))
    sv = P.fn(SID + '::save')
    newp = q.param_by_index(sv, 3)
    g_valid = q.call_gate(sv, lambda i: sv.bcallee(i) == SID + '::valid_sid', True)
    g_invalid = q.call_gate(sv, lambda i: sv.bcallee(i) == SID + '::valid_sid', False)
    rm = storage_calls(sv, ('remove',))
    fresh = [i for i in sv.all_nodes() if sv.N(i)['k'] in ('CXXOperatorCallExpr', 'BinaryOperator') and sv.N(i).get('op') == '=' and
             any(sv.bcallee(j) == SID + '::get_new_sid' for j in sv.calls(i))]
    ctx.check(len(fresh) >= 1, R2, 'save:generates-new-id', 'save never generates a new id', sv.where)
    # a new id for a valid presented id is generated only after the old record was removed
    reach = sv.reachable_blocks(cut_edges=g_invalid, cut_blocks=q.blocks_of(sv, rm), with_catch=False)
    for k, i in enumerate(fresh):
        ctx.check(sv.point_of(i)[0] not in reach or not sv.only_through(i, g_valid) and _only_invalid(sv, i, g_valid), R2, 'save:new-id#%d:old-record-removed-first' % k,
                  'a presented valid id is replaced without removing its record (session fixation / leak)', sv.loc(i))
    ssave = storage_calls(sv, ('save',))
    ctx.check(len(ssave) == 1, R2, 'save:single-storage-save', 'expected exactly one storage save', sv.where)
    if ssave:
        ref = sv.ref_of(sv.args(ssave[0])[0])
        g_keep = sv.gate_edges(lambda atom, pol: sv.ref_of(atom) == newp and pol is False)
        for d in sv.reaching_defs(ref, ssave[0]):
            if d != '<entry>' and sv.N(d)['k'] in model.CALL_KINDS and sv.bcallee(d) == SID + '::valid_sid':
                ctx.check(sv.def_reaches_only_through(ref, d, ssave[0], g_keep), R2, 'save:presented-id-kept-only-if-not-new_data',
                          'data marked new can be saved under the id the client presented', sv.loc(ssave[0]))
        ck = [i for i in sv.calls() if q.short_of(sv.callee(i)) == 'set_session_cookie']
        ctx.check(len(ck) == 1 and ref in sv.subtree_refs(ck[0]) and q.before(sv, ssave[0], ck[0]), R2, 'save:cookie-carries-saved-id', 'cookie does not carry the id the data was saved under', sv.where)
    gn = P.fn(SID + '::get_new_sid')
    callees = set((gn.bcallee(i) or '') for i in gn.calls())
    gen = [i for i in gn.calls() if gn.bcallee(i) == 'cppcms::urandom_device::generate']
    ctx.check(len(gen) == 1 and (gn.const_value(gn.args(gen[0])[1]) or 0) >= 16, R2, 'get_new_sid:>=16-random-bytes', 'fewer than 16 bytes of randomness', gn.where)
    allowed = ('cppcms::urandom_device::', 'cppcms::impl::tohex', 'std::')
    other = [c for c in callees if c and not c.startswith(allowed)]
    ctx.check(not other, R2, 'get_new_sid:only-random-device', 'id derived from %s' % other, gn.where)
    th = [i for i in gn.calls() if gn.bcallee(i) == 'cppcms::impl::tohex']
    ok = False
    if gen and th:
        buf = gn.ref_of(gn.args(gen[0])[0])
        ok = gn.ref_of(gn.args(th[0])[0]) == buf and gn.const_value(gn.args(th[0])[1]) == gn.const_value(gn.args(gen[0])[1]) and q.before(gn, gen[0], th[0])
        rets = [r for r in gn.returns() if gn.ret_value(r) is not None]
        ok = ok and all(gn.ref_of(gn.args(th[0])[2]) in gn.subtree_refs(gn.ret_value(r)) for r in rets)
    ctx.check(ok, R2, 'get_new_sid:all-random-bytes-encoded', 'returned id is not the hex of all generated bytes', gn.where)
    cl = P.fn(SID + '::clear')
    cc = [i for i in cl.calls() if q.short_of(cl.callee(i)) == 'clear_session_cookie']
    ctx.check(bool(cc) and q.always_before_exit(cl, cc), R2, 'clear:cookie-always-cleared', 'clear leaves the cookie', cl.where)
    ctx.check(bool(storage_calls(cl, ('remove',))), R2, 'clear:record-removed', 'clear leaves the server record', cl.where)

    # ---------------- R3
    loads = P.overriders_of('cppcms::session_api::load')
    ctx.require(len(loads) >= 3, 'C06.R3: fewer than 3 session_api::load overriders (%d)' % len(loads))
    for f in sorted(loads, key=lambda g: g.id):
        short = f.brecord.rsplit('::', 1)[-1]
        succ = q.nonfalse_returns(f)
        if short == 'session_dual':
            ok = bool(succ) and all(any((f.bcallee(j) or '').endswith('::load') and (f.bcallee(j) or '').startswith('cppcms::sessions::session_') for j in f.calls(f.ret_value(r))) for r in succ)
            ctx.check(ok, R3, 'session_dual::load:returns-delegate-result', 'session_dual::load reports success on its own', f.where)
            continue
        tpar = q.param_by_index(f, 2)
        dl = {tpar}
        for i in f.calls():
            if f.callee(i) == 'memcpy':
                s = f.strip(f.args(i)[0])
                while f.N(s)['k'] in ('UnaryOperator', 'CStyleCastExpr', 'ImplicitCastExpr'):
                    s = f.strip(f.N(s)['ch'][0])
                if f.N(s).get('ref'):
                    dl.add(f.N(s)['ref'])

        def fresh_pred(atom, pol, f=f, dl=dl):
            n = f.N(atom)
            if n['k'] != 'BinaryOperator' or n.get('op') not in SWAP:
                return False
            l, r = n['ch']
            lt = any(f.callee(j) == 'time' for j in f.calls(l))
            rt = any(f.callee(j) == 'time' for j in f.calls(r))
            op = n['op']
            if lt and not rt:
                op, l, r = SWAP[op], r, l
            elif not (rt and not lt):
                return False
            return bool(f.subtree_refs(l) & dl) and (op, pol) in REL_NOT_EXPIRED
        g = f.gate_edges(fresh_pred)
        ctx.check(bool(succ) and all(f.only_through(r, g) for r in succ), R3, '%s::load:success-only-if-not-expired' % short, 'a session can be loaded after its deadline', f.where)
    ld = P.fn(SID + '::load')
    g_exp = ld.gate_edges(lambda atom, pol: ld.N(atom)['k'] == 'BinaryOperator' and ld.N(atom).get('op') in ('>', '<', '>=', '<=') and any(ld.callee(j) == 'time' for j in ld.calls(atom)) and
                          ((ld.N(atom)['op'] in ('>', '>=') and any(ld.callee(j) == 'time' for j in ld.calls(ld.N(atom)['ch'][0])) and pol is True) or
                           (ld.N(atom)['op'] in ('<', '<=') and any(ld.callee(j) == 'time' for j in ld.calls(ld.N(atom)['ch'][1])) and pol is True)))
    rm = storage_calls(ld, ('remove',))
    ctx.check(len(rm) == 1 and ld.only_through(rm[0], g_exp), R3, 'session_sid::load:expired-record-removed', 'expired record is not removed (or a live one is)', ld.where)
    g_ok = q.call_gate(ld, lambda i: ld.bcallee(i) == ST + '::load', True)
    ctx.check(all(ld.only_through(r, g_ok) for r in q.nonfalse_returns(ld)), R3, 'session_sid::load:success-only-if-storage-hit', 'success without a storage hit', ld.where)

    # ---------------- R4 lockset
    MM = 'f:%s::mutex_' % MS
    tbl = {('f:%s::%s' % (MS, fld)): {'r': [frozenset([(MM, 'S')])], 'w': [frozenset([(MM, 'X')])]} for fld in ('map_', 'timeout_')}
    for fld in ('timeout', 'info', 'timeout_ptr'):
        tbl['f:%s::_data::%s' % (MS, fld)] = {'r': [frozenset([(MM, 'S')])], 'w': [frozenset([(MM, 'X')])]}
    group = [f for f in P.fns.values() if f.brecord == MS]
    ctx.require(len(group) >= 5, 'C06.R4: session_memory_storage methods not found')
    from rules.C17 import lock_rule
    lock_rule(ctx, R4, group, tbl, {}, 'mutex_')

    # ---------------- R5
    E = linbound.Engine(P, inline_depth=2)
    E.struct_sizes = {'(anonymous namespace)::packed': 4, 'cppcms::(anonymous namespace)::packed': 4}
    ldd = P.fn('cppcms::session_interface::load_data')
    E.analyse(ldd)
    pk = [f for f in P.fns.values() if f.kind == 'ctor' and f.brecord and f.brecord.endswith('::packed') and len(f.params) == 2]
    ctx.require(pk, 'C06.R5: packed(start,end) constructor not found')
    nob = 0
    for ob in E.obligations:
        nob += 1
        ctx.check(ob.proved, R5, 'load_data>%s:%s' % (ob.fn.short, ob.kind), 'not provable: ' + ob.desc, ob.fn.loc(ob.node), detail={'obligation': ob.desc})
    # the header is read only after start+4<=end, and the payload only after end-begin >= key+data
    for f in pk:
        mc = [i for i in f.calls() if f.callee(i) == 'memcpy']
        s, e = q.param_by_index(f, 0), q.param_by_index(f, 1)

        def room(atom, pol, f=f, s=s, e=e):
            n = f.N(atom)
            if n['k'] != 'BinaryOperator' or n.get('op') not in ('<=', '<', '>=', '>'):
                return False
            S = lin_sym(f)
            l, r = S.lin(n['ch'][0]), S.lin(n['ch'][1])
            d = r - l if n['op'] in ('<=', '<') else l - r          # d >= 0 (or > 0) when true
            want = Lin.atom(e) - Lin.atom(s) - Lin.const(4)
            strict = n['op'] in ('<', '>')
            return pol is True and (d - want).is_const() and (d - want).c <= (0 if not strict else 1) and (mc and f.const_value(f.args(mc[0])[2]) == 4)
        ctx.check(len(mc) == 1 and f.only_through(mc[0], f.gate_edges(room)), R5, 'packed(start,end):header-read-needs-4-bytes', 'header copied without 4 bytes available', f.where)
    strs = [i for i in ldd.calls() if ldd.N(i)['k'] in ('CXXConstructExpr', 'CXXTemporaryObjectExpr') and ldd.bcallee(i) == 'std::basic_string::basic_string' and len(ldd.args(i)) >= 2 and (ldd.N(i).get('ov') or ['', ''])[1] == 'const char *']

    def payload_room(atom, pol):
        n = ldd.N(atom)
        if n['k'] != 'BinaryOperator' or n.get('op') not in ('>=', '>', '<=', '<'):
            return False
        refs = [model.strip_targs(r) for r in ldd.subtree_refs(atom)]
        has = any(r.endswith('packed::key_size') for r in refs) and any(r.endswith('packed::data_size') for r in refs)
        l, r = n['ch']
        diff_left = any(ldd.N(j)['k'] == 'BinaryOperator' and ldd.N(j).get('op') == '-' for j in ldd.walk(l))
        if not has:
            return False
        if n['op'] == '>=' and diff_left:
            return pol is True
        if n['op'] == '<' and diff_left:
            return pol is False
        return False
    g = ldd.gate_edges(payload_room)
    for k, i in enumerate(strs):
        ctx.check(ldd.only_through(i, g), R5, 'load_data:payload-string#%d:only-if-room' % k, 'key/value constructed without checking the remaining length', ldd.loc(i))
    # writer limits vs bit-field widths
    rec = [r for r in P.records.values() if r['name'].endswith('::packed')]
    ctx.require(rec, 'C06.R5: struct packed not found')
    bits = {f['name']: f.get('bits') for f in rec[0]['fields']}
    pc = [f for f in P.fns.values() if f.kind == 'ctor' and f.brecord and f.brecord.endswith('::packed') and len(f.params) == 3]
    ctx.require(pc, 'C06.R5: packed(ks,exp,ds) constructor not found')
    lim = {}
    for f in pc:
        for i in f.all_nodes():
            n = f.N(i)
            if n['k'] == 'BinaryOperator' and n.get('op') in ('>=', '>'):
                r = f.ref_of(n['ch'][0])
                v = f.const_value(n['ch'][1])
                if r and v is not None:
                    nm = [p['name'] for p in f.params if p['ref'] == r]
                    if nm:
                        lim[nm[0]] = v + (1 if n['op'] == '>' else 0)
        # the throw is taken on the true edge; otherwise the value is stored
    ctx.check(lim.get('ks') is not None and bits.get('key_size') and lim['ks'] <= 2 ** bits['key_size'], R5, 'packed:key-limit-fits-bitfield', 'key size limit %s does not fit %s bits' % (lim.get('ks'), bits.get('key_size')), pc[0].where)
    ctx.check(lim.get('ds') is not None and bits.get('data_size') and lim['ds'] <= 2 ** bits['data_size'], R5, 'packed:data-limit-fits-bitfield', 'data size limit %s does not fit %s bits' % (lim.get('ds'), bits.get('data_size')), pc[0].where)
    ctx.check(sum(b or 0 for b in bits.values()) == 32, R5, 'packed:header-is-32-bits', 'header layout is not 32 bits', pc[0].where)

    # ---------------- R10 writer / reader agreement of the session blob
    from vlib import lin as _lin10
    from vlib.lin import Lin as _L10
    svd = P.fn('cppcms::session_interface::save_data')
    outp10 = q.param_by_index(svd, 1)
    datap10 = q.param_by_index(svd, 0)
    lp = [L for L in q.loops(svd)]
    okw = len(lp) == 1
    hdr_ctor, apps = None, []
    if okw:
        L = lp[0]
        nL = svd.N(L)
        full = nL['k'] == 'CXXForRangeStmt' or (q.mentions_field_call(svd, nL.get('init', L) if nL.get('init', -1) not in (None, -1) else L, '', 'begin') or any(q.short_of(svd.bcallee(j) or '') == 'begin' for j in svd.calls(svd.parent.get(L, L)))) 
        esc = [j for j in svd.walk(nL['body']) if svd.N(j)['k'] in ('BreakStmt', 'ContinueStmt', 'ReturnStmt', 'GotoStmt')]
        itv = None
        cl_ = nL.get('cond', -1)
        if cl_ not in (None, -1):
            itv = [r for r in svd.subtree_refs(cl_) if r.startswith('v:')]
            okw = okw and any(q.short_of(svd.bcallee(j) or '') == 'end' and svd.obj(j) is not None and svd.ref_of(svd.obj(j)) == datap10 for j in svd.calls(cl_))
            okw = okw and any(q.short_of(svd.bcallee(j) or '') == 'begin' and svd.obj(j) is not None and svd.ref_of(svd.obj(j)) == datap10 for j in svd.calls()) and len(itv) == 1
        okw = okw and not esc
        if cl_ not in (None, -1):
            cn10 = svd.N(svd.strip(cl_))
            okw = okw and ((cn10['k'] == 'CXXOperatorCallExpr' and cn10.get('op') == '!=') or (cn10['k'] == 'BinaryOperator' and cn10.get('op') in ('!=', '<')) or
                           (cn10['k'] == 'UnaryOperator' and cn10.get('op') == '!' and svd.N(svd.strip(cn10['ch'][0])).get('op') == '=='))
        clr = [i for i in svd.calls() if q.short_of(svd.bcallee(i) or '') == 'clear' and svd.obj(i) is not None and svd.ref_of(svd.obj(i)) == outp10]
        okw = okw and len(clr) == 1 and q.before(svd, clr[0], L) and not svd.contains(L, clr[0])
    ctx.check(okw, R10, 'save_data:starts-empty-and-visits-every-entry', 'the blob is not started empty, or the loop does not visit every entry of the map exactly once', svd.where)
    if lp:
        L = lp[0]
        body = svd.N(L)['body']
        hc = [i for i in svd.calls(body) if svd.N(i)['k'] in ('CXXConstructExpr', 'CXXTemporaryObjectExpr') and (svd.callee(i) or '').endswith('packed::packed') and len(svd.args(i)) == 3]
        okh = len(hc) == 1
        if okh:
            a = svd.args(hc[0])

            def part(node, what):
                refs = [model.strip_targs(r).rsplit('::', 1)[-1] for r in svd.subtree_refs(node)]
                calls_ = [q.short_of(svd.bcallee(j) or '') for j in svd.calls(node)]
                if what == 'ks':
                    return 'first' in refs and 'value' not in refs and ('size' in calls_ or 'length' in calls_)
                if what == 'ds':
                    return 'second' in refs and 'value' in refs and ('size' in calls_ or 'length' in calls_)
                return 'second' in refs and 'exposed' in refs and 'value' not in refs
            okh = part(a[0], 'ks') and part(a[1], 'exp') and part(a[2], 'ds')
        ctx.check(okh, R10, 'save_data:header(key-size,exposed,value-size)', 'the header is not built from the key length, the exposed flag and the value length of the entry being written', svd.loc(hc[0]) if hc else svd.where)
        aps = [i for i in svd.calls(body) if q.short_of(svd.bcallee(i) or '') == 'append' and svd.obj(i) is not None and svd.ref_of(svd.obj(i)) == outp10]
        oka = len(aps) == 3 and q.before(svd, aps[0], aps[1]) and q.before(svd, aps[1], aps[2])
        if oka:
            S10 = q.symb_with_locals(svd)
            a0 = svd.args(aps[0])
            d0 = S10.lin(a0[1]) - S10.lin(a0[0])
            hdrv = [d['ref'] for i in svd.all_nodes() if svd.N(i)['k'] == 'DeclStmt' for d in svd.N(i)['decls'] if d.get('init') is not None and hc and hc[0] in set(svd.walk(d['init']))]
            oka = d0.is_const() and d0.c == 4 and bool(hdrv) and hdrv[0] in q.deep_refs(svd, a0[0])

            def rng(i, fld):
                aa = svd.args(i)
                def side(node, m):
                    refs = [model.strip_targs(r).rsplit('::', 1)[-1] for r in svd.subtree_refs(node)]
                    calls_ = [q.short_of(svd.bcallee(j) or '') for j in svd.calls(node)]
                    want_val = fld == 'value'
                    return m in calls_ and (('value' in refs) == want_val) and (('first' in refs) != want_val or want_val)
                return len(aa) == 2 and side(aa[0], 'begin') and side(aa[1], 'end')
            oka = oka and rng(aps[1], 'first') and rng(aps[2], 'value')
        ctx.check(oka, R10, 'save_data:appends-header-key-value-in-order', 'an entry is not written as its 4 header bytes, then the whole key, then the whole value', svd.loc(aps[0]) if aps else svd.where)
    for f in pc:
        ws = {}
        S13 = _lin10.Symb(f)
        for fld, pi in (('key_size', 0), ('data_size', 2)):
            # a length that does not fit its bit field is refused, not truncated
            w = [x for x in q.field_writes(f, 'packed::' + fld)]
            lim_ = 2 ** (bits.get(fld) or 0)
            PV_ = _L10.atom(f.params[pi]['ref'])

            def fits(atom, pol, f=f, S13=S13, PV_=PV_, lim_=lim_):
                n_ = f.N(atom)
                if n_['k'] != 'BinaryOperator' or n_.get('op') not in ('<', '<=', '>', '>='):
                    return False
                cons = S13.rel(atom, pol)
                return bool(cons) and _lin10.implies(cons, _lin10.ge(_L10.const(lim_ - 1) - PV_))
            g_f = f.gate_edges(fits)
            ctx.check(len(w) == 1 and bool(g_f) and f.only_through(w[0], g_f), R10, 'packed(ks,exp,ds):%s-refused-if-it-does-not-fit' % fld,
                      'a length of %d or more is stored into the %s-bit field (silently truncated: the blob can not be read back)' % (lim_, bits.get(fld)), f.where)
        for fld, pi in (('key_size', 0), ('exposed', 1), ('data_size', 2)):
            w = [x for x in q.field_writes(f, 'packed::' + fld)]
            okf = len(w) == 1 and f.params[pi]['ref'] in f.subtree_refs(f.N(w[0])['ch'][1]) and not [pp_ for k2, pp_ in enumerate(f.params) if k2 != pi and pp_['ref'] in f.subtree_refs(f.N(w[0])['ch'][1])]
            if okf and fld == 'exposed':
                vals = sorted(set(f.const_value(j) for j in f.walk(f.N(w[0])['ch'][1]) if f.N(j)['k'] in ('IntegerLiteral', 'CXXBoolLiteralExpr') and f.const_value(j) is not None))
                cond_ = [j for j in f.walk(f.N(w[0])['ch'][1]) if f.N(j)['k'] == 'ConditionalOperator']
                if cond_:
                    cn_ = f.N(cond_[0])
                    okf = f.const_value(cn_['ch'][1]) == 1 and f.const_value(cn_['ch'][2]) == 0
            if okf:
                reach = f.reachable_blocks(cut_blocks=q.blocks_of(f, w) | f.abnormal_blocks())
                okf = f.exit not in reach
            ctx.check(okf, R10, 'packed(ks,exp,ds):%s-from-its-argument' % fld, 'header field %s is not set from the corresponding constructor argument on every normal path' % fld, f.where)
    # reader
    LB = [L for L in q.loops(ldd)]
    okr = len(LB) == 1
    if okr:
        body = ldd.N(LB[0])['body']
        curv = [r for r in ldd.subtree_refs(ldd.N(LB[0])['cond']) if r.startswith('v:')]
        clr = [i for i in ldd.calls() if q.short_of(ldd.bcallee(i) or '') == 'clear' and ldd.obj(i) is not None and ldd.ref_of(ldd.obj(i)) == q.param_by_index(ldd, 0)]
        okr = len(curv) >= 1 and len(clr) == 1 and q.before(ldd, clr[0], LB[0])
    if okr:
        cn11 = ldd.N(ldd.strip(ldd.N(LB[0])['cond']))
        endv = [r for r in curv if not q.writes_to(ldd, r, body)]
        okr = cn11['k'] == 'BinaryOperator' and cn11.get('op') in ('<', '!=') and ldd.ref_of(cn11['ch'][0]) in curv and ldd.ref_of(cn11['ch'][1]) in endv and ldd.ref_of(cn11['ch'][0]) not in endv
        # the end is begin + size of the whole blob
        if okr:
            S12 = q.symb_with_locals(ldd)
            e_ = S12.lin(cn11['ch'][1])
            edef = set(v_ for (d_, v_) in ldd.defs_of_var(ldd.ref_of(cn11['ch'][1])) if v_ is not None)
            if len(edef) == 1 and not [1 for (d_, v_) in ldd.defs_of_var(ldd.ref_of(cn11['ch'][1])) if v_ is None]:
                e_ = S12.lin(next(iter(edef)))
            cdef = sorted(set(v_ for (d_, v_) in ldd.defs_of_var(ldd.ref_of(cn11['ch'][0])) if ldd.N(d_)['k'] == 'DeclStmt' and v_ is not None))
            starts = len(cdef) == 1 and any(q.short_of(ldd.bcallee(j) or '') in ('data', 'c_str') for j in ldd.calls(cdef[0]))
            d12 = e_ - _L10.atom(ldd.ref_of(cn11['ch'][0]))
            okr = starts and ((len(d12.t) == 1 and d12.c == 0 and list(d12.t)[0].endswith('.size()') and list(d12.t.values()) == [1]) or
                              (any(a_.endswith('.size()') for a_ in e_.atoms()) and any(a_.endswith(('.data()', '.c_str()')) for a_ in e_.atoms())))
    ctx.check(okr, R10, 'load_data:starts-empty-one-loop', 'the map is not cleared first / no single read loop', ldd.where)
    if okr:
        S11 = q.symb_with_locals(ldd)
        # the cursor is the loop variable that is advanced in the body
        cvs = [r for r in curv if q.writes_to(ldd, r, body)]
        curr = cvs[0] if cvs else None
        KS = [a_ for a_ in set(x for i in ldd.all_nodes() for x in S11.lin(i).atoms()) if a_.endswith('packed::key_size')] if False else None

        def adv_at(node):
            tot = _L10.const(0)
            for w in q.writes_to(ldd, curr, body):
                n_ = ldd.N(w)
                if node is not None and q.before(ldd, w, node):
                    pass
                elif node is not None and (q.before(ldd, node, w) or w == node):
                    continue
                elif node is not None:
                    return None
                if n_['k'] == 'CompoundAssignOperator' and n_.get('op') == '+=':
                    tot = tot + S11.lin(n_['ch'][1])
                else:
                    return None
            return tot
        hp = [i for i in ldd.calls(body) if ldd.N(i)['k'] in ('CXXConstructExpr', 'CXXTemporaryObjectExpr') and (ldd.callee(i) or '').endswith('packed::packed') and len(ldd.args(i)) == 2]
        okp = len(hp) == 1 and curr is not None
        pv = None
        if okp:
            pv = [d['ref'] for i in ldd.all_nodes() if ldd.N(i)['k'] == 'DeclStmt' for d in ldd.N(i)['decls'] if d.get('init') is not None and hp[0] in set(ldd.walk(d['init']))]
            a = ldd.args(hp[0])
            at = adv_at(hp[0])
            okp = bool(pv) and ldd.ref_of(a[0]) == curr and at is not None and at.is_const() and at.c == 0
        ctx.check(okp, R10, 'load_data:header-read-at-the-cursor', 'the entry header is not read at the position where the previous entry ended', ldd.loc(hp[0]) if hp else ldd.where)
        if okp:
            pvn = pv[0]
            KSZ = [x for x in [pvn + '.f:' + f_ for f_ in ()]]
            strs2 = [i for i in strs if ldd.contains(body, i)]
            ksa = dsa = None
            for i in ldd.all_nodes():
                n_ = ldd.N(i)
                if n_['k'] == 'MemberExpr' and model.strip_targs(n_.get('ref') or '').endswith('packed::key_size') and ldd.ref_of(n_['ch'][0]) == pvn:
                    ksa = S11.lin(i)
                if n_['k'] == 'MemberExpr' and model.strip_targs(n_.get('ref') or '').endswith('packed::data_size') and ldd.ref_of(n_['ch'][0]) == pvn:
                    dsa = S11.lin(i)
            CUR = _L10.atom(curr)
            shapes = []
            for i in strs2:
                a = ldd.args(i)
                b_, e_ = S11.lin(a[0]) - CUR, S11.lin(a[1]) - S11.lin(a[0])
                at = adv_at(i)
                shapes.append((i, None if at is None else (b_ + at), e_))
            zero = _L10.const(0).key()
            okk = len(shapes) == 2 and ksa is not None and dsa is not None and all(sh[1] is not None for sh in shapes)
            if okk:
                (ki, kb, kl), (vi, vb, vl) = shapes
                okk = (kb - _L10.const(4)).key() == zero and (kl - ksa).key() == zero and (vb - _L10.const(4) - ksa).key() == zero and (vl - dsa).key() == zero
                tot = adv_at(None)
                okk = okk and tot is not None and (tot - _L10.const(4) - ksa - dsa).key() == zero
            ctx.check(okk, R10, 'load_data:key-at-4:value-behind-the-key:advance-by-4+key+value', 'key / value are not taken from [4, 4+key_size) and [4+key_size, 4+key_size+data_size) of the entry, or the cursor does not end behind the value', ldd.loc(strs2[0]) if strs2 else ldd.where)
            # stored under the key, flag and value from this entry
            kvar = [d['ref'] for i in ldd.all_nodes() if ldd.N(i)['k'] == 'DeclStmt' for d in ldd.N(i)['decls'] if d.get('init') is not None and shapes and shapes[0][0] in set(ldd.walk(d['init']))] if len(shapes) == 2 else []
            vvar = [d['ref'] for i in ldd.all_nodes() if ldd.N(i)['k'] == 'DeclStmt' for d in ldd.N(i)['decls'] if d.get('init') is not None and shapes and shapes[1][0] in set(ldd.walk(d['init']))] if len(shapes) == 2 else []
            idx = [i for i in ldd.calls(body) if ldd.N(i)['k'] == 'CXXOperatorCallExpr' and ldd.N(i).get('op') == '[]' and ldd.ref_of(ldd.N(i)['ch'][1]) == q.param_by_index(ldd, 0)]
            oks = len(kvar) == 1 and len(vvar) == 1 and len(idx) == 1 and ldd.ref_of(ldd.N(idx[0])['ch'][2]) == kvar[0]
            if oks:
                ev = [r for r in [d['ref'] for i in ldd.all_nodes() if ldd.N(i)['k'] == 'DeclStmt' for d in ldd.N(i)['decls'] if d.get('init') is not None and idx[0] in set(ldd.walk(d['init']))]]
                tgt = ev[0] if ev else None
                fw = [w for w in q.field_writes(ldd, 'entry::exposed') if ldd.contains(body, w)]
                okfl = len(fw) == 1 and any(model.strip_targs(r).endswith('packed::exposed') for r in ldd.subtree_refs(ldd.N(fw[0])['ch'][1])) and pvn in ldd.subtree_refs(ldd.N(fw[0])['ch'][1]) and (tgt is None or tgt in ldd.subtree_refs(ldd.N(fw[0])['ch'][0]))
                sv = [i for i in ldd.calls(body) if q.short_of(ldd.bcallee(i) or '') in ('swap', 'assign', 'operator=') and vvar[0] in ldd.subtree_refs(i) and any(model.strip_targs(r).endswith('entry::value') for r in ldd.subtree_refs(i))]
                oks = okfl and len(sv) == 1 and q.always_after(ldd, idx[0], [fw[0]]) and q.always_after(ldd, idx[0], sv)
            ctx.check(oks, R10, 'load_data:stored-under-the-key-with-flag-and-value', 'the entry read is not stored as data[key] = {value, exposed flag of the header}', ldd.loc(idx[0]) if idx else ldd.where)
    ctx.floor(R10, 8)

    # ---------------- R11 cookie storage writer / reader
    PC = model.Program(build.extract([REPO + '/src/session_cookies.cpp'], include_re='^/repo/(src|private|cppcms)/'))
    ctx.units.append('src/session_cookies.cpp')
    SC = 'cppcms::sessions::session_cookies'
    sv = PC.fn(SC + '::save')
    datap, tmop = q.param_by_index(sv, 1), q.param_by_index(sv, 2)
    enc = [i for i in sv.calls() if q.short_of(sv.bcallee(i) or '') == 'encrypt' and sv.N(i)['k'] == 'CXXMemberCallExpr']
    ok = len(enc) == 1
    if ok:
        rd = sv.ref_of(sv.args(enc[0])[0])
        aps = [i for i in sv.calls() if (q.short_of(sv.bcallee(i) or '') == 'append' or (sv.N(i)['k'] == 'CXXOperatorCallExpr' and sv.N(i).get('op') == '+=')) and
               ((sv.obj(i) is not None and sv.ref_of(sv.obj(i)) == rd) or (sv.N(i)['k'] == 'CXXOperatorCallExpr' and sv.ref_of(sv.N(i)['ch'][1]) == rd))]
        ok = rd is not None and len(aps) == 2 and q.before(sv, aps[0], aps[1]) and q.before(sv, aps[1], enc[0])
        if ok:
            a0 = sv.args(aps[0]) if sv.N(aps[0])['k'] == 'CXXMemberCallExpr' else [sv.N(aps[0])['ch'][2]]
            a1 = sv.args(aps[1]) if sv.N(aps[1])['k'] == 'CXXMemberCallExpr' else [sv.N(aps[1])['ch'][2]]
            ok = tmop in sv.subtree_refs(a0[0]) and len(a0) >= 2 and sv.const_value(a0[1]) == 8 and sv.ref_of(a1[0]) == datap
            others = [w for w in sv.calls() if w not in aps and q.short_of(sv.bcallee(w) or '') in ('clear', 'assign', 'erase', 'resize', 'operator=') and sv.obj(w) is not None and sv.ref_of(sv.obj(w)) == rd]
            ok = ok and not others
        ciph = [d['ref'] for i in sv.all_nodes() if sv.N(i)['k'] == 'DeclStmt' for d in sv.N(i)['decls'] if d.get('init') is not None and enc[0] in set(sv.walk(d['init']))]
        b64 = [i for i in sv.calls() if sv.bcallee(i) == 'cppcms::b64url::encode']
        ssc = [i for i in sv.calls() if q.short_of(sv.bcallee(i) or '') == 'set_session_cookie']
        ok = ok and len(ciph) == 1 and len(b64) == 1 and sv.ref_of(sv.args(b64[0])[0]) == ciph[0] and len(ssc) == 1
        if ok:
            cd = sv.ref_of(sv.args(ssc[0])[0])
            cdef = [v_ for (d_, v_) in sv.defs_of_var(cd or '') if v_ is not None]
            ok = len(cdef) == 1 and b64[0] in set(sv.walk(cdef[0])) and any(sv.N(j)['k'] == 'StringLiteral' and sv.N(j).get('s') == 'C' for j in sv.walk(cdef[0]))
            if ok:
                pl = [j for j in sv.walk(cdef[0]) if sv.N(j)['k'] == 'CXXOperatorCallExpr' and sv.N(j).get('op') == '+']
                ok = len(pl) == 1 and any(sv.N(j)['k'] == 'StringLiteral' for j in sv.walk(sv.N(pl[0])['ch'][1])) and b64[0] in set(sv.walk(sv.N(pl[0])['ch'][2]))
            reach = sv.reachable_blocks(cut_blocks=q.blocks_of(sv, ssc) | sv.abnormal_blocks())
            ok = ok and sv.exit not in reach
    ctx.check(ok, R11, 'session_cookies::save:cookie=C+b64(encrypt(deadline+data))', 'the cookie is not built as C + base64url(encrypt(deadline bytes + data)) and set on every normal path', sv.where)
    ld = PC.fn(SC + '::load')
    dout, tout = q.param_by_index(ld, 1), q.param_by_index(ld, 2)
    dec = [i for i in ld.calls() if q.short_of(ld.bcallee(i) or '') == 'decrypt' and ld.N(i)['k'] == 'CXXMemberCallExpr']
    b64d = [i for i in ld.calls() if ld.bcallee(i) == 'cppcms::b64url::decode']
    gsc = [i for i in ld.calls() if q.short_of(ld.bcallee(i) or '') == 'get_session_cookie']
    ok = len(dec) == 1 and len(b64d) == 1 and len(gsc) == 1
    if ok:
        cdv = [d['ref'] for i in ld.all_nodes() if ld.N(i)['k'] == 'DeclStmt' for d in ld.N(i)['decls'] if d.get('init') is not None and gsc[0] in set(ld.walk(d['init']))]
        cipher = ld.ref_of(ld.args(b64d[0])[1])
        sub = [j for j in ld.calls(ld.args(b64d[0])[0]) if q.short_of(ld.bcallee(j) or '') == 'substr']
        ok = len(cdv) == 1 and len(sub) == 1 and ld.ref_of(ld.obj(sub[0])) == cdv[0] and ld.const_value(ld.args(sub[0])[0]) == 1 and ld.ref_of(ld.args(dec[0])[0]) == cipher and cipher is not None and q.before(ld, b64d[0], dec[0])
        tmpv = ld.ref_of(ld.args(dec[0])[1])
        g_c = ld.gate_edges(lambda atom, pol: ld.N(atom)['k'] == 'BinaryOperator' and ld.N(atom).get('op') in ('==', '!=') and ld.const_value(ld.N(atom)['ch'][1]) == 67 and
                            (lambda x: ld.N(x)['k'] == 'CXXOperatorCallExpr' and ld.N(x).get('op') == '[]' and ld.ref_of(ld.N(x)['ch'][1]) == cdv[0] and ld.const_value(ld.N(x)['ch'][2]) == 0)(ld.strip(ld.N(atom)['ch'][0])) and ((ld.N(atom)['op'] == '==') == pol)) if cdv else []
        ok = ok and bool(g_c) and ld.only_through(b64d[0], g_c)
        succ = q.nonfalse_returns(ld)
        dw = [w for w in q.writes_to(ld, dout) if ld.N(w)['k'] == 'CXXOperatorCallExpr' and ld.N(w).get('op') == '=']
        tw = [w for w in q.writes_to(ld, tout)]
        mc = [i for i in ld.calls() if ld.callee(i) == 'memcpy']
        ok = ok and len(dw) == 1 and len(tw) == 1 and len(mc) == 1 and tmpv is not None
        if ok:
            rhs = ld.N(dw[0])['ch'][2]
            sb = [j for j in ld.calls(rhs) if q.short_of(ld.bcallee(j) or '') == 'substr']
            ok = len(sb) == 1 and ld.ref_of(ld.obj(sb[0])) == tmpv and ld.const_value(ld.args(sb[0])[0]) == 8 and len([a for a in ld.args(sb[0]) if ld.N(a)['k'] != 'CXXDefaultArgExpr']) == 1
            a = ld.args(mc[0])
            tv_ = [r for r in ld.subtree_refs(a[0]) if r.startswith('v:')]
            ok = ok and len(tv_) == 1 and ld.ref_of(ld.N(tw[0])['ch'][-1]) == tv_[0] and ld.const_value(a[2]) == 8 and any(q.short_of(ld.bcallee(j) or '') in ('data', 'c_str') and ld.ref_of(ld.obj(j)) == tmpv for j in ld.calls(a[1])) and \
                not any(ld.N(j)['k'] in ('BinaryOperator', 'CXXOperatorCallExpr') and ld.N(j).get('op') in ('+', '-') for j in ld.walk(a[1]))
            reach = ld.reachable_blocks(cut_blocks=q.blocks_of(ld, dw))
            reach2 = ld.reachable_blocks(cut_blocks=q.blocks_of(ld, tw))
            ok = ok and bool(succ) and all(ld.point_of(r)[0] not in reach and ld.point_of(r)[0] not in reach2 for r in succ) and q.before(ld, dec[0], dw[0]) and q.before(ld, mc[0], tw[0])
    ctx.check(ok, R11, 'session_cookies::load:undoes-save', 'load does not decode the text after the C, decrypt it, take the deadline from the first sizeof(time_t) bytes and hand out the rest as the data', ld.where)
    ctx.floor(R11, 2)

    # ---------------- R12 session_interface save / load decisions
    SI = 'cppcms::session_interface'
    sv2 = P.fn(SI + '::save')
    stsave = [i for i in sv2.calls() if q.short_of(sv2.bcallee(i) or '') == 'save' and sv2.N(i)['k'] == 'CXXMemberCallExpr' and any(model.strip_targs(r).endswith('session_interface::storage_') for r in sv2.subtree_refs(sv2.obj(i)))]
    sd = [i for i in sv2.calls() if sv2.bcallee(i) == SI + '::save_data']
    ssc2 = [i for i in sv2.calls() if sv2.bcallee(i) == SI + '::set_session_cookie']
    ok = len(stsave) == 1 and len(sd) == 1 and len(ssc2) == 1
    if ok:
        a = sv2.args(stsave[0])
        arv = sv2.ref_of(a[1])
        ok = arv is not None and sv2.ref_of(sv2.args(sd[0])[1]) == arv and model.strip_targs(sv2.ref_of(sv2.args(sd[0])[0]) or '').endswith('session_interface::data_') and q.before(sv2, sd[0], stsave[0]) and \
            any(sv2.bcallee(j) == SI + '::session_age' for j in sv2.calls(a[2])) and model.strip_targs(sv2.ref_of(a[3]) or '').endswith('session_interface::new_session_') and \
            model.strip_targs(sv2.ref_of(a[4]) or '').endswith('session_interface::on_server_')
        ok = ok and any(sv2.bcallee(j) == SI + '::cookie_age' for j in sv2.calls(sv2.args(ssc2[0])[0])) and q.always_after(sv2, stsave[0], ssc2)
        # nothing modifies the serialised text between serialising and storing
        ok = ok and not [w for w in sv2.calls() if w not in (sd[0], stsave[0]) and arv in sv2.subtree_refs(w) and q.between(sv2, sd[0], w, stsave[0])]
    ctx.check(ok, R12, 'save:stores-serialised-data-with-session_age-and-sets-cookie-with-cookie_age', 'what is stored is not the serialisation of data_ with the deadline of session_age(), or the cookie is not set afterwards', sv2.where)
    if len(stsave) == 1:
        def fld_is(name_, want):
            return sv2.gate_edges(lambda atom, pol: model.strip_targs(sv2.ref_of(atom) or '').endswith('session_interface::' + name_) and pol is want)
        g_unch = sv2.gate_edges(lambda atom, pol: sv2.N(atom)['k'] == 'CXXOperatorCallExpr' and sv2.N(atom).get('op') in ('==', '!=') and
                                sorted(model.strip_targs(r).rsplit('::', 1)[-1] for r in sv2.subtree_refs(atom) if r.startswith('f:')) == ['data_', 'data_copy_'] and ((sv2.N(atom)['op'] == '==') == pol))
        g_empty = q.empty_gate(sv2, lambda c_: sv2.obj(c_) is not None and model.strip_targs(sv2.ref_of(sv2.obj(c_)) or '').endswith('session_interface::data_'), True)
        def entry_guard(atom, pol):
            r_ = model.strip_targs(sv2.ref_of(atom) or '')
            if r_.endswith('session_interface::loaded_'):
                return pol is False
            if r_.endswith('session_interface::saved_'):
                return pol is True
            n_ = sv2.N(atom)
            return n_['k'] == 'BinaryOperator' and n_.get('op') in ('==', '!=') and any(model.strip_targs(r).endswith('session_interface::storage_') for r in sv2.subtree_refs(atom)) and ((n_['op'] == '==') == pol)
        g_entry = sv2.gate_edges(entry_guard)
        reach = sv2.reachable_blocks(cut_blocks=[sv2.point_of(stsave[0])[0]] + list(sv2.abnormal_blocks()), cut_edges=list(g_unch) + list(g_empty) + list(g_entry))
        ctx.check(bool(g_unch) and bool(g_empty) and sv2.exit not in reach, R12, 'save:skipped-only-when-unchanged-or-empty', 'save() can return without storing a session whose data changed', sv2.where)
        # unchanged AND not new: a new session is never skipped
        g_new_f = fld_is('new_session_', False)
        rets_skip = [r for r in sv2.returns() if sv2.only_through(r, g_unch)]
        ctx.check(bool(rets_skip) and all(sv2.only_through(r, g_new_f) for r in rets_skip), R12, 'save:a-new-session-is-never-skipped', 'a session that is new can be left unsaved because its data equals the copy', sv2.where)
        clr = [i for i in sv2.calls() if q.short_of(sv2.bcallee(i) or '') == 'clear' and sv2.N(i)['k'] == 'CXXMemberCallExpr' and any(model.strip_targs(r).endswith('session_interface::storage_') for r in sv2.subtree_refs(sv2.obj(i)))]
        ctx.check(len(clr) == 1 and sv2.only_through(clr[0], g_empty), R12, 'save:emptied-session-clears-the-stored-one', 'an emptied session does not clear what is stored (or a non-empty one is cleared)', sv2.where)
    ld2 = P.fn(SI + '::load')
    stl = [i for i in ld2.calls() if q.short_of(ld2.bcallee(i) or '') == 'load' and ld2.N(i)['k'] == 'CXXMemberCallExpr' and any(model.strip_targs(r).endswith('session_interface::storage_') for r in ld2.subtree_refs(ld2.obj(i)))]
    ldd_c = [i for i in ld2.calls() if ld2.bcallee(i) == SI + '::load_data']
    ok = len(stl) == 1 and len(ldd_c) == 1
    if ok:
        arv = ld2.ref_of(ld2.args(stl[0])[1])
        g_ok = q.call_gate(ld2, lambda i: i == stl[0], True)
        cpw = [i for i in ld2.calls() if ld2.N(i)['k'] == 'CXXOperatorCallExpr' and ld2.N(i).get('op') == '=' and model.strip_targs(ld2.ref_of(ld2.N(i)['ch'][1]) or '').endswith('session_interface::data_copy_') and
               model.strip_targs(ld2.ref_of(ld2.N(i)['ch'][2]) or '').endswith('session_interface::data_')]
        ok = arv is not None and ld2.ref_of(ld2.args(ldd_c[0])[1]) == arv and model.strip_targs(ld2.ref_of(ld2.args(ldd_c[0])[0]) or '').endswith('session_interface::data_') and ld2.only_through(ldd_c[0], g_ok) and \
            model.strip_targs(ld2.ref_of(ld2.args(stl[0])[2]) or '').endswith('session_interface::timeout_in_') and len(cpw) == 1 and q.before(ld2, ldd_c[0], cpw[0])
        succ = q.nonfalse_returns(ld2)
        ok = ok and bool(succ) and all(q.before(ld2, cpw[0], r) for r in succ)
        clrs = [i for i in ld2.calls() if q.short_of(ld2.bcallee(i) or '') == 'clear' and ld2.obj(i) is not None and model.strip_targs(ld2.ref_of(ld2.obj(i)) or '').endswith('session_interface::data_')]
        ok = ok and len(clrs) == 1 and q.before(ld2, clrs[0], stl[0])
    ctx.check(ok, R12, 'load:installs-what-the-storage-returned', 'load() does not start empty, deserialise the stored text into data_ and remember it in data_copy_', ld2.where)
    for fn_name, old_field in (('session_age', 'timeout_in_'), ('cookie_age', 'timeout_in_')):
        f = P.fn(SI + '::' + fn_name)
        olds = [r for r in f.returns() if any(model.strip_targs(x).endswith('session_interface::' + old_field) for x in f.subtree_refs(f.ret_value(r)))]
        news = [r for r in f.returns() if any(model.strip_targs(x).endswith('session_interface::timeout_val_') for x in f.subtree_refs(f.ret_value(r)))]

        def how_is(name_, want):
            return f.gate_edges(lambda atom, pol: f.N(atom)['k'] == 'BinaryOperator' and f.N(atom).get('op') in ('==', '!=') and model.strip_targs(f.ref_of(f.N(atom)['ch'][0]) or '').endswith('session_interface::how_') and
                                any(r.endswith('::' + name_) for r in f.subtree_refs(f.N(atom)['ch'][1])) and ((f.N(atom)['op'] == '==') == pol) == want)
        g_fresh = f.gate_edges(lambda atom, pol: (f.N(atom)['k'] == 'BinaryOperator' and f.N(atom).get('op') == '==' and pol is True and model.strip_targs(f.ref_of(f.N(atom)['ch'][0]) or '').endswith('session_interface::how_') and
                                                any(r.endswith(('::renew', '::browser')) for r in f.subtree_refs(f.N(atom)['ch'][1]))) or
                               (model.strip_targs(f.ref_of(atom) or '').endswith('session_interface::new_session_') and pol is True))
        ok = len(olds) == 1 and len(news) >= 1 and bool(how_is('renew', False)) and f.only_through(olds[0], how_is('renew', False)) and (fn_name == 'cookie_age' or f.only_through(olds[0], how_is('browser', False))) and \
            bool(g_fresh) and all(f.only_through(r, g_fresh) for r in news)
        ctx.check(ok, R12, '%s:existing-fixed-session-keeps-its-deadline:renewing-ones-get-now+timeout' % fn_name, 'the deadline handed to the storage / the cookie does not follow the expiration policy (a fixed session would be prolonged, or a renewing one not)', f.where)
    ctx.floor(R12, 6)

    # ---------------- R6
    D = 'cppcms::sessions::session_dual'
    dsv = P.fn(D + '::save')
    ccl = [i for i in dsv.calls() if dsv.bcallee(i) in ('cppcms::sessions::session_sid::clear', 'cppcms::sessions::session_api::clear')]
    csv = [i for i in dsv.calls() if (dsv.bcallee(i) or '').endswith('::save') and 'client_' in ' '.join(dsv.subtree_refs(i))]

    def isI(atom, pol):
        n = dsv.N(atom)
        return n['k'] == 'BinaryOperator' and n.get('op') == '==' and dsv.const_value(n['ch'][1]) == ord('I') and pol is True
    gI = dsv.gate_edges(isI)
    gnotI = dsv.gate_edges(lambda atom, pol: (dsv.N(atom)['k'] == 'BinaryOperator' and dsv.N(atom).get('op') == '==' and dsv.const_value(dsv.N(atom)['ch'][1]) == ord('I') and pol is False) or
                           (q.emptiness(dsv, atom, pol) or (None, False))[1])
    ctx.check(len(ccl) == 1 and len(csv) == 1 and dsv.only_through(ccl[0], gI), R6, 'dual::save:server-clear-only-for-I-cookie', 'server record cleared for a non-server cookie', dsv.where)
    if csv and ccl:
        reach = dsv.reachable_blocks(cut_edges=gnotI, cut_blocks=q.blocks_of(dsv, ccl), with_catch=False)
        ctx.check(dsv.point_of(csv[0])[0] not in reach, R6, 'dual::save:server-record-cleared-before-client-save', 'switching to client storage leaves the server-side record alive', dsv.where)
    for name in ('load', 'clear'):
        f = P.fn(D + '::' + name)

        def isC(atom, pol, f=f):
            n = f.N(atom)
            return n['k'] == 'BinaryOperator' and n.get('op') == '==' and f.const_value(n['ch'][1]) == ord('C') and pol is True
        gC = f.gate_edges(isC)
        cl_calls = [i for i in f.calls() if 'client_' in ' '.join(f.subtree_refs(i)) and (f.bcallee(i) or '').endswith('::' + name)]
        sv_calls = [i for i in f.calls() if 'server_' in ' '.join(f.subtree_refs(i)) and (f.bcallee(i) or '').endswith('::' + name)]
        ctx.check(len(cl_calls) == 1 and len(sv_calls) == 1 and f.only_through(cl_calls[0], gC) and not f.only_through(sv_calls[0], gC), R6,
                  'dual::%s:dispatch-on-cookie-type' % name, 'client/server dispatch does not follow the cookie type', f.where)

    # delegating implementations hand their parameters on in the same roles (isnew stays isnew, on_server stays on_server)
    nd = 0
    for f in sorted([g for g in P.fns.values() if g.brecord in (D, SID) and g.kind == 'method'], key=lambda g: g.id):
        for (i, j, k, nm) in q.delegation_swaps(P, f):
            nd += 1
            ctx.check(j == k, R6, '%s:forwards:%s#%d' % (q.fkey(f), nm, nd), 'parameter %s (position %d) is forwarded in position %d of %s: roles swapped' % (nm, k, j, f.callee(i)), f.loc(i))
    ctx.require(nd >= 6 or ctx.violations, 'C06.R6: only %d forwarded parameters found in session_dual / session_sid' % nd)

    # ---------------- R9 change detection sees every field of an entry
    R9 = ctx.rule('C06.R9', 'session_interface::save decides "nothing changed" by comparing whole entries: entry::operator== implies equality of every field (value and exposed flag)')
    eqs = [f for f in P.fns.values() if f.short == 'operator==' and (f.brecord or '').endswith('session_interface::entry')]
    ctx.require(len(eqs) == 1, 'C06.R9: session_interface::entry::operator== not found')
    miss = q.memberwise_eq_missing(P, eqs[0])
    ctx.require(miss is not None, 'C06.R9: shape of entry::operator== not understood')
    ctx.check(not miss, R9, 'entry::operator==:covers-every-field', 'entries that differ in %s compare equal: save() skips storing / updating cookies for such a change' % miss, eqs[0].where)
    svi = P.fn('cppcms::session_interface::save')
    cmpd = [i for i in svi.calls() if svi.N(i)['k'] == 'CXXOperatorCallExpr' and svi.N(i).get('op') in ('==', '!=') and
            {'data_', 'data_copy_'} <= set(r.rsplit('::', 1)[-1] for r in svi.subtree_refs(i))]
    ctx.check(len(cmpd) == 1, R9, 'session_interface::save:unchanged-test-compares-data-with-copy', 'the early exit of save() does not compare data_ with data_copy_', svi.where)

    # exposed cookies follow the session: update_exposed compares the new state with the old one in both directions; a loop over
    # one of the two maps that looks its own key up in the very map it iterates can never find a difference
    ue = P.fn('cppcms::session_interface::update_exposed')
    nl = 0
    MAPS = ('session_interface::data_', 'session_interface::data_copy_')
    for L in q.loops(ue):
        Ln = ue.N(L)
        part = Ln.get('range', -1) if Ln['k'] == 'CXXForRangeStmt' else Ln.get('init', -1)
        if part is None or part < 0:
            continue
        over = [m_ for m_ in MAPS if any(model.strip_targs(r).endswith(m_) for r in ue.subtree_refs(part))]
        if len(over) != 1:
            continue
        finds = [i for i in ue.calls(Ln['body']) if q.short_of(ue.callee(i)) in ('find', 'count') and any((q.obj_field(ue, i) or '').endswith(m_) for m_ in MAPS)]
        for k_, i in enumerate(finds):
            nl += 1
            other = [m_ for m_ in MAPS if (q.obj_field(ue, i) or '').endswith(m_)][0]
            ctx.check(other != over[0], R9, 'update_exposed:loop-over-%s:lookup#%d-in-the-other-map' % (over[0].rsplit('::', 1)[-1], k_),
                      'a key taken from %s is looked up in %s itself: the comparison with the other state is dead code' % (over[0], over[0]), ue.loc(i))
    ctx.check(nl >= 2, R9, 'update_exposed:both-directions-compared', 'update_exposed does not compare old and new exposed keys in both directions', ue.where)

    # ---------------- R7 in-memory storage index agreement
    msv = P.fn(MS + '::save')
    to = q.param_by_index(msv, 1)
    tins = q.field_calls(msv, 'session_memory_storage::timeout_', 'insert')
    tw = q.field_writes(msv, '_data::timeout')
    pw = q.field_writes(msv, '_data::timeout_ptr')
    # on every path through save the record deadline, the index entry and the back pointer are all (re)written
    ctx.check(len(tins) >= 1 and len(tins) == len(tw) == len(pw) and q.always_before_exit(msv, tins) and q.always_before_exit(msv, tw) and q.always_before_exit(msv, pw), R7,
              'save:index-insert-per-branch', 'record and index are not updated together', msv.where)
    for k, i in enumerate(tins):
        a = msv.args(i)[0]
        first = None
        for j in msv.walk(a):
            if msv.N(j)['k'] in ('CXXConstructExpr', 'CXXTemporaryObjectExpr') and len(msv.args(j)) == 2:
                first = msv.args(j)[0]
                break
        ctx.check(first is not None and msv.ref_of(first) == to, R7, 'save:index-insert#%d:keyed-by-new-deadline' % k, 'expiry index entry is keyed by something other than the deadline being saved', msv.loc(i))
    for k, w in enumerate(tw):
        ctx.check(msv.ref_of(msv.N(w)['ch'][1]) == to, R7, 'save:record-deadline#%d:is-argument' % k, 'record deadline is not the deadline being saved', msv.loc(w))
    er = q.field_calls(msv, 'session_memory_storage::timeout_', 'erase')
    g_found = q.end_compare_gate(msv, 'session_memory_storage::map_', False)
    ctx.check(len(er) == 1 and msv.only_through(er[0], g_found) and any(model.strip_targs(r).endswith('_data::timeout_ptr') for r in msv.subtree_refs(er[0])), R7,
              'save:old-index-entry-erased-on-overwrite', 'overwriting a record leaves its old expiry index entry', msv.where)
    if er:
        ctx.check(bool(tins) and q.always_after(msv, er[0], tins) and not any(q.reaches(msv, i, er[0]) for i in tins), R7, 'save:erase-then-insert', 'new index entry inserted before the old one is erased', msv.where)
    mrm = P.fn(MS + '::remove')
    e1 = q.field_calls(mrm, 'session_memory_storage::timeout_', 'erase')
    e2 = q.field_calls(mrm, 'session_memory_storage::map_', 'erase')
    ctx.check(len(e1) == 1 and len(e2) == 1 and q.before(mrm, e1[0], e2[0]), R7, 'remove:index-and-record-erased', 'remove leaves the index entry or the record', mrm.where)
    gc = P.fn(MS + '::short_gc')
    e1 = q.field_calls(gc, 'session_memory_storage::timeout_', 'erase')
    e2 = q.field_calls(gc, 'session_memory_storage::map_', 'erase')
    nowv = set(d['ref'] for i in gc.all_nodes() if gc.N(i)['k'] == 'DeclStmt' for d in gc.N(i)['decls'] if d.get('init') is not None and any(gc.callee(j) == 'time' for j in gc.calls(d['init'])))

    def expired(atom, pol):
        n = gc.N(atom)
        return n['k'] == 'BinaryOperator' and n.get('op') in ('<', '<=') and bool(gc.subtree_refs(n['ch'][1]) & nowv) and pol is True
    ctx.check(len(e1) == 1 and len(e2) == 1 and gc.only_through(e2[0], gc.gate_edges(expired)), R7, 'short_gc:erases-only-expired', 'gc can erase a record that has not expired', gc.where)
    mld = P.fn(MS + '::load')
    g = mld.gate_edges(lambda atom, pol: mld.N(atom)['k'] == 'BinaryOperator' and mld.N(atom).get('op') in ('<', '<=') and any(mld.callee(j) == 'time' for j in mld.calls(mld.N(atom)['ch'][1])) and
                       any(model.strip_targs(r).endswith('_data::timeout') for r in mld.subtree_refs(mld.N(atom)['ch'][0])) and pol is False)
    ctx.check(all(mld.only_through(r, g) for r in q.nonfalse_returns(mld)), R7, 'load:not-expired', 'memory storage returns an expired record', mld.where)

    # ---------------- R8 valid_sid is exact (E3): accepts exactly "I" + 32 lower-case hex digits
    R8 = ctx.rule('C06.R8', 'valid_sid accepts exactly "I" followed by 32 lower-case hexadecimal digits (per position over all byte values, per length 0..40)')
    from vlib import absint
    from vlib.absint import AV, Arr, Cell, Out
    vs = P.fn(SID + '::valid_sid')
    HEXL = set(range(48, 58)) | set(range(97, 103))
    # the decision on one position must not depend on the other positions: every branch condition of the loop body reads only the current character
    lps = q.loops(vs)
    ctx.check(len(lps) == 1, R8, 'valid_sid:single-scan-loop', 'expected one loop over the 32 digits', vs.where)
    hooks = {'std::basic_string::substr': lambda it, fn, i, env: Out('substr')}

    def run_with(chars):
        def run(it):
            it.hooks = hooks
            arr = Arr([c if isinstance(c, AV) else AV.const(c) for c in chars] + [AV.const(0)], 'str:cookie')
            return it.call_fn(vs, [Cell(arr), Cell(Out('id'))])
        return run
    nb = 0
    bad = None
    for L in range(0, 41):
        for rep in (48, 102):
            chars = [73] + [rep] * (L - 1) if L else []
            for (bx, r, it) in absint.explore(P, run_with(chars), [[]]):
                nb += 1
                if not (isinstance(r, AV) and r.is_const()) or bool(r.lo) != (L == 33):
                    bad = bad or ('length %d' % L, r)
    ctx.check(bad is None, R8, 'valid_sid:length-exactly-33', ('%s -> %r' % bad) if bad else '', vs.where, detail={'runs': nb})
    for pos in range(33):
        bad = None
        nb = 0
        for rep in (48, 102):
            def runp(it, pos=pos, rep=rep):
                chars = [AV.const(73)] + [AV.const(rep)] * 32
                chars[pos] = it.inbyte(0)
                return run_with(chars)(it)
            for (bx, r, it) in absint.explore(P, runp, [[(-128, 127)]]):
                nb += 1
                lo, hi = bx[0]
                vals = set(range(lo, hi + 1))
                want = vals <= ({73} if pos == 0 else HEXL)
                none = not (vals & ({73} if pos == 0 else HEXL))
                if not (isinstance(r, AV) and r.is_const()) or not (want or none) or bool(r.lo) != want:
                    bad = bad or ('char %d..%d at position %d' % (lo, hi, pos), r)
        ctx.check(bad is None, R8, 'valid_sid:position-%d:exact-alphabet' % pos, ('%s -> %r' % bad) if bad else '', vs.where, detail={'boxes': nb})
    ctx.assume('valid_sid decides each position independently (single loop whose body tests only the current character); R8 varies one position at a time with the others fixed to "0" and to "f"')
    # ---------------- R13 network storage addressing; typed accessors are locale independent
    R13 = ctx.rule('C06.R13', 'network session storage: save, load and remove pick the session server by the session id alone (the same id always reaches the same server) and send the id first; '
                              'the typed accessors set<T> / get<T> (used by the library for _t, _h, _s) format and parse in the classic locale, imbued before the value passes through the stream')
    PT = model.Program(build.extract([REPO + '/src/session_tcp_storage.cpp'], include_re='^/repo/(src|private|cppcms)/'))
    ctx.units.append('src/session_tcp_storage.cpp')
    TS = 'cppcms::sessions::tcp_storage::'
    for nm_ in ('save', 'load', 'remove'):
        f = PT.fn(TS + nm_)
        sidp = q.param_by_index(f, 0)
        pick = [i for i in f.calls() if f.bcallee(i) == 'cppcms::impl::tcp_connector::get']
        tx = [i for i in f.calls() if q.short_of(f.callee(i) or '') == 'transmit']
        ok = len(pick) == 1 and len(tx) == 1 and f.ref_of(f.args(pick[0])[0]) == sidp and f.contains(tx[0], pick[0]) and q.always_before_exit(f, tx)
        why = 'the session server is not chosen by the session id alone'
        if ok:
            dv = f.ref_of(f.args(tx[0])[1])
            first = [val for (dn, val) in f.defs_of_var(dv) if val is not None and f.N(f.strip(val))['k'] != 'CXXConstructExpr' or (val is not None and f.subtree_refs(val))] if dv else []
            apps = sorted([i for i in f.calls() if q.short_of(f.callee(i) or '') in ('operator+=', 'append', 'operator=', 'assign') and f.ref_of(f.N(i)['ch'][1] if f.N(i)['k'] == 'CXXOperatorCallExpr' else f.obj(i)) == dv],
                          key=lambda i: (f.N(i)['l'], f.N(i)['c']))
            srcs = [r_ for v_ in first for r_ in f.subtree_refs(v_) if r_.startswith('p:')] + [r_ for i in apps for r_ in f.subtree_refs(f.args(i)[-1]) if r_.startswith('p:')]
            ok = bool(dv) and srcs[:1] == [sidp] and (nm_ != 'save' or srcs == [sidp, q.param_by_index(f, 2)])
            why = 'the transmitted text is not the session id%s' % (' followed by the data' if nm_ == 'save' else '')
        ctx.check(ok, R13, 'tcp_storage::%s:server-chosen-by-id:id-sent-first' % nm_, why, f.where)
    accs = sorted([f for f in P.fns.values() if f.bname in ('cppcms::session_interface::set', 'cppcms::session_interface::get') and f.body is not None and '<' in f.id.split('(')[0]], key=lambda g: g.id)
    ctx.require(len(accs) >= 2 or ctx.violations, 'C06.R13: no session_interface::set<T> / get<T> instantiation in session_interface.cpp')
    for f in accs:
        streams = [d['ref'] for i in f.all_nodes() if f.N(i)['k'] == 'DeclStmt' for d in f.N(i)['decls'] if 'stringstream' in (f.types[d['t']] or '')]
        imb = [i for i in f.calls() if q.short_of(f.callee(i) or '') == 'imbue' and f.obj(i) is not None and f.ref_of(f.obj(i)) in streams and any(q.short_of(f.callee(j) or '') == 'classic' for j in f.calls(i))]
        io = [i for i in f.calls() if f.N(i)['k'] in ('CXXOperatorCallExpr', 'CXXMemberCallExpr') and (f.callee(i) or '').endswith(('operator<<', 'operator>>')) and any(s_ in f.subtree_refs(i) for s_ in streams)]
        ok = len(streams) == 1 and len(imb) == 1 and bool(io) and all(q.before(f, imb[0], i) for i in io)
        ctx.check(ok, R13, '%s:classic-locale-before-the-value' % f.id.split('(')[0].replace('cppcms::session_interface::', ''), 'the conversion does not imbue std::locale::classic() on its stream before the value passes through: writer and reader disagree under a global locale with digit grouping', f.where)
    # assigning a value keeps the entry's other attributes (an exposed key stays exposed)
    sset = [g for g in P.by_bname.get('cppcms::session_interface::set', []) if g.body is not None and len(g.params) == 2 and '<' not in g.id.split('(')[0] and 'basic_string' in (g.types[g.params[1]['t']] or '')]
    ctx.require(len(sset) == 1, 'C06.R13: session_interface::set(key, string) not found')
    ss_ = sset[0]
    vw = [w_ for w_ in q.field_writes(ss_, 'entry::value') if q.param_by_index(ss_, 1) in ss_.subtree_refs(ss_.N(w_)['ch'][-1])]
    whole = [i for i in ss_.all_nodes() if ss_.N(i)['k'] == 'CXXOperatorCallExpr' and ss_.N(i).get('op') == '=' and 'session_interface::entry' in (ss_.callee(i) or '')]
    ctx.check(len(vw) == 1 and not whole and q.always_before_exit(ss_, vw), R13, 'set(key,value):changes-the-value-only', 'assigning a value replaces the whole entry: the exposed flag of the key is silently reset', ss_.where)
    ctx.floor(R13, 6)
    ctx.floor(R1, 10)
    ctx.floor(R2, 10)
    ctx.floor(R3, 5)
    ctx.floor(R4, 25)
    ctx.floor(R5, 8)
    ctx.floor(R6, 4)
    ctx.floor(R7, 10)
    ctx.floor(R8, 35)
    ctx.floor(R9, 4)


def lin_sym(f):
    from vlib import lin
    return lin.Symb(f)


def _only_invalid(f, node, g_valid):
    return False
