"""C05 — client-side sessions are authentic and unexpired (DESIGN.md §2 C05)."""
from vlib import build, model, q
from vlib.build import AnalysisBroken, REPO

UNITS = ['src/hmac_encryptor.cpp', 'src/aes_encryptor.cpp', 'src/session_cookies.cpp', 'src/session_pool.cpp']
EQUAL = 'cppcms::sessions::impl::hmac_cipher::equal'
REL_NOT_EXPIRED = {('<', False), ('<=', False), ('>', True), ('>=', True)}   # deadline OP now
SWAP = {'<': '>', '<=': '>=', '>': '<', '>=': '<='}


def load(ctx, units=UNITS, **kw):
    us = [REPO + '/' + u for u in units]
    ctx.units = list(units)
    P = model.Program(build.extract(us, **kw))
    ctx.stats['functions'] = len(P.fns)
    ctx.stats['cfg_blocks'] = sum(len(f.blocks) for f in P.fns.values())
    return P


def run(ctx):
    ctx.explanation = ('Structural rules over the type-resolved AST and CFG of the encryptors and the cookie back-end: every use of '
                       'unauthenticated cipher text (write of the plain-text out-parameter, CBC decryption, success return) is reachable only '
                       'through the success edge of the constant-time MAC comparison; expiry is compared with time() under the MAC; '
                       'configuration refusals. Decides the code-shape clauses only, not cryptographic strength.')
    P = load(ctx)

    # ---- R1 MAC-BEFORE-USE ------------------------------------------------------------
    R1 = ctx.rule('C05.R1', 'decrypt overriders: plain-out write / cbc::decrypt / success return only after hmac_cipher::equal==true')
    decs = P.overriders_of('cppcms::sessions::encryptor::decrypt')
    P.fn(EQUAL)   # anchor: the comparison primitive itself must exist; a decrypt that does not branch on it is a violation
    ctx.require(len(decs) >= 2, 'C05.R1: fewer than 2 overriders of sessions::encryptor::decrypt found (%d)' % len(decs))
    for f in decs:
        gates = q.call_gate(f, lambda i: f.bcallee(i) == EQUAL, True)
        plain = q.param_by_index(f, 1)
        sites = [('write-plain', i) for i in q.writes_to(f, plain)]
        sites += [('cbc-decrypt', i) for i in f.calls() if f.bcallee(i) == 'cppcms::crypto::cbc::decrypt']
        sites += [('return-success', r) for r in q.nonfalse_returns(f)]
        for n, (kind, i) in enumerate(sites):
            ok = f.only_through(i, gates)
            ctx.check(ok, R1, '%s:%s#%d' % (q.fkey(f), kind, sum(1 for k, _ in sites[:n] if k == kind)),
                      'reachable without passing the true edge of the MAC comparison', f.loc(i))
    ctx.floor(R1, 5)

    # ---- R3 CONSTANT-TIME -------------------------------------------------------------
    R3 = ctx.rule('C05.R3', 'hmac_cipher::equal has no data-dependent exit; decrypt functions use no early-exit comparison')
    eq = P.fn(EQUAL)
    loops = [i for i in eq.walk() if eq.N(i)['k'] in ('ForStmt', 'WhileStmt', 'DoStmt')]
    ctx.require(len(loops) >= 1, 'C05.R3: no loop in hmac_cipher::equal')
    for L in loops:
        bad = [j for j in eq.walk(eq.N(L)['body']) if eq.N(j)['k'] in ('ReturnStmt', 'BreakStmt', 'GotoStmt', 'CXXThrowExpr')]
        ctx.check(not bad, R3, 'equal:loop-no-early-exit', 'early exit inside the comparison loop leaks the mismatch position', eq.loc(bad[0] if bad else L))
        # the bound is the length parameter, unmodified in the loop
        nref = q.param_by_index(eq, 2)
        cond = eq.N(L).get('cond', -1)
        # ... either directly (i < n) or through single-definition locals computed from it (left_end = left + n); the loop
        # condition must not read the compared bytes (no dereference / subscript in it)
        uses_n = cond >= 0 and nref in q.deep_refs(eq, cond)
        derefs = cond >= 0 and any((eq.N(j)['k'] == 'UnaryOperator' and eq.N(j).get('op') == '*') or eq.N(j)['k'] == 'ArraySubscriptExpr' for j in eq.walk(cond))
        ctx.check(uses_n and not derefs and not q.writes_to(eq, nref), R3, 'equal:loop-bound-is-n', 'loop bound is not the full length argument', eq.loc(L))
        # no && / || / ?: on compared data inside the loop condition
        cn = [j for j in eq.walk(cond)] if cond >= 0 else []
        ctx.check(not any(eq.N(j)['k'] in ('ConditionalOperator',) or (eq.N(j)['k'] == 'BinaryOperator' and eq.N(j).get('op') in ('&&', '||')) for j in cn),
                  R3, 'equal:loop-cond-simple', 'loop condition depends on compared data', eq.loc(L))
    for f in decs:
        bad = [i for i in f.calls() if (f.bcallee(i) or '') in ('memcmp', 'strcmp', 'strncmp', 'bcmp', 'std::equal', 'std::operator==', 'std::basic_string::compare', 'std::operator!=')]
        ctx.check(not bad, R3, '%s:no-early-exit-compare' % q.fkey(f), 'MAC compared with an early-exit primitive', f.loc(bad[0]) if bad else f.where)
        # the equal() call compares digest_size bytes: its length argument has digest_size() provenance
        for i in f.calls():
            if f.bcallee(i) == EQUAL:
                a = f.args(i)[2]
                ok = _has_digest_size_provenance(f, a)
                ctx.check(ok, R3, '%s:equal-length-is-digest-size' % q.fkey(f), 'length of the MAC comparison is not the digest size', f.loc(i))
    # R3a: exactness of the comparison primitive by abstract interpretation (n = 1..3, one side concrete, the other side all byte values)
    from vlib import absint
    from vlib.absint import AV, Arr, PV
    for nlen in (1, 2, 3):
        bad = None
        nb = 0
        for left in ([0x00] * nlen, [0x80, 0x7F, 0xFF][:nlen]):
            def runeq(it, left=left, nlen=nlen):
                la = Arr([AV.const(v - 256 if v > 127 else v) for v in left], 'left')
                ra = Arr([it.inbyte(k) for k in range(nlen)], 'right')
                return it.call_fn(eq, [PV(la, 0), PV(ra, 0), AV.const(nlen)])
            for (bx, r, it) in absint.explore(P, runeq, [[(0, 255)] * nlen], max_boxes=400000):
                nb += 1
                same = all(lo == hi == left[k] for k, (lo, hi) in enumerate(bx))
                differs = any(hi < left[k] or lo > left[k] for k, (lo, hi) in enumerate(bx))
                if not (isinstance(r, AV) and r.is_const()) or not (same or differs) or bool(r.lo) != same:
                    bad = (left, bx, r)
                    break
            if bad:
                break
        ctx.check(bad is None, R3, 'equal:exact:n=%d' % nlen, ('equal(%s, %s) = %r' % (bad[0], ['%02X-%02X' % b for b in bad[1]], bad[2])) if bad else '', eq.where, detail={'boxes': nb})
    ctx.floor(R3, 10)

    # ---- R4 EXPIRY-AND-CLEAR ----------------------------------------------------------
    R4 = ctx.rule('C05.R4', 'session_cookies::load: success only after decrypt==true and deadline-vs-time() test; failures clear the cookie')
    ld = P.fn('cppcms::sessions::session_cookies::load')
    g_dec = q.call_gate(ld, lambda i: ld.bcallee(i) == 'cppcms::sessions::encryptor::decrypt', True)
    dcs = [i for i in ld.calls() if ld.bcallee(i) == 'cppcms::sessions::encryptor::decrypt']
    ctx.require(dcs, 'C05.R4: session_cookies::load does not call encryptor::decrypt at all')
    dec_call = dcs[0]
    plain_ref = ld.ref_of(ld.args(dec_call)[1])
    ctx.require(plain_ref, 'C05.R4: cannot resolve the plain-text argument of decrypt')
    # deadline variable: written by memcpy whose source derives from the authenticated plain text
    dl_refs = set()
    for i in ld.calls():
        if ld.bcallee(i) == 'memcpy':
            a = ld.args(i)
            if plain_ref in ld.subtree_refs(a[1]):
                s = ld.strip(a[0])
                while ld.N(s)['k'] in ('UnaryOperator', 'CStyleCastExpr', 'CXXReinterpretCastExpr', 'CXXStaticCastExpr', 'ImplicitCastExpr'):
                    s = ld.strip(ld.N(s)['ch'][0])
                if ld.N(s).get('ref'):
                    dl_refs.add(ld.N(s)['ref'])

    def expiry_pred(atom, pol):
        n = ld.N(atom)
        if n['k'] != 'BinaryOperator' or n.get('op') not in SWAP:
            return False
        l, r = n['ch']
        lt = any(ld.bcallee(j) == 'time' for j in ld.calls(l))
        rt = any(ld.bcallee(j) == 'time' for j in ld.calls(r))
        op = n['op']
        if lt and not rt:
            op = SWAP[op]
            l, r = r, l
        elif not (rt and not lt):
            return False
        if not (ld.subtree_refs(l) & dl_refs):
            return False
        return (op, pol) in REL_NOT_EXPIRED
    g_exp = ld.gate_edges(expiry_pred)
    succ = q.nonfalse_returns(ld)
    ctx.require(succ, 'C05.R4: load has no success return')
    outs = [q.param_by_index(ld, 1), q.param_by_index(ld, 2)]
    sites = [('return-success', r) for r in succ]
    for o in outs:
        sites += [('write-out:' + o.split('@')[0], i) for i in q.writes_to(ld, o)]
    for kind, i in sites:
        ctx.check(ld.only_through(i, g_dec), R4, 'load:%s:after-decrypt' % kind, 'reachable without a successful decrypt', ld.loc(i))
        ctx.check(ld.only_through(i, g_exp), R4, 'load:%s:after-expiry-test' % kind, 'reachable without the deadline >= time() test', ld.loc(i))
    # failures after a non-empty cookie clear the cookie
    g_empty = q.empty_gate(ld)
    clear_blocks = set(ld.point_of(i)[0] for i in q.deep_calls(ld, lambda f, i: q.short_of(f.callee(i)) == 'clear_session_cookie'))
    ctx.require(clear_blocks, 'C05.R4: load never calls clear_session_cookie')
    for n, r in enumerate(q.false_returns(ld)):
        reach = ld.reachable_blocks(cut_edges=g_empty, cut_blocks=clear_blocks)
        ctx.check(ld.point_of(r)[0] not in reach, R4, 'load:return-false#%d:cookie-cleared' % n,
                  'a rejected non-empty cookie is not cleared on this path', ld.loc(r))
    # sibling: save() puts the timeout first
    sv = P.fn('cppcms::sessions::session_cookies::save')
    tref = q.param_by_index(sv, 2)
    appends = [i for i in sv.calls() if q.short_of(sv.callee(i)) in ('append', 'operator+=') and sv.N(i)['k'] in ('CXXMemberCallExpr', 'CXXOperatorCallExpr')]
    ctx.require(appends, 'C05.R4: save does not build the payload with append/+=')
    first = min(appends, key=lambda i: sv.point_of(i))
    ctx.check(tref in sv.subtree_refs(first), R4, 'save:timeout-first', 'the first bytes of the authenticated payload are not the timeout', sv.loc(first))
    enc = [i for i in sv.calls() if sv.bcallee(i) == 'cppcms::sessions::encryptor::encrypt']
    ctx.check(len(enc) == 1 and all(q.before(sv, a, enc[0]) for a in appends), R4, 'save:encrypt-after-payload', 'payload is not complete when it is authenticated', sv.where)
    ctx.floor(R4, 10)

    # ---- R5 CONFIG-REFUSALS -----------------------------------------------------------
    R5 = ctx.rule('C05.R5', 'configuration: no encryption without MAC, key >= 16 bytes, IV set before first encrypt')
    init = P.fn('cppcms::session_pool::init')
    news = [i for i in init.all_nodes() if init.N(i)['k'] == 'CXXNewExpr']
    fac = P.derived_from('cppcms::sessions::encryptor_factory')
    ctx.require(fac, 'C05.R5: no encryptor_factory implementations found')
    n_aes = 0
    for i in news:
        t = model.strip_targs(init.N(i).get('nt', ''))
        if t not in fac:
            continue
        ctx.check(t in ('cppcms::sessions::impl::hmac_factory', 'cppcms::sessions::impl::aes_factory'), R5,
                  'init:factory:%s' % t, 'an encryptor factory other than hmac/aes is configured', init.loc(i))
        ctor = [c for c in init.N(i)['ch'] if init.N(init.strip(c))['k'] == 'CXXConstructExpr']
        if t.endswith('aes_factory') and ctor:
            c = init.strip(ctor[0])
            a = init.args(c)
            if len(a) == 4:
                n_aes += 1
                cbc, mac = init.ref_of(a[0]), init.ref_of(a[2])
                ctx.require(cbc and mac, 'C05.R5: cannot resolve cbc/mac arguments of aes_factory')

                def pred(atom, pol, cbc=cbc, mac=mac):
                    if q.short_of(init.callee(atom)) != 'empty' or init.N(atom)['k'] != 'CXXMemberCallExpr':
                        return False
                    o = init.ref_of(init.obj(atom))
                    return (o == mac and pol is False) or (o == cbc and pol is True)  # cbc empty: the aes branch is infeasible
                g = init.gate_edges(pred)
                ctx.check(bool(g) and init.only_through(i, g), R5, 'init:aes_factory(cbc,key,mac,key):mac-nonempty',
                          'CBC encryption can be configured with an empty MAC name', init.loc(i))
    # which MAC the legacy "encryptor" spelling selects: the default algorithm only for the exact word, a named one by cutting off exactly the prefix that was tested
    lit_of = lambda e: [init.N(j).get('s') for j in init.walk(e) if init.N(j)['k'] == 'StringLiteral']
    cmps = [i for i in init.calls() if q.short_of(init.callee(i) or '') == 'compare' and len(init.args(i)) == 3]
    for i in cmps:
        a_ = init.args(i)
        lits = lit_of(a_[2])
        ctx.check(init.const_value(a_[0]) == 0 and len(lits) == 1 and init.const_value(a_[1]) == len(lits[0]), R5, 'init:prefix-test:%s:length-of-the-literal' % (lits[0] if lits else '?'),
                  'a configuration value is compared with %r over %s characters: the test is a different prefix than the one written' % (lits[:1], init.const_value(a_[1])), init.loc(i))
    for i in news:
        t = model.strip_targs(init.N(i).get('nt', ''))
        ctor = [c for c in init.N(i)['ch'] if init.N(init.strip(c))['k'] == 'CXXConstructExpr']
        if not t.endswith('hmac_factory') or not ctor:
            continue
        a_ = init.args(init.strip(ctor[0]))
        if len(a_) != 2:
            continue
        if lit_of(a_[0]):
            # a spelled-out default algorithm: only for the exact word
            def exact(atom, pol):
                n_ = init.N(atom)
                return n_['k'] == 'CXXOperatorCallExpr' and n_.get('op') in ('==', '!=') and lit_of(atom) == ['hmac'] and pol is (n_['op'] == '==')
            g_ex = init.gate_edges(exact)
            ctx.check(bool(g_ex) and init.only_through(i, g_ex), R5, 'init:hmac_factory(%s):only-for-the-exact-word-hmac' % lit_of(a_[0])[0],
                      'the default MAC algorithm is selected by something other than encryptor == "hmac": a value such as "hmac-sha256" silently gets %s' % lit_of(a_[0])[0], init.loc(i))
        else:
            subs = [j for j in q.expr_calls_deep(init, a_[0]) if q.short_of(init.callee(j) or '') == 'substr']
            if subs:
                k_ = init.const_value(init.args(subs[0])[0])
                pre = [c_ for c_ in cmps if init.const_value(init.args(c_)[1]) == k_ and init.ref_of(init.obj(c_)) == init.ref_of(init.obj(subs[0]))]
                g_pre = init.gate_edges(lambda atom, pol: init.N(atom)['k'] == 'BinaryOperator' and init.N(atom).get('op') in ('==', '!=') and any(c_ in set(init.walk(atom)) for c_ in pre) and
                                        init.const_value(init.N(atom)['ch'][1]) == 0 and pol is (init.N(atom)['op'] == '==')) if pre else []
                ctx.check(bool(pre) and bool(g_pre) and init.only_through(i, g_pre), R5, 'init:hmac_factory(substr(%s)):cuts-exactly-the-tested-prefix' % k_,
                          'the algorithm name is what follows %s characters, but no prefix of that length was tested on this path' % k_, init.loc(i))
    ctx.require(n_aes >= 1, 'C05.R5: split-key aes_factory construction not found in session_pool::init')
    hc = [f for f in P.fns.values() if f.brecord == 'cppcms::sessions::impl::hmac_cipher' and f.kind == 'ctor']
    ctx.require(hc, 'C05.R5: hmac_cipher constructor not found')
    for f in hc:
        def kpred(atom, pol, f=f):
            n = f.N(atom)
            if n['k'] != 'BinaryOperator' or n.get('op') not in ('<', '<=', '>', '>='):
                return False
            l, r = n['ch']
            lv, rv = f.const_value(l), f.const_value(r)
            sz = lambda x: any(f.bcallee(j) == 'cppcms::crypto::key::size' for j in f.calls(x))
            if sz(l) and rv is not None:
                # size < K false  /  size >= K true  / size <= K-1 false / size > K-1 true
                k = {'<': rv, '>=': rv, '<=': rv + 1, '>': rv + 1}[n['op']]
                good = (n['op'] in ('<', '<=') and pol is False) or (n['op'] in ('>', '>=') and pol is True)
                return good and k >= 16
            if sz(r) and lv is not None:
                k = {'>': lv, '<=': lv, '>=': lv + 1, '<': lv + 1}[n['op']]
                good = (n['op'] in ('>', '>=') and pol is False) or (n['op'] in ('<', '<=') and pol is True)
                return good and k >= 16
            return False
        g = f.gate_edges(kpred)
        reach = f.reachable_blocks(cut_edges=g, cut_blocks=f.abnormal_blocks())
        ctx.check(bool(g) and f.exit not in reach, R5, 'hmac_cipher::hmac_cipher:key>=16', 'a key shorter than 16 bytes is accepted', f.where)
    ldf = P.fn('cppcms::sessions::impl::aes_cipher::load')
    creates = [i for i in ldf.calls() if ldf.bcallee(i) == 'cppcms::crypto::cbc::create']
    nonce = [i for i in ldf.calls() if ldf.bcallee(i) == 'cppcms::crypto::cbc::set_nonce_iv']
    ctx.require(creates, 'C05.R5: aes_cipher::load does not create the cbc object')
    for c in creates:
        nb = set(ldf.point_of(i)[0] for i in nonce)
        pc = ldf.point_of(c)
        reach = ldf.reachable_blocks(start=pc[0], cut_blocks=(nb | ldf.abnormal_blocks()) - {pc[0]})
        same_block_ok = any(ldf.point_of(i)[0] == pc[0] and ldf.point_of(i)[1] > pc[1] for i in nonce)
        ctx.check(same_block_ok or ldf.exit not in reach, R5, 'aes_cipher::load:nonce-iv-after-create', 'a freshly created CBC object may be used without a random IV', ldf.loc(c))
    for f in [P.fn('cppcms::sessions::impl::aes_cipher::encrypt')] + [d for d in decs if d.brecord.endswith('aes_cipher')]:
        lcalls = [i for i in f.calls() if f.bcallee(i) == 'cppcms::sessions::impl::aes_cipher::load']
        uses = [i for i in f.calls() if (f.bcallee(i) or '').startswith('cppcms::crypto::cbc::')]
        ctx.check(bool(lcalls) and all(q.before(f, lcalls[0], u) for u in uses), R5, '%s:load-first' % q.fkey(f), 'cbc object used before load()', f.where)
    ctx.floor(R5, 6)
    # ---- R2 MAC-COVERAGE ------------------------------------------------------------------
    R2 = ctx.rule('C05.R2', 'decrypt: the MAC is computed over the whole message [0, size - digest), compared with the trailing digest_size bytes, and nothing outside the authenticated range is decrypted or copied out')
    from vlib import lin as _lin
    from vlib.lin import Lin as _L
    for f in decs:
        cp_ = q.param_by_index(f, 0)
        # single-definition locals with a linear definition are substituted (real_size = cipher.size() - digest_size, cipher_size = cipher.size(), ...)
        S0 = _lin.Symb(f)
        env = {}
        for _ in range(3):
            S0 = _lin.Symb(f, env)
            for i in f.all_nodes():
                if f.N(i)['k'] == 'DeclStmt':
                    for d in f.N(i)['decls']:
                        if d.get('init') is not None and len(f.defs_of_var(d['ref'])) == 1 and ((f.types[d['t']] or '').replace('const ', '') in ('unsigned long', 'unsigned int', 'int', 'long', 'size_t') or (f.types[d['t']] or '').rstrip().endswith('*')):
                            env[d['ref']] = S0.lin(d['init'])
        S = _lin.Symb(f, env)
        SIZE = None
        for i in f.calls_deep():
            if q.short_of(f.callee(i)) in ('size', 'length') and f.N(i)['k'] == 'CXXMemberCallExpr' and f.ref_of(f.obj(i)) == cp_:
                SIZE = S.lin(i)
        DIG = [S.lin(i) for i in f.calls() if q.short_of(f.callee(i)) == 'digest_size']
        DC = f.calls_deep()

        def data_off(node):
            """offset of a pointer expression into the cipher text, or None"""
            l = S.lin(node)
            base = [a for a in l.atoms() if a.startswith(cp_) and (a.endswith('.c_str()') or a.endswith('.data()'))]
            if len(base) != 1:
                return None
            return l - _L.atom(base[0])
        macs = [i for i in DC if f.bcallee(i) == 'cppcms::crypto::hmac::append' and data_off(f.args(i)[0]) is not None]
        eqs = [i for i in DC if f.bcallee(i) == EQUAL]
        ok = len(macs) == 1 and len(eqs) == 1 and SIZE is not None and bool(DIG)
        detail = {}
        if ok:
            m0, mlen = data_off(f.args(macs[0])[0]), S.lin(f.args(macs[0])[1])
            ea = [a for a in f.args(eqs[0])[:2] if data_off(a) is not None]
            elen = S.lin(f.args(eqs[0])[2])
            ok = len(ea) == 1
            if ok:
                e0 = data_off(ea[0])
                zero = _L.const(0).key()
                detail = {'mac': [repr(m0), repr(mlen)], 'digest_at': repr(e0), 'digest_len': repr(elen), 'size': repr(SIZE)}
                ok = m0.key() == zero and (e0 - m0 - mlen).key() == zero and (e0 + elen - SIZE).key() == zero and any((elen - d_).key() == zero for d_ in DIG)
        ctx.check(ok, R2, '%s:mac-covers-everything-before-the-trailing-digest' % q.fkey(f), 'the MAC does not cover [0, size - digest_size) or is not compared with the last digest_size bytes', f.where, detail=detail)
        if ok:
            # other reads of the cipher text: cbc decrypt(ptr, out, n), substr(pos, n), assign(ptr, n), std::string(ptr, n)
            uses = []
            for i in DC:
                if i in macs or i in eqs:
                    continue
                a = f.args(i)
                if f.bcallee(i) == 'cppcms::crypto::cbc::decrypt' and data_off(a[0]) is not None:
                    uses.append((i, data_off(a[0]), S.lin(a[2])))
                elif q.short_of(f.callee(i)) == 'substr' and f.N(i)['k'] == 'CXXMemberCallExpr' and f.ref_of(f.obj(i)) == cp_ and len(a) == 2:
                    uses.append((i, S.lin(a[0]), S.lin(a[1])))
                elif q.short_of(f.callee(i)) in ('assign', 'append', 'basic_string') and len(a) >= 2 and data_off(a[0]) is not None:
                    uses.append((i, data_off(a[0]), S.lin(a[1])))
            cons = [_lin.ge(SIZE - DIG[0])] + [_lin.ge(_L.atom(x)) for x in (mlen.atoms())]
            for k, (i, o, n_) in enumerate(uses):
                inside = _lin.implies(cons, _lin.ge(o - m0)) and _lin.implies(cons, _lin.ge(m0 + mlen - o - n_))
                ctx.check(inside, R2, '%s:use#%d:inside-authenticated-range' % (q.fkey(f), k), 'cipher-text bytes outside the MAC-covered range are decrypted / copied out', f.loc(i), detail={'offset': repr(o), 'length': repr(n_)})
            ctx.check(bool(uses), R2, '%s:uses-found' % q.fkey(f), 'no use of the authenticated cipher text found', f.where)
    # R8: what is compared with the transmitted digest is the HMAC that was just read out; the length is checked before it is subtracted
    R8 = ctx.rule('C05.R8', 'decrypt: the local operand of the MAC comparison is the buffer the keyed digest was read out into (same object that was fed the message), untouched in between; message size = size - digest_size is computed only after size >= digest_size')
    for f in decs:
        cp_ = q.param_by_index(f, 0)
        # the comparison may sit in decrypt itself or in a helper of the same file that decrypt calls
        hosts = [f] + [g for g in [P.fns.get(f.N(i).get('callee') or '') for i in f.calls()] if g is not None and g.entry is not None and g.file == f.file and g is not f]
        hosts = [g for g in hosts if any(g.bcallee(i) == EQUAL for i in g.calls())]
        if len(hosts) != 1 or len([i for i in hosts[0].calls() if hosts[0].bcallee(i) == EQUAL]) != 1:
            ctx.check(False, R8, '%s:one-comparison' % q.fkey(f), 'expected one MAC comparison (in decrypt or in a helper it calls)', f.where)
            continue
        h = hosts[0]
        e = [i for i in h.calls() if h.bcallee(i) == EQUAL][0]
        vecs = dict((d['ref'], h.types[d['t']] or '') for i in h.all_nodes() if h.N(i)['k'] == 'DeclStmt' for d in h.N(i)['decls'])
        loc_ops = [a for a in h.args(e)[:2] if any(r.startswith('v:') and 'std::vector' in vecs.get(r, '') for r in q.deep_refs(h, a))]
        bufs = set(r for a in loc_ops for r in q.deep_refs(h, a) if r.startswith('v:') and 'std::vector' in vecs.get(r, ''))
        ros = [i for i in h.calls() if h.bcallee(i) == 'cppcms::crypto::hmac::readout']
        apps = [i for i in h.calls() if h.bcallee(i) == 'cppcms::crypto::hmac::append']
        okb = len(loc_ops) == 1 and len(bufs) == 1 and len(ros) == 1 and len(apps) >= 1
        if okb:
            B = next(iter(bufs))
            ro = ros[0]
            same_obj = h.obj(ro) is not None and all(h.obj(a_) is not None and h.ref_of(h.obj(a_)) == h.ref_of(h.obj(ro)) for a_ in apps) and h.ref_of(h.obj(ro)) is not None
            into_b = B in q.deep_refs(h, h.args(ro)[0])

            def idx0(node, h=h):
                idx = [j for j in h.walk(node) if h.N(j)['k'] == 'CXXOperatorCallExpr' and h.N(j).get('op') == '[]']
                return (len(idx) == 1 and h.const_value(h.N(idx[0])['ch'][2]) == 0) or (not idx and any(q.short_of(h.bcallee(j) or '') in ('front', 'data') for j in h.calls(node)))
            start = idx0(h.args(ro)[0]) and idx0(loc_ops[0])
            order = all(q.before(h, a_, ro) for a_ in apps) and q.before(h, ro, e)
            touched = [i for i in h.calls() if i not in (ro, e) and h.point_of(i) and B in h.subtree_refs(i) and q.between(h, ro, i, e) and
                       (h.callee(i) in ('memset', 'memcpy', 'memmove') or q.short_of(h.bcallee(i) or '') in ('assign', 'clear', 'resize', 'swap', 'readout'))]
            okb = same_obj and into_b and start and order and not touched
        ctx.check(okb, R8, '%s:compared-value-is-the-read-out-mac' % q.fkey(f), 'the buffer compared with the transmitted digest is not (any more) the HMAC of the message: a cookie with a constant trailer would be accepted', h.loc(e))
        # size - digest_size only after the size test
        S8 = q.symb_with_locals(f)
        SIZE8 = None
        for i in f.calls():
            if q.short_of(f.callee(i)) in ('size', 'length') and f.N(i)['k'] == 'CXXMemberCallExpr' and f.ref_of(f.obj(i)) == cp_:
                SIZE8 = _lin.Symb(f).lin(i)
        DIG8 = [_lin.Symb(f).lin(i) for i in f.calls() if q.short_of(f.callee(i)) == 'digest_size']
        subs = []
        for i in f.all_nodes():
            n_ = f.N(i)
            if n_['k'] == 'BinaryOperator' and n_.get('op') == '-' and SIZE8 is not None and DIG8:
                l_, r_ = S8.lin(n_['ch'][0]), S8.lin(n_['ch'][1])
                if (l_ - SIZE8).key() == _L.const(0).key() and any((r_ - d_).key() == _L.const(0).key() for d_ in DIG8):
                    subs.append(i)

        def long_enough(atom, pol, f=f, S8=S8):
            n_ = f.N(atom)
            if n_['k'] != 'BinaryOperator' or n_.get('op') not in ('<', '<=', '>', '>='):
                return False
            cons = S8.rel(atom, pol)
            if not cons or SIZE8 is None or not DIG8:
                return False
            atoms_ = set(a for (_, e_) in cons for a in e_.atoms()) | set(SIZE8.atoms()) | set(a for d_ in DIG8 for a in d_.atoms())
            return _lin.implies(cons + [_lin.ge(_L.atom(a)) for a in atoms_], _lin.ge(SIZE8 - DIG8[0]))       # all quantities are unsigned sizes
        g_len = f.gate_edges(long_enough)
        ctx.check(bool(subs) and bool(g_len) and all(f.only_through(i, g_len) for i in subs), R8, '%s:size-minus-digest-only-when-long-enough' % q.fkey(f),
                  'size - digest_size is computed for a cookie shorter than the digest (wraps to a huge length that is then hashed / read)', f.loc(subs[0]) if subs else f.where)
    # the block cipher writes its n output bytes into the start of a buffer of at least n bytes
    for f in decs + P.overriders_of('cppcms::sessions::encryptor::encrypt'):
        S9 = q.symb_with_locals(f)
        for k_, i in enumerate([i for i in f.calls() if f.bcallee(i) in ('cppcms::crypto::cbc::decrypt', 'cppcms::crypto::cbc::encrypt')]):
            a = f.args(i)
            idx = [j for j in f.walk(a[1]) if f.N(j)['k'] == 'CXXOperatorCallExpr' and f.N(j).get('op') == '[]']
            fr_ = [j for j in f.calls(a[1]) if q.short_of(f.bcallee(j) or '') in ('front', 'data') and f.obj(j) is not None]
            outv = [f.ref_of(f.N(idx[0])['ch'][1])] if len(idx) == 1 else ([f.ref_of(f.obj(fr_[0]))] if len(fr_) == 1 else [])
            outv = [r for r in outv if r and r.startswith('v:')]
            at0 = (len(idx) == 1 and f.const_value(f.N(idx[0])['ch'][2]) == 0) or (not idx and any(q.short_of(f.bcallee(j) or '') in ('front', 'data') for j in f.calls(a[1])))
            okc = len(outv) == 1 and at0
            if okc:
                ctor = [(d_, v_) for (d_, v_) in f.defs_of_var(outv[0]) if v_ is not None]
                okc = len(ctor) == 1 and f.N(f.strip(ctor[0][1]))['k'] in ('CXXConstructExpr',) and bool(f.args(f.strip(ctor[0][1])))
                if okc:
                    cap = S9.lin(f.args(f.strip(ctor[0][1]))[0])
                    need = S9.lin(a[2])
                    atoms_ = set(cap.atoms()) | set(need.atoms())
                    okc = _lin.implies([_lin.ge(_L.atom(x)) for x in atoms_], _lin.ge(cap - need))
            ctx.check(okc, R8, '%s:cbc#%d:output-buffer-holds-the-n-bytes-written' % (q.fkey(f), k_), 'the block cipher writes n bytes to a place that has fewer than n bytes left', f.loc(i))
    ctx.floor(R8, 5)
    # encrypt side: the MAC covers everything that precedes it in the produced cookie
    encs = P.overriders_of('cppcms::sessions::encryptor::encrypt')
    for f in encs:
        env = {}
        for _ in range(3):
            S0 = _lin.Symb(f, env)
            for i in f.all_nodes():
                if f.N(i)['k'] == 'DeclStmt':
                    for d in f.N(i)['decls']:
                        ty = (f.types[d['t']] or '').replace('const ', '')
                        if d.get('init') is not None and len(f.defs_of_var(d['ref'])) == 1 and ty in ('unsigned long', 'unsigned int', 'int', 'long', 'size_t'):
                            env[d['ref']] = S0.lin(d['init'])
        S = _lin.Symb(f, env)

        def vec_off(node):
            """(container variable, Lin offset) for &v[e], &v.front(), v.c_str()+e, v.data()+e"""
            j = f.strip(node)
            n = f.N(j)
            while n['k'] in ('CStyleCastExpr', 'CXXReinterpretCastExpr', 'CXXStaticCastExpr') and n['ch']:
                j = f.strip(n['ch'][0])
                n = f.N(j)
            if n['k'] == 'UnaryOperator' and n.get('op') == '&':
                c = f.strip(n['ch'][0])
                cn = f.N(c)
                if cn['k'] == 'CXXOperatorCallExpr' and cn.get('op') == '[]':
                    return f.ref_of(cn['ch'][1]), S.lin(cn['ch'][2])
                if cn['k'] == 'CXXMemberCallExpr' and q.short_of(f.callee(c)) == 'front':
                    return f.ref_of(f.obj(c)), _L.const(0)
            if n['k'] == 'CXXMemberCallExpr' and q.short_of(f.callee(j)) in ('c_str', 'data'):
                return f.ref_of(f.obj(j)), _L.const(0)
            if n['k'] == 'BinaryOperator' and n.get('op') == '+':
                b = vec_off(n['ch'][0])
                if b and b[0]:
                    return b[0], b[1] + S.lin(n['ch'][1])
            return None, None
        aps = [i for i in f.calls() if f.bcallee(i) == 'cppcms::crypto::hmac::append']
        ros = [i for i in f.calls() if f.bcallee(i) == 'cppcms::crypto::hmac::readout']
        ok = len(aps) == 1 and len(ros) == 1
        detail = {}
        if ok:
            rv, ro = vec_off(f.args(ros[0])[0])
            mlen = S.lin(f.args(aps[0])[1])
            mv, mo = vec_off(f.args(aps[0])[0])
            zero = _L.const(0).key()
            detail = {'mac_len': repr(mlen), 'digest_at': repr(ro)}
            # the digest is stored right after mlen bytes of the output buffer, and those mlen bytes are what was MAC'd:
            # either the MAC input is that very buffer prefix, or it is the plain text that is copied to the prefix with the same length
            ok = rv is not None and ro is not None and (ro - mlen).key() == zero and mo is not None and mo.key() == zero
            if ok and mv != rv:
                cps = [i for i in f.calls() if f.callee(i) == 'memcpy' and vec_off(f.args(i)[0])[0] == rv and vec_off(f.args(i)[0])[1].key() == zero and
                       vec_off(f.args(i)[1])[0] == mv and (S.lin(f.args(i)[2]) - mlen).key() == zero]
                ok = len(cps) == 1
        ctx.check(ok, R2, '%s:digest-follows-exactly-the-authenticated-bytes' % q.fkey(f), 'the digest is not stored directly after the bytes it authenticates', f.where, detail=detail)
    ctx.floor(R2, 6)

    # ---- R7 KEY-SPLIT -------------------------------------------------------------------
    R7 = ctx.rule('C05.R7', 'aes_factory(algo,key): the encryption key and the MAC key are taken from disjoint material that covers the configured secret '
                            '(exact-length key: [0,cbc) and [cbc,cbc+digest); shorter key: two separate HMAC derivations with different labels)')
    from vlib import lin
    from vlib.lin import Lin, ge, eq
    af = [f for f in P.by_bname.get('cppcms::sessions::impl::aes_factory::aes_factory', []) if len(f.params) == 2]
    ctx.require(len(af) == 1, 'C05.R7: aes_factory(algo,key) not found')
    af = af[0]
    kp = q.param_by_index(af, 1)
    sets = [i for i in af.calls() if af.bcallee(i) == 'cppcms::crypto::key::set' and len(af.args(i)) == 2]
    which = lambda i: (q.obj_field(af, i) or '').rsplit('::', 1)[-1]
    direct = [i for i in sets if kp in af.subtree_refs(af.args(i)[0])]
    derived = [i for i in sets if i not in direct]
    ctx.check(sorted(which(i) for i in direct) == ['cbc_key_', 'hmac_key_'] and sorted(which(i) for i in derived) == ['cbc_key_', 'hmac_key_'], R7,
              'aes_factory:both-keys-set-in-both-modes', 'expected cbc_key_ and hmac_key_ to be set once in the exact-length mode and once in the derived mode', af.where)
    S = lin.Symb(af)
    if len(direct) == 2:
        base = None
        parts = {}
        for i in direct:
            pl = S.lin(af.args(i)[0])
            datas = [a for a in pl.atoms() if a.endswith('.data()')]
            off = pl
            for a in datas:
                off = off - Lin.atom(a)
            parts[which(i)] = (off, S.lin(af.args(i)[1]), datas)
        okb = all(len(d) == 1 for (_, _, d) in parts.values())
        (oc, nc, _), (oh, nh, _) = parts.get('cbc_key_', (None, None, None)), parts.get('hmac_key_', (None, None, None))
        ksz = Lin.atom(kp + '.size()')
        # facts: the gate of the branch, sizes are non-negative
        gate = None
        for i in direct:
            for (b, s_, lab, tag) in [e for e in af.gate_edges(lambda atom, pol: af.N(atom)['k'] == 'BinaryOperator' and af.N(atom).get('op') == '==' and pol is True and
                                                              any(r == kp for r in af.subtree_refs(atom))) if len(e) == 4]:
                pass
        g_exact = af.gate_edges(lambda atom, pol: af.N(atom)['k'] == 'BinaryOperator' and af.N(atom).get('op') == '==' and pol is True and kp in af.subtree_refs(atom))
        conds = []
        for B in af.blocks.values():
            if B.tcond is not None and af.N(af.strip(B.tcond))['k'] == 'BinaryOperator' and af.N(af.strip(B.tcond)).get('op') == '==' and kp in af.subtree_refs(B.tcond):
                conds.append(af.strip(B.tcond))
        cons = []
        for c in conds[:1]:
            cons += S.rel(c, True) or []
        for e in (nc, nh):
            cons += [ge(a_) for a_ in [Lin.atom(x) for x in e.atoms()]]
        inb = okb and bool(conds) and all(af.only_through(i, g_exact) for i in direct)
        goals = [('cbc-in-bounds', [ge(oc), ge(ksz - oc - nc)]), ('hmac-in-bounds', [ge(oh), ge(ksz - oh - nh)]), ('cover', [eq(nc + nh - ksz)])]
        for nm, gl in goals:
            ctx.check(inb and all(lin.implies(cons, g_) for g_ in gl), R7, 'aes_factory:exact-key:%s' % nm, 'not provable from k.size() == cbc_key_size + digest_size', af.loc(direct[0]),
                      detail={'cbc': [repr(oc), repr(nc)], 'hmac': [repr(oh), repr(nh)]})
        disj = inb and (lin.implies(cons, ge(oh - oc - nc)) or lin.implies(cons, ge(oc - oh - nh)))
        ctx.check(disj, R7, 'aes_factory:exact-key:disjoint', 'the MAC key overlaps the encryption key (part of the configured secret is unused)', af.loc(direct[0]),
                  detail={'cbc': [repr(oc), repr(nc)], 'hmac': [repr(oh), repr(nh)]})
        # roles of the two lengths
        for nm, e, meth in (('cbc_key_', nc, 'key_size'), ('hmac_key_', nh, 'digest_size')):
            ats = list(e.atoms())
            okr = len(ats) == 1 and ats[0].startswith('v:')
            if okr:
                ds = af.defs_of_var(ats[0])
                okr = len(ds) == 1 and ds[0][1] is not None and any(q.short_of(af.callee(j)) == meth for j in af.calls(ds[0][1]))
            ctx.check(okr, R7, 'aes_factory:exact-key:%s-length-is-%s' % (nm, meth), 'length of %s is not %s()' % (nm, meth), af.loc(direct[0]))
    if len(derived) == 2:
        roots = {}
        for i in derived:
            rs = [r for r in af.subtree_refs(af.args(i)[0]) if r.startswith('v:')]
            roots[which(i)] = rs[0] if len(rs) == 1 else None
        ctx.check(None not in roots.values() and len(set(roots.values())) == 2, R7, 'aes_factory:derived:distinct-buffers', 'both keys are taken from the same derived buffer', af.loc(derived[0]))
        ro = [i for i in af.calls() if af.bcallee(i) == 'cppcms::crypto::hmac::readout']
        ap = [i for i in af.calls() if af.bcallee(i) == 'cppcms::crypto::hmac::append']
        tgt = []
        for i in ro:
            rs = [r for r in af.subtree_refs(af.args(i)[0]) if r.startswith('v:')]
            tgt.append(rs[0] if len(rs) == 1 else None)
        labels = []
        for i in ap:
            lits = [af.N(j).get('s') for j in af.walk(af.args(i)[0]) if af.N(j)['k'] == 'StringLiteral']
            labels.append(lits[0] if lits else None)
        okd = len(ro) == 2 and len(ap) == 2 and sorted(x or '' for x in tgt) == sorted(x or '' for x in roots.values()) and None not in labels and labels[0] != labels[1]
        okd = okd and all(q.before(af, ap[k], ro[k]) for k in range(2)) and q.before(af, ro[0], ap[1])
        ctx.check(okd, R7, 'aes_factory:derived:two-labelled-derivations', 'the two sub-keys are not two separate HMAC outputs over different labels', af.loc(derived[0]),
                  detail={'labels': labels})
    ctx.floor(R7, 8)

    base64_clause(ctx)


def base64_clause(ctx):
    """the cookie is base64url text: the decoder's size / alphabet rules of C15.R4 are a necessary part of 'a cookie this server did not produce is rejected safely'"""
    from vlib import report
    from rules import C15
    sub = report.Ctx('C15', ctx.tier, ctx.seed)
    C15.run(sub)
    R6 = ctx.rule('C05.R6', 'base64url layer of the cookie: alphabet, inverse table, exact size formulas, impossible lengths rejected (C15.R4 re-used)')
    for inst in sub.rules['C15.R4']['instances']:
        ctx.check(inst['ok'], R6, inst['key'], inst.get('message', ''), inst.get('loc'), inst.get('detail'))
    ctx.floor(R6, 10)
    if 'src/base64.cpp' not in ctx.units:
        ctx.units.append('src/base64.cpp')


def _has_digest_size_provenance(f, a, depth=0):
    for j in f.walk(a):
        if q.short_of(f.callee(j)) == 'digest_size':
            return True
    r = f.ref_of(a)
    if r and depth < 3:
        defs = f.defs_of_var(r)
        return bool(defs) and all(v is not None and _has_digest_size_provenance(f, v, depth + 1) for _, v in defs)
    return False
