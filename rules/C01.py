"""C01 — every front-end delivers the request the peer sent, however it is segmented.
Decided clauses: keep-alive hygiene (a request on a reused connection starts from the state of the first one) and the read-ahead cursors stay in bounds.
Parsing exactness / equality of the three front-ends / independence of split points are statements about parsed values and are NOT decided."""
from vlib import build, model, q, lockset, linbound
from vlib.lin import Lin, ge
from vlib.build import AnalysisBroken, REPO

CONN = 'cppcms::impl::cgi::connection'
HTTP = 'cppcms::impl::cgi::http'
FC = 'cppcms::impl::cgi::fastcgi'
BOUNDARY = ('reset_all', 'keep_alive', 'async_read_headers')
OUTPUT_SIDE = {'headers_done_', 'chunked_te_', 'output_written_', 'output_content_length_', 'response_headers_written_', 'response_headers_', 'eof_', 'full_header_',
               'pending_output_', 'async_chunk_', 'chunked_header_', 'eof_callback_', 'cached_async_write_binder_'}
# fields that legitimately survive a request boundary: one symbol, one reason
ALLOW = {
    'socket_': 'the connection itself',
    'input_body_': 'read-ahead of the next request must survive the boundary',
    'input_body_ptr_': 'cursor into the read-ahead buffer',
    'cache_': 'read-ahead of the next record must survive the boundary (cursors are reset only when it is empty)',
    'time_to_die_': 'watchdog deadline, refreshed by update_time() on every turn',
    'sync_option_is_set_': 'socket option state, per connection',
    'in_watchdog_': 'watchdog registration, per connection',
    'remote_ip_': 'peer address, per connection',
    'error_': 'a non-empty error makes the connection non-reusable (is_reuseable())',
    'error_state_': 'set only on the error path, after which the connection is not reused',
    'pending_output_': 'drained before the response completes (C03)',
    'cached_async_write_binder_': 'object cache; the binder resets itself before it is cached',
    'async_chunk_': 'scratch: cleared / assigned before every use',
    'chunked_header_': 'scratch: assigned before every use',
    'full_header_': 'scratch record header, rewritten before use (C03.R2)',
    'response_headers_': 'http: cleared by set_response_headers() at the start of every response',
    'eof_callback_': 'fastcgi: cleared by do_eof() on every completion that set it',
}


def field_writes_of(f, owners):
    out = {}
    for i in f.all_nodes():
        n = f.N(i)
        if n['k'] == 'MemberExpr' and n.get('ref', '').startswith('f:'):
            bf = model.strip_targs(n['ref'])
            for o in owners:
                if bf.startswith('f:' + o + '::') and bf.count('::') == o.count('::') + 1:
                    if lockset.classify_access(f, i) == 'w':
                        out.setdefault(bf.rsplit('::', 1)[-1], i)
    return out


def reset_sets(P, K, boundary=BOUNDARY):
    owners = [K, CONN]
    fns = [f for f in P.fns.values() if f.brecord in owners or (f.brecord or '').startswith(K + '::') or (f.brecord or '').startswith(CONN + '::')]
    start = [f for f in fns if f.short in boundary and f.brecord in owners]
    seen, stack, R = set(), list(start), {}
    while stack:
        f = stack.pop()
        if f.id in seen:
            continue
        seen.add(f.id)
        for k, v in field_writes_of(f, owners).items():
            R.setdefault(k, (f, v))
        for i in f.calls():
            g = P.fns.get(f.N(i).get('callee'))
            if g is not None and g.brecord in owners and g.short in ('reset_all', 'update_time'):
                stack.append(g)
    Pset = {}
    for f in fns:
        if f.kind in ('ctor', 'dtor') or f.id in seen:
            continue
        for k, v in field_writes_of(f, owners).items():
            Pset.setdefault(k, (f, v))
    return Pset, R, start


def reset_rule(ctx, P, R, side):
    """side: 'input' -> fields outside OUTPUT_SIDE (C01), 'output' -> fields in OUTPUT_SIDE (C03)"""
    total = 0
    for K in (HTTP, FC):
        short = K.rsplit('::', 1)[-1]
        # output-side state may also be re-initialised by set_response_headers(), which runs at the start of every response
        Pset, Rset, start = reset_sets(P, K, BOUNDARY if side == 'input' else BOUNDARY + ('set_response_headers',))
        if not start or len(Pset) < 15:
            raise AnalysisBroken('%s: boundary functions / per-request fields of %s not found (%d fields)' % (R, short, len(Pset)))
        # the keep-alive turn really runs the boundary code
        ka = [f for f in start if f.short == 'keep_alive' and f.brecord == K]
        if side == 'input':
            ok = bool(ka) and any(g.short == 'reset_all' for f in ka for i in f.calls() for g in [P.fns.get(f.N(i).get('callee'))] if g is not None)
            ctx.check(ok, R, '%s:keep_alive-runs-reset_all' % short, 'a reused connection does not pass through reset_all()', ka[0].where if ka else None)
            # the base-class part is reset on the keep-alive turn as well
            base_called = any(g is not None and g.brecord == CONN and g.short == 'reset_all' for f in P.fns.values() if f.brecord == K and (f.short in BOUNDARY)
                              for i in f.calls() for g in [P.fns.get(f.N(i).get('callee'))])
            ctx.check(base_called, R, '%s:base-connection::reset_all-called' % short, 'per-request state kept in the connection base class (the lazily built environment map) is never reset between requests', ka[0].where if ka else None)
        for fld in sorted(Pset):
            is_out = fld in OUTPUT_SIDE
            if (side == 'input') == is_out:
                continue
            total += 1
            f, node = Pset[fld]
            if fld in Rset:
                ctx.check(True, R, '%s:%s' % (short, fld), loc=f.loc(node), detail={'reset_in': Rset[fld][0].bname})
            elif fld in ALLOW:
                ctx.check(True, R, '%s:%s' % (short, fld), loc=f.loc(node), detail={'survives-by-design': ALLOW[fld]})
            elif _guarded_scratch(P, K, fld, Rset):
                ctx.check(True, R, '%s:%s' % (short, fld), loc=f.loc(node), detail={'written-before-every-read': _guarded_scratch(P, K, fld, Rset)})
            else:
                ctx.check(False, R, '%s:%s' % (short, fld), 'per-request field %s (written in %s) is not reset at the request boundary: the next request on a kept-alive connection starts from stale state' % (fld, f.short), f.loc(node))
    return total


def run(ctx):
    ctx.explanation = ('Keep-alive hygiene: the set of fields written while a request is processed is computed from the code (both reusable front-ends and the connection base class) and each must be written by the '
                       'request-boundary functions (keep_alive / reset_all / async_read_headers closure) or be on a one-symbol allow-list with a reason. Read-ahead cursors: linear bounds of the FastCGI record readers and the '
                       'HTTP/FastCGI async_read_some copies under the declared cursor invariants. Parsing exactness and front-end equality are not decided.')
    ctx.units = ['src/http_api.cpp', 'src/fastcgi_api.cpp', 'src/cgi_api.cpp', 'src/scgi_api.cpp']
    P = model.Program(build.extract([REPO + '/' + u for u in ctx.units], include_re='^/repo/(src|private|cppcms)/'))
    ctx.stats['functions'] = len(P.fns)
    R1 = ctx.rule('C01.R1', 'every input-side per-request field of the reusable front-ends is reset at the request boundary (or survives by design, one reason each)')
    R2 = ctx.rule('C01.R2', 'read-ahead cursors: every copy out of the FastCGI cache / HTTP input buffer / FastCGI body stays inside the buffer (linear proofs under the cursor invariant)')
    R3 = ctx.rule('C01.R3', 'a front-end that never resets (SCGI) is never reused')
    R5 = ctx.rule('C01.R5', 'FastCGI record readers: after a record was taken - from the read-ahead cache or from the socket - the accumulated body is the previous body plus exactly the content of this record (padding removed), on both paths')
    R4 = ctx.rule('C01.R4', 'HTTP header budget: every pass charges exactly the bytes it hands to the parser (input_body_.size() - input_body_ptr_ at the parse loop), so the 16 KiB header limit does not depend on how the stream was segmented')
    n = reset_rule(ctx, P, R1, 'input')
    ctx.floor(R1, 25)
    sc = P.fn('cppcms::impl::cgi::scgi::keep_alive')
    rets = [r for r in sc.returns() if sc.ret_value(r) is not None]
    ctx.check(bool(rets) and all(sc.const_value(sc.ret_value(r)) == 0 for r in rets), R3, 'scgi::keep_alive:false', 'SCGI connections can be reused although the class has no per-request reset', sc.where)

    # ---------------- R2
    E = linbound.Engine(P, inline_depth=2 if ctx.tier == 'quick' else 3)
    E.struct_sizes = {FC + '::fcgi_header': 8}
    CS, CE, CSZ = 'this.f:%s::cache_start_' % FC, 'this.f:%s::cache_end_' % FC, 'this.f:%s::cache_.size()' % FC
    BP, BSZ = 'this.f:%s::body_ptr_' % FC, 'this.f:%s::body_.size()' % FC
    IP, ISZ = 'this.f:%s::input_body_ptr_' % HTTP, 'this.f:%s::input_body_.size()' % HTTP

    def inv_fc(engine, fn, st):
        for a in (CS, CE, CSZ, BP, BSZ):
            st.env[a] = Lin.atom(a)
        st.cons += [ge(Lin.atom(CS)), ge(Lin.atom(CE) - Lin.atom(CS)), ge(Lin.atom(CSZ) - Lin.atom(CE)), ge(Lin.atom(BP)), ge(Lin.atom(BSZ) - Lin.atom(BP))]

    def inv_http(engine, fn, st):
        for a in (IP, ISZ):
            st.env[a] = Lin.atom(a)
        st.cons += [ge(Lin.atom(IP)), ge(Lin.atom(ISZ) - Lin.atom(IP))]
    for name in ('non_blocking_read_record', 'async_read_from_socket', 'peek_bytes', 'async_read_some', 'on_header_read'):
        E.analyse(P.fn(FC + '::' + name), entry=inv_fc)
    E.analyse(P.fn(HTTP + '::async_read_some'), entry=inv_http)
    seen = {}
    for ob in E.obligations:
        top = ob.chain[0]
        base = '%s::%s>%s:%s' % (top.brecord.rsplit('::', 1)[-1], top.short, ob.fn.short, ob.kind) if top is not ob.fn else '%s::%s:%s' % (ob.fn.brecord.rsplit('::', 1)[-1], ob.fn.short, ob.kind)
        ctx.check(ob.proved, R2, '%s@L%d' % (base, ob.fn.N(ob.node)['l'] - ob.fn.line), 'not provable: ' + ob.desc, ob.fn.loc(ob.node),
                  detail={'obligation': ob.desc, 'constraints': [repr(c[1]) + (' >= 0' if c[0] == 'ge' else ' == 0') for c in ob.cons][-10:]})
    # ---------------- R4 header budget counts each byte once
    from vlib import lin
    hr = P.fn(HTTP + '::some_headers_data_read')
    S = lin.Symb(hr)
    incs = [w for w in q.field_writes(hr, 'http::total_read_') if hr.N(w)['k'] == 'CompoundAssignOperator' and hr.N(w).get('op') == '+=']
    allw = q.field_writes(hr, 'http::total_read_')
    ctx.check(len(incs) >= 2 and len(allw) == len(incs), R4, 'some_headers_data_read:budget-only-incremented', 'total_read_ is written other than by += in the read path', hr.where)
    steps = [i for i in hr.calls() if (hr.bcallee(i) or '').endswith('parser::step')]
    ctx.require(steps, 'C01.R4: the header parser is not driven from some_headers_data_read')
    for k, w in enumerate(incs):
        # the branch (then / else arm, or the whole body) in which this increment sits
        arm = None
        for a in hr.ancestors(w):
            par = hr.parent.get(a)
            if par is not None and hr.N(par)['k'] == 'IfStmt' and a in (hr.N(par).get('then'), hr.N(par).get('else')):
                arm = a
                break
        ok = arm is not None and not q.loops(hr, arm) and not q.enclosing_loops(hr, w) and q.reaches(hr, w, steps[0])
        detail = {}
        if ok:
            ptrw = [x for x in q.field_writes(hr, 'http::input_body_ptr_') if hr.contains(arm, x)]
            rsz = [x for x in q.field_calls(hr, 'http::input_body_', 'resize') if hr.contains(arm, x)]
            order = lambda x: hr.point_of(x)
            ptr_v = Lin.atom(IP)
            if ptrw:
                last = max(ptrw, key=lambda x: (-order(x)[0], order(x)[1]))
                ptr_v = S.lin(hr.N(last)['ch'][1]) if hr.N(last).get('op') == '=' else None
            size_v = Lin.atom(ISZ)
            if rsz:
                last = max(rsz, key=lambda x: (-order(x)[0], order(x)[1]))
                size_v = S.lin(hr.args(last)[0])
                # the operands of the size expression keep their value between the increment and the resize
                lo, hi = sorted([w, last], key=lambda x: (-order(x)[0], order(x)[1]))
                for r_ in hr.subtree_refs(hr.args(last)[0]) | hr.subtree_refs(hr.N(w)['ch'][1]):
                    if r_.startswith(('v:', 'p:')):
                        for (d_, _) in hr.defs_of_var(r_):
                            if hr.contains(arm, d_) and hr.point_of(d_) and q.before(hr, lo, d_) and q.before(hr, d_, hi) and d_ not in (lo, hi):
                                ok = False
            inc = S.lin(hr.N(w)['ch'][1])
            detail = {'increment': repr(inc), 'size_at_parse': repr(size_v), 'cursor_at_parse': repr(ptr_v)}
            ok = ok and ptr_v is not None and (inc - (size_v - ptr_v)).key() == Lin.const(0).key()
        ctx.check(ok, R4, 'some_headers_data_read:budget#%d:charges-unparsed-bytes' % k, 'the header budget is charged with something other than the bytes about to be parsed (size - cursor)', hr.loc(w), detail=detail)
    lim = hr.gate_edges(lambda atom, pol: hr.N(atom)['k'] == 'BinaryOperator' and hr.N(atom).get('op') in ('>', '>=') and pol is True and any(model.strip_targs(r).endswith('http::total_read_') for r in hr.subtree_refs(atom)))
    ctx.check(bool(lim), R4, 'some_headers_data_read:limit-tested', 'the header budget is never compared with a limit', hr.where)
    ctx.floor(R4, 4)
    # ---------------- R5 both record readers agree on what a record adds to body_
    BODY = 'this.f:%s::body_.size()' % FC
    CLEN = [None]

    def resize_args(f):
        S = q.symb_with_locals(f)
        out = []
        for i in q.field_calls(f, 'fastcgi::body_', 'resize'):
            out.append((i, S.lin(f.args(i)[0])))
        return out
    nb = P.fn(FC + '::non_blocking_read_record')
    ohr = P.fn(FC + '::on_header_read')
    obr = P.fn(FC + '::on_body_read')
    ra_nb, ra_h, ra_b = resize_args(nb), resize_args(ohr), resize_args(obr)

    def atoms_named(l, name):
        return [a_ for a_ in l.atoms() if model.strip_targs(a_).endswith(name)]
    ok = len(ra_nb) >= 1 and len(ra_h) == 1 and len(ra_b) == 1
    detail = {}
    if ok:
        last_nb = max(ra_nb, key=lambda x: (-nb.point_of(x[0])[0], nb.point_of(x[0])[1]))[1]
        r1, r2 = ra_h[0][1], ra_b[0][1]
        detail = {'cache path': repr(last_nb), 'socket path: before the read': repr(r1), 'socket path: after the read': repr(r2)}
        # socket path: the second resize is expressed in the size the first one established
        comp = r2.subst(BODY, r1) if BODY in r2.atoms() else None
        cl_ = atoms_named(last_nb, 'fcgi_header::content_length')
        ok = comp is not None and len(cl_) == 1 and (last_nb - Lin.atom(BODY) - Lin.atom(cl_[0])).key() == Lin.const(0).key() and (comp - last_nb).key() == Lin.const(0).key()
    ctx.check(ok, R5, 'fastcgi:record-readers:body-grows-by-content-length', 'the two ways of reading a record do not both leave body_ = previous body + content of the record', obr.where, detail=detail)
    # the final size of the cache path is set after the copy on every path that copied
    rb = [i for i in nb.calls() if nb.bcallee(i) == FC + '::read_bytes']
    ctx.check(len(rb) == 1 and len(ra_nb) == 2 and q.before(nb, ra_nb[0][0], rb[0]) and q.always_after(nb, rb[0], [ra_nb[-1][0]]), R5, 'non_blocking_read_record:grow-copy-trim', 'record is not copied into freshly grown space and trimmed afterwards', nb.where)
    ctx.floor(R5, 2)
    ctx.assume('cursor invariants at member-function entry: fastcgi 0 <= cache_start_ <= cache_end_ <= cache_.size(), body_ptr_ <= body_.size(); http input_body_ptr_ <= input_body_.size(); '
               'an asynchronous read completes with at most the number of bytes of the buffer it was given')
    ctx.floor(R2, 12)
    ctx.stats['linbound_paths'] = E.paths


def _guarded_scratch(P, K, fld, Rset):
    """A field needs no reset if every read of it is preceded, in the same function, by a write of it, or happens only
    under the true edge of a flag G that IS reset at the boundary and is only set after the field was written."""
    owners = [K, CONN]
    fns = [f for f in P.fns.values() if f.brecord in owners and f.kind not in ('ctor', 'dtor') and f.short not in BOUNDARY]
    guards = set()
    for f in fns:
        reads, writes = [], []
        for i in f.all_nodes():
            n = f.N(i)
            if n['k'] == 'MemberExpr' and model.strip_targs(n.get('ref', '')).rsplit('::', 1)[-1] == fld and any(model.strip_targs(n['ref']).startswith('f:' + o + '::') for o in owners):
                (writes if lockset.classify_access(f, i) == 'w' else reads).append(i)
        for r in reads:
            if f.point_of(r) is None:
                continue
            if any(q.before(f, w, r) for w in writes if f.point_of(w)):
                continue
            ok = False
            for G in Rset:
                if G == fld:
                    continue
                g = f.gate_edges(lambda atom, pol, f=f, G=G: model.strip_targs(f.ref_of(atom) or '').rsplit('::', 1)[-1] == G and pol is True)
                if g and f.only_through(r, g):
                    # G is raised only after fld was assigned
                    sets_ok = True
                    for h in fns:
                        for w in q.field_writes(h, '::' + G):
                            if h.const_value(h.N(w)['ch'][1]) == 1:
                                fw = [x for x in q.field_writes(h, '::' + fld) if h.point_of(x)]
                                if not fw or not any(q.before(h, x, w) for x in fw):
                                    sets_ok = False
                    if sets_ok:
                        ok = True
                        guards.add(G)
                        break
            if not ok:
                return None
    return 'every read is dominated by a write or guarded by %s' % (sorted(guards) or 'a local write')
