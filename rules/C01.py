"""C01 — every front-end delivers the request the peer sent, however it is segmented.
Decided clauses: keep-alive hygiene (a request on a reused connection starts from the state of the first one) and the read-ahead cursors stay in bounds.
Parsing exactness / equality of the three front-ends / independence of split points are statements about parsed values and are NOT decided."""
from vlib import build, model, q, lockset, linbound
from vlib.lin import Lin, ge
from vlib.build import AnalysisBroken, REPO

CONN = 'cppcms::impl::cgi::connection'
HTTP = 'cppcms::impl::cgi::http'
FC = 'cppcms::impl::cgi::fastcgi'
BOUNDARY = ('reset_all', 'keep_alive', 'async_read_headers')
OUTPUT_SIDE = {'headers_done_', 'chunked_te_', 'output_written_', 'output_content_length_', 'response_headers_written_', 'response_headers_', 'eof_', 'full_header_',
               'pending_output_', 'async_chunk_', 'chunked_header_', 'eof_callback_', 'cached_async_write_binder_'}
# fields that legitimately survive a request boundary: one symbol, one reason
ALLOW = {
    'socket_': 'the connection itself',
    'input_body_': 'read-ahead of the next request must survive the boundary',
    'input_body_ptr_': 'cursor into the read-ahead buffer',
    'cache_': 'read-ahead of the next record must survive the boundary (cursors are reset only when it is empty)',
    'time_to_die_': 'watchdog deadline, refreshed by update_time() on every turn',
    'sync_option_is_set_': 'socket option state, per connection',
    'in_watchdog_': 'watchdog registration, per connection',
    'remote_ip_': 'peer address, per connection',
    'error_': 'a non-empty error makes the connection non-reusable (is_reuseable())',
    'error_state_': 'set only on the error path, after which the connection is not reused',
    'pending_output_': 'drained before the response completes (C03)',
    'cached_async_write_binder_': 'object cache; the binder resets itself before it is cached',
    'async_chunk_': 'scratch: cleared / assigned before every use',
    'chunked_header_': 'scratch: assigned before every use',
    'full_header_': 'scratch record header, rewritten before use (C03.R2)',
    'response_headers_': 'http: cleared by set_response_headers() at the start of every response',
    'eof_callback_': 'fastcgi: cleared by do_eof() on every completion that set it',
}


def field_writes_of(f, owners):
    out = {}
    for i in f.all_nodes():
        n = f.N(i)
        if n['k'] == 'MemberExpr' and n.get('ref', '').startswith('f:'):
            bf = model.strip_targs(n['ref'])
            for o in owners:
                if bf.startswith('f:' + o + '::') and bf.count('::') == o.count('::') + 1:
                    if lockset.classify_access(f, i) == 'w':
                        out.setdefault(bf.rsplit('::', 1)[-1], i)
    return out


def reset_sets(P, K, boundary=BOUNDARY):
    owners = [K, CONN]
    fns = [f for f in P.fns.values() if f.brecord in owners or (f.brecord or '').startswith(K + '::') or (f.brecord or '').startswith(CONN + '::')]
    start = [f for f in fns if f.short in boundary and f.brecord in owners]
    seen, stack, R = set(), list(start), {}
    while stack:
        f = stack.pop()
        if f.id in seen:
            continue
        seen.add(f.id)
        for k, v in field_writes_of(f, owners).items():
            R.setdefault(k, (f, v))
        for i in f.calls():
            g = P.fns.get(f.N(i).get('callee'))
            if g is not None and g.brecord in owners and g.short in ('reset_all', 'update_time'):
                stack.append(g)
    Pset = {}
    for f in fns:
        if f.kind in ('ctor', 'dtor') or f.id in seen:
            continue
        for k, v in field_writes_of(f, owners).items():
            Pset.setdefault(k, (f, v))
    return Pset, R, start


def reset_rule(ctx, P, R, side):
    """side: 'input' -> fields outside OUTPUT_SIDE (C01), 'output' -> fields in OUTPUT_SIDE (C03)"""
    total = 0
    for K in (HTTP, FC):
        short = K.rsplit('::', 1)[-1]
        # output-side state may also be re-initialised by set_response_headers(), which runs at the start of every response
        Pset, Rset, start = reset_sets(P, K, BOUNDARY if side == 'input' else BOUNDARY + ('set_response_headers',))
        if not start or len(Pset) < 15:
            raise AnalysisBroken('%s: boundary functions / per-request fields of %s not found (%d fields)' % (R, short, len(Pset)))
        # the keep-alive turn really runs the boundary code
        ka = [f for f in start if f.short == 'keep_alive' and f.brecord == K]
        if side == 'input':
            ok = bool(ka) and any(g.short == 'reset_all' for f in ka for i in f.calls() for g in [P.fns.get(f.N(i).get('callee'))] if g is not None)
            ctx.check(ok, R, '%s:keep_alive-runs-reset_all' % short, 'a reused connection does not pass through reset_all()', ka[0].where if ka else None)
            # the base-class part is reset on the keep-alive turn as well
            base_called = any(g is not None and g.brecord == CONN and g.short == 'reset_all' for f in P.fns.values() if f.brecord == K and (f.short in BOUNDARY)
                              for i in f.calls() for g in [P.fns.get(f.N(i).get('callee'))])
            ctx.check(base_called, R, '%s:base-connection::reset_all-called' % short, 'per-request state kept in the connection base class (the lazily built environment map) is never reset between requests', ka[0].where if ka else None)
        for fld in sorted(Pset):
            is_out = fld in OUTPUT_SIDE
            if (side == 'input') == is_out:
                continue
            total += 1
            f, node = Pset[fld]
            if fld in Rset:
                ctx.check(True, R, '%s:%s' % (short, fld), loc=f.loc(node), detail={'reset_in': Rset[fld][0].bname})
            elif fld in ALLOW:
                ctx.check(True, R, '%s:%s' % (short, fld), loc=f.loc(node), detail={'survives-by-design': ALLOW[fld]})
            elif _guarded_scratch(P, K, fld, Rset):
                ctx.check(True, R, '%s:%s' % (short, fld), loc=f.loc(node), detail={'written-before-every-read': _guarded_scratch(P, K, fld, Rset)})
            else:
                ctx.check(False, R, '%s:%s' % (short, fld), 'per-request field %s (written in %s) is not reset at the request boundary: the next request on a kept-alive connection starts from stale state' % (fld, f.short), f.loc(node))
    return total


def _script_name_by_interpretation(P, g, genv):
    """second way to the same verdict when the match test is not written inline (a predicate helper, temporaries): one turn of the
    script-name loop is interpreted (E3) for a grid of (path, script name) pairs - the path is cut, by the length of the name, exactly
    when the name is the path or a prefix of it that ends at a '/' - and the surrounding plumbing is checked through definitions"""
    from vlib import absint as A
    pi, sn = genv('PATH_INFO'), genv('SCRIPT_NAME')
    ud = [i for i in g.calls() if g.bcallee(i) == 'cppcms::util::urldecode']
    if not (len(pi) == 1 and len(sn) == 1 and len(ud) == 1):
        return False
    a = g.args(ud[0])
    pv = g.ref_of(a[0])
    if pv is None or pv not in q.deep_refs(g, a[1]) or not any(g.callee(c) == 'strlen' and g.ref_of(g.args(c)[0]) == pv for c in q.expr_calls_deep(g, a[1])):
        return False
    piw = q.field_writes(g, 'http::env_path_info_')
    if not (len(piw) == 1 and ud[0] in set(g.walk(piw[0])) and model.strip_targs(g.ref_of(g.args(pi[0])[1]) or '').endswith('http::env_path_info_') and q.before(g, piw[0], pi[0])):
        return False
    cut = [w for w in q.writes_to(g, pv) if any(g.contains(L, w) for L in q.loops(g))]
    lps = [L for L in q.loops(g) if any(g.contains(L, w) for w in cut)]
    if not (len(cut) == 1 and len(lps) == 1):
        return False
    L = lps[0]
    cl_ = q.counting_loop(g, L)
    if not (cl_ is not None and cl_['start'] == 0 and cl_['step'] == 1 and cl_['op'] == '<' and any(q.short_of(g.bcallee(c) or '') == 'size' for c in g.calls(cl_['bound']))):
        return False
    snw = q.field_writes(g, 'http::env_script_name_')
    leaves = [j for j in g.walk(g.N(L)['body']) if g.N(j)['k'] == 'BreakStmt']
    if not (len(snw) == 1 and g.contains(L, snw[0]) and g.contains(L, sn[0]) and bool(leaves) and q.always_after(g, cut[0], leaves + g.returns())):
        return False
    body = g.N(L)['body']
    inner = set(d['ref'] for i in g.walk(body) if g.N(i)['k'] == 'DeclStmt' for d in g.N(i)['decls'])
    outer = set(x for x in g.subtree_refs(body) if x.startswith(('v:', 'p:')) and x not in inner)
    flds = set(x for x in g.subtree_refs(body) if x.startswith('f:'))

    class _Name(object):
        pass
    for name in ('/app', '/a', '/', '/app/sub'):
        for path in ('', '/', '/a', '/ap', '/app', '/app/', '/app/x', '/apple', '/apple/x', '/app2', '/app.php', '/a/app', '/app/sub', '/app/sub/z', '/app/subway', 'app'):
            want = path == name or path.startswith(name + '/')
            parr = A.Arr([A.AV.const(ord(c)) for c in path] + [A.AV.const(0)], 'path')
            narr = A.Arr([A.AV.const(ord(c)) for c in name] + [A.AV.const(0)], 'name')
            tok = _Name()
            stored = []

            def h_size(it, fn_, i_, env_):
                return A.AV.const(len(name))

            def h_cstr(it, fn_, i_, env_):
                return A.PV(narr, 0)

            def h_index(it, fn_, i_, env_):
                return tok

            def h_add(it, fn_, i_, env_):
                stored.append(q.short_of(fn_.callee(i_) or ''))
                return A.PV(narr, 0)
            hooks = {'std::basic_string::size': h_size, 'std::basic_string::length': h_size, 'std::basic_string::c_str': h_cstr, 'std::basic_string::data': h_cstr, 'std::vector::operator[]': h_index}
            for c in g.calls(body):
                cn = model.strip_targs(g.N(c).get('cn') or '')
                if cn and cn not in hooks and cn not in ('memcmp', 'strlen', 'strncmp') and (P.fns.get(g.N(c).get('callee')) is None or P.fns.get(g.N(c).get('callee')).file != g.file):
                    hooks[cn] = h_add
            it = A.Interp(P, [], hooks=hooks)
            it.fields = dict((x, A.Cell(A.AV.const(0))) for x in flds)
            env = {}
            for x in outer:
                if x == pv:
                    env[x] = A.Cell(A.PV(parr, 0))
                elif x == cl_['var']:
                    env[x] = A.Cell(A.AV.const(0))
                elif any(v_ is not None and any(g.callee(c) == 'strlen' and g.ref_of(g.args(c)[0]) == pv for c in g.calls(v_)) for (d_, v_) in g.defs_of_var(x)):
                    env[x] = A.Cell(A.AV.const(len(path)))
                else:
                    tx = ''
                    for i_ in g.all_nodes():
                        if g.N(i_)['k'] == 'DeclStmt':
                            for d_ in g.N(i_)['decls']:
                                if d_['ref'] == x:
                                    tx = g.types[d_['t']] or ''
                    env[x] = A.Cell(A.Arr([tok], 'names')) if 'vector' in tx else A.Cell(tok)
            try:
                try:
                    it.exec_stmt(g, body, env)
                except (A._Break, A._Continue):
                    pass
            except A.OutOfBounds:
                return False
            p_after = env[pv].v
            moved = p_after.off if isinstance(p_after, A.PV) else None
            if moved != (len(name) if want else 0):
                return False
    return True


def run(ctx):
    ctx.explanation = ('Keep-alive hygiene: the set of fields written while a request is processed is computed from the code (both reusable front-ends and the connection base class) and each must be written by the '
                       'request-boundary functions (keep_alive / reset_all / async_read_headers closure) or be on a one-symbol allow-list with a reason. Read-ahead cursors: linear bounds of the FastCGI record readers and the '
                       'HTTP/FastCGI async_read_some copies under the declared cursor invariants. Parsing exactness and front-end equality are not decided.')
    ctx.units = ['src/http_api.cpp', 'src/fastcgi_api.cpp', 'src/cgi_api.cpp', 'src/scgi_api.cpp']
    P = model.Program(build.extract([REPO + '/' + u for u in ctx.units], include_re='^/repo/(src|private|cppcms)/'))
    ctx.stats['functions'] = len(P.fns)
    R1 = ctx.rule('C01.R1', 'every input-side per-request field of the reusable front-ends is reset at the request boundary (or survives by design, one reason each)')
    R2 = ctx.rule('C01.R2', 'read-ahead cursors: every copy out of the FastCGI cache / HTTP input buffer / FastCGI body stays inside the buffer (linear proofs under the cursor invariant)')
    R3 = ctx.rule('C01.R3', 'a front-end that never resets (SCGI) is never reused')
    R5 = ctx.rule('C01.R5', 'FastCGI record readers: after a record was taken - from the read-ahead cache or from the socket - the accumulated body is the previous body plus exactly the content of this record (padding removed), on both paths')
    R4 = ctx.rule('C01.R4', 'HTTP header budget: every pass charges exactly the bytes it hands to the parser (input_body_.size() - input_body_ptr_ at the parse loop), so the 16 KiB header limit does not depend on how the stream was segmented')
    n = reset_rule(ctx, P, R1, 'input')
    ctx.floor(R1, 25)
    _http_decomposition(ctx, P)
    _header_line(ctx, P)
    _cookie_pairs(ctx)
    sc = P.fn('cppcms::impl::cgi::scgi::keep_alive')
    rets = [r for r in sc.returns() if sc.ret_value(r) is not None]
    ctx.check(bool(rets) and all(sc.const_value(sc.ret_value(r)) == 0 for r in rets), R3, 'scgi::keep_alive:false', 'SCGI connections can be reused although the class has no per-request reset', sc.where)

    # ---------------- R2
    E = linbound.Engine(P, inline_depth=2 if ctx.tier == 'quick' else 3)
    E.struct_sizes = {FC + '::fcgi_header': 8}
    CS, CE, CSZ = 'this.f:%s::cache_start_' % FC, 'this.f:%s::cache_end_' % FC, 'this.f:%s::cache_.size()' % FC
    BP, BSZ = 'this.f:%s::body_ptr_' % FC, 'this.f:%s::body_.size()' % FC
    IP, ISZ = 'this.f:%s::input_body_ptr_' % HTTP, 'this.f:%s::input_body_.size()' % HTTP

    def inv_fc(engine, fn, st):
        for a in (CS, CE, CSZ, BP, BSZ):
            st.env[a] = Lin.atom(a)
        st.cons += [ge(Lin.atom(CS)), ge(Lin.atom(CE) - Lin.atom(CS)), ge(Lin.atom(CSZ) - Lin.atom(CE)), ge(Lin.atom(BP)), ge(Lin.atom(BSZ) - Lin.atom(BP))]

    def inv_http(engine, fn, st):
        for a in (IP, ISZ):
            st.env[a] = Lin.atom(a)
        st.cons += [ge(Lin.atom(IP)), ge(Lin.atom(ISZ) - Lin.atom(IP))]
    for name in ('non_blocking_read_record', 'async_read_from_socket', 'peek_bytes', 'async_read_some', 'on_header_read'):
        E.analyse(P.fn(FC + '::' + name), entry=inv_fc)
    E.analyse(P.fn(HTTP + '::async_read_some'), entry=inv_http)
    seen = {}
    for ob in E.obligations:
        top = ob.chain[0]
        base = '%s::%s>%s:%s' % (top.brecord.rsplit('::', 1)[-1], top.short, ob.fn.short, ob.kind) if top is not ob.fn else '%s::%s:%s' % (ob.fn.brecord.rsplit('::', 1)[-1], ob.fn.short, ob.kind)
        ctx.check(ob.proved, R2, '%s@L%d' % (base, ob.fn.N(ob.node)['l'] - ob.fn.line), 'not provable: ' + ob.desc, ob.fn.loc(ob.node),
                  detail={'obligation': ob.desc, 'constraints': [repr(c[1]) + (' >= 0' if c[0] == 'ge' else ' == 0') for c in ob.cons][-10:]})
    # ---------------- R4 header budget counts each byte once
    from vlib import lin
    hr = P.fn(HTTP + '::some_headers_data_read')
    S = lin.Symb(hr)
    incs = [w for w in q.field_writes(hr, 'http::total_read_') if hr.N(w)['k'] == 'CompoundAssignOperator' and hr.N(w).get('op') == '+=']
    allw = q.field_writes(hr, 'http::total_read_')
    ctx.check(len(incs) >= 2 and len(allw) == len(incs), R4, 'some_headers_data_read:budget-only-incremented', 'total_read_ is written other than by += in the read path', hr.where)
    steps = [i for i in hr.calls() if (hr.bcallee(i) or '').endswith('parser::step')]
    ctx.require(steps, 'C01.R4: the header parser is not driven from some_headers_data_read')
    for k, w in enumerate(incs):
        # the branch (then / else arm, or the whole body) in which this increment sits
        arm = None
        for a in hr.ancestors(w):
            par = hr.parent.get(a)
            if par is not None and hr.N(par)['k'] == 'IfStmt' and a in (hr.N(par).get('then'), hr.N(par).get('else')):
                arm = a
                break
        ok = arm is not None and not q.loops(hr, arm) and not q.enclosing_loops(hr, w) and q.reaches(hr, w, steps[0])
        detail = {}
        if ok:
            ptrw = [x for x in q.field_writes(hr, 'http::input_body_ptr_') if hr.contains(arm, x)]
            rsz = [x for x in q.field_calls(hr, 'http::input_body_', 'resize') if hr.contains(arm, x)]
            order = lambda x: hr.point_of(x)
            ptr_v = Lin.atom(IP)
            if ptrw:
                last = max(ptrw, key=lambda x: (-order(x)[0], order(x)[1]))
                ptr_v = S.lin(hr.N(last)['ch'][1]) if hr.N(last).get('op') == '=' else None
            size_v = Lin.atom(ISZ)
            if rsz:
                last = max(rsz, key=lambda x: (-order(x)[0], order(x)[1]))
                size_v = S.lin(hr.args(last)[0])
                # the operands of the size expression keep their value between the increment and the resize
                lo, hi = sorted([w, last], key=lambda x: (-order(x)[0], order(x)[1]))
                for r_ in hr.subtree_refs(hr.args(last)[0]) | hr.subtree_refs(hr.N(w)['ch'][1]):
                    if r_.startswith(('v:', 'p:')):
                        for (d_, _) in hr.defs_of_var(r_):
                            if hr.contains(arm, d_) and hr.point_of(d_) and q.before(hr, lo, d_) and q.before(hr, d_, hi) and d_ not in (lo, hi):
                                ok = False
            inc = S.lin(hr.N(w)['ch'][1])
            detail = {'increment': repr(inc), 'size_at_parse': repr(size_v), 'cursor_at_parse': repr(ptr_v)}
            ok = ok and ptr_v is not None and (inc - (size_v - ptr_v)).key() == Lin.const(0).key()
        ctx.check(ok, R4, 'some_headers_data_read:budget#%d:charges-unparsed-bytes' % k, 'the header budget is charged with something other than the bytes about to be parsed (size - cursor)', hr.loc(w), detail=detail)
    lim = hr.gate_edges(lambda atom, pol: hr.N(atom)['k'] == 'BinaryOperator' and hr.N(atom).get('op') in ('>', '>=') and pol is True and any(model.strip_targs(r).endswith('http::total_read_') for r in hr.subtree_refs(atom)))
    ctx.check(bool(lim), R4, 'some_headers_data_read:limit-tested', 'the header budget is never compared with a limit', hr.where)
    ctx.floor(R4, 4)
    # ---------------- R5 both record readers agree on what a record adds to body_
    BODY = 'this.f:%s::body_.size()' % FC
    CLEN = [None]

    def resize_args(f):
        S = q.symb_with_locals(f)
        out = []
        for i in q.field_calls(f, 'fastcgi::body_', 'resize'):
            out.append((i, S.lin(f.args(i)[0])))
        return out
    nb = P.fn(FC + '::non_blocking_read_record')
    ohr = P.fn(FC + '::on_header_read')
    obr = P.fn(FC + '::on_body_read')
    ra_nb, ra_h, ra_b = resize_args(nb), resize_args(ohr), resize_args(obr)

    def atoms_named(l, name):
        return [a_ for a_ in l.atoms() if model.strip_targs(a_).endswith(name)]
    ok = len(ra_nb) >= 1 and len(ra_h) == 1 and len(ra_b) == 1
    detail = {}
    if ok:
        last_nb = max(ra_nb, key=lambda x: (-nb.point_of(x[0])[0], nb.point_of(x[0])[1]))[1]
        r1, r2 = ra_h[0][1], ra_b[0][1]
        detail = {'cache path': repr(last_nb), 'socket path: before the read': repr(r1), 'socket path: after the read': repr(r2)}
        # socket path: the second resize is expressed in the size the first one established
        comp = r2.subst(BODY, r1) if BODY in r2.atoms() else None
        cl_ = atoms_named(last_nb, 'fcgi_header::content_length')
        ok = comp is not None and len(cl_) == 1 and (last_nb - Lin.atom(BODY) - Lin.atom(cl_[0])).key() == Lin.const(0).key() and (comp - last_nb).key() == Lin.const(0).key()
    ctx.check(ok, R5, 'fastcgi:record-readers:body-grows-by-content-length', 'the two ways of reading a record do not both leave body_ = previous body + content of the record', obr.where, detail=detail)
    # the final size of the cache path is set after the copy on every path that copied
    rb = [i for i in nb.calls() if nb.bcallee(i) == FC + '::read_bytes']
    ctx.check(len(rb) == 1 and len(ra_nb) == 2 and q.before(nb, ra_nb[0][0], rb[0]) and q.always_after(nb, rb[0], [ra_nb[-1][0]]), R5, 'non_blocking_read_record:grow-copy-trim', 'record is not copied into freshly grown space and trimmed afterwards', nb.where)
    # socket path: the bytes asked from the socket are content + padding of the record, and the read is skipped only when that sum is 0
    So = q.symb_with_locals(ohr)
    rd_ = [i for i in ohr.calls() if q.short_of(ohr.callee(i) or '') == 'async_read_from_socket']
    ok = len(rd_) == 1
    if ok:
        amount = So.lin(ohr.args(rd_[0])[1])
        cl_, pl_ = atoms_named(amount, 'fcgi_header::content_length'), atoms_named(amount, 'fcgi_header::padding_length')
        ok = len(cl_) == 1 and len(pl_) == 1 and (amount - Lin.atom(cl_[0]) - Lin.atom(pl_[0])).key() == Lin.const(0).key()
        if ok:
            def zero_amount(atom, pol):
                n_ = ohr.N(atom)
                if n_['k'] != 'BinaryOperator' or n_.get('op') not in ('==', '!='):
                    return False
                for x_, y_ in ((n_['ch'][0], n_['ch'][1]), (n_['ch'][1], n_['ch'][0])):
                    if ohr.const_value(y_) == 0:
                        try:
                            if (So.lin(x_) - amount).key() == Lin.const(0).key():
                                return pol is (n_['op'] == '==')
                        except Exception:
                            return False
                return False
            g_zero = ohr.gate_edges(zero_amount)
            hp_, ep_ = q.param_by_index(ohr, 2), q.param_by_index(ohr, 0)
            early = [i for i in ohr.calls() if ohr.N(i)['k'] == 'CXXOperatorCallExpr' and ohr.N(i).get('op') == '()' and ohr.ref_of(ohr.N(i)['ch'][1]) == hp_ and ep_ not in ohr.subtree_refs(i)]
            ok = bool(g_zero) and bool(early) and all(ohr.only_through(i, g_zero) for i in early)
    ctx.check(ok, R5, 'on_header_read:reads-content-plus-padding:skips-the-read-only-when-both-are-0', 'the socket path does not consume content_length + padding_length bytes of every record (a padded empty record leaves its '
              'padding in the stream and the next record header is read from a shifted position)', ohr.where)
    ctx.floor(R5, 3)
    ctx.assume('cursor invariants at member-function entry: fastcgi 0 <= cache_start_ <= cache_end_ <= cache_.size(), body_ptr_ <= body_.size(); http input_body_ptr_ <= input_body_.size(); '
               'an asynchronous read completes with at most the number of bytes of the buffer it was given')
    ctx.floor(R2, 12)
    ctx.stats['linbound_paths'] = E.paths


def _guarded_scratch(P, K, fld, Rset):
    """A field needs no reset if every read of it is preceded, in the same function, by a write of it, or happens only
    under the true edge of a flag G that IS reset at the boundary and is only set after the field was written."""
    owners = [K, CONN]
    fns = [f for f in P.fns.values() if f.brecord in owners and f.kind not in ('ctor', 'dtor') and f.short not in BOUNDARY]
    guards = set()
    for f in fns:
        reads, writes = [], []
        for i in f.all_nodes():
            n = f.N(i)
            if n['k'] == 'MemberExpr' and model.strip_targs(n.get('ref', '')).rsplit('::', 1)[-1] == fld and any(model.strip_targs(n['ref']).startswith('f:' + o + '::') for o in owners):
                (writes if lockset.classify_access(f, i) == 'w' else reads).append(i)
        for r in reads:
            if f.point_of(r) is None:
                continue
            if any(q.before(f, w, r) for w in writes if f.point_of(w)):
                continue
            ok = False
            for G in Rset:
                if G == fld:
                    continue
                g = f.gate_edges(lambda atom, pol, f=f, G=G: model.strip_targs(f.ref_of(atom) or '').rsplit('::', 1)[-1] == G and pol is True)
                if g and f.only_through(r, g):
                    # G is raised only after fld was assigned
                    sets_ok = True
                    for h in fns:
                        for w in q.field_writes(h, '::' + G):
                            if h.const_value(h.N(w)['ch'][1]) == 1:
                                fw = [x for x in q.field_writes(h, '::' + fld) if h.point_of(x)]
                                if not fw or not any(q.before(h, x, w) for x in fw):
                                    sets_ok = False
                    if sets_ok:
                        ok = True
                        guards.add(G)
                        break
            if not ok:
                return None
    return 'every read is dominated by a write or guarded by %s' % (sorted(guards) or 'a local write')


def _http_decomposition(ctx, P):
    """C01.R6: how the embedded HTTP server turns the request line and the header lines into the CGI environment the application reads"""
    from vlib import lin as _lin
    from vlib.lin import Lin as _L
    R6 = ctx.rule('C01.R6', 'embedded HTTP server: request line split at its two spaces into method / URI / protocol; Content-Length and Content-Type kept under their CGI names (and in the typed fields), every other header under HTTP_<NAME>; every parser outcome handled; URI split at "?" into path and QUERY_STRING, the matched script name cut off, PATH_INFO = percent-decoded rest; the request is handed on exactly once')
    _serves = {}

    def serves(g_, pidx, depth=0):
        """method g_ of the class calls its handler parameter (or hands it to a method that does) on every path"""
        key = (g_.id, pidx)
        if key in _serves:
            return _serves[key]
        _serves[key] = False
        if g_.entry is None or pidx >= len(g_.params) or depth > 3:
            return False
        hp_ = g_.params[pidx]['ref']
        ev = serving_calls(g_, hp_, depth + 1)
        _serves[key] = bool(ev) and q.always_before_exit(g_, ev)
        return _serves[key]

    def serving_calls(g_, hp_, depth=0):
        out = []
        for i in g_.calls():
            n_ = g_.N(i)
            if n_['k'] == 'CXXOperatorCallExpr' and n_.get('op') == '()' and g_.ref_of(n_['ch'][1]) == hp_:
                out.append(i)
                continue
            if hp_ not in g_.subtree_refs(i):
                continue
            sh_ = q.short_of(g_.bcallee(i) or '')
            if sh_ in ('process_request', 'async_read_some_headers', 'async_read_some', 'post', 'async_write', 'error_response'):
                out.append(i)       # hand-over points of the front-end: the handler travels with the operation
                continue
            h_ = P.fns.get(n_.get('callee') or '')
            if h_ is not None and h_.brecord == g_.brecord and h_ is not g_:
                pis = [k_ for k_, a_ in enumerate(g_.args(i)) if g_.ref_of(a_) == hp_]
                if len(pis) == 1 and serves(h_, pis[0], depth):
                    out.append(i)
        return out
    f = P.fn(HTTP + '::some_headers_data_read')
    S = _lin.Symb(f)          # no substitution of locals here: the rule speaks about the variables the two searches are stored in
    z = _L.const(0).key()
    finds = [i for i in f.calls() if q.short_of(f.bcallee(i) or '') == 'find' and len(f.args(i)) == 3 and f.const_value(f.args(i)[2]) == 32]
    adds = [i for i in f.calls() if q.short_of(f.bcallee(i) or '') == 'add' and f.N(i)['k'] == 'CXXMemberCallExpr' and any(model.strip_targs(r).endswith('::pool_') for r in f.subtree_refs(f.obj(i)) if f.obj(i) is not None) and len(f.args(i)) == 2]
    ok = len(finds) == 2 and len(adds) == 2
    if ok:
        # the variables the two searches are stored in
        def var_of(call):
            for (d_, v_) in [(d_, v_) for r_ in set(x for x in f.subtree_refs(f.body) if x.startswith('v:')) for (d_, v_) in f.defs_of_var(r_)]:
                if v_ is not None and call in set(f.walk(v_)):
                    return f.ref_of(f.N(d_)['ch'][0]) if f.N(d_)['k'] != 'DeclStmt' else [dd['ref'] for dd in f.N(d_)['decls'] if dd.get('init') is not None and call in set(f.walk(dd['init']))][0]
            return None
        f1, f2 = finds
        sp1, sp2 = var_of(f1), var_of(f2)
        a1, a2 = f.args(f1), f.args(f2)
        hb, he = S.lin(a1[0]), S.lin(a1[1])
        hbv, hev = f.ref_of(a1[0]), f.ref_of(a1[1])
        SL = q.symb_with_locals(f)
        whole_line = hbv is not None and hev is not None and any(a_.endswith('header_.c_str()') for a_ in SL.lin(a1[0]).t) and any(a_.endswith('header_.size()') for a_ in (SL.lin(a1[1]) - SL.lin(a1[0])).t)
        ok = whole_line and sp1 is not None and sp2 is not None and (S.lin(a2[0]) - _L.atom(sp1) - _L.const(1)).key() == z and (S.lin(a2[1]) - he).key() == z
        if ok:
            m_, u_ = adds
            ok = (S.lin(f.args(m_)[0]) - hb).key() == z and f.ref_of(f.args(m_)[1]) == sp1 and (S.lin(f.args(u_)[0]) - _L.atom(sp1) - _L.const(1)).key() == z and f.ref_of(f.args(u_)[1]) == sp2
            wm = [w for w in q.field_writes(f, 'http::request_method_') if m_ in set(f.walk(w))]
            wu = [w for w in q.field_writes(f, 'http::request_uri_') if u_ in set(f.walk(w))]
            ok = ok and len(wm) == 1 and len(wu) == 1
            # both under "a second space was found"; otherwise the handler gets the error and the function returns
            g_found = f.gate_edges(lambda atom, pol: f.N(atom)['k'] == 'BinaryOperator' and f.N(atom).get('op') in ('!=', '==') and sp2 in f.subtree_refs(atom) and ((f.N(atom)['op'] == '!=') == pol))
            ok = ok and bool(g_found) and f.only_through(wm[0], g_found) and f.only_through(wu[0], g_found)
            protos = [i for i in f.calls() if q.short_of(f.bcallee(i) or '') == 'add' and len(f.args(i)) == 1 and any(model.strip_targs(r).endswith('::pool_') for r in f.subtree_refs(f.obj(i)) if f.obj(i) is not None)]
            ok = ok and len(protos) == 1 and (SL.lin(f.args(protos[0])[0]) - _L.atom(sp2) - _L.const(1)).key() == z
    ctx.check(ok, R6, 'request-line:method=[begin,sp1):uri=(sp1,sp2):protocol=after-sp2', 'the request line is not split at its first and second space into method, URI and protocol', f.where)
    # header mapping
    envadds = [i for i in f.calls() if q.short_of(f.bcallee(i) or '') == 'add' and f.N(i)['k'] == 'CXXMemberCallExpr' and any(model.strip_targs(r).endswith('::env_') for r in f.subtree_refs(f.obj(i)) if f.obj(i) is not None) and len(f.args(i)) == 2]
    psh = [i for i in f.calls() if q.short_of(f.bcallee(i) or '') == 'parse_single_header']
    ok = len(psh) == 1
    nv = vv = None
    if ok:
        nv, vv = f.ref_of(f.args(psh[0])[1]), f.ref_of(f.args(psh[0])[2])
        ok = nv is not None and vv is not None

    def lit(node):
        for j in f.walk(node):
            if f.N(j)['k'] == 'StringLiteral':
                return f.N(j).get('s')
        return None

    def is_name(lit_):
        def pred(atom, pol):
            n_ = f.N(atom)
            if n_['k'] != 'BinaryOperator' or n_.get('op') not in ('==', '!=') or f.const_value(n_['ch'][1]) != 0:
                return False
            cs = [c for c in f.calls(n_['ch'][0]) if f.callee(c) in ('strcmp', 'strcasecmp')]
            return bool(cs) and f.ref_of(f.args(cs[0])[0]) == nv and lit(f.args(cs[0])[1]) == lit_ and ((n_['op'] == '==') == pol)
        return f.gate_edges(pred)
    if ok:
        g_cl, g_ct = is_name('CONTENT_LENGTH'), is_name('CONTENT_TYPE')
        plain = [i for i in envadds if f.ref_of(f.args(i)[0]) == nv and f.ref_of(f.args(i)[1]) == vv]
        pref = [i for i in envadds if f.ref_of(f.args(i)[0]) != nv and f.ref_of(f.args(i)[1]) == vv and (f.ref_of(f.args(i)[0]) or '').startswith('v:')]
        clw = q.field_writes(f, 'http::env_content_length_')
        ctw = q.field_writes(f, 'http::env_content_type_')
        okm = bool(g_cl) and bool(g_ct) and len(plain) == 2 and len(pref) == 1
        if okm:
            in_cl = [i for i in plain if f.only_through(i, g_cl)]
            in_ct = [i for i in plain if f.only_through(i, g_ct)]
            okm = len(in_cl) == 1 and len(in_ct) == 1 and in_cl != in_ct
            okm = okm and bool(clw) and all(f.only_through(w, g_cl) for w in clw) and any(any(f.callee(c) in ('atoll', 'strtoll', 'atol') and f.ref_of(f.args(c)[0]) == vv for c in f.calls(w)) for w in clw)
            okm = okm and len(ctw) == 1 and f.only_through(ctw[0], g_ct) and f.ref_of(f.N(ctw[0])['ch'][-1]) == vv
            # HTTP_<NAME>: allocated for strlen(name) + 5 + 1, "HTTP_" copied, the name appended
            un = f.ref_of(f.args(pref[0])[0])
            al = [v_ for (d_, v_) in f.defs_of_var(un) if v_ is not None]
            okp = len(al) == 1 and any(q.short_of(f.bcallee(c) or '') == 'alloc' for c in f.calls(al[0]))
            if okp:
                ac = [c for c in f.calls(al[0]) if q.short_of(f.bcallee(c) or '') == 'alloc'][0]
                sz = S.lin(f.args(ac)[0])
                sl_ = [a_ for a_ in sz.t if 'strlen' in a_ or a_.startswith('x')]
                okp = sz.c == 6 and len(sz.t) == 1 and list(sz.t.values()) == [1] and any(f.callee(c) == 'strlen' and f.ref_of(f.args(c)[0]) == nv for c in f.calls(f.args(ac)[0]))
                cp = [c for c in f.calls() if f.callee(c) in ('strcpy', 'memcpy') and f.ref_of(f.args(c)[0]) == un]
                ca = [c for c in f.calls() if f.callee(c) in ('strcat',) and f.ref_of(f.args(c)[0]) == un]
                okp = okp and len(cp) == 1 and lit(f.args(cp[0])[1]) == 'HTTP_' and len(ca) == 1 and f.ref_of(f.args(ca[0])[1]) == nv and q.before(f, cp[0], ca[0]) and q.before(f, ca[0], pref[0])
                # not reachable for the two names kept as they are
                okp = okp and not f.only_through(pref[0], g_cl) and not f.only_through(pref[0], g_ct)
                r_ = f.reachable_blocks(cut_edges=[e_ for e_ in is_name('CONTENT_LENGTH') if False])
            okm = okm and okp
        ok = okm
    ctx.check(ok, R6, 'headers:content-length-and-type-kept:others-as-HTTP_NAME', 'a header is not stored under its CGI name with its value (CONTENT_LENGTH / CONTENT_TYPE as they are and in the typed fields, others as HTTP_ + name)', f.where)
    # parser outcomes
    sw = [i for i in f.walk() if f.N(i)['k'] == 'SwitchStmt' and any(q.short_of(f.bcallee(c) or '') == 'step' for c in f.calls(f.N(i)['cond']))]
    ok = len(sw) == 1
    if ok:
        want = {'more_data': 'async_read_some_headers', 'end_of_headers': 'process_request', 'error_observerd': None, 'got_header': 'continue'}
        cases = {}
        for j in f.walk(sw[0]):
            if f.N(j)['k'] == 'CaseStmt':
                en = [r.rsplit('::', 1)[-1] for r in f.subtree_refs(f.N(j)['lhs']) if r.startswith('e:')]
                if en:
                    cases[en[0]] = j
        ok = set(want) <= set(cases)
        hp = q.param_by_index(f, 1)
        for nm_, callee_ in want.items():
            if not ok:
                break
            c_ = cases[nm_]
            pb = f.point_of(f.N(c_)['sub'])
            if nm_ == 'got_header':
                continue
            # from the case label: the function is left only after the continuation was started (read more / process) or the handler got an error
            evs = [i for i in serving_calls(f, hp) if (callee_ and q.short_of(f.bcallee(i) or '') == callee_) or q.short_of(f.bcallee(i) or '') not in ('process_request', 'async_read_some_headers')]
            reach = f.reachable_blocks(start=pb[0], cut_blocks=q.blocks_of(f, evs) - {pb[0]})
            in_first = any(f.point_of(i)[0] == pb[0] for i in evs)
            ok = ok and (in_first or f.exit not in reach) and bool(evs)
            if callee_:
                direct = [i for i in evs if q.short_of(f.bcallee(i) or '') == callee_ and f.contains(f.N(c_)['sub'], i) or f.point_of(i)[0] in set(f.reachable_blocks(start=pb[0], cut_blocks=[f.point_of(cases[x])[0] for x in cases if x != nm_]))]
                ok = ok and any(q.short_of(f.bcallee(i) or '') == callee_ for i in direct)
    ctx.check(ok, R6, 'parser-outcomes:more-data-reads-on:end-of-headers-processes:error-reported', 'an outcome of the header parser is not followed by reading on / processing the request / reporting the error to the handler', f.where)
    # request line first, headers afterwards; nothing falls through; the handler is always served
    okx = len(finds) == 2 and len(psh) == 1
    if okx:
        flag = lambda pol_: f.gate_edges(lambda atom, pol: model.strip_targs(f.ref_of(atom) or '').endswith('http::first_header_observerd_') and pol is pol_)
        g_first, g_later = flag(False), flag(True)
        fw = [w for w in q.field_writes(f, 'http::first_header_observerd_') if f.const_value(f.N(w)['ch'][1]) == 1]
        okx = bool(g_first) and bool(g_later) and all(f.only_through(i, g_first) for i in finds) and f.only_through(psh[0], g_later) and bool(fw) and all(f.only_through(w, g_first) for w in fw)
        # the flag is set on every path that took the request line and goes on to the next line
        if okx:
            reach = f.reachable_blocks(start=f.point_of(finds[0])[0], cut_blocks=q.blocks_of(f, fw) | f.abnormal_blocks())
            nxt = [i for i in f.calls() if q.short_of(f.bcallee(i) or '') == 'step']
            okx = all(f.point_of(i)[0] not in reach for i in nxt) or any(f.point_of(w)[0] == f.point_of(finds[0])[0] for w in fw)
        # second search only when the first space was found
        sp1_ = None
        for (d_, v_) in [(d_, v_) for r_ in set(x for x in f.subtree_refs(f.body) if x.startswith('v:')) for (d_, v_) in f.defs_of_var(r_)]:
            if v_ is not None and finds[0] in set(f.walk(v_)):
                sp1_ = [dd['ref'] for dd in f.N(d_)['decls'] if dd.get('init') is not None and finds[0] in set(f.walk(dd['init']))][0] if f.N(d_)['k'] == 'DeclStmt' else f.ref_of(f.N(d_)['ch'][0])
        g_sp1 = f.gate_edges(lambda atom, pol: f.N(atom)['k'] == 'BinaryOperator' and f.N(atom).get('op') in ('!=', '==') and sp1_ in f.subtree_refs(atom) and ((f.N(atom)['op'] == '!=') == pol))
        okx = okx and bool(g_sp1) and f.only_through(finds[1], g_sp1)
        # name / value are used only when the header line parsed
        g_ph = q.call_gate(f, lambda i: i == psh[0], True)
        okx = okx and all(f.only_through(i, g_ph) for i in envadds if f.ref_of(f.args(i)[1]) == vv)
        # protocol version
        pw = q.field_writes(f, 'http::is_http_11_')
        okx = okx and len(pw) == 1
        if okx:
            rhs = f.N(f.strip(f.N(pw[0])['ch'][1]))
            cs = [c for c in f.calls(pw[0]) if f.callee(c) == 'strcmp']
            okx = rhs['k'] == 'BinaryOperator' and rhs.get('op') == '==' and f.const_value(rhs['ch'][1]) == 0 and len(cs) == 1 and lit(f.args(cs[0])[1]) == 'HTTP/1.1' and \
                (SL.lin(f.args(cs[0])[0]) - _L.atom(sp2) - _L.const(1)).key() == z
        # content length: 0 only for an empty value
        zl = [w for w in clw if f.const_value(f.N(w)['ch'][1]) == 0]
        g_empty = f.gate_edges(lambda atom, pol: f.N(atom)['k'] == 'BinaryOperator' and f.N(atom).get('op') in ('!=', '==') and vv in f.subtree_refs(atom) and f.const_value(f.N(atom)['ch'][1]) == 0 and
                               f.N(f.strip(f.N(atom)['ch'][0]))['k'] in ('UnaryOperator', 'ArraySubscriptExpr') and ((f.N(atom)['op'] == '==') == pol))
        okx = okx and len(clw) == 2 and len(zl) == 1 and bool(g_empty) and f.only_through(zl[0], g_empty) and not any(f.only_through(w, g_empty) for w in clw if w not in zl)
    ctx.check(okx, R6, 'request-line-first:headers-after:protocol-version:empty-content-length', 'the first line is not the only one taken as the request line, a header is used although it did not parse, HTTP/1.1 is not recognised from the protocol field, or a non-empty Content-Length is read as 0', f.where)
    if len(sw) == 1 and 'got_header' in cases:
        c_ = cases['got_header']
        pb = f.point_of(f.N(c_)['sub'])
        disp = f.point_of(f.N(sw[0])['cond'])[0]
        reach = f.reachable_blocks(start=pb[0], cut_blocks=[disp])
        others = [i for i in f.calls() if q.short_of(f.bcallee(i) or '') in ('process_request', 'async_read_some_headers')]
        ctx.check(all(f.point_of(i)[0] not in reach for i in others), R6, 'parser-outcomes:got-header-does-not-fall-into-the-next-case', 'after a header line the code falls through into the handling of another parser outcome', f.loc(c_))
    hp0 = q.param_by_index(f, 1)
    serve = serving_calls(f, hp0)
    ctx.check(bool(serve) and q.always_before_exit(f, serve), R6, 'some_headers_data_read:handler-called-or-passed-on-on-every-path', 'the function can return without calling the handler or passing it on: the request hangs', f.where)
    # body bytes that arrived together with the headers are handed out first, exactly once, in order
    rb = [x for x in P.by_bname.get(HTTP + '::async_read_some', []) if len(x.params) == 3]
    if rb:
        rb = rb[0]
        Sr = _lin.Symb(rb)
        dst, cnt, hh = q.param_by_index(rb, 0), q.param_by_index(rb, 1), q.param_by_index(rb, 2)
        mcp = [i for i in rb.calls() if rb.callee(i) == 'memcpy']
        okb = len(mcp) == 1
        if okb:
            a = rb.args(mcp[0])
            sn = rb.N(rb.strip(a[1]))
            from_cursor = False
            if sn['k'] == 'UnaryOperator' and sn.get('op') == '&':
                ix = rb.N(rb.strip(sn['ch'][0]))
                if ix['k'] == 'CXXOperatorCallExpr' and ix.get('op') == '[]' and len(ix['ch']) == 3:
                    from_cursor = model.strip_targs(rb.ref_of(ix['ch'][1]) or '').endswith('http::input_body_') and model.strip_targs(rb.ref_of(ix['ch'][2]) or '').endswith('http::input_body_ptr_')
            else:
                src = Sr.lin(a[1])
                PTR = [a_ for a_ in src.t if a_.endswith('input_body_ptr_')]
                from_cursor = len(PTR) == 1 and src.t[PTR[0]] == 1 and any('input_body_' in a_ and a_ != PTR[0] for a_ in src.t)
            okb = rb.ref_of(a[0]) == dst and rb.ref_of(a[2]) == cnt and from_cursor
            adv = [w for w in q.field_writes(rb, 'http::input_body_ptr_') if rb.N(w)['k'] == 'CompoundAssignOperator']
            post = [i for i in rb.calls() if q.short_of(rb.bcallee(i) or '') == 'post' and hh in rb.subtree_refs(i)]
            okb = okb and len(adv) == 1 and rb.N(adv[0]).get('op') == '+=' and rb.ref_of(rb.N(adv[0])['ch'][1]) == cnt and q.before(rb, mcp[0], adv[0]) and len(post) == 1 and q.always_after(rb, mcp[0], post) and \
                cnt in rb.subtree_refs(post[0]) and q.always_after(rb, mcp[0], adv)
            # the count handed to the handler is the count copied: the only writes to it lie before the copy
            okb = okb and not any(q.reaches(rb, mcp[0], w) for w in q.writes_to(rb, cnt))
            g_buf = q.empty_gate(rb, None, False)
            sockr = [i for i in rb.calls() if q.short_of(rb.bcallee(i) or '') == 'async_read_some' and hh in rb.subtree_refs(i)]
            okb = okb and bool(g_buf) and rb.only_through(mcp[0], g_buf) and len(sockr) == 1 and dst in rb.subtree_refs(sockr[0]) and cnt in rb.subtree_refs(sockr[0]) and not rb.only_through(sockr[0], g_buf)
            okb = okb and q.always_before_exit(rb, post + sockr)
            # the read-ahead buffer is dropped only when everything in it was handed out
            Sx = q.symb_with_locals(rb)

            def exhausted(atom, pol):
                n_ = rb.N(atom)
                if n_['k'] != 'BinaryOperator' or n_.get('op') not in ('==', '!=', '<', '<=', '>', '>='):
                    return False
                l_, r_ = Sx.lin(n_['ch'][0]), Sx.lin(n_['ch'][1])
                d_ = l_ - r_
                pt = [a_ for a_ in d_.t if a_.endswith('input_body_ptr_')]
                sz = [a_ for a_ in d_.t if a_.endswith('input_body_.size()')]
                if len(pt) != 1 or len(sz) != 1 or len(d_.t) != 2 or d_.c != 0 or d_.t[pt[0]] != -d_.t[sz[0]]:
                    return False
                if n_['op'] in ('==', '!='):
                    return (n_['op'] == '==') == pol
                cons = Sx.rel(atom, pol)
                from vlib.lin import Lin as _LL
                return bool(cons) and _lin.implies(cons, _lin.ge(_LL.atom(pt[0]) - _LL.atom(sz[0])))
            nd = 0
            for host in [rb] + [h_ for h_ in [P.fns.get(rb.N(i).get('callee') or '') for i in rb.calls()] if h_ is not None and h_.brecord == rb.brecord and h_.entry is not None and not h_.params and h_ is not rb]:
                Sx = q.symb_with_locals(host)

                def exhausted_h(atom, pol, host=host, Sx=Sx):
                    n_ = host.N(atom)
                    if n_['k'] != 'BinaryOperator' or n_.get('op') not in ('==', '!=', '<', '<=', '>', '>='):
                        return False
                    d_ = Sx.lin(n_['ch'][0]) - Sx.lin(n_['ch'][1])
                    pt = [a_ for a_ in d_.t if a_.endswith('input_body_ptr_')]
                    sz = [a_ for a_ in d_.t if a_.endswith('input_body_.size()')]
                    if len(pt) != 1 or len(sz) != 1 or len(d_.t) != 2 or d_.c != 0 or d_.t[pt[0]] != -d_.t[sz[0]]:
                        return False
                    if n_['op'] in ('==', '!='):
                        return (n_['op'] == '==') == pol
                    cons = Sx.rel(atom, pol)
                    from vlib.lin import Lin as _LL
                    return bool(cons) and _lin.implies(cons, _lin.ge(_LL.atom(pt[0]) - _LL.atom(sz[0])))
                g_ex = host.gate_edges(exhausted_h)
                drops = [i for i in host.calls() if q.short_of(host.bcallee(i) or '') == 'clear' and host.obj(i) is not None and model.strip_targs(host.ref_of(host.obj(i)) or '').endswith('http::input_body_')] + \
                        [w for w in q.field_writes(host, 'http::input_body_ptr_') if host.N(w)['k'] == 'BinaryOperator' and host.N(w).get('op') == '=']
                nd += len(drops)
                okb = okb and (not drops or (bool(g_ex) and all(host.only_through(i, g_ex) for i in drops)))
            okb = okb and nd >= 1
        ctx.check(okb, R6, 'async_read_some:read-ahead-bytes-first:copied-counted-and-reported-once', 'body bytes read together with the headers are not copied out from the cursor, counted and reported with the same count before the socket is read', rb.where)
    # process_request
    g = P.fn(HTTP + '::process_request')
    Sg = q.symb_with_locals(g)
    hp = q.param_by_index(g, 0)

    def genv(name_):
        return [i for i in g.calls() if q.short_of(g.bcallee(i) or '') == 'add' and g.N(i)['k'] == 'CXXMemberCallExpr' and any(model.strip_targs(r).endswith('::env_') for r in g.subtree_refs(g.obj(i)) if g.obj(i) is not None)
                and len(g.args(i)) == 2 and any(g.N(j)['k'] == 'StringLiteral' and g.N(j).get('s') == name_ for j in g.walk(g.args(i)[0]))]
    rm = genv('REQUEST_METHOD')
    ok = len(rm) == 1 and model.strip_targs(g.ref_of(g.args(rm[0])[1]) or '').endswith('http::request_method_')
    sc = [i for i in g.calls() if g.callee(i) == 'strchr' and g.const_value(g.args(i)[1]) == 63]
    ok = ok and len(sc) == 1 and model.strip_targs(g.ref_of(g.args(sc[0])[0]) or '').endswith('http::request_uri_')
    qs = genv('QUERY_STRING')
    if ok:
        qv = None
        for (d_, v_) in [(d_, v_) for r_ in set(x for x in g.subtree_refs(g.body) if x.startswith('v:')) for (d_, v_) in g.defs_of_var(r_)]:
            if v_ is not None and sc[0] in set(g.walk(v_)):
                qv = [dd['ref'] for dd in g.N(d_)['decls'] if dd.get('init') is not None and sc[0] in set(g.walk(dd['init']))][0] if g.N(d_)['k'] == 'DeclStmt' else g.ref_of(g.N(d_)['ch'][0])
        ok = qv is not None and len(qs) == 1
        if ok:
            g_q = g.gate_edges(lambda atom, pol: g.N(atom)['k'] == 'BinaryOperator' and g.N(atom).get('op') in ('==', '!=') and g.ref_of(g.N(atom)['ch'][0]) == qv and g.const_value(g.N(atom)['ch'][1]) == 0 and ((g.N(atom)['op'] == '!=') == pol)) + \
                g.gate_edges(lambda atom, pol: g.ref_of(atom) == qv and pol is True)
            qsw = q.field_writes(g, 'http::env_query_string_')
            Sp = _lin.Symb(g)
            ok = len(qsw) == 1 and (Sp.lin(g.N(qsw[0])['ch'][1]) - _L.atom(qv) - _L.const(1)).key() == z and g.only_through(qs[0], g_q) and model.strip_targs(g.ref_of(g.args(qs[0])[1]) or '').endswith('http::env_query_string_')
            padd = [i for i in g.calls() if q.short_of(g.bcallee(i) or '') == 'add' and len(g.args(i)) == 2 and any(model.strip_targs(r).endswith('::pool_') for r in g.subtree_refs(g.obj(i)) if g.obj(i) is not None) and
                    model.strip_targs(g.ref_of(g.args(i)[0]) or '').endswith('http::request_uri_')]
            ok = ok and len(padd) == 1 and g.only_through(padd[0], g_q)
            if ok:
                ln = Sp.lin(g.args(padd[0])[1])
                URI = [a_ for a_ in ln.t if a_.endswith('request_uri_')]
                ok = len(URI) == 1 and (ln - _L.atom(qv) + _L.atom(URI[0])).key() == z
    ctx.check(ok, R6, 'process_request:method:path-and-query-split-at-?', 'REQUEST_METHOD / QUERY_STRING / the path are not taken from the request line as method, text after the first "?", text before it', g.where)
    pi = genv('PATH_INFO')
    sn = genv('SCRIPT_NAME')
    ud = [i for i in g.calls() if g.bcallee(i) == 'cppcms::util::urldecode']
    ok = len(pi) == 1 and len(sn) == 1 and len(ud) == 1
    if ok:
        a = g.args(ud[0])
        pv = g.ref_of(a[0])
        e_ = Sg.lin(a[1]) - Sg.lin(a[0])
        ok = pv is not None and len(e_.t) == 1 and e_.c == 0 and any(g.callee(c) == 'strlen' and g.ref_of(g.args(c)[0]) == pv for c in g.calls(a[1]))
        piw = q.field_writes(g, 'http::env_path_info_')
        ok = ok and len(piw) == 1 and ud[0] in set(g.walk(piw[0])) and model.strip_targs(g.ref_of(g.args(pi[0])[1]) or '').endswith('http::env_path_info_') and q.before(g, piw[0], pi[0])
        # the script name is cut off only when it is a whole-component prefix of the path
        cut = [w for w in q.writes_to(g, pv) if any(g.contains(L, w) for L in q.loops(g))]
        lps = [L for L in q.loops(g) if any(g.contains(L, w) for w in cut)]
        ok = ok and len(cut) == 1 and len(lps) == 1
        if ok:
            L = lps[0]
            mc = [i for i in g.calls(L) if g.callee(i) == 'memcmp']
            g_eq = g.gate_edges(lambda atom, pol: g.N(atom)['k'] == 'BinaryOperator' and g.N(atom).get('op') in ('==', '!=') and any(g.callee(c) == 'memcmp' for c in g.calls(atom)) and g.const_value(g.N(atom)['ch'][1]) == 0 and ((g.N(atom)['op'] == '==') == pol))
            snw = q.field_writes(g, 'http::env_script_name_')
            ok = len(mc) == 1 and bool(g_eq) and g.only_through(cut[0], g_eq) and len(snw) == 1 and g.only_through(snw[0], g_eq) and g.only_through(sn[0], g_eq)
            if ok:
                ma = g.args(mc[0])
                nsz = Sg.lin(ma[2])
                cw = g.N(cut[0])
                inc = Sg.lin(cw['ch'][1]) - (_L.atom(pv) if cw['k'] == 'BinaryOperator' else _L.const(0))
                ok = g.ref_of(ma[0]) == pv and (inc - nsz).key() == z and len(nsz.t) == 1 and list(nsz.t)[0].endswith('.size()')
                # the three conditions of a match, as facts: the name fits, the bytes are equal, the path ends there or goes on with '/'
                PSZ = Sg.lin([c for c in g.calls() if g.callee(c) == 'strlen' and g.ref_of(g.args(c)[0]) == pv and not g.contains(L, c)][0]) if [c for c in g.calls() if g.callee(c) == 'strlen' and g.ref_of(g.args(c)[0]) == pv and not g.contains(L, c)] else None

                def kind(atom, pol):
                    n_ = g.N(atom)
                    if n_['k'] != 'BinaryOperator':
                        return None
                    if n_.get('op') in ('==', '!=') and any(g.callee(c) == 'memcmp' for c in g.calls(atom)) and g.const_value(n_['ch'][1]) == 0:
                        return ('bytes', (n_['op'] == '==') == pol)
                    if n_.get('op') in ('==', '!=') and g.const_value(n_['ch'][1]) == 47:
                        x = g.N(g.strip(n_['ch'][0]))
                        if x['k'] == 'ArraySubscriptExpr' and g.ref_of(x['ch'][0]) == pv and (Sg.lin(x['ch'][1]) - nsz).key() == z:
                            return ('slash', (n_['op'] == '==') == pol)
                        return None
                    if n_.get('op') in ('==', '!=', '<', '<=', '>', '>=') and PSZ is not None:
                        l_, r_ = Sg.lin(n_['ch'][0]), Sg.lin(n_['ch'][1])
                        if n_['op'] in ('==', '!=') and ((l_ - PSZ).key() == z and (r_ - nsz).key() == z or (r_ - PSZ).key() == z and (l_ - nsz).key() == z):
                            return ('same', (n_['op'] == '==') == pol)
                        cons = Sg.rel(atom, pol)
                        if not cons:
                            return None
                        nonneg = [_lin.ge(PSZ), _lin.ge(nsz)]
                        if _lin.implies(cons + nonneg, _lin.eq(PSZ - nsz)):
                            return ('same', True)
                        if _lin.implies(cons + nonneg, _lin.ge(PSZ - nsz)) and not _lin.implies(nonneg, _lin.ge(PSZ - nsz)):
                            return ('fits', True)
                        if _lin.implies(cons + nonneg, _lin.ge(nsz - PSZ - _L.const(1))):
                            return ('fits', False)
                        # "not equal" has no linear form: recognise the plain comparison
                        l_, r_ = Sg.lin(n_['ch'][0]), Sg.lin(n_['ch'][1])
                        if n_['op'] in ('==', '!=') and ((l_ - PSZ).key() == z and (r_ - nsz).key() == z or (r_ - PSZ).key() == z and (l_ - nsz).key() == z):
                            return ('same', (n_['op'] == '==') == pol)
                    return None

                def edges_where(test):
                    out = []
                    for B in g.blocks.values():
                        for (s_, lab_, tag_) in g.state_succ(B.id, None):
                            try:
                                facts = g.edge_facts(B.id, lab_, None)
                            except Exception:
                                facts = []
                            ks = [kind(a_, p_) for (a_, p_) in facts]
                            # disjunctive facts (`a || b` true): every arm must satisfy
                            for (a_, p_) in facts:
                                n_ = g.N(a_)
                                if n_['k'] == 'BinaryOperator' and ((n_.get('op') == '||' and p_) or (n_.get('op') == '&&' and not p_)):
                                    arms = [[kind(x, y) for (x, y) in g.cond_facts(c_, p_)] for c_ in n_['ch']]
                                    ks.append(('or', arms))
                            if test(ks):
                                out.append((B.id, s_, lab_, None))
                    return out
                has = lambda ks, k_, v_: (k_, v_) in ks
                g_bytes = edges_where(lambda ks: has(ks, 'bytes', True))
                g_fits = edges_where(lambda ks: has(ks, 'fits', True) or has(ks, 'same', True))
                g_bound = edges_where(lambda ks: has(ks, 'same', True) or has(ks, 'slash', True) or any(k_[0] == 'or' and all(any(x in (('same', True), ('slash', True)) for x in arm) for arm in k_[1]) for k_ in ks if k_))
                ok = ok and bool(g_bytes) and bool(g_fits) and bool(g_bound) and g.only_through(cut[0], g_bytes) and g.only_through(cut[0], g_fits) and g.only_through(cut[0], g_bound)
                # conversely a name is passed over only when one of the three fails
                g_skip = edges_where(lambda ks: has(ks, 'bytes', False) or has(ks, 'fits', False) or (has(ks, 'same', False) and has(ks, 'slash', False)) or
                                     any(k_[0] == 'or' and all(any(x in (('bytes', False), ('fits', False)) for x in arm) or (('same', False) in arm and ('slash', False) in arm) for arm in k_[1]) for k_ in ks if k_))
                bstart = g.point_of(g.N(L)['body'])[0]
                # `same || slash` lowered to two tests in a row: the second false edge means "neither" when its test is reached only over the first false edge
                for (ka, kb) in (('same', 'slash'), ('slash', 'same')):
                    ga = edges_where(lambda ks, ka=ka: has(ks, ka, False))
                    gb = edges_where(lambda ks, kb=kb: has(ks, kb, False))
                    if ga and gb:
                        r_ = g.reachable_blocks(start=bstart, cut_edges=ga)
                        g_skip = g_skip + [e_ for e_ in gb if e_[0] not in r_]
                inc_b = g.point_of(g.N(L)['inc'])[0] if g.N(L).get('inc', -1) not in (None, -1) else None
                if inc_b is not None:
                    reach = g.reachable_blocks(start=bstart, cut_edges=g_skip, cut_blocks=q.blocks_of(g, cut))
                    ok = ok and inc_b not in reach
                cl_ = q.counting_loop(g, L)
                ok = ok and cl_ is not None and cl_['start'] == 0 and cl_['step'] == 1 and cl_['op'] == '<' and any(q.short_of(g.bcallee(c) or '') == 'size' for c in g.calls(cl_['bound']))
                leaves = [j for j in g.walk(g.N(L)['body']) if g.N(j)['k'] == 'BreakStmt']
                ok = ok and bool(leaves) and q.always_after(g, cut[0], leaves + g.returns())
    if not ok:
        ok = _script_name_by_interpretation(P, g, genv)
    ctx.check(ok, R6, 'process_request:script-name-cut-at-a-component-boundary:PATH_INFO-is-the-decoded-rest', 'SCRIPT_NAME / PATH_INFO are not the matched script name and the percent-decoded remainder of the path', g.where)
    # the path is the whole URI when there is no "?"
    if len(sc) == 1 and len(ud) == 1:
        pv_ = g.ref_of(g.args(ud[0])[0])
        whole = [w for w in q.writes_to(g, pv_) if g.N(w)['k'] == 'BinaryOperator' and g.N(w).get('op') == '=' and model.strip_targs(g.ref_of(g.N(w)['ch'][1]) or '').endswith('http::request_uri_')]
        part = [w for w in q.writes_to(g, pv_) if g.N(w)['k'] == 'BinaryOperator' and g.N(w).get('op') == '=' and any(q.short_of(g.bcallee(c) or '') == 'add' for c in g.calls(w))]
        reach = g.reachable_blocks(cut_blocks=q.blocks_of(g, whole + part))
        ctx.check(len(whole) == 1 and len(part) == 1 and g.point_of(ud[0])[0] not in reach, R6, 'process_request:path-is-the-uri-up-to-?-or-all-of-it', 'PATH_INFO can be computed from a path that was never taken from the URI', g.where)
    # an error is answered only for a malformed request line
    errs = [i for i in g.calls() if q.short_of(g.bcallee(i) or '') == 'error_response']

    def malformed(atom, pol):
        n_ = g.N(atom)
        if n_['k'] != 'BinaryOperator' or n_.get('op') not in ('==', '!='):
            return False
        if g.const_value(n_['ch'][1]) == 47 and any(model.strip_targs(r).endswith('http::request_uri_') for r in g.subtree_refs(n_['ch'][0])):
            x = g.N(g.strip(n_['ch'][0]))
            return x['k'] == 'ArraySubscriptExpr' and g.const_value(x['ch'][1]) == 0 and ((n_['op'] == '!=') == pol)
        if any(q.short_of(g.bcallee(c) or '') == 'tocken' for c in g.calls(atom)):
            return (n_['op'] == '!=') == pol
        refs = [r for r in g.subtree_refs(atom) if r.startswith('v:')]
        if len(refs) == 2 and not list(g.calls(atom)):
            return (n_['op'] == '==') == pol          # rm == rm_end: empty method
        return False
    g_mal = g.gate_edges(malformed)
    ctx.check(bool(errs) and bool(g_mal) and all(g.only_through(i, g_mal) for i in errs), R6, 'process_request:error-only-for-an-empty-or-non-token-method-or-a-uri-without-leading-slash', 'a well-formed request line is answered with an error', g.where)
    # handed on exactly once on the normal path
    hc = [i for i in g.calls() if g.N(i)['k'] == 'CXXOperatorCallExpr' and g.N(i).get('op') == '()' and g.ref_of(g.N(i)['ch'][1]) == hp]
    er = [i for i in g.calls() if q.short_of(g.bcallee(i) or '') == 'error_response' and hp in g.subtree_refs(i)]
    ok = bool(hc) and q.always_before_exit(g, hc + er)
    ctx.check(ok, R6, 'process_request:handler-or-error-response-on-every-path', 'process_request can return without handing the request on or answering with an error', g.where)
    ctx.floor(R6, 11)


def _header_line(ctx, P):
    """C01.R7: parse_single_header exact on short header lines (E3)"""
    import itertools
    from vlib import absint
    from vlib.absint import AV, Arr, PV, Cell, Unsupported
    R7 = ctx.rule('C01.R7', 'HTTP header line -> (CGI name, value), for every line of the form <2 free bytes> ":" / LWS / value variants (E3, all byte values): accepted exactly when a non-empty token is followed by optional white space and ":"; the name is that token with a-z upper-cased and "-" turned into "_", the value is the rest of the line without leading white space')
    f = P.fn(HTTP + '::parse_single_header')
    SEP = set(b'()<>@,;:\\"/[]?={} \t')

    def ref(line):
        n = len(line)

        def skip(p):
            while p < n:
                c = line[p]
                if c == 13:
                    if p + 2 < n and line[p + 1] == 10 and line[p + 2] in (32, 9):
                        p += 3
                        continue
                    return p
                if c in (32, 9):
                    p += 1
                    continue
                return p
            return p
        p = skip(0)
        e = p
        while e < n and 0x20 <= line[e] <= 0x7E and line[e] not in SEP:
            e += 1
        if e == p:
            return None
        name = bytes((95 if c == 45 else (c - 32 if 97 <= c <= 122 else c)) for c in line[p:e])
        p = skip(e)
        if p == n or line[p] != 58:
            return None
        p = skip(p + 1)
        return name, bytes(line[p:])

    def hooks():
        def h_alloc(it, fn, i, env):
            a = it.rvalue(fn, fn.args(i)[0], env)
            if not (isinstance(a, AV) and a.is_const()) or a.lo < 0 or a.lo > 4096:
                raise Unsupported('alloc of a non-constant size')
            return PV(Arr([AV.const(0) for _ in range(a.lo)], 'pool'), 0)

        def h_copy(it, fn, i, env):
            a = [it.rvalue(fn, x, env) for x in fn.args(i)]
            if not (len(a) == 3 and all(isinstance(x, PV) for x in a)):
                raise Unsupported('std::copy shape')
            n_ = a[1].off - a[0].off
            for j in range(n_):
                it.store(('elem', PV(a[2].arr, a[2].off + j)), it.load(('elem', PV(a[0].arr, a[0].off + j))))
            return PV(a[2].arr, a[2].off + n_)
        return {'cppcms::impl::string_pool::alloc': h_alloc, 'std::copy': h_copy}

    def cstr(pv):
        out = []
        j = pv.off
        while True:
            e = pv.arr.elems[j]
            if e.is_const() and e.lo == 0:
                return out
            out.append(e)
            j += 1

    def run(tmpl, free):
        fr = sorted(free)

        def runs(it):
            el, k_ = [], 0
            for j, v in enumerate(tmpl):
                if j in free:
                    el.append(it.inbyte(k_))
                    k_ += 1
                else:
                    el.append(AV.const(v - 256 if v > 127 else v))
            line = Arr(el + [AV.const(0)], 'str:header')
            it.hooks = hooks()
            on, ov = Cell(PV(Arr([AV.const(0)], 'lit'), 0)), Cell(PV(Arr([AV.const(0)], 'lit'), 0))
            r = it.call_fn(f, [line, on, ov])
            return r, on.v, ov.v
        nb = 0
        for (bx, (r, on, ov), it) in absint.explore(P, runs, [[(-128, 127)] * len(fr)]):
            nb += 1
            if not (isinstance(r, AV) and r.is_const()):
                return 'box %s: verdict not constant' % (bx,), nb
            cands = []
            for (lo, hi) in bx:
                sp = [x - 256 if x > 127 else x for x in list(SEP) + [13, 10, 45, 95, 65, 90, 97, 122, 0x1F, 0x20, 0x7E, 0x7F, 64, 91, 96, 123]]
                cands.append(sorted(set([lo, hi]) | set(x for x in sp if lo <= x <= hi)))
            for combo in itertools.product(*cands):
                line = list(tmpl)
                for p_, v in zip(fr, combo):
                    line[p_] = v & 0xFF
                want = ref(line)
                if (want is not None) != bool(r.lo):
                    return 'line %r: code says %s, a header line parser says %s' % (bytes(line), bool(r.lo), want), nb
                if want is None:
                    continue
                got = []
                for part in (on, ov):
                    bs = []
                    for e in cstr(part):
                        if e.is_const():
                            bs.append(e.lo & 0xFF)
                        elif len(e.deps) == 1 and e.vals is not None:
                            d = next(iter(e.deps))
                            # value as a function of that input byte: identity, upper-casing or '-' -> '_' (the box is inside one class)
                            v = combo[d] & 0xFF
                            cs = set(x & 0xFF for x in e.vals)
                            if v in cs and len(cs) == bx[d][1] - bx[d][0] + 1 and all(((x - 256 if x > 127 else x) >= bx[d][0] and (x - 256 if x > 127 else x) <= bx[d][1]) for x in cs):
                                bs.append(v)
                            elif 97 <= v <= 122 and (v - 32) in cs:
                                bs.append(v - 32)
                            elif v == 45 and cs == {95}:
                                bs.append(95)
                            else:
                                return 'line %r: output byte %r is not a recognisable function of input byte %d' % (bytes(line), e, d), nb
                        else:
                            return 'line %r: output byte %r depends on several input bytes' % (bytes(line), e), nb
                    got.append(bytes(bs))
                if tuple(got) != want:
                    return 'line %r: code gives name=%r value=%r, expected %r / %r' % (bytes(line), got[0], got[1], want[0], want[1]), nb
        return None, nb
    for tmpl, free, tag in ((b'\0\0: v', {0, 1}, 'XY: v'), (b'a\0:\0v', {1, 3}, 'aX:Yv'), (b'Ab-c\0\0 w', {4, 5}, 'Ab-cXY w'), (b'\0k\0v', {0, 2}, 'XkYv'),
                            (b'a\0\n :v', {1}, 'aX<LF><SP>:v'), (b'a\r\0 :v', {2}, 'a<CR>X<SP>:v'), (b'a\r\n\0:v', {3}, 'a<CR><LF>X:v'), (b'a:\r\n\0v', {4}, 'a:<CR><LF>Xv')):
        bad, nb = run(list(tmpl), free)
        ctx.check(bad is None, R7, 'parse_single_header:%s' % tag, bad or '', f.where, detail={'boxes': nb})
    ctx.floor(R7, 6)


def _cookie_pairs(ctx):
    """C01.R8: the Cookie header scanner on well-formed cookie strings (E3)"""
    import itertools
    from vlib import absint
    from vlib.absint import AV, Arr, PV, Cell, Out
    R8 = ctx.rule('C01.R8', 'Cookie header scanner: for name=value pairs (names and values of 1..2 arbitrary token characters, values also quoted with arbitrary content and backslash escapes) joined by the usual separators, read_key_value returns exactly the name and the (unquoted) value, byte for byte, and leaves the cursor at the next pair; a piece without a name is skipped up to the next separator; parse_cookies stores every completed pair')
    PR = model.Program(build.extract([REPO + '/src/http_request.cpp'], include_re='^/repo/(src|private|cppcms)/'))
    ctx.units.append('src/http_request.cpp')
    RQ = 'cppcms::http::request'
    f = PR.fn(RQ + '::read_key_value')
    SEP = set(b'()<>@,;:\\"/[]?={} \t')
    tok = [c for c in range(0x21, 0x7F) if c not in SEP]
    TOK = []
    for c in tok:
        if TOK and TOK[-1][1] == c - 1:
            TOK[-1] = (TOK[-1][0], c)
        else:
            TOK.append((c, c))
    ANY_Q = [(-128, 33), (35, 91), (93, 127)]          # inside quotes: everything but " and backslash

    def run(parts):
        """parts: list of bytes (fixed) or ('free', [intervals]) -> explores all boxes; returns list of (box, result)"""
        layout, free_iv = [], []
        for part in parts:
            if isinstance(part, tuple):
                layout.append(('f', len(free_iv)))
                free_iv.append(part[1])
            else:
                layout += [('c', b) for b in part]
        out = []
        for combo in itertools.product(*free_iv):
            def runs(it, combo=combo):
                el = []
                for kind, v in layout:
                    el.append(it.inbyte(v) if kind == 'f' else AV.const(v - 256 if v > 127 else v))
                arr = Arr(el + [AV.const(0)], 'str:cookie')
                res = []
                pc = Cell(PV(arr, 0))
                for _ in range(3):
                    if pc.v.off >= len(el):
                        break
                    key, val = Cell(Out('key')), Cell(Out('val'))
                    r = it.call_fn(f, [pc, PV(arr, len(el)), key, val])
                    res.append((r, pc.v.off, list(key.v.items), list(val.v.items)))
                return res
            for (bx, res, it) in absint.explore(PR, runs, [list(combo)]):
                out.append((bx, res, layout))
        return out

    def same(items, spec, bx):
        """items: AVs; spec: list of ('c', byte) / ('f', k): constant byte or identity copy of free byte k"""
        if len(items) != len(spec):
            return False
        for e, (kind, v) in zip(items, spec):
            if kind == 'c':
                if not (isinstance(e, int) and e == (v - 256 if v > 127 else v)) and not (hasattr(e, 'is_const') and e.is_const() and (e.lo & 0xFF) == v):
                    return False
            else:
                if isinstance(e, int):
                    if not (bx[v][0] == bx[v][1] == e):
                        return False
                elif not (e.deps == frozenset([v]) and e.lo == bx[v][0] and e.hi == bx[v][1]):
                    return False
        return True
    cases = 0
    bad = None
    F = lambda k_: ('f', k_)
    for sep in (b'; ', b';', b', ', b' ; '):
        for quoted in (False, True):
            # N1 N2 = V1 V2 sep n = w
            variants = []
            if not quoted:
                # one free character at a time (the others fixed): k1 k2 = v1 v2
                for pos in range(4):
                    cells = [b'k', b'K', b'v', b'V']
                    cells[pos] = ('free', TOK)
                    spec = [('c', ord('k')), ('c', ord('K')), ('c', ord('v')), ('c', ord('V'))]
                    spec[pos] = F(0)
                    variants.append(([cells[0], cells[1], b'=', cells[2], cells[3], sep, b'n=w'], spec[:2], spec[2:], 5))
            else:
                variants.append(([('free', TOK), b'="', ('free', ANY_Q), b'\\', ('free', [(-128, 127)]), b'"', sep, b'n=w'], [F(0)], [F(1), F(2)], 7))
            for (parts, key_spec, val_spec, pre) in variants:
              nxt = pre + len(sep)
              for (bx, res, layout) in run(parts):
                  cases += 1
                  ok = len(res) == 2 and all(isinstance(r[0], AV) and r[0].is_const() and r[0].lo == 1 for r in res)
                  if ok:
                      (r1, p1, k1, v1), (r2, p2, k2, v2) = res
                      ok = p1 == nxt and same(k1, key_spec, bx) and same(v1, val_spec, bx) and same(k2, [('c', ord('n'))], bx) and same(v2, [('c', ord('w'))], bx) and p2 == len(layout)
                  if not ok:
                      bad = bad or ('separator %r, %s value, box %s: scanner returned %s' % (sep, 'quoted' if quoted else 'token', bx, [(getattr(r[0], 'lo', r[0]), r[1], r[2], r[3]) for r in res]))
    ctx.check(bad is None, R8, 'read_key_value:name=value-pairs-with-every-separator', bad or '', f.where, detail={'boxes': cases})
    # a piece without a name is skipped as a whole
    bad = None
    for (bx, res, layout) in run([b'=', ('free', TOK), b'; n=w']):
        ok = len(res) == 2 and res[0][0].is_const() and res[0][0].lo == 0 and res[0][1] == 3 and res[1][0].lo == 1 and same(res[1][2], [('c', ord('n'))], bx) and same(res[1][3], [('c', ord('w'))], bx)
        if not ok:
            bad = bad or ('box %s: %s' % (bx, [(getattr(r[0], 'lo', r[0]), r[1], r[2], r[3]) for r in res]))
    ctx.check(bad is None, R8, 'read_key_value:nameless-piece-skipped-to-the-next-separator', bad or '', f.where)
    # parse_cookies: every pair that was read and does not start with $ becomes a cookie, the last one included
    pcf = PR.fn(RQ + '::parse_cookies')
    rk = [i for i in pcf.calls() if pcf.bcallee(i) == RQ + '::read_key_value']
    ins = [i for i in pcf.calls() if q.short_of(pcf.bcallee(i) or '') == 'insert' and any(model.strip_targs(r).endswith('request::cookies_') for r in pcf.subtree_refs(pcf.obj(i)) if pcf.obj(i) is not None)]
    # a helper of the file that is handed cookies_ and stores a named cookie into it counts as a storing site
    via_helper = set()
    for i in pcf.calls():
        g_ = PR.fns.get(pcf.N(i).get('callee') or '')
        if g_ is None or g_.entry is None or g_.file != pcf.file or g_ is pcf or not any(model.strip_targs(r).endswith('request::cookies_') for a_ in pcf.args(i) for r in pcf.subtree_refs(a_)):
            continue
        gi = [j for j in g_.calls() if q.short_of(g_.bcallee(j) or '') == 'insert' and g_.obj(j) is not None and g_.ref_of(g_.obj(j)) in [p_['ref'] for p_ in g_.params]]
        gn = q.empty_gate(g_, None, False)
        if len(gi) == 1 and gn and g_.only_through(gi[0], gn) and g_.exit not in g_.reachable_blocks(cut_blocks=[g_.point_of(gi[0])[0]], cut_edges=q.empty_gate(g_, None, True)):
            ins.append(i)
            via_helper.add(i)
    okc = len(rk) == 1 and len(ins) == 2
    if okc:
        kv, vv = pcf.ref_of(pcf.args(rk[0])[2]), pcf.ref_of(pcf.args(rk[0])[3])
        mk = [i for i in pcf.calls() if pcf.N(i)['k'] in ('CXXConstructExpr', 'CXXTemporaryObjectExpr') and (pcf.callee(i) or '').endswith('cookie::cookie') and len([a for a in pcf.args(i) if pcf.N(a)['k'] != 'CXXDefaultArgExpr']) >= 2]
        okc = kv is not None and vv is not None and any(kv in pcf.subtree_refs(pcf.args(i)[0]) and vv in pcf.subtree_refs(pcf.args(i)[1]) and vv not in pcf.subtree_refs(pcf.args(i)[0]) for i in mk)
        L = [L for L in q.loops(pcf) if pcf.contains(L, rk[0])]
        okc = okc and len(L) == 1 and len([i for i in ins if pcf.contains(L[0], i)]) == 1 and len([i for i in ins if not pcf.contains(L[0], i)]) == 1
        g_named = q.empty_gate(pcf, None, False)
        okc = okc and all(i in via_helper or (bool(g_named) and pcf.only_through(i, g_named)) for i in ins)
        # after the loop the pending cookie is stored unless it has no name
        last = [i for i in ins if not pcf.contains(L[0], i)][0]
        reach = pcf.reachable_blocks(cut_blocks=[pcf.point_of(last)[0]], cut_edges=q.empty_gate(pcf, None, True))
        okc = okc and pcf.exit not in reach
    if okc:
        Lc = L[0]
        cn_ = pcf.N(pcf.strip(pcf.N(Lc)['cond']))
        pv_ = pcf.ref_of(pcf.args(rk[0])[0])
        evs_ = [r for r in pcf.subtree_refs(pcf.args(rk[0])[1]) if r.startswith('v:')]
        okc = cn_['k'] in ('BinaryOperator', 'CXXOperatorCallExpr') and cn_.get('op') in ('<', '!=') and pcf.ref_of(cn_['ch'][-2]) == pv_ and len(evs_) == 1 and pcf.ref_of(cn_['ch'][-1]) == evs_[0]
        g_ok = q.call_gate(pcf, lambda i: i == rk[0], True)
        g_fail = q.call_gate(pcf, lambda i: i == rk[0], False)
        newc = [i for i in mk if kv in pcf.subtree_refs(pcf.args(i)[0])] if len(mk) else []
        g_dollar = pcf.gate_edges(lambda atom, pol: pcf.N(atom)['k'] == 'BinaryOperator' and pcf.N(atom).get('op') in ('==', '!=') and pcf.const_value(pcf.N(atom)['ch'][1]) == 36 and kv in pcf.subtree_refs(atom) and
                                  any(pcf.N(j)['k'] == 'CXXOperatorCallExpr' and pcf.N(j).get('op') == '[]' and pcf.const_value(pcf.N(j)['ch'][2]) == 0 for j in pcf.walk(pcf.N(atom)['ch'][0])) and ((pcf.N(atom)['op'] == '==') == pol))
        okc = okc and bool(g_ok) and bool(g_fail) and bool(g_dollar) and len(newc) == 1 and pcf.only_through(newc[0], g_ok)
        if okc:
            # a pair that was read and is not a $-attribute always becomes the pending cookie before the next turn
            body0 = pcf.point_of(pcf.N(Lc)['body'])[0]
            condb = pcf.point_of(pcf.N(Lc)['cond'])[0]
            reach = pcf.reachable_blocks(start=body0, cut_blocks=[pcf.point_of(newc[0])[0]], cut_edges=list(g_fail) + list(g_dollar))
            okc = condb not in reach
    ctx.check(okc, R8, 'parse_cookies:every-completed-pair-is-stored', 'a name=value pair that was read is not turned into a cookie and stored (the last one included)', pcf.where)
    # cookies are stored and handed out by value: a copy carries every attribute
    PCK = model.Program(build.extract([REPO + '/src/http_cookie.cpp'], include_re='^/repo/(src|cppcms)/'))
    ckf, ckc = q.copy_coverage(PCK, 'cppcms::http::cookie', skip=('d',))
    ctx.require(len(ckf) >= 8 and len(ckc) >= 2 or ctx.violations, 'C01.R8: http::cookie fields / copy operations not found (%d, %d)' % (len(ckf), len(ckc)))
    for g_, missing in sorted(ckc.items(), key=lambda kv: kv[0].id):
        ctx.check(not missing, R8, 'http::cookie::%s:copies-every-attribute' % ('copy-constructor' if g_.kind == 'ctor' else 'operator='),
                  'a copied cookie does not take %s from the source (the request keeps cookies in a map, by value)' % [x.rsplit('::', 1)[-1] for x in missing], g_.where)
    ctx.floor(R8, 5)
