"""C15 — HTML escaping neutralises markup; URL and base64 codecs are exact inverses (abstract interpretation per byte box + routing rules)."""
from vlib import build, model, q, absint
from vlib.absint import AV, Arr, PV, Cell, Out, Split, Unsupported
from vlib.build import AnalysisBroken, REPO, VERIF

ENT = {ord('<'): b'&lt;', ord('>'): b'&gt;', ord('&'): b'&amp;', ord('"'): b'&quot;', ord("'"): b'&#39;'}
UNRESERVED = set(b'ABCDEFGHIJKLMNOPQRSTUVWXYZabcdefghijklmnopqrstuvwxyz0123456789-_.~')
B64 = b'ABCDEFGHIJKLMNOPQRSTUVWXYZabcdefghijklmnopqrstuvwxyz0123456789-_'


def u8(v):
    return v & 0xFF


def out_bytes(o):
    """list of frozensets (possible byte values, unsigned) of an emission log"""
    res = []
    for e in o.items:
        if e.vals is not None:
            res.append(frozenset(u8(x) for x in e.vals))
        else:
            res.append(frozenset(u8(x) for x in range(e.lo, e.hi + 1)))
    return res


def sscanf_hook(it, fn, i, env):
    """sscanf(buf, "%x", &value) on a 2-hex-digit NUL-terminated buffer"""
    args = fn.args(i)
    fmt = it.rvalue(fn, args[1], env)
    if not (isinstance(fmt, PV) and bytes(e.lo for e in fmt.arr.elems[:2]) == b'%x'):
        raise Unsupported('sscanf format')
    buf = it.rvalue(fn, args[0], env)
    val = AV.const(0)
    j = buf.off
    while True:
        e = it.load(('elem', PV(buf.arr, j)))
        if e.is_const() and e.lo == 0:
            break
        if e.vals is None:
            it.split_on(e.deps)
        dig = set()
        for c in e.vals:
            c = u8(c)
            if 48 <= c <= 57:
                dig.add(c - 48)
            elif 97 <= c <= 102:
                dig.add(c - 87)
            elif 65 <= c <= 70:
                dig.add(c - 55)
            else:
                raise Unsupported('sscanf %%x on a non-hex byte %d' % c)
        if len(dig) > 1 and len(e.vals) != len(dig):
            it.split_on(e.deps)
        if len(dig) > 1:
            # keep the relation digit value <-> byte exact: one hex class per box
            cls = set((48 <= u8(c) <= 57, 97 <= u8(c) <= 102) for c in e.vals)
            if len(cls) > 1:
                it.split_on(e.deps)
        d = AV(vals=dig, deps=e.deps)
        val = absint.binop('+', absint.binop('*', val, AV.const(16)), d)
        j += 1
    tgt = it.rvalue(fn, args[2], env)
    it.store(('elem', tgt), val)
    return AV.const(1)


def q_walk_deep(f, node, depth=3):
    """nodes of the expression and of the defining expressions of the single-definition locals it mentions"""
    out = list(f.walk(node))
    f.defs_of_var('')
    seen, frontier = set(), set(r for r in f.subtree_refs(node) if r.startswith('v:'))
    for _ in range(depth):
        nxt = set()
        for r in frontier - seen:
            seen.add(r)
            ds_ = f._defs.get(r, [])
            if len(ds_) == 1 and ds_[0][1] is not None:
                out += list(f.walk(ds_[0][1]))
                nxt |= set(x for x in f.subtree_refs(ds_[0][1]) if x.startswith('v:'))
        frontier = nxt
    return out


def run(ctx):
    ctx.explanation = ('Abstract interpretation of the escaping / codec sources per input-byte box: util::escape (both overloads), urlencode_impl, urldecode, the base64url tables, bencode/bdecode and the size formulas, '
                       'compared with the five-entity table, RFC 3986 unreserved set and RFC 4648 section 5; routing rules check that every stream filter and every form widget output goes through these functions.')
    ctx.units = ['src/util.cpp', 'src/base64.cpp', 'src/filters.cpp', 'src/form.cpp']
    P = model.Program(build.extract([REPO + '/' + u for u in ctx.units], include_re='^/repo/(src|private|cppcms)/'))
    ctx.stats['functions'] = len(P.fns)
    R1 = ctx.rule('C15.R1', 'util::escape: output has no < > " \' and & only as the head of the five entities; every other byte verbatim; both overloads agree')
    R2 = ctx.rule('C15.R2', 'escape / urlencode / base64 stream filters forward to the util / b64url functions; form widgets write user-controlled text only through escape')
    R3 = ctx.rule('C15.R3', 'urlencode: unreserved bytes verbatim, everything else %hh (lower-case hex, high nibble first); urldecode inverts it for every byte')
    R5 = ctx.rule('C15.R5', 'streaming variants report a failing sink: every stream-buffer write result decides the returned status (documented -1), and the failure flag is read from the object that did the writing')
    R6 = ctx.rule('C15.R6', 'buffered stream filter (filterbuf<F,N>, N>0) keeps the byte order: bytes reach Filter::convert as the put area [pbase,pptr), and a direct hand-over of caller bytes happens only after the put area was flushed')
    R7 = ctx.rule('C15.R7', 'base64url range codecs: for every length 0..40 (input bytes unknown) the drivers hand each 3-byte / 4-character block and the short tail to the block codec at the matching input and output offsets, every byte of a buffer of exactly encoded_size / decoded_size bytes is written once, nothing outside it, and the returned pointer is its end; the string overloads convert the whole input into the start of that buffer and hand back exactly it')
    R4 = ctx.rule('C15.R4', 'base64url: 64 distinct URL-safe characters, decode table is the inverse, block codec exact, size formulas exact, invalid length rejected')

    # ---------------- R1
    escs = P.by_bname.get('cppcms::util::escape', [])
    e_str = [f for f in escs if len(f.params) == 1]
    e_buf = [f for f in escs if len(f.params) == 3 and 'basic_streambuf' in f.id]
    e_os = [f for f in escs if len(f.params) == 3 and 'basic_ostream' in f.id]
    ctx.require(len(e_str) == 1 and len(e_buf) == 1 and len(e_os) == 1, 'C15.R1: the three util::escape overloads not found')
    results = {}
    for tag, fn in (('escape(string)', e_str[0]), ('escape(begin,end,streambuf)', e_buf[0])):
        bad = []
        table = {}

        def run1(it, fn=fn, tag=tag):
            arr = Arr([it.inbyte(0)], 'input')
            if tag == 'escape(string)':
                a = Arr([it.inbyte(0), AV.const(0)], 'str:input')
                r = it.call_fn(fn, [a])
                return r
            o = Out('streambuf')
            rc = it.call_fn(fn, [PV(arr, 0), PV(arr, 1), o])
            return o
        nb = 0
        for (bx, o, it) in absint.explore(P, run1, [[(0, 255)]]):
            nb += 1
            lo, hi = bx[0]
            ob = out_bytes(o)
            for v in range(lo, hi + 1):
                if v in ENT:
                    exp = [frozenset([c]) for c in ENT[v]]
                    if lo != hi or ob != exp:
                        bad.append((v, 'expected %r' % ENT[v]))
                else:
                    if len(ob) != 1 or ob[0] != frozenset(range(lo, hi + 1)) and v not in ob[0]:
                        bad.append((v, 'not copied verbatim: %s' % ob))
                    elif lo != hi and any(x in ENT for x in range(lo, hi + 1)):
                        bad.append((v, 'box mixes special and plain bytes'))
            table[(lo, hi)] = ob
        results[tag] = table
        ctx.check(not bad, R1, '%s:per-byte-table' % tag, ('byte %02X: %s' % bad[0]) if bad else '', fn.where, detail={'boxes': nb})
    ctx.check(results['escape(string)'] and set(results['escape(string)'].values().__iter__().__next__() and []) == set(), R1, 'escape:overloads-evaluated', '', e_str[0].where)
    # third overload forwards to the streambuf one
    f3 = e_os[0]
    fw = [i for i in f3.calls() if f3.N(i).get('callee') == e_buf[0].id]
    ctx.check(len(fw) == 1 and f3.ref_of(f3.args(fw[0])[0]) == q.param_by_index(f3, 0) and f3.ref_of(f3.args(fw[0])[1]) == q.param_by_index(f3, 1), R1, 'escape(begin,end,ostream):forwards', 'ostream overload does not forward its range to the streambuf overload', f3.where)

    # ---------------- R3
    ue = [f for f in P.fns.values() if f.bname == 'cppcms::util::urlencode_impl']
    ctx.require(ue, 'C15.R3: urlencode_impl instantiations not found')
    for fn in sorted(ue, key=lambda g: g.id):
        bad = []

        def run2(it, fn=fn):
            arr = Arr([it.inbyte(0)], 'input')
            o = Out('out')
            it.call_fn(fn, [PV(arr, 0), PV(arr, 1), o])
            return o
        nb = 0
        for (bx, o, it) in absint.explore(P, run2, [[(16 * h, 16 * h + 15)] for h in range(16)]):
            nb += 1
            lo, hi = bx[0]
            ob = out_bytes(o)
            if all(v in UNRESERVED for v in range(lo, hi + 1)):
                if len(ob) != 1 or ob[0] != frozenset(range(lo, hi + 1)):
                    bad.append((lo, 'unreserved byte not verbatim: %s' % ob))
            elif any(v in UNRESERVED for v in range(lo, hi + 1)):
                bad.append((lo, 'box mixes unreserved and reserved bytes'))
            else:
                hx = b'0123456789abcdef'
                his = frozenset(hx[v >> 4] for v in range(lo, hi + 1))
                los = frozenset(hx[v & 15] for v in range(lo, hi + 1))
                if len(ob) != 3 or ob[0] != frozenset([37]) or ob[1] != his or ob[2] != los or (len(his) > 1 and len(los) > 1):
                    bad.append((lo, 'expected %%%s%s, got %s' % (sorted(his), sorted(los), ob)))
        it_name = 'back_inserter' if 'back_insert' in fn.id else ('ostreambuf' if 'ostreambuf' in fn.id else 'ostream')
        ctx.check(not bad, R3, 'urlencode_impl<%s>:per-byte-table' % it_name, ('byte %02X: %s' % bad[0]) if bad else '', fn.where, detail={'boxes': nb})
    ud = [f for f in P.by_bname.get('cppcms::util::urldecode', []) if len(f.params) == 2]
    ctx.require(len(ud) == 1, 'C15.R3: urldecode(begin,end) not found')
    ud = ud[0]
    hooks = {'sscanf': sscanf_hook}
    bad = []
    nb = 0

    def run3(it):
        it.hooks = hooks
        arr = Arr([it.inbyte(0), it.inbyte(1), it.inbyte(2)], 'input')
        return it.call_fn(ud, [PV(arr, 0), PV(arr, 3)])
    HEX = [(48, 57), (65, 70), (97, 102)]
    boxes = [[(37, 37), a, b] for a in HEX for b in HEX]
    for (bx, o, it) in absint.explore(P, run3, boxes):
        nb += 1
        ob = out_bytes(o)
        hv = lambda c: c - 48 if c <= 57 else (c - 55 if c <= 70 else c - 87)
        exp = frozenset(16 * hv(a) + hv(b) for a in range(bx[1][0], bx[1][1] + 1) for b in range(bx[2][0], bx[2][1] + 1))
        if len(ob) != 1 or ob[0] != exp:
            bad.append((bx, 'expected one byte %s, got %s' % (sorted(exp)[:4], ob)))
    ctx.check(not bad, R3, 'urldecode:%hh->16h+l', ('%s: %s' % bad[0]) if bad else '', ud.where, detail={'boxes': nb})
    bad = []

    def run4(it):
        it.hooks = hooks
        arr = Arr([it.inbyte(0)], 'input')
        return it.call_fn(ud, [PV(arr, 0), PV(arr, 1)])
    for (bx, o, it) in absint.explore(P, run4, [[(0, 255)]]):
        lo, hi = bx[0]
        ob = out_bytes(o)
        for v in range(lo, hi + 1):
            if v == 43:
                ok = lo == hi and ob == [frozenset([32])]
            elif v == 37:
                ok = lo == hi and ob == []          # a lone '%' at the end is dropped (decoder leniency, not part of the inverse claim)
            else:
                ok = len(ob) == 1 and v in ob[0] and len(ob[0]) == hi - lo + 1 and 43 not in range(lo, hi + 1) and 37 not in range(lo, hi + 1)
            if not ok:
                bad.append((v, 'decoded to %s' % ob))
    ctx.check(not bad, R3, 'urldecode:plain-bytes-and-plus', ('byte %02X: %s' % bad[0]) if bad else '', ud.where)
    # what counts as a %XX escape: xdigit() is true for exactly 0-9 a-f A-F over every value a (signed or unsigned) char can arrive as - anything else after a % is plain text, not an
    # escape (a wider test hands sscanf something it converts nothing from, and an indeterminate byte comes out)
    xd = [g for g in P.fns.values() if g.short == 'xdigit' and g.body is not None and len(g.params) == 1]
    ctx.require(len(xd) == 1 or ctx.violations, 'C15.R3: http::protocol::xdigit not found (%d)' % len(xd))
    if xd:
        accx = set()
        for (bx, rv, it) in absint.explore(P, lambda it: it.call_fn(xd[0], [it.inbyte(0)]), [[(-128, 255)]]):
            if not (isinstance(rv, AV) and rv.is_const()):
                accx.add(None)
            elif rv.lo:
                accx |= set(range(bx[0][0], bx[0][1] + 1))
        wantx = set(range(48, 58)) | set(range(97, 103)) | set(range(65, 71))
        ctx.check(accx == wantx, R3, 'xdigit:exactly-the-hex-digits', 'values accepted as a hex digit beyond 0-9 a-f A-F: %s; missing: %s' % (sorted(x for x in accx - wantx if x is not None)[:12], sorted(wantx - accx)[:12]), xd[0].where)
    # sequences: after a unit (one plain byte, or %hh) the decoder continues exactly behind it - "%41" X and X "%41" for every byte X,
    # and two escapes in a row
    bad = []
    nb = 0

    def dec1(v):
        return [] if v == 37 else ([32] if v == 43 else [v])
    for hx in (b'41', b'0a', b'ff', b'FF', b'00', b'2b', b'25', b'7e'):
        hval = int(hx, 16)
        for order in ('esc-then-byte', 'byte-then-esc', 'esc-esc'):
            def run6(it, hx=hx, order=order):
                it.hooks = hooks
                esc = [AV.const(37), AV.const(hx[0]), AV.const(hx[1])]
                if order == 'esc-then-byte':
                    el = esc + [it.inbyte(0)]
                elif order == 'byte-then-esc':
                    el = [it.inbyte(0)] + esc
                else:
                    el = esc + esc
                arr = Arr(el, 'input')
                return it.call_fn(ud, [PV(arr, 0), PV(arr, len(el))])
            for (bx, o, it) in absint.explore(P, run6, [[(0, 255)]] if order != 'esc-esc' else [[]]):
                nb += 1
                ob = out_bytes(o)
                if order == 'esc-esc':
                    if ob != [frozenset([hval]), frozenset([hval])]:
                        bad.append((hx, '%%%s%%%s decodes to %s' % (hx.decode(), hx.decode(), ob)))
                    continue
                lo, hi = bx[0]
                for v in sorted(set([lo, hi]) | set(x for x in (37, 43) if lo <= x <= hi)):
                    d1 = dec1(v)
                    if v == 37 and order == 'byte-then-esc':
                        want = [hval]                   # "%%hh": the first % is not followed by two hex digits and is dropped, the escape still decodes
                    else:
                        want = ([hval] + d1) if order == 'esc-then-byte' else (d1 + [hval])
                    got_ok = len(ob) == len(want) and all(w in ob[k_] for k_, w in enumerate(want)) and (lo == hi or (37 not in range(lo, hi + 1) and 43 not in range(lo, hi + 1)))
                    if not got_ok:
                        bad.append((hx, '%s with byte %02X decodes to %s, expected %s' % (order, v, ob, want)))
    ctx.check(not bad, R3, 'urldecode:sequences-of-two-units', ('%%%s: %s' % (bad[0][0].decode(), bad[0][1])) if bad else '', ud.where, detail={'boxes': nb})

    # ---------------- R4 base64
    ANON = '(anonymous namespace)::'
    e68 = P.globals.get(ANON + 'encode_6_to_8') or P.globals.get('encode_6_to_8')
    ctx.require(e68 is not None, 'C15.R4: encode_6_to_8 table not found')
    tb = absint.Interp(P, []).eval_global(e68)
    alpha = bytes(e.lo for e in tb.elems[:64])
    ctx.check(len(set(alpha)) == 64 and alpha == B64 and b'=' not in alpha, R4, 'encode_6_to_8:rfc4648-url-alphabet', 'alphabet is %r' % alpha, e68['file'] + ':%d' % e68['line'])
    d86 = P.fn(ANON + 'encode_8_to_6')
    bad = []
    for (bx, r, it) in absint.explore(P, lambda it: it.call_fn(d86, [it.inbyte(0)]), [[(0, 255)]]):
        lo, hi = bx[0]
        for v in range(lo, hi + 1):
            exp = B64.index(bytes([v])) if bytes([v]) in B64 else 0
            got = r
            if not (isinstance(r, AV)):
                bad.append((v, 'no value'))
                continue
        exp = frozenset((B64.index(bytes([v])) if bytes([v]) in B64 else 0) for v in range(lo, hi + 1))
        gotset = r.vals if r.vals is not None else frozenset(range(r.lo, r.hi + 1))
        if gotset != exp or (len(exp) > 1 and len(exp) != hi - lo + 1):
            bad.append((lo, 'box %02X-%02X decodes to %r, expected %s' % (lo, hi, r, sorted(exp)[:5])))
    ctx.check(not bad, R4, 'encode_8_to_6:inverse-of-alphabet', ('%02X: %s' % bad[0]) if bad else '', d86.where)
    # block codec: decode(encode(x)) == x for every residue, abstract data bytes
    benc, bdec = P.fn(ANON + 'bencode'), P.fn(ANON + 'bdecode')
    for L in (1, 2, 3):
        bad = []
        nb = 0

        def run5(it, L=L):
            src = Arr([it.inbyte(k) if k < L else AV.const(0) for k in range(3)], 'in')
            mid = Arr([AV.const(0)] * 4, 'b64')
            n = it.call_fn(benc, [PV(src, 0), PV(mid, 0), AV.const(L)])
            return n, mid
        for (bx, (n, mid), it) in absint.explore(P, run5, [[(0, 255)] * L]):
            nb += 1
            want_n = L + 1
            if not (n.is_const() and n.lo == want_n):
                bad.append((bx, 'bencode returned %r for len %d' % (n, L)))
                continue
            # expected characters per position from the RFC bit layout, evaluated on the box corners (monotone in each 6-bit group)
            for k in range(want_n):
                e = mid.elems[k]
                chars = e.vals if e.vals is not None else frozenset(range(e.lo, e.hi + 1))
                if not all(bytes([u8(c)]) in B64 for c in chars):
                    bad.append((bx, 'position %d may hold a character outside the alphabet' % k))
            # exactness: on point boxes compare with the reference
            if all(a == b for a, b in bx):
                data = bytes(a for a, _ in bx)
                ref = _ref_b64(data)
                got = bytes(u8(mid.elems[k].lo) for k in range(want_n))
                if got != ref:
                    bad.append((bx, 'encodes %r as %r, RFC 4648 gives %r' % (data, got, ref)))
        ctx.check(not bad, R4, 'bencode:len=%d:alphabet-closed' % L, ('%s: %s' % bad[0]) if bad else '', benc.where, detail={'boxes': nb})
    # exact codec on the 6-bit group boundaries: enumerate group representatives (each 6-bit group 0, 1, 0x20, 0x3F ...) as point boxes
    reps = [0x00, 0x01, 0x3F, 0x40, 0x7F, 0x80, 0xC0, 0xF0, 0x0F, 0xFC, 0x03, 0xFF, 0xAA, 0x55]
    bad = []
    npts = 0
    for L in (1, 2, 3):
        import itertools
        for data in itertools.product(reps, repeat=L):
            npts += 1
            it = absint.Interp(P, [])
            src = Arr([AV.const(data[k]) if k < L else AV.const(0) for k in range(3)], 'in')
            mid = Arr([AV.const(0)] * 4, 'b64')
            n = it.call_fn(benc, [PV(src, 0), PV(mid, 0), AV.const(L)])
            got = bytes(u8(mid.elems[k].lo) for k in range(n.lo))
            if got != _ref_b64(bytes(data)):
                bad.append((data, 'encode gives %r, RFC 4648 %r' % (got, _ref_b64(bytes(data)))))
                continue
            back = Arr([AV.const(0)] * 3, 'out')
            it2 = absint.Interp(P, [])
            m = it2.call_fn(bdec, [PV(Arr(list(mid.elems), 'b64'), 0), PV(back, 0), AV.const(n.lo)])
            res = bytes(u8(back.elems[k].lo) for k in range(m.lo))
            if res != bytes(data):
                bad.append((data, 'decode(encode(x)) = %r' % res))
    ctx.check(not bad, R4, 'bencode/bdecode:round-trip-on-bit-group-representatives', ('%s: %s' % bad[0]) if bad else '', bdec.where, detail={'points': npts})
    es, ds = P.fn('cppcms::b64url::encoded_size'), P.fn('cppcms::b64url::decoded_size')
    bad = []
    SIZES = list(range(0, 1100)) + [4095, 4096, 4097, 65535, 65536, 65537, 1000000, 1000001, 1000002, 1000003]
    for s_ in SIZES:
        it = absint.Interp(P, [])
        r = it.call_fn(es, [AV.const(s_)])
        exp = 4 * (s_ // 3) + (0, 2, 3)[s_ % 3]
        if not (r.is_const() and r.lo == exp):
            bad.append((s_, 'encoded_size=%r expected %d' % (r, exp)))
        it = absint.Interp(P, [])
        r = it.call_fn(ds, [AV.const(s_)])
        exp = -1 if s_ % 4 == 1 else 3 * (s_ // 4) + (0, 0, 1, 2)[s_ % 4]
        if not (r.is_const() and r.lo == exp):
            bad.append((s_, 'decoded_size=%r expected %d' % (r, exp)))
    ctx.check(not bad, R4, 'encoded_size/decoded_size:exact-for-0..1099-and-samples', ('size %d: %s' % bad[0]) if bad else '', ds.where)
    # every size of the property's quantifier (0..1024) is evaluated; no assumption on the shape of the formula (switch, table, if-chain)
    dstr = [f for f in P.by_bname.get('cppcms::b64url::decode', []) if 'std::basic_string' in f.id]
    ctx.require(len(dstr) == 1, 'C15.R4: b64url::decode(string,string&) not found')
    dstr = dstr[0]
    dsz = [i for i in dstr.calls() if dstr.N(i).get('callee') == ds.id]
    szv = [d['ref'] for i in dstr.all_nodes() if dstr.N(i)['k'] == 'DeclStmt' for d in dstr.N(i)['decls'] if d.get('init') is not None and dsz and dsz[0] in set(dstr.walk(d['init']))]
    g_neg = dstr.gate_edges(lambda atom, pol: dstr.N(atom)['k'] == 'BinaryOperator' and dstr.N(atom).get('op') == '<' and szv and dstr.ref_of(dstr.N(atom)['ch'][0]) == szv[0] and dstr.const_value(dstr.N(atom)['ch'][1]) == 0 and pol is False)
    succ = q.nonfalse_returns(dstr)
    vec = [i for i in dstr.calls() if dstr.N(i)['k'] in ('CXXConstructExpr',) and 'std::vector' in (dstr.callee(i) or '') and szv and szv[0] in dstr.subtree_refs(i)]
    ctx.check(bool(szv) and bool(succ) and all(dstr.only_through(r, g_neg) for r in succ) and len(vec) == 1, R4, 'decode(string):invalid-length-rejected-and-buffer-sized-by-decoded_size',
              'decode accepts an impossible length or sizes its buffer differently from decoded_size()', dstr.where)
    outp_ = q.param_by_index(dstr, 1)
    wr_ = q.writes_to(dstr, outp_)
    for k_, r_ in enumerate(succ):
        reach_ = dstr.reachable_blocks(cut_blocks=q.blocks_of(dstr, wr_))
        ctx.check(dstr.point_of(r_)[0] not in reach_, R4, 'decode(string):success#%d:output-replaced' % k_, 'decode reports success without storing the decoded text (the caller keeps whatever the output string held before)', dstr.loc(r_))
    estr = [f for f in P.by_bname.get('cppcms::b64url::encode', []) if len(f.params) == 1]
    if estr:
        f = estr[0]
        esz = [i for i in f.calls() if f.N(i).get('callee') == es.id]
        szv = [d['ref'] for i in f.all_nodes() if f.N(i)['k'] == 'DeclStmt' for d in f.N(i)['decls'] if d.get('init') is not None and esz and esz[0] in set(f.walk(d['init']))]
        vec = [i for i in f.calls() if f.N(i)['k'] in ('CXXConstructExpr',) and 'std::vector' in (f.callee(i) or '') and szv and szv[0] in f.subtree_refs(i)]
        ctx.check(bool(szv) and len(vec) == 1, R4, 'encode(string):buffer-sized-by-encoded_size', 'encode sizes its buffer differently from encoded_size()', f.where)

    # ---------------- R7 range drivers of the base64url codec
    encr = [f for f in P.by_bname.get('cppcms::b64url::encode', []) if len(f.params) == 3 and 'char *' in (f.types[f.params[2]['t']] or '')]
    decr = [f for f in P.by_bname.get('cppcms::b64url::decode', []) if len(f.params) == 3 and 'char *' in (f.types[f.params[2]['t']] or '')]
    ctx.require(len(encr) == 1 and len(decr) == 1, 'C15.R7: range overloads encode/decode(begin,end,target) not found')
    encr, decr = encr[0], decr[0]

    def run_range(fn_, blockfn, L, outlen, out_of):
        """interpret the driver over an input of L unknown bytes; the block codec is replaced by its verified summary (R4): it
        reads in[0..len) and writes out[0..out_of(len)); returns (end offset, block calls, times each output byte was written)"""
        events, written = [], [0] * outlen

        def block(it, fn, i, env):
            a = [it.rvalue(fn, x, env) for x in fn.args(i)]
            if not (isinstance(a[0], PV) and isinstance(a[1], PV) and isinstance(a[2], AV) and a[2].is_const()):
                raise absint.Unsupported('block codec call shape')
            n_ = a[2].lo
            if a[0].arr.name != 'src' or a[0].off < 0 or a[0].off + n_ > L:
                raise absint.OutOfBounds('block codec reads [%d,%d) of an input of %d bytes' % (a[0].off, a[0].off + n_, L))
            m_ = out_of(n_)
            if a[1].arr.name == 'dst':
                if a[1].off < 0 or a[1].off + m_ > outlen:
                    raise absint.OutOfBounds('block codec writes [%d,%d) of a buffer of %d bytes' % (a[1].off, a[1].off + m_, outlen))
                for k_ in range(m_):
                    written[a[1].off + k_] += 1
            events.append((a[0].off, a[1].off if a[1].arr.name == 'dst' else None, n_))
            return AV.const(m_)
        it = absint.Interp(P, [(0, 255)] * L, hooks={blockfn.bname: block, blockfn.id: block})
        src = Arr([it.inbyte(k_) for k_ in range(L)], 'src')
        dst = Arr([AV.const(0)] * outlen, 'dst')
        r = it.call_fn(fn_, [PV(src, 0), PV(src, L), PV(dst, 0)])
        return (r.off if isinstance(r, PV) and r.arr is dst else None), events, written
    bad = []
    nlen = 0
    for (fn_, blockfn, grp, out_of, size_of, nm_) in ((encr, benc, 3, lambda n_: n_ + 1, lambda L: 4 * (L // 3) + (0, 2, 3)[L % 3], 'encode'),
                                                    (decr, bdec, 4, lambda n_: n_ - 1, lambda L: 3 * (L // 4) + (0, 0, 1, 2)[L % 4], 'decode')):
        for L in range(0, 41):
            if nm_ == 'decode' and L % 4 == 1:
                continue                          # impossible length: rejected by decoded_size before the driver is called (R4)
            nlen += 1
            want = [(grp * k_, out_of(grp) * k_, grp) for k_ in range(L // grp)] + ([(grp * (L // grp), out_of(grp) * (L // grp), L % grp)] if L % grp else [])
            try:
                end_, ev, wr = run_range(fn_, blockfn, L, size_of(L), out_of)
            except (absint.OutOfBounds, absint.Unsupported, absint.Split) as e:
                bad.append((L, '%s of %d bytes into a buffer of %d: %s' % (nm_, L, size_of(L), e)))
                break
            if ev != want or end_ != size_of(L) or any(w != 1 for w in wr):
                bad.append((L, '%s of %d bytes: block calls (input offset, output offset, length) %s, expected %s; returned end offset %s of %d; output bytes written %s times' % (nm_, L, ev, want, end_, size_of(L), sorted(set(wr)))))
                break
    ctx.check(not bad, R7, 'encode/decode(range):lengths-0..40:blocks-offsets-and-exact-size', ('length %d: %s' % bad[0]) if bad else '', decr.where, detail={'driver_runs': nlen})
    # the stream variant: each block is encoded into a scratch array and exactly its characters are written, in order
    encs = [f for f in P.by_bname.get('cppcms::b64url::encode', []) if len(f.params) == 3 and 'ostream' in (f.types[f.params[2]['t']] or '')]
    ctx.check(len(encs) == 1, R7, 'encode(range,ostream):found', 'stream overload of encode not found', encr.where)
    for fs_ in encs:
        bad = []
        for L in range(0, 41):
            ev = []

            def block(it, fn, i, env, ev=ev, L=L):
                a = [it.rvalue(fn, x, env) for x in fn.args(i)]
                if not (isinstance(a[0], PV) and isinstance(a[1], PV) and isinstance(a[2], AV) and a[2].is_const()) or a[0].off < 0 or a[0].off + a[2].lo > L:
                    raise absint.OutOfBounds('block codec call outside the input')
                if a[1].off != 0 or len(a[1].arr.elems) < a[2].lo + 1:
                    raise absint.OutOfBounds('scratch array too small / not used from its start')
                ev.append(('enc', a[0].off, a[2].lo))
                return AV.const(a[2].lo + 1)

            def wr_(it, fn, i, env, ev=ev):
                a = [it.rvalue(fn, x, env) for x in fn.args(i)]
                if not (isinstance(a[0], PV) and isinstance(a[1], AV) and a[1].is_const()):
                    raise absint.Unsupported('ostream::write shape')
                ev.append(('write', a[0].off, a[1].lo))
                return AV.const(0)
            it = absint.Interp(P, [(0, 255)] * L, hooks={benc.bname: block, benc.id: block, 'std::basic_ostream::write': wr_})
            src = Arr([it.inbyte(k_) for k_ in range(L)], 'src')
            want = []
            for k_ in range(L // 3):
                want += [('enc', 3 * k_, 3), ('write', 0, 4)]
            if L % 3:
                want += [('enc', 3 * (L // 3), L % 3), ('write', 0, L % 3 + 1)]
            try:
                it.call_fn(fs_, [PV(src, 0), PV(src, L), absint.Out('stream')])
            except (absint.OutOfBounds, absint.Unsupported, absint.Split) as e:
                bad.append((L, str(e)))
                break
            if ev != want:
                bad.append((L, 'block calls / writes %s, expected %s' % (ev, want)))
                break
        ctx.check(not bad, R7, 'encode(range,ostream):lengths-0..40:each-block-encoded-and-written-once-in-order', ('length %d: %s' % bad[0]) if bad else '', fs_.where)
    # the string overloads pass the whole input and the start of the exactly sized buffer, and return exactly that buffer
    for f, callee_, szfn in ((dstr, decr, ds), (estr[0] if estr else None, encr, es)):
        if f is None:
            continue
        nm_ = 'decode(string)' if f is dstr else 'encode(string)'
        inp = q.param_by_index(f, 0)
        cs = [i for i in f.calls() if f.N(i).get('callee') == callee_.id]
        okc = len(cs) == 1
        if okc:
            a = f.args(cs[0])
            S7 = q.symb_with_locals(f)            # looks through single-definition locals and one-line expression helpers
            b_, e_ = S7.lin(a[0]), S7.lin(a[1])
            d_ = e_ - b_
            okc = b_.c == 0 and len(b_.t) == 1 and list(b_.t.values()) == [1] and list(b_.t)[0].startswith(inp) and list(b_.t)[0].endswith(('.c_str()', '.data()')) and \
                d_.c == 0 and len(d_.t) == 1 and list(d_.t.values()) == [1] and list(d_.t)[0].startswith(inp) and list(d_.t)[0].endswith(('.size()', '.length()'))
            # start of the buffer: &buf[0] (possibly through a cast / a local)
            def zero_index(node):
                idx = [j for j in q_walk_deep(f, node) if f.N(j)['k'] == 'CXXOperatorCallExpr' and f.N(j).get('op') == '[]']
                fr = [j for j in q.expr_calls_deep(f, node) if q.short_of(f.bcallee(j) or '') in ('front', 'data', 'begin')]
                return (len(idx) == 1 and f.const_value(f.N(idx[0])['ch'][2]) == 0) or (not idx and bool(fr))
            okc = okc and zero_index(a[2])
            asg_ = [i for i in f.calls() if q.short_of(f.bcallee(i) or '') == 'assign' and f.N(i)['k'] == 'CXXMemberCallExpr']
            okc = okc and len(asg_) == 1 and zero_index(f.args(asg_[0])[0]) and any(f.N(j).get('callee') == szfn.id for j in q.expr_calls_deep(f, f.args(asg_[0])[1])) and q.before(f, cs[0], asg_[0])
        # the empty result is handed out early only when the computed size is 0
        szc = [j for j in f.calls() if f.N(j).get('callee') == szfn.id]
        szv_ = [d['ref'] for i in f.all_nodes() if f.N(i)['k'] == 'DeclStmt' for d in f.N(i)['decls'] if d.get('init') is not None and szc and szc[0] in set(f.walk(d['init']))]
        g_z = f.gate_edges(lambda atom, pol, f=f, szv_=szv_: f.N(atom)['k'] == 'BinaryOperator' and f.N(atom).get('op') in ('==', '!=') and bool(szv_) and f.ref_of(f.N(atom)['ch'][0]) == szv_[0] and
                           f.const_value(f.N(atom)['ch'][1]) == 0 and ((f.N(atom)['op'] == '==' and pol is True) or (f.N(atom)['op'] == '!=' and pol is False)))
        if okc:
            neg_ = f.gate_edges(lambda atom, pol, f=f, szv_=szv_: f.N(atom)['k'] == 'BinaryOperator' and f.N(atom).get('op') == '<' and bool(szv_) and f.ref_of(f.N(atom)['ch'][0]) == szv_[0] and f.const_value(f.N(atom)['ch'][1]) == 0 and pol is True)
            # every way around the conversion leads over "the converted size is 0" (or "the length is impossible")
            from vlib import lin as _lin15
            S15 = _lin15.Symb(f)

            def not_positive(atom, pol, f=f, szv_=szv_, S15=S15):
                n_ = f.N(atom)
                if n_['k'] != 'BinaryOperator' or n_.get('op') not in ('<', '<=', '>', '>=', '==', '!=') or not szv_ or szv_[0] not in f.subtree_refs(atom):
                    return False
                cons = S15.rel(atom, pol)
                return bool(cons) and _lin15.implies(cons, _lin15.ge(_lin15.Lin.atom(szv_[0]).scale(-1)))
            g_np = f.gate_edges(not_positive)
            reach = f.reachable_blocks(cut_blocks=[f.point_of(cs[0])[0]], cut_edges=g_z + neg_ + g_np)
            ctx.check(bool(g_z + g_np) and f.exit not in reach, R7, '%s:conversion-skipped-only-for-size-0-or-invalid' % nm_, 'the conversion is skipped (empty result) for an input whose converted size is not 0', f.where)
        ctx.check(okc, R7, '%s:whole-input-into-the-start-of-the-buffer-and-back' % nm_, 'the string overload does not convert [c_str, c_str+size) into &buf[0] and hand back buf[0..size)', f.where)
    ctx.floor(R7, 3)

    # ---------------- R2 routing
    FB = 'cppcms::filters::'
    conv = [f for f in P.fns.values() if f.short == 'convert' and f.file.endswith('/src/filters.cpp')]
    want = {'escape_buf': 'cppcms::util::escape', 'urlencode_buf': 'cppcms::util::urlencode'}
    for f in sorted(conv, key=lambda g: g.id):
        rec = (f.record or '').rsplit('::', 1)[-1]
        if rec not in want:
            continue
        b, e, o = (q.param_by_index(f, k) for k in (0, 1, 2))
        calls = [i for i in f.calls() if f.bcallee(i) == want[rec]]
        other_out = [i for i in f.calls() if q.short_of(f.callee(i)) in ('sputn', 'sputc', 'write', 'put') ]
        ok = len(calls) == 1 and f.ref_of(f.args(calls[0])[0]) == b and f.ref_of(f.args(calls[0])[1]) == e and not other_out
        rets = [r for r in f.returns() if f.ret_value(r) is not None]
        ok = ok and all(calls[0] in set(f.walk(r)) or (f.const_value(f.ret_value(r)) or 0) < 0 for r in rets)
        ctx.check(ok, R2, 'filters::%s::convert:forwards-whole-range-to-%s' % (rec, want[rec].rsplit('::', 1)[-1]), 'stream filter writes input to the output on a path that bypasses %s' % want[rec], f.where)
    ctx.require(len([1 for f in conv if (f.record or '').rsplit('::', 1)[-1] in want]) == 2 or ctx.violations, 'C15.R2: escape_buf / urlencode_buf convert() not found')
    b64f = [f for f in P.fns.values() if f.file.endswith('/src/filters.cpp') and any(f.bcallee(i) == 'cppcms::b64url::encode' for i in f.calls())]
    ctx.check(len(b64f) >= 1, R2, 'filters::base64_urlencode:forwards-to-b64url::encode', 'base64 filter does not use b64url::encode', b64f[0].where if b64f else None)
    # form widgets: every operator<< whose operand is user-controlled text is wrapped
    SRC = ('value', 'message', 'help', 'error_message')
    FLD = ('::identification_', '::value_', '::id', '::str_option', '::tr_option', 'element::need_translation')
    form = [f for f in P.fns.values() if f.file.endswith('/src/form.cpp')]
    n_sites = 0
    for f in sorted(form, key=lambda g: g.id):
        for i in f.calls():
            n = f.N(i)
            if n['k'] != 'CXXOperatorCallExpr' or n.get('op') != '<<' or len(n['ch']) < 3:
                continue
            if 'basic_ostream' not in (f.type_of(f.N(f.strip(n['ch'][1]))) or '') and 'basic_ostream' not in (n.get('cn') or '') and 'basic_ostream' not in (f.type_of(n) or ''):
                continue
            arg = n['ch'][2]
            tainted = False
            for j in f.walk(arg):
                nn = f.N(j)
                if nn['k'] == 'CXXMemberCallExpr' and q.short_of(f.callee(j)) in SRC and (f.bcallee(j) or '').startswith('cppcms::'):
                    rt = f.type_of(nn) or ''
                    if 'basic_string' in rt or 'locale::basic_message' in rt or 'message' in rt:
                        tainted = True
                if nn['k'] == 'MemberExpr' and any(model.strip_targs(nn.get('ref', '')).endswith(x) for x in FLD[:5]) and 'basic_string' in (f.type_of(nn) or '') + 'locale':
                    if 'basic_string' in (f.type_of(nn) or '') or 'message' in (f.type_of(nn) or ''):
                        tainted = True
            if not tainted:
                continue
            n_sites += 1
            wrapped = any((f.bcallee(j) or '') in ('cppcms::util::escape', 'cppcms::filters::escape::escape', 'cppcms::util::urlencode') or (f.bcallee(j) or '').startswith('cppcms::filters::escape') for j in f.calls(arg))
            ctx.check(wrapped, R2, 'form:%s#%d:escaped' % (f.bname.replace('cppcms::widgets::', '').replace('cppcms::', ''), n_sites), 'user-controlled text written to the page without util::escape / filters::escape', f.loc(i))
    ctx.stats['form_output_sites'] = n_sites
    # header-only widgets (numeric<T>): instantiated in an analysis-only unit; the text the user submitted is echoed only escaped
    PW = model.Program(build.extract([VERIF + '/witness/c15_form.cpp'], include_re='^/repo/cppcms/form\\.h'))
    ctx.units.append('witness/c15_form.cpp')
    nw = 0
    for f in sorted([g for g in PW.fns.values() if 'widgets::numeric' in (g.record or '') and g.body is not None], key=lambda g: g.id):
        for i in f.calls():
            n = f.N(i)
            if n['k'] != 'CXXOperatorCallExpr' or n.get('op') != '<<' or len(n['ch']) < 3:
                continue
            arg = n['ch'][2]
            strs = [j for j in f.walk(arg) if f.N(j)['k'] == 'MemberExpr' and (f.N(j).get('ref') or '').startswith('f:') and 'basic_string' in (f.type_of(f.N(j)) or '')]
            if not strs:
                continue
            nw += 1
            wrapped = any((f.bcallee(j) or '') in ('cppcms::util::escape', 'cppcms::util::urlencode') or (f.bcallee(j) or '').startswith('cppcms::filters::escape') for j in f.calls(arg))
            ctx.check(wrapped, R2, 'form.h:%s:%s#%d:escaped' % ((f.record or '').rsplit('::', 1)[-1], f.short, nw), 'text the user submitted (kept in a string member) is written to the page without util::escape', f.loc(i))
    ctx.require(nw >= 2 or ctx.violations, 'C15.R2: numeric<T>::render_value echo of the submitted text not found (%d)' % nw)

    # ---------------- R5 sink failure is reported
    esb = [f for f in P.by_bname.get('cppcms::util::escape', []) if len(f.params) == 3 and 'basic_streambuf' in f.id]
    ctx.require(len(esb) == 1, 'C15.R5: util::escape(begin,end,streambuf&) not found')
    esb = esb[0]
    checked = {}

    def sink_params(f):
        return [p_['ref'] for p_ in f.params if 'basic_streambuf' in (f.types[p_['t']] or '')]

    def failure_discipline(f, label):
        """every write to the stream-buffer parameter of f - direct (sputn/sputc) or through a helper that takes the buffer and
        reports a status - decides whether f goes on: from the write no path reaches the next loop iteration or a success return
        except over the 'this write succeeded' edge.  Returns the number of write sites checked."""
        if f.id in checked:
            return checked[f.id]
        checked[f.id] = 0
        sinks = sink_params(f)
        isbool = (f.ret or '').replace('const ', '').strip() in ('bool', '_Bool')
        heads = set(f.point_of(f.N(L)['cond'])[0] for L in q.loops(f) if f.N(L).get('cond', -1) is not None and f.N(L).get('cond', -1) >= 0 and f.point_of(f.N(L)['cond']))
        ok_rets = [r for r in f.returns() if f.ret_value(r) is not None and f.const_value(f.ret_value(r)) is not None and (bool(f.const_value(f.ret_value(r))) if isbool else f.const_value(f.ret_value(r)) == 0)]
        sites = []
        for i in f.calls():
            n = f.N(i)
            if n['k'] == 'CXXMemberCallExpr' and q.short_of(f.callee(i)) in ('sputn', 'sputc') and f.ref_of(f.obj(i)) in sinks:
                sites.append((i, 'direct'))
            elif n['k'] == 'CallExpr' and n.get('callee') in P.fns and P.fns[n['callee']] is not f and any(f.ref_of(a_) in sinks for a_ in f.args(i)):
                g = P.fns[n['callee']]
                if sink_params(g) and g.file == f.file and failure_discipline(g, q.short_of(g.bname)) > 0:
                    sites.append((i, 'helper'))
        for k, (w, kind) in enumerate(sites):
            cmpn, succ_pol = None, None
            if kind == 'helper':
                g = P.fns[f.N(w)['callee']]
                gbool = (g.ret or '').replace('const ', '').strip() in ('bool', '_Bool')
                if gbool:
                    cmpn, succ_pol = w, True
            if cmpn is None:
                for a_ in f.ancestors(w):
                    n = f.N(a_)
                    if n['k'] == 'BinaryOperator' and n.get('op') in ('==', '!='):
                        other = [c for c in n['ch'] if w not in set(f.walk(c))]
                        cv = f.const_value(other[0]) if other else None
                        if cv is not None:
                            sh = q.short_of(f.callee(w))
                            if kind == 'helper':
                                succ_pol = (n['op'] == '==') if cv == 0 else None          # int status: 0 is success
                            elif sh == 'sputn':
                                want_n = f.const_value(f.args(w)[1])
                                succ_pol = (n['op'] == '==') if cv == want_n else None
                            else:
                                succ_pol = (n['op'] == '!=') if cv == -1 else None
                            cmpn = a_
                        break
                    if n['k'] in ('CompoundStmt', 'CaseStmt', 'DefaultStmt', 'SwitchStmt', 'WhileStmt', 'ForStmt'):
                        break
            okw = cmpn is not None and succ_pol is not None
            if okw:
                # (a) the verdict is what the function returns: `return write(...) == n;`
                rexp = [r for r in f.returns() if f.ret_value(r) is not None and cmpn in set(f.walk(f.ret_value(r)))]
                if rexp and isbool:
                    okw = all(any(a2 == cmpn and p2 is succ_pol for (a2, p2) in f.cond_facts(f.ret_value(r), True)) for r in rexp)
                else:
                    par = f.parent.get(cmpn)
                    flag = None
                    while par is not None and f.N(par)['k'] in ('ParenExpr', 'ImplicitCastExpr'):
                        par = f.parent.get(par)
                    if par is not None and f.N(par)['k'] == 'BinaryOperator' and f.N(par).get('op') == '=':
                        flag = f.ref_of(f.N(par)['ch'][0])
                    elif par is not None and f.N(par)['k'] == 'DeclStmt':
                        flag = [d['ref'] for d in f.N(par)['decls'] if d.get('init') is not None and cmpn in set(f.walk(d['init']))][0]
                    if flag is not None:
                        gate = f.gate_edges(lambda atom, pol: f.N(atom)['k'] == 'DeclRefExpr' and f.N(atom).get('ref') == flag and pol is succ_pol)
                    else:
                        gate = f.gate_edges(lambda atom, pol: atom == cmpn and pol is succ_pol)
                    pw = f.point_of(w)
                    reach = f.reachable_blocks(start=pw[0], cut_edges=[e for e in gate if len(e) == 4])
                    cont = [b_ for b_ in heads if b_ in reach and b_ != pw[0]] + [r for r in ok_rets if f.point_of(r)[0] in reach]
                    okw = bool(gate) and not cont
            ctx.check(okw, R5, '%s:write#%d:failure-reaches-the-status' % (label, k), 'the result of a stream-buffer write is not tested, or the function goes on / reports success after a failed write', f.loc(w))
        checked[f.id] = len(sites)
        return len(sites)
    nw = failure_discipline(esb, 'escape(streambuf)')
    ctx.check(nw >= 1 and sum(checked.values()) >= 2, R5, 'escape(streambuf):writes', 'no stream-buffer writes found', esb.where)
    eso = [f for f in P.by_bname.get('cppcms::util::escape', []) if len(f.params) == 3 and 'basic_ostream' in f.id]
    if eso:
        f = eso[0]
        cs = [i for i in f.calls() if f.N(i).get('callee') == esb.id]
        ss = [i for i in f.calls() if q.short_of(f.callee(i)) == 'setstate']
        g = f.gate_edges(lambda atom, pol: f.N(atom)['k'] == 'BinaryOperator' and f.N(atom).get('op') in ('!=', '==') and cs and cs[0] in set(f.walk(atom)) and f.const_value(f.N(atom)['ch'][1]) == 0 and pol is (f.N(atom)['op'] == '!='))
        okf = len(cs) == 1 and len(ss) == 1 and f.only_through(ss[0], g)
        if okf:
            g_ok = f.gate_edges(lambda atom, pol: f.N(atom)['k'] == 'BinaryOperator' and f.N(atom).get('op') in ('!=', '==') and cs[0] in set(f.walk(atom)) and pol is (f.N(atom)['op'] == '=='))
            reach = f.reachable_blocks(start=f.point_of(cs[0])[0], cut_edges=[e for e in g_ok if len(e) == 4], cut_blocks=q.blocks_of(f, ss))
            okf = f.exit not in reach
        ctx.check(okf, R5, 'escape(ostream):failbit-on-failure', 'the ostream overload does not turn a failed stream-buffer write into failbit', f.where)
    usb = [f for f in P.by_bname.get('cppcms::util::urlencode', []) if len(f.params) == 3 and 'basic_streambuf' in f.id]
    ctx.require(len(usb) == 1, 'C15.R5: util::urlencode(begin,end,streambuf&) not found')
    usb = usb[0]
    fl = [i for i in usb.calls() if q.short_of(usb.callee(i)) == 'failed']
    okq = len(fl) == 1
    why = 'urlencode(streambuf) never asks the output iterator whether a write failed'
    if okq:
        itv = usb.ref_of(usb.obj(fl[0]))
        # the iterator that is asked must be the one that wrote: handed to the encoder by reference, or re-assigned from its result
        wrote = False
        for i in usb.calls():
            if i == fl[0] or usb.N(i)['k'] not in ('CallExpr',):
                continue
            for j, a in enumerate(usb.args(i)):
                if usb.ref_of(a) == itv or itv in usb.subtree_refs(a):
                    ov = usb.N(i).get('ov') or []
                    byref = j < len(ov) and ov[j].strip().endswith('&') and not ov[j].strip().startswith('const ')
                    par = usb.parent.get(i)
                    while par is not None and usb.N(par)['k'] in ('ImplicitCastExpr', 'ExprWithCleanups', 'MaterializeTemporaryExpr', 'CXXBindTemporaryExpr', 'CXXConstructExpr'):
                        par = usb.parent.get(par)
                    assigned = par is not None and usb.N(par)['k'] in ('CXXOperatorCallExpr', 'BinaryOperator') and usb.N(par).get('op') == '=' and usb.ref_of(usb.N(par)['ch'][1 if usb.N(par)['k'] == 'CXXOperatorCallExpr' else 0]) == itv
                    wrote = wrote or byref or assigned
        okq = wrote
        why = 'urlencode(streambuf) tests failed() on its own iterator, but the encoder wrote through a by-value copy: a failing sink is never reported (always returns 0)'
        g_f = q.call_gate(usb, lambda i: i in fl, True)
        bad_rets = [r for r in usb.returns() if usb.ret_value(r) is not None and usb.const_value(usb.ret_value(r)) not in (0, None)]
        reports = bool(bad_rets) and all(usb.only_through(r, g_f) for r in bad_rets)
        for r in usb.returns():
            v = usb.ret_value(r)
            vn = usb.N(usb.strip(v)) if v is not None else None
            if vn is not None and vn['k'] == 'ConditionalOperator' and len(vn['ch']) == 3:
                c_, t_, e_ = vn['ch']
                facts_t = usb.cond_facts(c_, True)
                facts_f = usb.cond_facts(c_, False)
                if any(a in fl and p_ is True for (a, p_) in facts_t) and usb.const_value(t_) not in (0, None) and usb.const_value(e_) == 0:
                    reports = True
                if any(a in fl and p_ is True for (a, p_) in facts_f) and usb.const_value(e_) not in (0, None) and usb.const_value(t_) == 0:
                    reports = True
        okq = okq and reports
    ctx.check(okq, R5, 'urlencode(streambuf):failure-observed-on-the-writing-iterator', why, usb.where)

    # ---------------- R6 buffered filter: order of bytes
    fbs = {}
    for f in P.fns.values():
        if f.brecord == 'cppcms::util::filterbuf' and not (f.record or '').rstrip('> ').endswith(', 0'):
            fbs.setdefault(f.record, []).append(f)
    ctx.require(len(fbs) >= 2, 'C15.R6: buffered filterbuf instantiations not found in filters.cpp')
    for rec in sorted(fbs):
        short = rec.split('::')[-1].split(',')[0]
        convs = [(f, i) for f in fbs[rec] for i in f.calls() if q.short_of(f.bcallee(i) or f.callee(i) or '') == 'convert']
        ctx.check(bool(convs), R6, '%s:hands-bytes-to-the-filter' % short, 'no call of Filter::convert', fbs[rec][0].where)

        def is_flush(f, i):
            a = f.args(i)
            return len(a) >= 2 and any(q.short_of(f.bcallee(j) or '') == 'pbase' for j in f.calls(a[0])) and any(q.short_of(f.bcallee(j) or '') == 'pptr' for j in f.calls(a[1]))
        flushers = set(f.id for (f, i) in convs if is_flush(f, i))
        for k, (f, i) in enumerate(convs):
            if is_flush(f, i):
                ctx.check(True, R6, '%s:%s:convert#%d:put-area' % (short, f.short, k), '', f.loc(i))
                continue
            pre = [j for j in f.calls() if f.callee(j) in flushers or (f.callee(j) in [x.id for x in fbs[rec]] and any(g.callee(c) in flushers for g in fbs[rec] if g.id == f.callee(j) for c in g.calls()))]
            ok = any(q.before(f, j, i) for j in pre)
            ctx.check(ok, R6, '%s:%s:convert#%d:pending-bytes-flushed-first' % (short, f.short, k),
                      'caller bytes are handed to the filter while earlier bytes may still sit in the put area: output comes out of order', f.loc(i))
    # ---------------- R9 buffered filterbuf against the std::streambuf put-area protocol (E3; the base class calls are the model, Filter::convert a recorder)
    R9 = ctx.rule('C15.R9', 'filterbuf<Filter,N> under the std::streambuf protocol (E3: setp / pbase / pptr / epptr / pbump and ios::rdbuf / setstate modelled, Filter::convert replaced by a recorder, sputc driven by the '
                            'library contract): steal() installs the filter in the stream and remembers the original buffer, for every message length around the buffer size the byte ranges handed to convert are exactly '
                            'the bytes put, in order, each once, with the original buffer as sink; release() flushes the rest, restores the original buffer and forgets the stream; a failing convert makes overflow '
                            'return EOF, sets failbit and makes release report -1')
    from vlib.absint import AV as _AV, Arr as _Arr, PV as _PV, Cell as _Cell, Interp as _Interp, OutOfBounds as _OOB, Unsupported as _Uns
    _pending_broken = []
    for rec in sorted(fbs):
        short = rec.split('::')[-1].split(',')[0]
        fns_ = dict((g.short if g.kind == 'method' else g.kind, g) for g in fbs[rec] if not (g.kind == 'ctor' and g.params))
        need = ('ctor', 'steal', 'release', 'overflow')
        if not all(k_ in fns_ for k_ in need):
            # a member that is never called is not instantiated: the missing call is reported by R8 below; only if nothing is reported is this an analysis failure
            _pending_broken.append('C15.R9: %s lacks one of %s' % (rec, need))
            continue
        try:
            N_ = int(rec.rstrip('> ').rsplit(',', 1)[1])
        except ValueError:
            raise AnalysisBroken('C15.R9: buffer size of %s not readable' % rec)
        FLD = 'f:' + rec + '::'
        bad = []
        nruns = 0
        for M in sorted(set([0, 1, 2, N_ - 1, N_, N_ + 1, 2 * N_ - 1, 2 * N_, 2 * N_ + 1, 2 * N_ + 37])):
            for fail_at in (None, 0, 1):
                st = {'pbase': None, 'pptr': None, 'epptr': None, 'rdbuf': 'orig', 'fail': False, 'conv': [], 'log': []}
                ORIG, STREAM = _PV(_Arr([_AV.const(0)], 'original-streambuf'), 0), _PV(_Arr([_AV.const(0)], 'stream'), 0)

                def h_setp(it, fn_, i_, env_, st=st):
                    a_ = fn_.args(i_)
                    b_, e_ = it.rvalue(fn_, a_[0], env_), it.rvalue(fn_, a_[1], env_)
                    b_ = _PV(b_, 0) if isinstance(b_, _Arr) else b_
                    st['pbase'], st['pptr'], st['epptr'] = b_, b_, e_
                    return None

                def h_get(which):
                    return lambda it, fn_, i_, env_, st=st: st[which] if st[which] is not None else _AV.const(0)

                def h_pbump(it, fn_, i_, env_, st=st):
                    n_ = it.rvalue(fn_, fn_.args(i_)[0], env_)
                    st['pptr'] = _PV(st['pptr'].arr, st['pptr'].off + n_.lo)
                    return None

                def h_rdbuf(it, fn_, i_, env_, st=st, ORIG=ORIG):
                    a_ = fn_.args(i_)
                    if not a_:
                        return ORIG if st['rdbuf'] == 'orig' else _AV.const(1)
                    is_this = fn_.N(fn_.strip(a_[0]))['k'] == 'CXXThisExpr'
                    old_ = ORIG if st['rdbuf'] == 'orig' else _PV(_Arr([_AV.const(0)], 'filter'), 0)
                    if is_this:
                        st['rdbuf'] = 'filter'
                    else:
                        v_ = it.rvalue(fn_, a_[0], env_)
                        st['rdbuf'] = 'orig' if (isinstance(v_, _PV) and v_.arr is ORIG.arr) else 'other:%r' % (v_,)
                    st['log'].append('rdbuf->' + st['rdbuf'])
                    return old_

                def h_setstate(it, fn_, i_, env_, st=st):
                    st['fail'] = True
                    return None

                def h_convert(it, fn_, i_, env_, st=st, fail_at=fail_at, ORIG=ORIG):
                    a_ = fn_.args(i_)
                    b_, e_, o_ = it.rvalue(fn_, a_[0], env_), it.rvalue(fn_, a_[1], env_), it.rvalue(fn_, a_[2], env_)
                    if not (isinstance(b_, _PV) and isinstance(e_, _PV) and b_.arr is e_.arr and 0 <= b_.off <= e_.off <= len(b_.arr.elems)):
                        raise _OOB('Filter::convert is handed the range [%r,%r)' % (b_, e_))
                    k_ = len(st['conv'])
                    st['conv'].append(([x.lo & 0xFF if x.is_const() else None for x in b_.arr.elems[b_.off:e_.off]], isinstance(o_, _PV) and o_.arr is ORIG.arr))
                    return _AV.const(-1 if fail_at is not None and k_ >= fail_at else 0)
                SB, IOS = 'std::basic_streambuf<char>::', 'std::basic_ios<char>::'
                hooks = {SB + 'setp': h_setp, SB + 'pbase': h_get('pbase'), SB + 'pptr': h_get('pptr'), SB + 'epptr': h_get('epptr'), SB + 'pbump': h_pbump, IOS + 'rdbuf': h_rdbuf, IOS + 'setstate': h_setstate}
                for g in P.fns.values():
                    if g.short == 'convert' and (g.record or '').endswith(short):
                        hooks[model.strip_targs(g.bname)] = h_convert
                        hooks[g.bname] = h_convert
                it = _Interp(P, [], hooks=hooks, max_steps=2000000)
                it.fields = {FLD + 'buffer_': _Cell(_Arr([_AV.const(0xEE)] * N_, 'buffer_')), FLD + 'output_': _Cell(_AV.const(0x77)), FLD + 'output_stream_': _Cell(_AV.const(0x77))}
                # every byte value occurs; 0xFF (which a narrowing to char turns into EOF) and 0x00 sit where the put area overflows
                msg = [0xFF if (j % N_ == 0 and j and (j // N_) % 2 == 1) else (0x00 if (j % N_ == 0 and j) else (7 * j + 3) % 256) for j in range(M)]
                try:
                    it.call_fn(fns_['ctor'], [])
                    if st['pbase'] is None or st['epptr'] is None or st['epptr'].off - st['pbase'].off <= 0:
                        bad.append('the constructor does not set up a put area')
                        break
                    # the constructor initialises the two pointers to 0 through member initialisers, which E3 does not run: start from that state
                    it.fields[FLD + 'output_'].v, it.fields[FLD + 'output_stream_'].v = _AV.const(0), _AV.const(0)
                    it.call_fn(fns_['steal'], [_Cell(STREAM)])
                    if st['rdbuf'] != 'filter':
                        bad.append('steal() does not install the filter as the stream buffer')
                        break
                    eof_seen = False
                    for c_ in msg:
                        if st['pptr'].off < st['epptr'].off:
                            it.store(('elem', st['pptr']), _AV.const(c_))
                            st['pptr'] = _PV(st['pptr'].arr, st['pptr'].off + 1)
                        else:
                            rv = it.call_fn(fns_['overflow'], [_AV.const(c_)])
                            if isinstance(rv, _AV) and rv.is_const() and rv.lo == -1:
                                eof_seen = True
                                break
                    rel = it.call_fn(fns_['release'], [])
                    nruns += 1
                except _OOB as e_:
                    bad.append('%d bytes: %s' % (M, e_))
                    break
                sent = [x for rng, _ in st['conv'] for x in rng]
                sink_ok = all(s_ for _, s_ in st['conv'])
                osv, ov = it.fields[FLD + 'output_stream_'].v, it.fields[FLD + 'output_'].v
                if fail_at is None:
                    if sent != msg:
                        bad.append('%d bytes put: convert received %d bytes%s' % (M, len(sent), '' if len(sent) != len(msg) else ' in a different order / with other values'))
                    elif not sink_ok:
                        bad.append('%d bytes put: convert is not given the original stream buffer as sink' % M)
                    elif st['rdbuf'] != 'orig' or not (isinstance(osv, _AV) and osv.is_const() and osv.lo == 0):
                        bad.append('%d bytes put: release() does not restore the original buffer and forget the stream (%s)' % (M, st['rdbuf']))
                    elif not (isinstance(rel, _AV) and rel.is_const() and rel.lo == 0) or st['fail']:
                        bad.append('%d bytes put: release() reports %r / failbit %s without any failure' % (M, rel, st['fail']))
                else:
                    ncalls_needed = (M > N_) + (1 if fail_at == 1 and M > 2 * N_ else 0)
                    failed = len(st['conv']) > fail_at
                    if failed and not st['fail']:
                        bad.append('%d bytes put, convert fails at call %d: failbit is not set' % (M, fail_at))
                    elif failed and M > N_ * (fail_at + 1) and not eof_seen:
                        bad.append('%d bytes put, convert fails at call %d: overflow does not return EOF' % (M, fail_at))
                    elif failed and not eof_seen and not (isinstance(rel, _AV) and rel.is_const() and rel.lo == -1):
                        bad.append('%d bytes put, convert fails in release(): release() returns %r' % (M, rel))
                    elif st['rdbuf'] != 'orig':
                        bad.append('%d bytes put, convert fails: the original buffer is not restored' % M)
            if bad:
                break
        nb_ = q.narrowed_char_eof_tests(fns_['overflow'])
        ctx.check(not nb_, R9, '%s:overflow:EOF-tested-on-the-int' % short, 'the overflowing character is compared with EOF after narrowing to char: byte 0xFF is dropped', fns_['overflow'].loc(nb_[0]) if nb_ else fns_['overflow'].where)
        dr_ = q.overflow_drops_char(fns_['overflow'])
        ctx.check(not dr_, R9, '%s:overflow:takes-the-character' % short, 'overflow(c) can report success without having taken c (neither stored, put nor handed on, and c was not EOF): the byte that did not fit is lost', fns_['overflow'].loc(dr_[0]) if dr_ else fns_['overflow'].where)
        dt = [g for g in fbs[rec] if g.kind == 'dtor' and g.body is not None]
        ctx.check(bool(dt) and any(q.short_of(dt[0].callee(i) or '') == 'release' for i in dt[0].calls()), R9, '%s:destructor-releases' % short,
                  'the destructor does not release(): an exception while the value is rendered leaves the stream pointing at a destroyed buffer', dt[0].where if dt else fns_['overflow'].where)
        ctx.check(not bad, R9, '%s:put-area-protocol' % short, '; '.join(bad[:2]), fns_['overflow'].where, detail={'runs': nruns, 'buffer': N_})
    if not _pending_broken:
        ctx.floor(R9, 6)
    ctx.floor(R5, 7)
    ctx.floor(R6, 6)
    ctx.floor(R1, 4)
    ctx.floor(R2, 14)
    # ---------------- R8 template filters install their converting buffer around the rendering of the value
    R8 = ctx.rule('C15.R8', 'template filters escape / urlencode / base64_urlencode: operator()(out) diverts `out` into the converting buffer (constructed on, or steal()ing, that very stream) before the value is rendered, '
                            'renders the value into the same stream on every path, and (base64) releases the captured text and encodes exactly [begin(),end()) of it back into `out`')
    for (cls, bufrec) in (('escape', 'escape_buf'), ('urlencode', 'urlencode_buf'), ('base64_urlencode', 'steal_buffer')):
        f = P.fn(FB + cls + '::operator()', must=False)
        ctx.require(f is not None and f.body is not None and len(f.params) == 1, 'C15.R8: filters::%s::operator()(std::ostream&) not found' % cls)
        outp = q.param_by_index(f, 0)
        render = [i for i in f.calls() if (f.callee(i) or '').startswith('cppcms::filters::streamable::operator()') and [f.ref_of(x) for x in f.args(i)][-1:] == [outp]]
        bufs = [d for i in f.all_nodes() if f.N(i)['k'] == 'DeclStmt' for d in f.N(i)['decls'] if bufrec in (f.types[d['t']] or '')]
        ok = len(render) == 1 and len(bufs) == 1 and q.always_before_exit(f, render)
        why = 'the value is not rendered exactly once into `out` through one %s' % bufrec
        if ok:
            bv = bufs[0]['ref']
            divert = [i for i in f.calls() if q.short_of(f.callee(i) or '') == 'steal' and f.obj(i) is not None and f.ref_of(f.obj(i)) == bv and [f.ref_of(x) for x in f.args(i)] == [outp]]
            ctor = bufs[0].get('init')
            if ctor is not None and f.N(f.strip(ctor))['k'] == 'CXXConstructExpr' and [f.ref_of(x) for x in f.N(f.strip(ctor))['ch']] == [outp]:
                divert.append(f.strip(ctor))
            early = [i for i in f.calls() if q.short_of(f.callee(i) or '') == 'release' and f.obj(i) is not None and f.ref_of(f.obj(i)) == bv and not q.before(f, render[0], i)]
            ok = len(divert) >= 1 and all(q.before(f, d_, render[0]) for d_ in divert[:1]) and not early
            why = '`out` is not diverted into the buffer before the value is rendered (or the buffer is released before it)'
            if ok and cls == 'base64_urlencode':
                enc = [i for i in f.calls() if f.bcallee(i) == 'cppcms::b64url::encode']
                rel = [i for i in f.calls() if q.short_of(f.callee(i) or '') == 'release' and f.obj(i) is not None and f.ref_of(f.obj(i)) == bv]
                ok = len(enc) == 1 and len(rel) >= 1 and q.before(f, render[0], rel[0]) and q.before(f, rel[0], enc[0]) and q.always_before_exit(f, enc)
                why = 'the captured text is not released and then encoded into `out`'
                if ok:
                    a_ = f.args(enc[0])
                    src = lambda e, what: any(q.short_of(f.callee(j) or '') == what and f.obj(j) is not None and f.ref_of(f.obj(j)) == bv for j in q.expr_calls_deep(f, e))
                    ok = src(a_[0], 'begin') and not src(a_[0], 'end') and src(a_[1], 'end') and not src(a_[1], 'begin') and f.ref_of(a_[2]) == outp
                    why = 'b64url::encode is not given [begin(), end()) of the captured text and `out`'
        ctx.check(ok, R8, 'filters::%s::operator():diverts-then-renders' % cls, why, f.where)
    # filters are passed around by value: a copy renders the same value through the same functions
    ncp = 0
    for rec_ in ('cppcms::filters::streamable', 'cppcms::filters::escape', 'cppcms::filters::urlencode', 'cppcms::filters::base64_urlencode', 'cppcms::widgets::select_base::element'):
        flds_, cov_ = q.copy_coverage(P, rec_, skip=('d',))
        for g_, missing in sorted(cov_.items(), key=lambda kv: kv[0].id):
            ncp += 1
            ctx.check(not missing, R8, '%s::%s:copies-every-member' % (rec_.rsplit('::', 1)[-1], 'copy-constructor' if g_.kind == 'ctor' else 'operator='),
                      'the copy does not take %s from the source: a copied filter renders something else (or through another function) than the original' % [x.rsplit('::', 1)[-1] for x in missing], g_.where)
    ctx.require(ncp >= 6 or ctx.violations, 'C15.R8: copy operations of the filter classes not found (%d)' % ncp)
    ctx.floor(R8, 9)
    if _pending_broken and not ctx.violations:
        raise AnalysisBroken(_pending_broken[0])
    ctx.floor(R3, 4)
    ctx.floor(R4, 10)
    ctx.trust('entity table, RFC 3986 unreserved set and RFC 4648 section 5 alphabet embedded in rules/C15.py')


def _ref_b64(data):
    import base64
    return base64.urlsafe_b64encode(data).rstrip(b'=')
