"""C09 — concurrent cache use is race-free (lock discipline of mem_cache, both instantiations)."""
from vlib import build, model, q, lockset
from vlib.build import AnalysisBroken, REPO
from rules.C05 import load

MC = 'cppcms::impl::mem_cache'
AL = 'f:%s::access_lock' % MC
LM = 'f:%s::lru_mutex' % MC
X = frozenset([(AL, 'X')])
S = frozenset([(AL, 'S')])
SL = frozenset([(AL, 'S'), (LM, 'X')])
TABLE = {}
for fld in ('primary', 'triggers', 'timeout', 'size', 'triggers_count', 'generation', 'refs', 'limit'):
    TABLE['f:%s::%s' % (MC, fld)] = {'r': [S], 'w': [X]}
for fld in ('data', 'triggers', 'timeout', 'generation'):
    TABLE['f:%s::container::%s' % (MC, fld)] = {'r': [S], 'w': [X]}
TABLE['f:%s::lru' % MC] = {'r': [X, SL], 'w': [X, SL]}
TABLE['f:%s::container::lru' % MC] = {'r': [X, SL], 'w': [X, SL]}

# configuration-time functions (documented: called before the cache is shared)
ALLOW_ENTRY = {MC + '::set_size': 'configuration time only: called by the factory before the cache object is published'}


def analyse(ctx, P, R1, R2):
    fns = [f for f in P.fns.values() if f.brecord == MC]
    ctx.require(len(fns) >= 30, 'C09: mem_cache methods not found (%d)' % len(fns))
    insts = sorted(set(f.record for f in fns))
    ctx.require(len(insts) >= 2 or 'CPPCMS_NO_PREFOK_CACHE' in ctx.stats.get('defs', ''), 'C09: expected two instantiations of mem_cache, found %s' % insts)
    ctx.stats['instantiations'] = insts
    total = 0
    for inst in insts:
        group = [f for f in fns if f.record == inst]
        C = lockset.ClassLockCheck(group, TABLE)
        called = set(c for f in group if f.kind not in ('ctor', 'dtor') for (_, c, _) in C.calls[f.id])
        tag = inst.split('<')[-1].split('::')[-1].rstrip('>')
        for f in group:
            entry = f.id not in called
            for n, (i, bf, mode, held) in enumerate(C.accesses[f.id]):
                total += 1
                req = TABLE[bf][mode]
                ok = lockset.satisfied(req, held)
                key = '%s[%s]:%s:%s#%d' % (f.short, tag, bf.rsplit('::', 1)[-1] if '::container::' not in bf else 'container::' + bf.rsplit('::', 1)[-1], mode, n)
                if ok or not entry:
                    # internal helpers are checked at their call sites (requirement propagated below)
                    ctx.check(True, R1, key, loc=f.loc(i), detail={'held': sorted(held), 'via': 'local' if ok else 'callers'})
                elif f.kind in ('ctor', 'dtor'):
                    ctx.check(True, R1, key, loc=f.loc(i), detail={'exempt': 'object not yet / no longer shared'})
                elif f.bname in ALLOW_ENTRY:
                    ctx.check(True, R1, key, loc=f.loc(i), detail={'exempt': ALLOW_ENTRY[f.bname]})
                else:
                    ctx.check(False, R1, key, '%s of %s without the required lock (held: %s)' % ('write' if mode == 'w' else 'read', bf, sorted(held) or 'none'), f.loc(i))
            if entry and f.kind not in ('ctor', 'dtor') and f.bname not in ALLOW_ENTRY:
                seen = set()
                for (chain, bf, mode, req, _inner) in C.missing[f.id]:
                    if len(chain) == 1:
                        continue   # reported above
                    path = ' -> '.join(g.short for g, _ in chain)
                    key = '%s[%s]:call:%s:%s:%s' % (f.short, tag, path, bf.rsplit('::', 1)[-1], mode)
                    if key in seen:
                        continue
                    seen.add(key)
                    g, i = chain[-1]
                    ctx.check(False, R1, key, 'call chain %s reaches a %s of %s without the required lock' % (path, 'write' if mode == 'w' else 'read', bf), chain[0][0].loc(chain[0][1]))
        # every call of a lock-requiring helper is an obligation as well
        for f in group:
            for (i, callee, held) in C.calls[f.id]:
                needs = set()
                for (chain, bf, mode, req, inner) in C.missing[callee]:
                    needs.add((bf, mode, frozenset(inner)))
                if not needs:
                    continue
                okc = all(lockset.satisfied(TABLE[bf][mode], set(held) | inner) for bf, mode, inner in needs)
                g = C.byid[callee]
                ctx.check(okc or f.id in called or f.kind in ('ctor', 'dtor') or f.bname in ALLOW_ENTRY, R1,
                          '%s[%s]:calls:%s' % (f.short, tag, g.short), 'helper %s requires the exclusive lock' % g.short, f.loc(i),
                          detail={'held': sorted(held)})

        # R2: under the shared lock fetch writes only lru state and its out-parameters
        ft = [f for f in group if f.short == 'fetch']
        ctx.require(ft, 'C09.R2: mem_cache::fetch not found')
        for f in ft:
            for n, (i, bf, mode, held) in enumerate(C.accesses[f.id]):
                if mode == 'w':
                    is_lru = bf.endswith('::lru')
                    ctx.check(is_lru, R2, 'fetch[%s]:write:%s#%d' % (tag, bf.rsplit('::', 1)[-1], n), 'fetch mutates shared cache state other than the LRU list', f.loc(i))
                else:
                    ctx.check(True, R2, 'fetch[%s]:read:%s#%d' % (tag, bf.rsplit('::', 1)[-1], n), loc=f.loc(i))
            # helpers called by fetch must not need the exclusive lock
            for (i, callee, held) in C.calls[f.id]:
                bad = [(bf, m) for (ch, bf, m, req, _inner) in C.missing[callee] if m == 'w' and not bf.endswith('::lru')]
                ctx.check(not bad, R2, 'fetch[%s]:calls:%s' % (tag, C.byid[callee].short), 'fetch calls a helper that writes shared state', f.loc(i))
    return total


def escape(ctx, P, R4):
    fns = [f for f in P.fns.values() if f.brecord == MC and f.kind == 'method']
    n = 0
    for f in sorted(fns, key=lambda g: g.id):
        la = lockset.LockAnalysis(f)
        if not la.guard_vars:
            continue          # helpers that run inside their caller's critical section
        E = lockset.EscapeAnalysis(f, la, TABLE)
        tag = f.record.split('<')[-1].split('::')[-1].rstrip('>')
        for ref in sorted(E.tainted):
            n += 1
            bad = [b for b in E.bad if b[0] == ref]
            ctx.check(not bad, R4, '%s[%s]:%s' % (f.short, tag, ref.split('@')[0][2:]),
                      'iterator/reference into guarded state is used after the lock it was obtained under was released (check-then-act across a lock gap)',
                      f.loc(bad[0][1]) if bad else f.where)
    return n


def guard_table(ctx, P, R3):
    """the RAII guards really take the lock in the mode the table assumes and release it"""
    exp = {
        'cppcms::impl::mutex::guard': ('lock', 'unlock'),
        'cppcms::impl::shared_mutex::shared_guard': ('rdlock', 'unlock'),
        'cppcms::impl::shared_mutex::unique_guard': ('wrlock', 'unlock'),
        'booster::shared_lock': ('shared_lock', 'unlock'),
    }
    for rec, (acq, rel) in sorted(exp.items()):
        fs = [f for f in P.fns.values() if f.brecord == rec]
        ctors = [f for f in fs if f.kind == 'ctor']
        dtors = [f for f in fs if f.kind == 'dtor']
        if not ctors and rec.startswith('cppcms::impl::') and 'CPPCMS_NO_PREFOK_CACHE' in ctx.stats.get('defs', ''):
            continue
        ctx.require(ctors and dtors, 'C09.R3: guard class %s not found among analysed functions' % rec)
        for f in ctors:
            names = [q.short_of(f.callee(i)) for i in f.calls() if f.N(i)['k'] == 'CXXMemberCallExpr']
            ctx.check(names == [acq], R3, '%s:ctor-acquires-%s' % (rec, acq), 'guard constructor calls %s, expected exactly %s()' % (names, acq), f.where)
        for f in dtors:
            names = [q.short_of(f.callee(i)) for i in f.calls() if f.N(i)['k'] == 'CXXMemberCallExpr']
            ctx.check(names == [rel], R3, '%s:dtor-releases' % rec, 'guard destructor calls %s, expected exactly %s()' % (names, rel), f.where)
    # std::unique_lock<booster::shared_mutex> calls lock(): it must forward to the exclusive acquisition
    f = P.fn('booster::shared_mutex::lock')
    names = [q.short_of(f.callee(i)) for i in f.calls()]
    ctx.check(names == ['unique_lock'], R3, 'booster::shared_mutex::lock:forwards-to-unique_lock', 'lock() calls %s' % names, f.where)
    prim = {
        'booster::shared_mutex::unique_lock': ['pthread_rwlock_wrlock'], 'booster::shared_mutex::shared_lock': ['pthread_rwlock_rdlock'],
        'booster::shared_mutex::unlock': ['pthread_rwlock_unlock'],
        'cppcms::impl::mutex::lock': ['pthread_mutex_lock'], 'cppcms::impl::mutex::unlock': ['pthread_mutex_unlock'],
        'cppcms::impl::shared_mutex::wrlock': ['pthread_rwlock_wrlock'], 'cppcms::impl::shared_mutex::rdlock': ['pthread_rwlock_rdlock'],
        'cppcms::impl::shared_mutex::unlock': ['pthread_rwlock_unlock'],
    }
    for name, must in sorted(prim.items()):
        f = P.fn(name, must=False)
        if f is None:
            continue
        pt = [f.callee(i) for i in f.calls() if (f.callee(i) or '').startswith('pthread_')]
        ctx.check(pt == must, R3, '%s:primitive' % name, 'calls %s, expected %s' % (pt, must), f.where)
        # file-lock fallback must use the matching fcntl lock type
        want = {'wrlock': 'F_WRLCK', 'lock': 'F_WRLCK', 'unique_lock': 'F_WRLCK', 'rdlock': 'F_RDLCK', 'shared_lock': 'F_RDLCK', 'unlock': 'F_UNLCK'}[name.rsplit('::', 1)[-1]]
        WANT = {'F_RDLCK': 0, 'F_WRLCK': 1, 'F_UNLCK': 2}[want]
        lts = []
        for i in f.all_nodes():
            n = f.N(i)
            if n['k'] == 'BinaryOperator' and n.get('op') == '=' and (f.ref_of(n['ch'][0]) or '').endswith('flock::l_type'):
                lts.append(f.const_value(n['ch'][1]))
        if lts:
            ctx.check(all(v == WANT for v in lts), R3, '%s:fcntl-type' % name, 'fcntl lock type %s, expected %s(%d)' % (lts, want, WANT), f.where)


def run(ctx, extra_defs=()):
    ctx.level = 'proof'
    ctx.explanation = ('Lockset analysis (flow-sensitive must-hold sets over the clang CFG; RAII guards from construction to the implicit destructor '
                       'element; requirements of helper methods propagated to their callers to a fixpoint) of every access to guarded state in both '
                       'instantiations of mem_cache<Setup>, against a frozen guarded-by table. A discharged obligation means: on every path to that '
                       'access the required lock is held in the required mode, for every schedule. Linearizability is argued from this discipline '
                       '(DESIGN.md C09), not machine-checked.')
    ctx.stats['defs'] = ' '.join(extra_defs)
    P = load(ctx, ['src/cache_storage.cpp', 'booster/lib/thread/src/pthread.cpp'], include_re='^/repo/(src|private|cppcms|booster/booster/thread\\.h|booster/lib/thread)', extra_defs=extra_defs)
    R1 = ctx.rule('C09.R1', 'every access to guarded mem_cache state holds access_lock (writes exclusive; lru: exclusive or shared+lru_mutex)')
    R2 = ctx.rule('C09.R2', 'fetch (shared lock) writes nothing but LRU state')
    R3 = ctx.rule('C09.R3', 'RAII guards acquire in the assumed mode and release in the destructor; primitives map to the matching pthread call')
    R4 = ctx.rule('C09.R4', 'no iterator / reference into guarded state outlives the critical section it was obtained in')
    analyse(ctx, P, R1, R2)
    guard_table(ctx, P, R3)
    escape(ctx, P, R4)
    # ---------------- R5 the tree's own containers keep the promise the lockset relies on
    R5 = ctx.rule('C09.R5', 'read-only by name means read-only: every member of the cache\'s own hash map that the lockset analysis treats as a read (find, begin, end, size, ... and const members) writes none of the '
                            'container\'s fields and calls no member that does - fetch() runs find() under the shared lock')
    n5 = 0
    hm = [g for g in P.fns.values() if g.body is not None and ('impl::details::basic_map' in (g.record or '') or 'impl::hash_map' in (g.record or ''))]
    ctx.require(len(hm) >= 10, 'C09.R5: hash_map members not found (%d)' % len(hm))
    byid = dict((g.id, g) for g in hm)
    memo = {}

    def mutates(g, depth=0):
        """first node through which g (transitively over members of the same container) writes a field of the container; None if it does not"""
        if g.id in memo:
            return memo[g.id]
        memo[g.id] = None
        for i in g.all_nodes():
            n_ = g.N(i)
            tgt = None
            if n_['k'] in ('BinaryOperator', 'CompoundAssignOperator') and n_.get('op') in lockset.ASSIGN:
                tgt = n_['ch'][0]
            elif n_['k'] == 'UnaryOperator' and n_.get('op') in ('++', '--'):
                tgt = n_['ch'][0]
            elif n_['k'] == 'CXXOperatorCallExpr' and n_.get('op') in ('=', '+=', '++', '--'):
                tgt = n_['ch'][1]
            if tgt is not None and any(x.startswith('f:') and ('basic_map' in x or 'hash_map' in x) for x in g.subtree_refs(tgt)) and not any(x.startswith('v:') for x in [g.ref_of(tgt) or '']):
                memo[g.id] = g.loc(i)
                return memo[g.id]
            if n_['k'] == 'CXXMemberCallExpr':
                cal = n_.get('callee') or ''
                sh = q.short_of(g.callee(i) or '')
                o_ = g.obj(i)
                on_self = o_ is None or g.N(g.strip(o_))['k'] == 'CXXThisExpr' or any(x.startswith('f:') and ('basic_map' in x or 'hash_map' in x) for x in g.subtree_refs(o_))
                if not on_self:
                    continue
                h = byid.get(cal)
                if h is not None and depth < 4:
                    m_ = mutates(h, depth + 1)
                    if m_:
                        memo[g.id] = g.loc(i)
                        return memo[g.id]
                elif h is None and not cal.endswith(' const') and sh not in lockset.NONMUT and o_ is not None and g.N(g.strip(o_))['k'] != 'CXXThisExpr':
                    memo[g.id] = g.loc(i)      # a mutating member of a standard container field (resize, assign, clear, push_back ...)
                    return memo[g.id]
        return None
    for g in sorted(hm, key=lambda x: x.id):
        if g.kind in ('ctor', 'dtor') or not (g.short in lockset.NONMUT or g.id.endswith(' const')):
            continue
        n5 += 1
        at = mutates(g)
        ctx.check(at is None, R5, '%s::%s:does-not-write-the-container' % ((g.record or '').split('<')[0].rsplit('::', 1)[-1], g.short + (' const' if g.id.endswith(' const') else '')),
                  'a member the lockset treats as a read modifies the container: two readers under the shared lock race', at or g.where)
    ctx.require(n5 >= 3 or ctx.violations, 'C09.R5: no read-by-name members of the hash map found')
    ctx.floor(R5, 3)
    ctx.floor(R4, 8)
    ctx.floor(R1, 120)
    ctx.floor(R2, 10)
    ctx.floor(R3, 10)
    ctx.trust('guarded-by table and guard/lock API table in rules/C09.py and vlib/lockset.py')
    ctx.trust('pthread mutex / rwlock semantics')
    ctx.assume('mem_cache::set_size and the constructor run before the object is shared (documented configuration-time use)')
    if ctx.tier == 'thorough' and not extra_defs:
        pass
