"""C07 — the cache never returns invalidated, expired or superseded data (structural clauses)."""
from vlib import build, model, q
from vlib.build import AnalysisBroken, REPO, VERIF
from rules.C05 import load, REL_NOT_EXPIRED, SWAP

MC = 'cppcms::impl::mem_cache'


def insts(P, short):
    fs = [f for f in P.fns.values() if f.brecord == MC and f.short == short]
    if not fs:
        raise AnalysisBroken('anchor %s::%s not found' % (MC, short))
    return sorted(fs, key=lambda f: f.id)


def tag(f):
    return f.record.split('<')[-1].split('::')[-1].rstrip('>')


def run(ctx):
    ctx.explanation = ('Structural rules (pairing / domination on the CFG, who-may-call) over both instantiations of mem_cache and over cache_interface: '
                       'removal unlinks an entry from all four indexes, store replaces, the key is always one of its triggers, fetch is gated by the expiry test, '
                       'rise is two-phase, triggers propagate through cache_interface. Decides necessary code-shape conditions, not the history property itself.')
    P = load(ctx, ['src/cache_storage.cpp', 'src/cache_interface.cpp'])
    R1 = ctx.rule('C07.R1', 'delete_node unlinks from lru, timeout, every trigger list and primary on every path; primary.erase only there')
    R2 = ctx.rule('C07.R2', 'store: insert only after find/delete_node of the same key; the new entry is linked into lru, timeout and triggers')
    R3 = ctx.rule('C07.R3', 'store: the key itself always becomes a trigger of the entry; all supplied triggers are added')
    R9 = ctx.rule('C07.R9', 'what is stored is what is handed back: store puts the supplied value into the new entry; fetch copies out that entry\'s value, triggers, deadline and generation; add_trigger registers the entry in the trigger\'s list and the list position in the entry; rise and remove delete every entry they select; whole-container loops run begin..end')
    R4 = ctx.rule('C07.R4', 'fetch returns data only after find!=end and the not-expired comparison against time()')
    R5 = ctx.rule('C07.R5', 'rise deletes from a private copy of the trigger list (no deletion while iterating shared containers)')
    R6 = ctx.rule('C07.R6', 'cache_interface propagates triggers: fetched triggers re-added, key and triggers recorded on store, recorders notified')

    # ---------------- R1
    for f in insts(P, 'delete_node'):
        t = tag(f)
        p = q.param_by_index(f, 0)
        ev = {
            'lru.erase': [i for i in q.field_calls(f, 'mem_cache::lru', 'erase') if any(model.strip_targs(r).endswith('container::lru') for r in f.subtree_refs(i))],
            'timeout.erase': [i for i in q.field_calls(f, 'mem_cache::timeout', 'erase') if any(model.strip_targs(r).endswith('container::timeout') for r in f.subtree_refs(i))],
            'primary.erase': [i for i in q.field_calls(f, 'mem_cache::primary', 'erase') if p in f.subtree_refs(i)],
        }
        for name, evs in sorted(ev.items()):
            ctx.check(bool(evs) and q.always_before_exit(f, evs), R1, 'delete_node[%s]:%s-on-every-path' % (t, name),
                      'an entry can be removed without %s' % name, f.where)
        # trigger back references: a loop over p->second.triggers erasing each back reference
        lp = [L for L in q.loops(f) if any(model.strip_targs(r).endswith('container::triggers') for r in f.subtree_refs(f.N(L).get('cond', L)))]
        ctx.check(len(lp) == 1, R1, 'delete_node[%s]:loop-over-entry-triggers' % t, 'no loop over the entry\'s trigger back references', f.where)
        if lp:
            L = lp[0]
            body = f.N(L)['body']
            er = [i for i in f.calls(body) if q.short_of(f.callee(i)) == 'erase' and f.N(i)['k'] == 'CXXMemberCallExpr']
            ctx.check(len(er) >= 1 and q.always_before_exit(f, [L]), R1, 'delete_node[%s]:erase-back-reference' % t, 'trigger back reference not erased', f.loc(L))
            terase = q.field_calls(f, 'mem_cache::triggers', 'erase', body)
            ctx.check(len(terase) == 1, R1, 'delete_node[%s]:drop-empty-trigger-list' % t, 'emptied trigger list is not removed from the trigger index', f.loc(L))
            if terase:
                g = q.empty_gate(f)
                ctx.check(f.only_through(terase[0], g), R1, 'delete_node[%s]:trigger-list-erased-only-when-empty' % t, 'a non-empty trigger list may be dropped', f.loc(terase[0]))
            # break/continue/return inside would skip back references
            esc = [j for j in f.walk(body) if f.N(j)['k'] in ('BreakStmt', 'ReturnStmt', 'GotoStmt', 'ContinueStmt')]
            ctx.check(not esc, R1, 'delete_node[%s]:loop-complete' % t, 'the unlink loop can stop early', f.loc(esc[0]) if esc else f.loc(L))
        # nothing uses p after primary.erase(p)
        if ev['primary.erase']:
            e = ev['primary.erase'][0]
            later = [i for i in f.walk() if f.N(i).get('ref') == p and i not in set(f.walk(e)) and f.point_of(i) and q.reaches(f, e, i)]
            ctx.check(not later, R1, 'delete_node[%s]:primary.erase-last' % t, 'the iterator is used after primary.erase invalidated it', f.loc(later[0]) if later else f.loc(e))
    # who may erase / clear primary
    for f in [f for f in P.fns.values() if f.brecord == MC]:
        for i in q.field_calls(f, 'mem_cache::primary', ('erase', 'clear')):
            sh = q.short_of(f.callee(i))
            ok = (sh == 'erase' and f.short == 'delete_node') or (sh == 'clear' and f.short == 'nl_clear')
            ctx.check(ok, R1, '%s[%s]:primary.%s' % (f.short, tag(f), sh), 'primary.%s outside delete_node/nl_clear bypasses the unlinking' % sh, f.loc(i))
    for f in insts(P, 'nl_clear'):
        for fld in ('timeout', 'lru', 'primary', 'triggers'):
            c = q.field_calls(f, 'mem_cache::' + fld, 'clear')
            ctx.check(bool(c) and q.always_before_exit(f, c), R1, 'nl_clear[%s]:%s.clear' % (tag(f), fld), 'index %s survives a clear' % fld, f.where)

    # ---------------- R2 / R3
    for f in insts(P, 'store'):
        t = tag(f)
        key = q.param_by_index(f, 0)
        trig_in = q.param_by_index(f, 2)
        ins = q.field_calls(f, 'mem_cache::primary', 'insert')
        ctx.require(len(ins) == 1, 'C07.R2: expected exactly one primary.insert in store (%d)' % len(ins))
        ins = ins[0]
        finds = [i for i in q.field_calls(f, 'mem_cache::primary', 'find') if key in f.subtree_refs(i)]
        ctx.check(bool(finds) and all(q.before(f, finds[0], ins) for _ in [0]), R2, 'store[%s]:find-before-insert' % t, 'insert is not preceded by a lookup of the same key', f.loc(ins))
        dn = [i for i in f.calls() if q.short_of(f.callee(i)) == 'delete_node']
        g_absent = q.end_compare_gate(f, 'mem_cache::primary', True)
        reach = f.reachable_blocks(cut_edges=g_absent, cut_blocks=q.blocks_of(f, dn), with_catch=False)
        ctx.check(f.point_of(ins)[0] not in reach, R2, 'store[%s]:old-entry-deleted-before-insert' % t,
                  'a stale entry with the same key can survive the store', f.loc(ins))
        # the inserted key is the key parameter
        kvars = {key}
        for i in f.all_nodes():
            if f.N(i)['k'] == 'DeclStmt':
                for d in f.N(i)['decls']:
                    if d.get('init') is not None and key in f.subtree_refs(d['init']):
                        kvars.add(d['ref'])
        ctx.check(bool(f.subtree_refs(ins) & kvars), R2, 'store[%s]:insert-uses-key' % t, 'inserted under a different key', f.loc(ins))
        links = {
            'lru.push_front': q.field_calls(f, 'mem_cache::lru', ('push_front', 'push_back', 'insert')),
            'timeout.insert': q.field_calls(f, 'mem_cache::timeout', 'insert'),
        }
        for name, evs in sorted(links.items()):
            ctx.check(bool(evs) and q.always_after(f, ins, evs), R2, 'store[%s]:%s-after-insert' % (t, name), 'the new entry is not linked by %s on every path' % name, f.loc(ins))
        # the iterators stored in the entry come from those link operations
        for fld, src in (('container::lru', 'mem_cache::lru'), ('container::timeout', 'mem_cache::timeout')):
            w = q.field_writes(f, fld)
            ctx.check(bool(w) and all(any(model.strip_targs(r).endswith(src) for r in f.subtree_refs(i)) for i in w) and q.always_after(f, ins, w), R2,
                      'store[%s]:%s-set' % (t, fld), 'back pointer %s of the new entry is not set from %s' % (fld, src), f.loc(w[0]) if w else f.loc(ins))
        # timeout index is keyed by the supplied deadline
        tpar = q.param_by_index(f, 3)
        ti = links['timeout.insert']
        ctx.check(bool(ti) and tpar in f.subtree_refs(ti[0]), R2, 'store[%s]:timeout-keyed-by-deadline' % t, 'timeout index not keyed by the supplied deadline', f.loc(ti[0]) if ti else f.loc(ins))

        # R3
        at = [i for i in f.calls() if q.short_of(f.callee(i)) == 'add_trigger']
        at_key = [i for i in at if f.ref_of(f.args(i)[1]) == key]

        def pred(atom, pol):
            n = f.N(atom)
            if n.get('op') not in ('==', '!=') or n['k'] not in ('CXXOperatorCallExpr', 'BinaryOperator'):
                return False
            refs = f.subtree_refs(atom)
            hasfind = any(q.short_of(f.callee(j)) == 'find' and f.ref_of(f.obj(j)) == trig_in and key in f.subtree_refs(j) for j in f.calls(atom) if f.N(j)['k'] == 'CXXMemberCallExpr')
            hasend = any(q.short_of(f.callee(j)) == 'end' and f.ref_of(f.obj(j)) == trig_in for j in f.calls(atom) if f.N(j)['k'] == 'CXXMemberCallExpr')
            if not (hasfind and hasend):
                return False
            is_eq = pol if n['op'] == '==' else (not pol)
            return not is_eq    # key IS among the supplied triggers
        g_in = f.gate_edges(pred)
        cut = q.blocks_of(f, at_key) | f.abnormal_blocks()
        pi = f.point_of(ins)
        cut.discard(pi[0])
        reach = f.reachable_blocks(start=pi[0], cut_edges=g_in, cut_blocks=cut, with_catch=False)
        ctx.check(bool(at_key) and f.exit not in reach, R3, 'store[%s]:key-is-trigger' % t, 'an entry can be stored without its own key as trigger', f.loc(ins))
        # loop over all supplied triggers
        lps = []
        for L in q.loops(f):
            n = f.N(L)
            if n['k'] != 'ForStmt':
                continue
            refs_init = f.subtree_refs(n['init']) if n.get('init', -1) >= 0 else set()
            refs_cond = f.subtree_refs(n['cond']) if n.get('cond', -1) >= 0 else set()
            if trig_in in refs_init and trig_in in refs_cond:
                lps.append(L)
        ctx.check(len(lps) == 1, R3, 'store[%s]:loop-over-supplied-triggers' % t, 'no loop over the supplied trigger set', f.where)
        if lps:
            L = lps[0]
            n = f.N(L)
            body_at = [i for i in f.calls(n['body']) if q.short_of(f.callee(i)) == 'add_trigger']
            begin = any(q.short_of(f.callee(j)) == 'begin' for j in f.calls(n['init']))
            end = any(q.short_of(f.callee(j)) == 'end' for j in f.calls(n['cond']))
            esc = [j for j in f.walk(n['body']) if f.N(j)['k'] in ('BreakStmt', 'ReturnStmt', 'GotoStmt', 'ContinueStmt')]
            ctx.check(begin and end and len(body_at) == 1 and not esc and q.always_after(f, ins, [L]), R3, 'store[%s]:every-supplied-trigger-added' % t,
                      'not every supplied trigger is linked to the entry', f.loc(L))
    for f in insts(P, 'add_trigger'):
        t = tag(f)
        pp = q.param_by_index(f, 0)
        ti = q.field_calls(f, 'mem_cache::triggers', 'insert')
        pf = [i for i in f.calls() if q.short_of(f.callee(i)) in ('push_front', 'push_back') and pp in f.subtree_refs(i)]
        back = [i for i in f.calls() if q.short_of(f.callee(i)) == 'push_back' and any(model.strip_targs(r).endswith('container::triggers') for r in f.subtree_refs(i))]
        ctx.check(bool(ti) and bool(pf) and bool(back) and q.always_before_exit(f, ti) and q.always_before_exit(f, pf) and q.always_before_exit(f, back), R3,
                  'add_trigger[%s]:links-both-directions' % t, 'trigger -> entry and entry -> trigger links are not both made', f.where)

    # ---------------- R9 values and trigger registration
    def whole_loop(f, L, cont_match):
        """L iterates a container from begin() to end() with a != / < condition and no early leave"""
        n_ = f.N(L)
        if n_['k'] == 'CXXForRangeStmt':
            return not [j for j in f.walk(n_['body']) if f.N(j)['k'] in ('BreakStmt', 'ReturnStmt', 'GotoStmt')]
        if n_.get('cond', -1) in (None, -1):
            return False
        cn_ = f.N(f.strip(n_['cond']))
        op_ok = (cn_['k'] in ('CXXOperatorCallExpr', 'BinaryOperator') and cn_.get('op') in ('!=', '<')) or \
                (cn_['k'] == 'UnaryOperator' and cn_.get('op') == '!' and f.N(f.strip(cn_['ch'][0])).get('op') == '==')
        ends = [j for j in f.calls(n_['cond']) if q.short_of(f.bcallee(j) or '') == 'end' and cont_match(f, j)]
        iv = [r for r in f.subtree_refs(n_['cond']) if r.startswith('v:')]
        begins = [v_ for r in iv for (d_, v_) in f.defs_of_var(r) if v_ is not None and any(q.short_of(f.bcallee(j) or '') == 'begin' and cont_match(f, j) for j in f.calls(v_))]
        esc = [j for j in f.walk(n_['body']) if f.N(j)['k'] in ('BreakStmt', 'ReturnStmt', 'GotoStmt', 'ContinueStmt')]
        return op_ok and bool(ends) and bool(begins) and not esc

    def on_field(fld):
        return lambda f, j: f.obj(j) is not None and any(model.strip_targs(r).endswith(fld) for r in f.subtree_refs(f.obj(j)))

    def on_var(v):
        return lambda f, j: f.obj(j) is not None and f.ref_of(f.obj(j)) == v
    for f in insts(P, 'store'):
        t = tag(f)
        valp, trig_in, tin = q.param_by_index(f, 1), q.param_by_index(f, 2), q.param_by_index(f, 3)
        ins = q.field_calls(f, 'mem_cache::primary', 'insert')
        # the value parameter reaches container::data: a local that received to_int(a) (directly, or by swap with such a local) is swapped / assigned into data
        holders = set()
        for _ in range(3):
            for i in f.all_nodes():
                if f.N(i)['k'] == 'DeclStmt':
                    for d in f.N(i)['decls']:
                        if d.get('init') is not None and (valp in f.subtree_refs(d['init']) or holders & f.subtree_refs(d['init'])):
                            holders.add(d['ref'])
            for i in f.calls():
                if q.short_of(f.bcallee(i) or '') in ('swap', 'operator=', 'assign') and f.N(i)['k'] in ('CXXMemberCallExpr', 'CXXOperatorCallExpr'):
                    vs = set(r for r in f.subtree_refs(i) if r.startswith('v:'))
                    if vs & holders or valp in f.subtree_refs(i):
                        holders |= vs
        dsw = [i for i in f.calls() if q.short_of(f.bcallee(i) or '') in ('swap', 'operator=', 'assign') and any(model.strip_targs(r).endswith('container::data') for r in f.subtree_refs(i)) and
               ((set(r for r in f.subtree_refs(i) if r.startswith('v:')) & holders) or valp in f.subtree_refs(i))]
        ctx.check(len(dsw) == 1 and bool(ins) and q.always_after(f, ins[0], dsw), R9, 'store[%s]:value-put-into-the-new-entry' % t, 'the new entry does not receive the supplied value on every path after the insert', f.loc(ins[0]) if ins else f.where)
        # the iterator that is linked everywhere is the one primary.insert returned
        if ins:
            resv = [d['ref'] for i in f.all_nodes() if f.N(i)['k'] == 'DeclStmt' for d in f.N(i)['decls'] if d.get('init') is not None and ins[0] in set(f.walk(d['init']))]
            uses = []
            for i in f.calls():
                if q.reaches(f, ins[0], i) and (q.short_of(f.callee(i)) == 'add_trigger' or (q.field_calls(f, 'mem_cache::lru') and i in q.field_calls(f, 'mem_cache::lru', ('push_front', 'push_back'))) or i in q.field_calls(f, 'mem_cache::timeout', 'insert')):
                    uses += [(i, r) for r in f.subtree_refs(i) if r.startswith('v:') and (lambda ty: 'iterator' in ty and 'hash_map' in ty.split('iterator')[0] and not ty.startswith('std::'))(dict((d['ref'], f.types[d['t']] or '') for j in f.all_nodes() if f.N(j)['k'] == 'DeclStmt' for d in f.N(j)['decls']).get(r, '')) and r not in resv]
            oku = bool(uses) and bool(resv)
            def real_defs(r, at, depth=0):
                out = set()
                for d_ in f.reaching_defs(r, at):
                    if d_ != '<entry>' and f.N(d_)['k'] in ('CXXTemporaryObjectExpr', 'CXXConstructExpr') and 'std::pair' in (f.callee(d_) or '') and depth < 4:
                        out |= real_defs(r, d_, depth + 1)        # perfect-forwarding constructor: takes T& but does not modify
                    else:
                        out.add(d_)
                return out
            for (i, r) in uses:
                rds = real_defs(r, i)
                oku = oku and bool(rds) and all(d_ != '<entry>' and any(x in resv for x in f.subtree_refs(d_)) and any(model.strip_targs(y).endswith('pair::first') for y in f.subtree_refs(d_)) for d_ in rds)
            ctx.check(oku, R9, 'store[%s]:linked-entry-is-the-inserted-one' % t, 'lru / timeout / triggers are given an iterator that is not the result of primary.insert (the entry just deleted, or end())', f.loc(ins[0]))
        lps = [L for L in q.loops(f) if trig_in in f.subtree_refs(f.N(L).get('cond', L) if f.N(L).get('cond', -1) not in (None, -1) else L)]
        ctx.check(len(lps) == 1 and whole_loop(f, lps[0], on_var(trig_in)) and any(q.short_of(f.callee(i)) == 'add_trigger' for i in f.calls(f.N(lps[0])['body'])), R9,
                  'store[%s]:every-supplied-trigger-registered' % t, 'the loop over the supplied triggers does not run from begin() to end()', f.loc(lps[0]) if lps else f.where)
    for f in insts(P, 'add_trigger'):
        t = tag(f)
        pp_, kp_ = q.param_by_index(f, 0), q.param_by_index(f, 1)
        ins = q.field_calls(f, 'mem_cache::triggers', ('insert', 'emplace'))
        oka = len(ins) == 1 and kp_ in q.deep_refs(f, ins[0])
        itv = set()
        if oka:
            # iterators derived from the insert result (.first of the returned pair)
            res = [d['ref'] for i in f.all_nodes() if f.N(i)['k'] == 'DeclStmt' for d in f.N(i)['decls'] if d.get('init') is not None and ins[0] in set(f.walk(d['init']))]
            itv = set(res)
            for i in f.all_nodes():
                if f.N(i)['k'] == 'DeclStmt':
                    for d in f.N(i)['decls']:
                        if d.get('init') is not None and set(res) & f.subtree_refs(d['init']) and any(model.strip_targs(r).endswith('pair::first') for r in f.subtree_refs(d['init'])):
                            itv.add(d['ref'])
        reg = [i for i in f.calls() if q.short_of(f.bcallee(i) or '') in ('push_front', 'push_back') and f.args(i) and f.ref_of(f.args(i)[0]) == pp_ and (itv & f.subtree_refs(i))]
        back = [i for i in f.calls() if q.short_of(f.bcallee(i) or '') in ('push_front', 'push_back') and any(model.strip_targs(r).endswith('container::triggers') for r in f.subtree_refs(f.obj(i)) if f.obj(i) is not None) and
                pp_ in f.subtree_refs(f.obj(i)) and (itv & f.subtree_refs(i))]
        oka = oka and len(reg) == 1 and len(back) == 1 and q.always_before_exit(f, reg) and q.always_before_exit(f, back) and q.before(f, reg[0], back[0])
        if oka:
            # the recorded position is that of the element just pushed: begin() after push_front, --end() / last after push_back
            where_ = [q.short_of(f.bcallee(j) or '') for j in f.calls(back[0]) if j != back[0]]
            front = q.short_of(f.bcallee(reg[0]) or '') == 'push_front'
            oka = ('begin' in where_) if front else ('end' in where_ or 'rbegin' in where_)
        ctx.check(oka, R9, 'add_trigger[%s]:entry-in-trigger-list-and-position-in-entry' % t, 'the entry is not put into the list of the trigger named by the key, or the position recorded in the entry is not that of the new list element', f.where)
    for f in insts(P, 'fetch'):
        t = tag(f)
        keyp = q.param_by_index(f, 0)
        fnd = [i for i in q.field_calls(f, 'mem_cache::primary', 'find') if keyp in f.subtree_refs(i)]
        pv_ = None
        for (d_, v_) in [(d_, v_) for r_ in set(x for x in f.subtree_refs(f.body) if x.startswith('v:')) for (d_, v_) in f.defs_of_var(r_)]:
            if v_ is not None and fnd and fnd[0] in set(f.walk(v_)):
                pv_ = f.ref_of(f.N(d_)['ch'][1 if f.N(d_)['k'] == 'CXXOperatorCallExpr' else 0]) if f.N(d_)['k'] != 'DeclStmt' else [dd['ref'] for dd in f.N(d_)['decls'] if dd.get('init') is not None and fnd[0] in set(f.walk(dd['init']))][0]
        ctx.check(pv_ is not None, R9, 'fetch[%s]:looks-up-the-key' % t, 'no primary.find(key) kept in an iterator', f.where)
        if pv_ is None:
            continue
        for pi, fld, nm_ in ((1, 'container::data', 'value'), (3, 'container::timeout', 'deadline'), (4, 'container::generation', 'generation')):
            op_ = q.param_by_index(f, pi)
            ws = [w for w in q.writes_to(f, op_) if f.N(w)['k'] in ('BinaryOperator', 'CXXOperatorCallExpr') and f.N(w).get('op') == '=']
            okv = len(ws) == 1 and pv_ in q.deep_refs(f, f.N(ws[0])['ch'][-1]) and any(model.strip_targs(r).endswith(fld) for r in f.subtree_refs(f.N(ws[0])['ch'][-1]))
            if okv:
                g_nn = f.gate_edges(lambda atom, pol, f=f, op_=op_: f.ref_of(atom) == op_ and pol is True)
                succ_ = q.nonfalse_returns(f)
                # a success return with a non-null out pointer has passed the assignment
                reach = f.reachable_blocks(cut_blocks=q.blocks_of(f, ws), cut_edges=[e_ for e_ in f.gate_edges(lambda atom, pol, f=f, op_=op_: f.ref_of(atom) == op_ and pol is False)])
                okv = bool(succ_) and all(f.point_of(r_)[0] not in reach for r_ in succ_)
            ctx.check(okv, R9, 'fetch[%s]:%s-copied-out' % (t, nm_), 'a hit does not hand out the %s of the entry found' % nm_, f.where)
        tp_ = q.param_by_index(f, 2)
        lps = [L for L in q.loops(f) if any(model.strip_targs(r).endswith('container::triggers') for r in f.subtree_refs(f.N(L).get('cond', L) if f.N(L).get('cond', -1) not in (None, -1) else L))]
        okt = len(lps) == 1 and whole_loop(f, lps[0], on_field('container::triggers'))
        if okt:
            insx = [i for i in f.calls(f.N(lps[0])['body']) if q.short_of(f.bcallee(i) or '') == 'insert' and f.obj(i) is not None and f.ref_of(f.obj(i)) == tp_]
            okt = len(insx) == 1 and pv_ in q.deep_refs(f, f.N(lps[0]).get('init', lps[0]) if f.N(lps[0]).get('init', -1) not in (None, -1) else lps[0])
        if okt:
            g_req = f.gate_edges(lambda atom, pol, f=f, tp_=tp_: f.ref_of(atom) == tp_ and pol is True)
            g_not = f.gate_edges(lambda atom, pol, f=f, tp_=tp_: f.ref_of(atom) == tp_ and pol is False)
            lb = f.point_of(f.N(lps[0])['cond'])[0]
            reach = f.reachable_blocks(cut_blocks=[lb], cut_edges=g_not)
            okt = bool(g_req) and f.only_through(f.N(lps[0])['cond'], g_req) and all(f.point_of(r_)[0] not in reach for r_ in q.nonfalse_returns(f))
        ctx.check(okt, R9, 'fetch[%s]:all-triggers-of-the-entry-copied-out' % t, 'the trigger names of the entry found are not all handed out', f.where)
    for f in insts(P, 'rise'):
        t = tag(f)
        trp = q.param_by_index(f, 0)
        fnd = [i for i in q.field_calls(f, 'mem_cache::triggers', 'find') if trp in f.subtree_refs(i)]
        dn = [i for i in f.calls() if q.short_of(f.callee(i)) == 'delete_node']
        lps = q.loops(f)
        kl = [d['ref'] for i in f.all_nodes() if f.N(i)['k'] == 'DeclStmt' for d in f.N(i)['decls'] if (f.types[d['t']] or '').startswith(('std::list<', 'std::vector<'))]
        okr = len(fnd) == 1 and len(dn) == 1 and len(lps) in (1, 2) and len(kl) == 1
        kill_l = None
        if okr:
            kill_l = [L for L in lps if f.contains(L, dn[0])]
            okr = len(kill_l) == 1
        if okr:
            kill_l = kill_l[0]
            sec = lambda f_, j: f_.obj(j) is not None and any(model.strip_targs(r).endswith('pair::second') for r in f_.subtree_refs(f_.obj(j)))
            copy_ls = [L for L in lps if L != kill_l]
            if copy_ls:
                copy_l = copy_ls[0]
                copied = whole_loop(f, copy_l, sec) and any(q.short_of(f.bcallee(i) or '') in ('push_back', 'push_front', 'insert') and f.obj(i) is not None and f.ref_of(f.obj(i)) == kl[0] for i in f.calls(f.N(copy_l)['body'])) and \
                    q.before(f, f.N(copy_l)['cond'], f.N(kill_l)['cond'])
            else:
                # range / copy construction of the private list from the whole trigger list
                ctor = [v_ for (d_, v_) in f.defs_of_var(kl[0]) if v_ is not None]
                copied = len(ctor) == 1 and ((any(q.short_of(f.bcallee(j) or '') == 'begin' and sec(f, j) for j in f.calls(ctor[0])) and any(q.short_of(f.bcallee(j) or '') == 'end' and sec(f, j) for j in f.calls(ctor[0]))) or
                                             (len(f.args(f.strip(ctor[0]))) == 1 and any(model.strip_targs(r).endswith('pair::second') for r in f.subtree_refs(ctor[0]))))
            okr = copied and whole_loop(f, kill_l, on_var(kl[0]))
        if okr:
            g_abs_t = q.end_compare_gate(f, 'mem_cache::triggers', True)
            reach = f.reachable_blocks(cut_blocks=[f.point_of(f.N(kill_l)['cond'])[0]], cut_edges=g_abs_t)
            okr = bool(g_abs_t) and f.exit not in reach
        ctx.check(okr, R9, 'rise[%s]:every-entry-of-the-trigger-deleted' % t, 'not every entry registered under the trigger is deleted', f.where)
    for f in insts(P, 'remove'):
        t = tag(f)
        keyp = q.param_by_index(f, 0)
        fnd = [i for i in q.field_calls(f, 'mem_cache::primary', 'find') if keyp in f.subtree_refs(i)]
        dn = [i for i in f.calls() if q.short_of(f.callee(i)) == 'delete_node']
        g_abs = q.end_compare_gate(f, 'mem_cache::primary', True)
        okm = len(fnd) == 1 and len(dn) == 1 and q.before(f, fnd[0], dn[0])
        if okm:
            reach = f.reachable_blocks(cut_blocks=q.blocks_of(f, dn), cut_edges=g_abs)
            okm = f.exit not in reach
        ctx.check(okm, R9, 'remove[%s]:found-entry-deleted' % t, 'remove() can return without deleting an entry that was found', f.where)
    ctx.floor(R9, 10)

    # ---------------- R4
    for f in insts(P, 'fetch'):
        t = tag(f)
        key = q.param_by_index(f, 0)
        g_found = q.end_compare_gate(f, 'mem_cache::primary', False)
        nowvars = set()
        for i in f.calls():
            if f.callee(i) == 'time':
                for a in f.args(i):
                    nowvars |= set(r for r in f.subtree_refs(a) if r.startswith('v:'))
        for i in f.all_nodes():
            if f.N(i)['k'] == 'DeclStmt':
                for d in f.N(i)['decls']:
                    if d.get('init') is not None and any(f.callee(j) == 'time' for j in f.calls(d['init'])):
                        nowvars.add(d['ref'])

        def epred(atom, pol):
            n = f.N(atom)
            if n['k'] != 'BinaryOperator' or n.get('op') not in SWAP:
                return False
            l, r = n['ch']
            isnow = lambda x: bool(f.subtree_refs(x) & nowvars) or any(f.callee(j) == 'time' for j in f.calls(x))
            isdl = lambda x: any(model.strip_targs(rr).endswith('container::timeout') for rr in f.subtree_refs(x))
            op = n['op']
            if isnow(l) and isdl(r):
                op = SWAP[op]
            elif not (isdl(l) and isnow(r)):
                return False
            return (op, pol) in REL_NOT_EXPIRED
        g_fresh = f.gate_edges(epred)
        outs = [q.param_by_index(f, k) for k in (1, 2, 3, 4)]
        sites = [('return-true', r) for r in q.nonfalse_returns(f)]
        for o in outs:
            sites += [('out:' + o.split('@')[0][2:], i) for i in q.writes_to(f, o)]
        ctx.require(len(sites) >= 5, 'C07.R4: fetch output sites not found')
        for kind, i in sites:
            ctx.check(f.only_through(i, g_found), R4, 'fetch[%s]:%s:after-found' % (t, kind), 'reachable without find(key)!=end()', f.loc(i))
            ctx.check(f.only_through(i, g_fresh), R4, 'fetch[%s]:%s:after-expiry-test' % (t, kind), 'reachable without the deadline-vs-now test', f.loc(i))
        fd = [i for i in q.field_calls(f, 'mem_cache::primary', 'find') if key in f.subtree_refs(i)]
        ctx.check(len(fd) >= 1, R4, 'fetch[%s]:find-by-key' % t, 'lookup does not use the requested key', f.where)

    # ---------------- R5
    for f in insts(P, 'rise'):
        t = tag(f)
        tainted = set()
        changed = True
        guarded = lambda r: r.startswith('f:') and model.strip_targs(r).startswith('f:' + MC + '::')
        # a container declared by value owns its elements: initialising it from a range of the shared list makes a copy
        OWNING = ('std::list<', 'std::vector<', 'std::deque<', 'std::set<', 'std::__cxx11::list<')
        copies = {}
        for i in f.all_nodes():
            n = f.N(i)
            if n['k'] == 'DeclStmt':
                for d in n['decls']:
                    ty = (f.types[d['t']] if d.get('t') is not None else '') or ''
                    if d.get('init') is not None and not d.get('isref') and ty.startswith(OWNING) and not ty.endswith('iterator'):
                        copies[d['ref']] = d['init']
        while changed:
            changed = False
            for i in f.all_nodes():
                n = f.N(i)
                if n['k'] == 'DeclStmt':
                    for d in n['decls']:
                        if d['ref'] in copies:
                            continue
                        if d.get('init') is not None and d['ref'] not in tainted:
                            refs = f.subtree_refs(d['init'])
                            if any(guarded(r) for r in refs) or refs & tainted:
                                # a by-value copy of an element (push_back(*it)) is not a reference into the container
                                tainted.add(d['ref'])
                                changed = True
            for ref in list(f._defs.keys()) if hasattr(f, '_defs') else []:
                pass
            f.defs_of_var('')
            for ref, defs in f._defs.items():
                if ref in tainted or not ref.startswith('v:') or ref in copies:
                    continue
                for (_, v) in defs:
                    if v is not None:
                        refs = f.subtree_refs(v)
                        if any(guarded(r) for r in refs) or refs & tainted:
                            tainted.add(ref)
                            changed = True
        dn = [i for i in f.calls() if q.short_of(f.callee(i)) == 'delete_node']
        ctx.check(len(dn) >= 1, R5, 'rise[%s]:deletes' % t, 'rise never deletes the dependants', f.where)
        for k, i in enumerate(dn):
            bad = None
            for L in q.enclosing_loops(f, i):
                n = f.N(L)
                refs = set()
                for part in ('init', 'cond', 'inc', 'range'):
                    if n.get(part, -1) is not None and n.get(part, -1) >= 0:
                        refs |= f.subtree_refs(n[part])
                if any(guarded(r) for r in refs) or refs & tainted:
                    bad = L
            ctx.check(bad is None, R5, 'rise[%s]:delete_node#%d:not-while-iterating-shared-list' % (t, k),
                      'delete_node invalidates the trigger list being iterated', f.loc(i))
        # the copy loop covers the whole trigger list
        cp = [L for L in q.loops(f) if f.N(L)['k'] == 'ForStmt' and (f.subtree_refs(f.N(L)['cond']) & tainted) and not [i for i in dn if f.contains(L, i)]]
        ok = False
        for L in cp:
            n = f.N(L)
            ok = ok or (any(q.short_of(f.callee(j)) == 'begin' for j in f.calls(n['init'])) and any(q.short_of(f.callee(j)) == 'end' for j in f.calls(n['cond']))
                        and any(q.short_of(f.callee(j)) in ('push_back', 'push_front', 'insert') for j in f.calls(n['body']))
                        and not [j for j in f.walk(n['body']) if f.N(j)['k'] in ('BreakStmt', 'ReturnStmt', 'ContinueStmt', 'GotoStmt')])
        for ref, init in copies.items():
            cs = [j for j in f.calls(init) if f.N(j)['k'] == 'CXXMemberCallExpr']
            b = [j for j in cs if q.short_of(f.callee(j)) == 'begin' and (f.subtree_refs(j) & tainted)]
            e = [j for j in cs if q.short_of(f.callee(j)) == 'end' and (f.subtree_refs(j) & tainted)]
            whole = f.N(f.strip(init))['k'] == 'CXXConstructExpr' and len(f.N(f.strip(init))['ch']) == 1 and (f.subtree_refs(init) & tainted)   # copy construction
            used = any(ref in f.subtree_refs(f.N(L)[part]) for i in dn for L in q.enclosing_loops(f, i) for part in ('init', 'cond') if f.N(L).get(part, -1) is not None and f.N(L).get(part, -1) >= 0)
            if used and ((len(b) == 1 and len(e) == 1 and len(cs) == 2 and f.access_path(f.obj(b[0])) == f.access_path(f.obj(e[0]))) or (whole and not cs)):
                ok = True
        ctx.check(ok, R5, 'rise[%s]:copies-whole-list' % t, 'the kill list is not a full copy of the trigger list', f.where)
        # lookup uses the trigger argument
        trg = q.param_by_index(f, 0)
        fd = [i for i in q.field_calls(f, 'mem_cache::triggers', 'find') if trg in f.subtree_refs(i)]
        ctx.check(len(fd) == 1, R5, 'rise[%s]:find-by-trigger' % t, 'trigger lookup does not use the argument', f.where)

    # ---------------- R6  cache_interface
    CI = 'cppcms::cache_interface::'
    fe = P.fn(CI + 'fetch')
    bf = [i for i in fe.calls() if fe.bcallee(i) == 'cppcms::impl::base_cache::fetch']
    ctx.require(len(bf) == 1, 'C07.R6: cache_interface::fetch does not call base_cache::fetch exactly once')
    a = fe.args(bf[0])
    # the local trigger set handed to the backend (possibly through a pointer local: `p = notriggers ? 0 : &new_trig`)
    newtrig = [r for r in q.deep_refs(fe, a[2]) if r.startswith('v:') and 'std::set' in (next((fe.types[d['t']] for i_ in fe.all_nodes() if fe.N(i_)['k'] == 'DeclStmt' for d in fe.N(i_)['decls'] if d['ref'] == r), '') or '') and
               '*' not in (next((fe.types[d['t']] for i_ in fe.all_nodes() if fe.N(i_)['k'] == 'DeclStmt' for d in fe.N(i_)['decls'] if d['ref'] == r), '') or '')]
    ctx.check(len(newtrig) == 1, R6, 'fetch:trigger-out-param', 'no local trigger set handed to the backend fetch', fe.loc(bf[0]))
    if newtrig:
        nt = newtrig[0]
        lp = [L for L in q.loops(fe) if fe.N(L)['k'] in ('ForStmt', 'WhileStmt', 'CXXForRangeStmt') and nt in fe.subtree_refs(L)]
        ok = False
        for L in lp:
            b = fe.N(L)['body']
            ok = ok or bool([i for i in fe.calls(b) if fe.bcallee(i) == CI + 'add_trigger'])
        ctx.check(ok, R6, 'fetch:fetched-triggers-re-added', 'triggers of a fetched object are not propagated to the current page', fe.where)
        notr = q.param_by_index(fe, 2)
        if lp:
            # on the success path with notriggers==false the loop is reached
            g_ok = q.call_gate(fe, lambda i: fe.bcallee(i) == 'cppcms::impl::base_cache::fetch', True)
            succ = q.nonfalse_returns(fe)
            ctx.check(all(fe.only_through(r, g_ok) for r in succ) and bool(succ), R6, 'fetch:success-only-on-backend-hit', 'fetch reports success without a backend hit', fe.where)

            def npred(atom, pol):
                return fe.ref_of(atom) == notr and pol is True
            g_no = fe.gate_edges(npred)
            reach = fe.reachable_blocks(start=None, cut_edges=g_no, cut_blocks=q.blocks_of(fe, lp) | set([b for (b, s, l) in []]), with_catch=False)
            ok2 = all(fe.point_of(r)[0] not in reach for r in succ)
            ctx.check(ok2, R6, 'fetch:propagation-unless-notriggers', 'a hit can be returned without propagating its triggers although notriggers is false', fe.where)
    # "notriggers" is the caller's decision: neither function may switch it on by itself (a frame whose key already is a page trigger still has triggers of its own to hand on)
    for f_ in (fe, P.fn(CI + 'store')):
        np_ = [p_['ref'] for p_ in f_.params if p_.get('name') == 'notriggers']
        ctx.check(len(np_) == 1 and not q.writes_to(f_, np_[0]), R6, '%s:notriggers-is-the-callers-value' % f_.short, 'the function overrides the notriggers argument: trigger inheritance is skipped although the caller asked for it', f_.where)
    st = P.fn(CI + 'store')
    keyp, trp, notr = q.param_by_index(st, 0), q.param_by_index(st, 2), q.param_by_index(st, 4)
    adds = [i for i in st.calls() if st.bcallee(i) == CI + 'add_trigger']
    ctx.check(any(st.ref_of(st.args(i)[0]) == keyp for i in adds), R6, 'store:key-recorded', 'the stored key is not recorded as a dependency of the page', st.where)
    lp = [L for L in q.loops(st) if st.N(L)['k'] == 'ForStmt' and trp in st.subtree_refs(st.N(L)['init']) and trp in st.subtree_refs(st.N(L)['cond'])]
    ctx.check(any([i for i in adds if st.contains(L, i)] for L in lp), R6, 'store:triggers-recorded', 'supplied triggers are not recorded', st.where)
    bs = [i for i in st.calls() if st.bcallee(i) == 'cppcms::impl::base_cache::store']
    ctx.check(len(bs) == 1 and st.ref_of(st.args(bs[0])[0]) == keyp and st.ref_of(st.args(bs[0])[2]) == trp, R6, 'store:backend-gets-key-and-triggers',
              'backend store does not receive the key and trigger set', st.where)
    sp = P.fn(CI + 'store_page')
    keyp = q.param_by_index(sp, 0)
    adds = [i for i in sp.calls() if sp.bcallee(i) == CI + 'add_trigger' and sp.ref_of(sp.args(i)[0]) == keyp]
    bs = [i for i in sp.calls() if sp.bcallee(i) == 'cppcms::impl::base_cache::store']
    ctx.require(len(bs) == 1, 'C07.R6: store_page does not call the backend store exactly once')
    trg_arg = sp.ref_of(sp.args(bs[0])[2])
    ctx.check(bool(adds) and all(q.before(sp, adds[0], b) for b in bs) and (trg_arg or '').endswith('cache_interface::triggers_'), R6,
              'store_page:key-added-then-all-triggers-stored', 'page stored without its key / accumulated triggers', sp.where)
    fin = [i for i in sp.calls() if sp.bcallee(i) == 'cppcms::http::response::finalize']
    cd = [i for i in sp.calls() if sp.bcallee(i) == 'cppcms::http::response::copied_data']
    ctx.check(bool(fin) and bool(cd) and q.before(sp, fin[0], cd[0]), R6, 'store_page:finalize-before-copied_data', 'page body captured before the response was finalized', sp.where)
    adt = P.fn(CI + 'add_trigger')
    tpar = q.param_by_index(adt, 0)
    insr = [i for i in q.field_calls(adt, 'cache_interface::triggers_', 'insert') if tpar in adt.subtree_refs(i)]
    lp = [L for L in q.loops(adt) if any(model.strip_targs(r).endswith('cache_interface::recorders_') for r in adt.subtree_refs(adt.N(L).get('cond', L)))]
    rec_add = [i for L in lp for i in adt.calls(adt.N(L)['body']) if adt.bcallee(i) == 'cppcms::triggers_recorder::add' and tpar in adt.subtree_refs(i)]
    g_nc = q.call_gate(adt, lambda i: adt.bcallee(i) == CI + 'nocache', False)
    reach = adt.reachable_blocks(cut_edges=q.call_gate(adt, lambda i: adt.bcallee(i) == CI + 'nocache', True), cut_blocks=q.blocks_of(adt, insr), with_catch=False)
    ctx.check(bool(insr) and adt.exit not in reach, R6, 'add_trigger:recorded', 'a trigger may be dropped', adt.where)
    ctx.check(bool(rec_add), R6, 'add_trigger:recorders-notified', 'trigger recorders are not notified', adt.where)
    for name in ('cppcms::triggers_recorder::detach', 'cppcms::triggers_recorder::~triggers_recorder'):
        f = P.fn(name)
        rm = [i for i in f.calls() if f.bcallee(i) == CI + 'remove_triggers_recorder']
        ctx.check(bool(rm), R6, '%s:unregisters' % name.rsplit('::', 1)[-1], 'recorder stays registered after its lifetime', f.where)
    ctor = [f for f in P.fns.values() if f.brecord == 'cppcms::triggers_recorder' and f.kind == 'ctor']
    ctx.check(bool(ctor) and any(f.bcallee(i) == CI + 'add_triggers_recorder' for f in ctor for i in f.calls()), R6, 'triggers_recorder:registers', 'recorder never registered', ctor[0].where if ctor else None)

    # ---------------- R7  key equality used by the primary map and the trigger index
    R8 = ctx.rule('C07.R8', 'the intrusive doubly linked list under the hash index is mirror symmetric: erase is its own image under next<->prev / begin<->end, push_back is the image of push_front, insert_before of insert_after (a one-sided slip in the unlink code detaches live entries)')
    R7 = ctx.rule('C07.R7', 'key equality functor compares the lengths and the whole content (two different keys never alias)')
    from rules.C08 import dnf
    eqs = [f for f in P.fns.values() if f.brecord == 'cppcms::impl::string_equal' and f.short == 'operator()']
    ctx.require(eqs, 'C07.R7: string_equal::operator() not instantiated')
    for k, f in enumerate(sorted(eqs, key=lambda g: g.id)):
        rets = [r for r in f.returns() if f.ret_value(r) is not None]
        ok = bool(rets)
        for r in rets:
            for conj in dnf(f, f.ret_value(r), True):
                size_eq = False
                full_cmp = False
                for (leaf, pol) in conj:
                    n = f.N(leaf)
                    if n['k'] == 'BinaryOperator' and n.get('op') == '==' and pol:
                        calls = [q.short_of(f.callee(j)) for j in f.calls(leaf)]
                        if calls.count('size') == 2 and len(calls) == 2:
                            # the two lengths are those of the two operands (not one of them twice)
                            objs = [f.ref_of(f.obj(j)) for j in f.calls(leaf)]
                            if None not in objs and len(set(objs)) == 2 and set(objs) == set(p_['ref'] for p_ in f.params[:2]):
                                size_eq = True
                        mc = [j for j in f.calls(leaf) if f.callee(j) in ('memcmp', 'strncmp')]
                        if mc and f.const_value(n['ch'][1]) == 0:
                            a = f.args(mc[0])
                            if len(a) == 3 and any(q.short_of(f.callee(j)) == 'size' for j in f.calls(a[2])) and not any(f.N(j)['k'] == 'BinaryOperator' for j in f.walk(a[2])):
                                full_cmp = True
                    if n['k'] == 'CXXOperatorCallExpr' and n.get('op') == '==' and pol:
                        size_eq = full_cmp = True       # std::string operator==
                ok = ok and size_eq and full_cmp
        ctx.check(ok, R7, 'string_equal#%d:lengths-and-content' % k, 'keys compare equal without equal length and full-content comparison (prefix aliasing)', f.where)

    # ---------------- R8 mirror symmetry of the intrusive list
    import collections as _c
    MIR = {'next': 'prev', 'prev': 'next', 'begin': 'end', 'end': 'begin', 'push_back': 'push_front', 'push_front': 'push_back',
           'insert_after': 'insert_before', 'insert_before': 'insert_after', 'after_me': 'before_me', 'before_me': 'after_me'}
    il = {}
    PW = model.Program(build.extract([VERIF + '/witness/c07_list.cpp'], include_re='^/repo/private/hash_map\\.h'))
    ctx.units.append('witness/c07_list.cpp')
    for f in PW.fns.values():
        if (f.brecord or '').endswith('details::intrusive_list') and f.entry is not None:
            il.setdefault(f.short, f)
    ctx.require('erase' in il and 'push_back' in il and 'push_front' in il, 'C07.R8: intrusive_list::erase / push_back / push_front not instantiated')

    def bag(f, swap=None):
        out = []
        for st_ in q.body_statements(f):
            j = f.strip(st_)
            tg = []
            while f.N(j)['k'] == 'BinaryOperator' and f.N(j).get('op') == '=':
                tg.append(f.N(j)['ch'][0])
                j = f.strip(f.N(j)['ch'][1])
            if len(tg) >= 2:
                # a = b = v  is  a = v; b = v  (the mirror image lists the targets in the other order)
                out += ['(assign %s %s)' % (q.canon(f, t_, swap), q.canon(f, j, swap)) for t_ in tg]
            else:
                out.append(q.canon(f, st_, swap))
        return _c.Counter(out)
    for a_, b_ in (('erase', 'erase'), ('push_back', 'push_front'), ('insert_after', 'insert_before')):
        if a_ in il and b_ in il:
            lhs, rhs = bag(il[a_], MIR), bag(il[b_])
            diff = sorted((lhs - rhs).keys()) + sorted((rhs - lhs).keys())
            ctx.check(not diff, R8, 'intrusive_list:%s-mirrors-%s' % (a_, b_), 'not mirror images of each other: %s' % [d_[:120] for d_ in diff[:2]], il[a_].where)
    ctx.floor(R7, 2)
    ctx.floor(R8, 2)

    ctx.floor(R1, 2 * 10)
    ctx.floor(R2, 2 * 8)
    ctx.floor(R3, 2 * 4)
    ctx.floor(R4, 2 * 10)
    ctx.floor(R5, 2 * 4)
    # ---------------- R10 forwarding, whole loops and the deadline of what is stored
    R10 = ctx.rule('C07.R10', 'cache_interface plumbing: rise / clear reach the backend on every path past the no-cache test; the loops that hand fetched triggers to the page, record supplied triggers and '
                              'notify recorders visit their whole container; store records triggers only (and always) when the caller did not say notriggers; deadtime(sec) is now + sec for sec >= 0 and the '
                              '"never" constant for sec < 0 (E3, time() replaced)')
    for (nm_, be) in (('rise', 'rise'), ('clear', 'clear')):
        f_ = P.fn(CI + nm_)
        fw = [i for i in f_.calls() if (f_.bcallee(i) or '').endswith('base_cache::' + be)]
        g_nc = q.call_gate(f_, lambda i: q.short_of(f_.callee(i) or '') == 'nocache', False)
        okf = len(fw) == 1 and (not f_.params or [f_.ref_of(x) for x in f_.args(fw[0])] == [q.param_by_index(f_, 0)]) and bool(g_nc)
        if okf:
            for (b_, s_, lab_, tag_) in g_nc:
                if f_.exit in f_.reachable_blocks(start=s_, cut_blocks=[f_.point_of(fw[0])[0]]):
                    okf = False
        ctx.check(okf, R10, '%s:reaches-the-backend' % nm_, 'the call does not reach base_cache::%s with its argument whenever a cache is configured' % be, f_.where)
    at_ = P.fn(CI + 'add_trigger')
    for (f_, what, cont_is) in ((fe, 'fetched-triggers', lambda f, j: f.obj(j) is not None and (f.ref_of(f.obj(j)) or '').startswith('v:')),
                                (st, 'supplied-triggers', lambda f, j: f.obj(j) is not None and f.ref_of(f.obj(j)) == q.param_by_index(st, 2)),
                                (at_, 'recorders', lambda f, j: f.obj(j) is not None and model.strip_targs(f.ref_of(f.obj(j)) or '').endswith('cache_interface::recorders_'))):
        ls_ = [L for L in q.loops(f_)]
        ctx.check(len(ls_) == 1 and q.whole_loop(f_, ls_[0], cont_is), R10, '%s:%s:whole-container' % (f_.short, what), 'the loop over the %s does not visit every element' % what.replace('-', ' '), f_.where)
    notr_s = q.param_by_index(st, 4)
    adds_s = [i for i in st.calls() if st.bcallee(i) == CI + 'add_trigger']
    g_rec = st.gate_edges(lambda atom, pol: st.ref_of(atom) == notr_s and pol is False)
    g_norec = st.gate_edges(lambda atom, pol: st.ref_of(atom) == notr_s and pol is True)
    key_add = [i for i in adds_s if st.ref_of(st.args(i)[0]) == q.param_by_index(st, 0)]
    oks = bool(g_rec) and bool(adds_s) and all(st.only_through(i, g_rec) for i in adds_s) and len(key_add) == 1
    if oks:
        for (b_, s_, lab_, tag_) in g_rec:
            if st.exit in st.reachable_blocks(start=s_, cut_blocks=[st.point_of(key_add[0])[0]]):
                oks = False
    ctx.check(oks, R10, 'store:records-exactly-when-not-notriggers', 'key / triggers are recorded as page dependencies although notriggers was given, or not recorded although it was not', st.where)
    dts = [g for g in P.fns.values() if g.short == 'deadtime' and g.file.endswith('/src/cache_interface.cpp') and g.body is not None]
    ctx.require(len(dts) == 1, 'C07.R10: deadtime() not found')
    from vlib import absint as _a10
    NOW = 1700000000

    def h_time(it, fn_, i_, env_):
        a_ = fn_.args(i_)
        if a_ and fn_.const_value(a_[0]) != 0:
            it.store(it.lval(fn_, fn_.N(fn_.strip(a_[0]))['ch'][0], env_) if fn_.N(fn_.strip(a_[0]))['k'] == 'UnaryOperator' else ('elem', it.rvalue(fn_, a_[0], env_)), _a10.AV.const(NOW))
        return _a10.AV.const(NOW)
    bad = []
    never = None
    for sec in (-5, -1):
        it = _a10.Interp(P, [], hooks={'time': h_time})
        rv = it.call_fn(dts[0], [_a10.AV.const(sec)])
        if not (isinstance(rv, _a10.AV) and rv.is_const() and rv.lo > NOW + 10 * 365 * 86400 * 10):
            bad.append('deadtime(%d) = %r, expected a moment that never comes' % (sec, rv))
        never = rv.lo if isinstance(rv, _a10.AV) and rv.is_const() else None
    for sec in (0, 1, 59, 3600, 86400 * 365):
        it = _a10.Interp(P, [], hooks={'time': h_time})
        rv = it.call_fn(dts[0], [_a10.AV.const(sec)])
        if not (isinstance(rv, _a10.AV) and rv.is_const() and rv.lo == NOW + sec):
            bad.append('deadtime(%d) = %r at time %d' % (sec, rv, NOW))
    ctx.check(not bad, R10, 'deadtime:now-plus-seconds:negative-means-never', '; '.join(bad[:2]), dts[0].where)
    dcalls = [(f_, i) for f_ in P.fns.values() if f_.file.endswith('/src/cache_interface.cpp') and f_.body is not None for i in f_.calls() if (f_.bcallee(i) or '').endswith('base_cache::store')]
    okd = len(dcalls) >= 2 and all(any(f_.N(j).get('callee') == dts[0].id for j in f_.calls(f_.args(i)[3])) and any(x.startswith('p:') and 'timeout' in x for x in f_.subtree_refs(f_.args(i)[3])) for (f_, i) in dcalls)
    ctx.check(okd, R10, 'store/store_page:deadline-is-deadtime(timeout)', 'an entry is stored with a deadline that is not deadtime(timeout) of the caller\'s timeout', st.where)
    # recorders keep what they are told and hand it out; registration both ways; the frame wrappers forward
    TR = 'cppcms::triggers_recorder::'
    ra = P.fn(TR + 'add')
    ins_ = [i for i in ra.calls() if q.short_of(ra.callee(i) or '') == 'insert' and ra.obj(i) is not None and model.strip_targs(ra.ref_of(ra.obj(i)) or '').endswith('triggers_recorder::triggers_') and ra.ref_of(ra.args(i)[0]) == q.param_by_index(ra, 0)]
    ctx.check(len(ins_) == 1 and q.always_before_exit(ra, ins_), R10, 'triggers_recorder::add:keeps-the-trigger', 'a recorder drops the trigger it is told about', ra.where)
    rd_ = P.fn(TR + 'detach')
    sw_ = [i for i in rd_.calls() if q.short_of(rd_.callee(i) or '') in ('swap', 'operator=') and any(model.strip_targs(x).endswith('triggers_recorder::triggers_') for x in rd_.subtree_refs(i))]
    rets_ = [i for i in rd_.returns() if rd_.ret_value(i) is not None]
    okd_ = len(sw_) == 1 and bool(rets_) and all(q.before(rd_, sw_[0], i_) and bool(set(x for x in rd_.subtree_refs(i_) if x.startswith('v:')) & set(x for x in rd_.subtree_refs(sw_[0]) if x.startswith('v:'))) for i_ in rets_)
    ctx.check(okd_, R10, 'triggers_recorder::detach:hands-out-the-recorded-set', 'detach() does not return the recorded triggers', rd_.where)
    rc_ = [g for g in P.fns.values() if g.kind == 'ctor' and (g.record or '') == 'cppcms::triggers_recorder' and g.body is not None and g.params]
    ctx.check(bool(rc_) and any((rc_[0].bcallee(i) or '') == CI + 'add_triggers_recorder' for i in rc_[0].calls()), R10, 'triggers_recorder():registers-with-the-cache', 'a new recorder is not registered with the cache interface', rc_[0].where if rc_ else ra.where)
    for (nm_, fld_call) in (('add_triggers_recorder', 'insert'), ('remove_triggers_recorder', 'erase')):
        f_ = P.fn(CI + nm_)
        ok_ = any(q.short_of(f_.callee(i) or '') == fld_call and f_.obj(i) is not None and model.strip_targs(f_.ref_of(f_.obj(i)) or '').endswith('cache_interface::recorders_') and f_.ref_of(f_.args(i)[0]) == q.param_by_index(f_, 0) for i in f_.calls())
        ctx.check(ok_, R10, '%s:%s-into-recorders_' % (nm_, fld_call), 'the recorder set is not updated', f_.where)
    for f_ in sorted([g for g in P.fns.values() if g.bname in (CI + 'store_frame', CI + 'fetch_frame', CI + 'store_data', CI + 'fetch_data') and g.body is not None and g.file.endswith('/src/cache_interface.cpp')], key=lambda g: g.id):
        tg = [i for i in f_.calls() if (f_.bcallee(i) or '') in (CI + 'store', CI + 'fetch', CI + 'store_frame', CI + 'fetch_frame')]
        okw_ = len(tg) == 1 and q.always_before_exit(f_, tg)
        if okw_:
            passed = [f_.ref_of(x) for x in f_.args(tg[0])]
            mine_ = [q.param_by_index(f_, k) for k in range(len(f_.params))]
            okw_ = [x for x in passed if x in mine_] == mine_ and (f_.ret is None or 'void' in (f_.ret or '') or any(f_.strip(f_.ret_value(i)) == tg[0] for i in f_.returns() if f_.ret_value(i) is not None))
        ctx.check(okw_, R10, '%s/%d:forwards-its-arguments-in-order' % (f_.short, len(f_.params)), 'the wrapper does not forward all its arguments, in order, to the worker (and return its verdict)', f_.where)
    # what goes into / comes out of the cache is a (pointer, length) string: no conversion through a NUL-terminated pointer alone
    ncv = 0
    for g in sorted([x for x in P.fns.values() if 'copy_traits' in (x.record or '') and x.body is not None and x.file.endswith('/src/cache_storage.cpp')], key=lambda x: x.id):
        for i in g.all_nodes():
            n_ = g.N(i)
            if n_['k'] not in ('CXXConstructExpr', 'CXXTemporaryObjectExpr') or 'basic_string' not in (n_.get('callee') or n_.get('cn') or ''):
                continue
            args_ = [x for x in n_['ch'] if g.N(x)['k'] != 'CXXDefaultArgExpr']
            a0 = g.N(g.strip(args_[0])) if args_ else None
            if a0 is None or a0['k'] != 'CXXMemberCallExpr' or q.short_of(g.callee(g.strip(args_[0])) or '') not in ('c_str', 'data'):
                continue        # only a string built directly from a character pointer (not the copy of such a temporary)
            ncv += 1
            ctx.check(len(args_) >= 2 and any(q.short_of(g.callee(j) or '') in ('size', 'length') for a_ in args_[1:] for j in g.calls(a_)), R10,
                      '%s::%s:string-built-with-its-length#%d' % ((g.record or '').split('<')[0].rsplit('::', 1)[-1], g.short, ncv),
                      'a cached value is rebuilt from a character pointer without its length: it is cut at the first NUL byte (the two back-ends then disagree)', g.loc(i))
    ctx.require(ncv >= 1 or ctx.violations, 'C07.R10: copy_traits string conversions not found')
    # memory pressure of the shared-memory back-end is judged by the largest free chunk: shmem_control's accessors each forward to the buddy allocator primitive of their own
    # meaning (the sum of the free fragments says nothing about whether the next value fits), and not_enough_memory() compares max_available() with size()
    SHC = 'cppcms::impl::shmem_control'
    FWD = {'available': 'total_free_memory', 'max_available': 'max_free_chunk', 'malloc': 'malloc', 'free': 'free'}
    shf = dict((g.short, g) for g in P.fns.values() if g.record == SHC and g.short in FWD and g.body is not None)
    ctx.require(set(shf) == set(FWD) or ctx.violations, 'C07.R10: shmem_control accessors not found (%s)' % sorted(shf))
    for nm, g in sorted(shf.items()):
        cs = [q.short_of(g.callee(i) or '') for i in g.calls() if (g.N(i).get('rec') or '').endswith('buddy_allocator')]
        ctx.check(cs == [FWD[nm]], R10, 'shmem_control::%s:forwards-to-%s' % (nm, FWD[nm]), 'the accessor forwards to %s' % (cs,), g.where)
    nem = [g for g in P.fns.values() if g.short == 'not_enough_memory' and (g.record or '').endswith('process_settings') and g.body is not None]
    ctx.require(len(nem) == 1 or ctx.violations, 'C07.R10: process_settings::not_enough_memory not found')
    for g in nem:
        cs = sorted(q.short_of(g.callee(i) or '') for i in g.calls() if (g.N(i).get('rec') or '') == SHC)
        ctx.check(cs == ['max_available', 'size'], R10, 'process_settings::not_enough_memory:largest-chunk-against-size', 'memory pressure is judged from %s' % (cs,), g.where)
    # the cache pool is configured from option paths the reference configuration (src/config.js) knows: a misspelt path silently reads the default, e.g. the
    # guard that refuses a per-process cache for a pre-forking service would never trip
    PCP = model.Program(build.extract([REPO + '/src/cache_pool.cpp'], include_re='^/repo/src/cache_pool\\.cpp'))
    docs, okd = q.documented_config_keys(REPO + '/src/config.js')
    ctx.require(okd and len(docs) >= 60 and 'cache.backend' in docs, 'C07.R10: src/config.js could not be read as the list of options (%d paths)' % len(docs))
    cpc = [g for g in PCP.fns.values() if g.kind == 'ctor' and (g.record or '').endswith('cache_pool') and g.body is not None and len(g.params) == 1]
    ctx.require(len(cpc) == 1, 'C07.R10: cache_pool::cache_pool(json::value const &) not found')
    nk_ = 0
    for g in cpc:
        for i in g.calls():
            if q.short_of(g.callee(i) or '') not in ('get', 'find', 'at') or not (g.N(i).get('rec') or '').endswith('json::value') or not g.args(i):
                continue
            lit = [g.N(j).get('s') for j in g.walk(g.args(i)[0]) if g.N(j)['k'] == 'StringLiteral']
            if len(lit) != 1:
                continue
            nk_ += 1
            ctx.check(lit[0] in docs, R10, 'cache_pool:option-%s:is-a-documented-path' % lit[0], 'the option path %r is not one the reference configuration src/config.js knows: the lookup always yields its default' % lit[0], g.loc(i))
    ctx.require(nk_ >= 6 or ctx.violations, 'C07.R10: only %d option lookups found in cache_pool' % nk_)
    ctx.floor(R10, 28)

    ctx.floor(R6, 12)
