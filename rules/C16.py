"""C16 — digests, HMAC and CBC compute the standard functions (structural / table / abstract-interpretation clauses)."""
import math, struct
from vlib import build, model, q, absint
from vlib.absint import AV, Arr, PV, Cell
from vlib.build import AnalysisBroken, REPO

CR = 'cppcms::crypto'
MD5_T = [int(abs(math.sin(i + 1)) * 2 ** 32) & 0xFFFFFFFF for i in range(64)]
MD5_S = [7, 12, 17, 22] * 4 + [5, 9, 14, 20] * 4 + [4, 11, 16, 23] * 4 + [6, 10, 15, 21] * 4
INIT = [0x67452301, 0xEFCDAB89, 0x98BADCFE, 0x10325476]
SHA1_K = [int(2 ** 30 * math.sqrt(x)) for x in (2, 3, 5, 10)]
SIZES = {'md5': (16, 64), 'sha1': (20, 64), 'sha224': (28, 64), 'sha256': (32, 64), 'sha384': (48, 128), 'sha512': (64, 128)}


def maximal_consts(f, root=None):
    """constant-folded values of maximal constant sub-expressions, in source order"""
    out = []
    for i in (f.walk(root) if root is not None else f.walk()):
        n = f.N(i)
        if 'cv' in n and n['k'] not in ('DeclRefExpr',):
            p = f.parent.get(i)
            if p is not None and 'cv' in f.N(p):
                continue
            out.append((n['l'], n['c'], n['cv'] & 0xFFFFFFFFFFFFFFFF))
    out.sort()
    return [v for (_, _, v) in out]


def is_subsequence(needle, hay):
    it = iter(hay)
    return all(any(x == y for y in it) for x in needle)


def run(ctx):
    ctx.explanation = ('Digest values for all messages are numerical and not decidable statically; decided are the code-shape and table clauses every correct implementation must satisfy: each readout re-initialises with the '
                       'initialiser of its own algorithm; the HMAC construction (pads, key hashing, inner/outer order); size table and name registry; the MD5 sine table, shifts, initial words, SHA-1 initial words and round constants '
                       'against independently computed standards; the SHA-1 padding decision for every block fill level by abstract interpretation; hex key decoding per byte.')
    P = model.Program(build.extract([REPO + '/src/crypto.cpp', REPO + '/src/md5.cpp'], include_re='^/repo/(src|private|cppcms)/'))
    ctx.units = ['src/crypto.cpp', 'src/md5.cpp']
    ctx.stats['functions'] = len(P.fns)
    R1 = ctx.rule('C16.R1', 'every message_digest::readout finalises and then re-initialises with the initialiser of the same algorithm; append/ctor use the same family')
    R2 = ctx.rule('C16.R2', 'HMAC shape: long keys hashed, ipad 0x36 -> inner, opad 0x5c -> outer over the whole block; readout = inner, outer(append digest), outer readout, re-init')
    R3 = ctx.rule('C16.R3', 'digest / block sizes and the name registry agree with FIPS 180-4 / RFC 1321')
    R4 = ctx.rule('C16.R4', 'MD5 sine table, shift amounts and initial words; SHA-1 initial words, round constants and padding decision equal the standards')
    R6 = ctx.rule('C16.R6', 'AES-CBC (OpenSSL back-end): the chaining value lives in the object - every AES_cbc_encrypt call is given the member IV of its direction, set_iv fills both, and each direction uses its own key schedule')
    R7 = ctx.rule('C16.R7', 'md5_process compresses the block it was handed: every pointer the message words are read through, and every copy into the word buffer, is derived from the `data` parameter (never from the state\'s pending-bytes buffer)')
    R8 = ctx.rule('C16.R8', 'MD5 buffering: for every pending-byte level 0..63 and every piece length 1..130 md5_append hands md5_process exactly the 64-byte tiles of the byte stream in order, keeps the remainder at the start of the buffer and adds 8*n to the 64-bit bit count (with carry); md5_finish pads with 0x80, zeros to 56 mod 64, the little-endian bit count, and reads A,B,C,D out little-endian (abstract interpretation, md5_process replaced by a recorder)')
    R9 = ctx.rule('C16.R9', 'HMAC key material (RFC 2104 step 1-2): both pads start as block_size zero bytes; a key not longer than the block is copied whole to the start of both pads before the pad constant is mixed in; a longer key is appended whole to the inner digest, read out, and its digest_size() bytes become the key of both pads; constructors clone the digest for the outer hash and call init(); append forwards the piece; the outer hash receives the whole inner digest')
    R10 = ctx.rule('C16.R10', 'key objects carry the key bytes unchanged: read_from_file hands the whole file minus trailing blanks to set_hex (abstract interpretation over file contents by byte class, libc calls replaced by a model file) and rejects unreadable / empty / short-read files; set() copies exactly len bytes after releasing the old key; copy construction and assignment take (data,size) of the source; text constructors hand the whole text to set_hex; data()/size() return the stored fields')
    R5 = ctx.rule('C16.R5', 'hex key decoding: exactly [0-9A-Fa-f] accepted, value = nibble, odd length rejected')

    # ---------------- R1
    ros = P.overriders_of(CR + '::message_digest::readout')
    ctx.require(len(ros) >= 6, 'C16.R1: expected >=6 message_digest::readout overriders, found %d' % len(ros))
    fam = {}
    for f in sorted(ros, key=lambda g: g.id):
        cls = f.brecord.rsplit('::', 1)[-1]
        calls = [(i, f.callee(i) or '') for i in f.calls()]
        ok = False
        why = ''
        if cls == 'md5_digets':
            fin = [i for i, c in calls if c.endswith('md5_finish')]
            ini = [i for i, c in calls if c.endswith('md5_init')]
            ok = len(fin) == 1 and len(ini) == 1 and q.before(f, fin[0], ini[0]) and q.always_before_exit(f, ini)
            fam[cls] = 'md5'
        elif cls == 'sha1_digets':
            fin = [i for i, c in calls if c.endswith('sha1::get_digest')]
            ini = [i for i, c in calls if c.endswith('sha1::reset')]
            ok = len(fin) == 1 and len(ini) == 1 and q.before(f, fin[0], ini[0]) and q.always_before_exit(f, ini)
            fam[cls] = 'sha1'
        elif cls.startswith('ssl_sha'):
            nbits = cls[len('ssl_sha'):]
            fin = [i for i, c in calls if c == 'SHA%s_Final' % nbits]
            ini = [i for i, c in calls if c == 'SHA%s_Init' % nbits]
            other = [c for i, c in calls if c.startswith('SHA') and not c.startswith('SHA%s_' % nbits)]
            ok = len(fin) == 1 and len(ini) == 1 and not other and q.before(f, fin[0], ini[0]) and q.always_before_exit(f, ini)
            why = 'calls %s' % [c for _, c in calls if c.startswith('SHA')]
            fam[cls] = 'sha' + nbits
        else:
            why = 'unknown digest class'
        ctx.check(ok, R1, '%s::readout:finalise-then-own-init' % cls, 'readout does not re-initialise with its own algorithm (%s): the object computes a different function from the second message on' % why, f.where)
    for f in [g for g in P.fns.values() if g.brecord and g.brecord.rsplit('::', 1)[-1].startswith('ssl_sha') and (g.kind == 'ctor' or g.short == 'append')]:
        nbits = f.brecord.rsplit('::', 1)[-1][len('ssl_sha'):]
        import re as _re
        sha = [f.callee(i) for i in f.calls() if _re.match(r'^SHA\d+_', f.callee(i) or '')]
        want = 'SHA%s_Init' % nbits if f.kind == 'ctor' else 'SHA%s_Update' % nbits
        ctx.check(sha == [want], R1, 'ssl_sha%s::%s:own-family' % (nbits, 'ctor' if f.kind == 'ctor' else 'append'), 'uses %s instead of %s' % (sha, want), f.where)

    for f in [g for g in P.fns.values() if g.brecord and g.brecord.rsplit('::', 1)[-1] in ('md5_digets', 'sha1_digets') and (g.kind == 'ctor' or g.short == 'append') and g.body is not None]:
        cls = f.brecord.rsplit('::', 1)[-1]
        if f.kind == 'ctor' and f.params and 'digets' in (f.types[f.params[0]['t']] or ''):
            continue        # copy constructor
        want = {('md5_digets', True): 'md5_init', ('md5_digets', False): 'md5_append', ('sha1_digets', True): 'sha1::reset', ('sha1_digets', False): 'sha1::process_bytes'}[(cls, f.kind == 'ctor')]
        hits = [i for i in f.calls() if (f.callee(i) or '').endswith(want)]
        ok = len(hits) == 1 and q.always_before_exit(f, hits)
        if ok and f.kind != 'ctor':
            a = f.args(hits[0])
            ok = len(a) >= 2 and set(f.subtree_refs(a[-2])) == {q.param_by_index(f, 0)} and set(f.subtree_refs(a[-1])) == {q.param_by_index(f, 1)}
        ctx.check(ok, R1, '%s::%s:own-family' % (cls, 'ctor' if f.kind == 'ctor' else 'append'), 'does not hand %s to %s on every path' % ('the state' if f.kind == 'ctor' else '(ptr,size)', want), f.where)
    for f in sorted(P.overriders_of(CR + '::message_digest::clone'), key=lambda g: g.id):
        if f.body is None:
            continue
        rets = [i for i in f.all_nodes() if f.N(i)['k'] == 'ReturnStmt']
        news = [f.N(j).get('nt') for i in rets for j in f.walk(i) if f.N(j)['k'] == 'CXXNewExpr']
        ctx.check(bool(rets) and len(news) == len(rets) and all(x == f.brecord for x in news) and q.always_before_exit(f, rets), R1, '%s::clone:new-object-of-own-class' % f.brecord.rsplit('::', 1)[-1],
                  'clone() returns %s' % (news or 'nothing'), f.where)
    # sha1 read-out: the five state words leave most significant byte first
    sro = [f for f in ros if f.brecord.endswith('sha1_digets')]
    if sro:
        f = sro[0]
        gdc = [i for i in f.calls() if (f.callee(i) or '').endswith('sha1::get_digest')]
        words = [0x01020304, 0x11121314, 0x21222324, 0x31323334, 0x41424344]

        def gd_hook(it, fn, i, env):
            lv = it.lval_or_tmp(fn, fn.args(i)[0], env)
            arr = lv.v if isinstance(lv, Cell) else lv
            if isinstance(arr, PV):
                arr = arr.arr
            for k_, w_ in enumerate(words):
                arr.elems[k_] = AV.const(w_)
            return None
        it = absint.Interp(P, [], hooks={'cppcms::impl::sha1::get_digest': gd_hook, 'cppcms::impl::sha1::reset': lambda it, fn, i, env: None})
        it.fields = {}
        out = Arr([AV.const(0xEE)] * 24, 'ptr')
        try:
            it.call_fn(f, [PV(out, 0)])
            got = [e.lo & 0xFF for e in out.elems]
            oks, whys = got == list(struct.pack('>5I', *words)) + [0xEE] * 4, 'bytes written are %s' % bytes(got).hex()
        except (absint.OutOfBounds, absint.Unsupported) as e:
            oks, whys = False, str(e)
        ctx.check(oks, R1, 'sha1_digets::readout:five-words-big-endian', whys, f.where)
    # ---------------- R3
    for f in [g for g in P.fns.values() if g.short in ('digest_size', 'block_size', 'name') and g.brecord and g.brecord.rsplit('::', 1)[-1] in fam]:
        cls = f.brecord.rsplit('::', 1)[-1]
        alg = fam[cls]
        rets = [r for r in f.returns() if f.ret_value(r) is not None]
        if f.short == 'name':
            lits = [f.N(j).get('s') for r in rets for j in f.walk(r) if f.N(j)['k'] == 'StringLiteral']
            ctx.check(lits == [alg], R3, '%s::name' % cls, 'name() returns %s' % lits, f.where)
            continue
        want = SIZES[alg][0 if f.short == 'digest_size' else 1]
        vals = set()
        for r in rets:
            vals.add(f.const_value(f.ret_value(r)))
        # block_size of the ssl classes is `if(len>=384) return 128; else return 64;` with len constant: evaluate the branch
        if len(vals) > 1:
            it = absint.Interp(P, [])
            v = it.call_fn(f, [])
            vals = {v.lo} if v.is_const() else vals
        ctx.check(vals == {want}, R3, '%s::%s=%d' % (cls, f.short, want), '%s() = %s, the standard says %d' % (f.short, sorted(x for x in vals if x is not None), want), f.where)
    cbn = P.fn(CR + '::message_digest::create_by_name')
    pairs = 0
    for i in cbn.all_nodes():
        n = cbn.N(i)
        if n['k'] == 'IfStmt':
            lits = [cbn.N(j).get('s') for j in cbn.walk(n['cond']) if cbn.N(j)['k'] == 'StringLiteral']
            if len(lits) != 1:
                continue
            then = n['then']
            news = [cbn.N(j).get('nt', '') for j in cbn.walk(then) if cbn.N(j)['k'] == 'CXXNewExpr']
            callsx = [cbn.bcallee(j) for j in cbn.calls(then) if (cbn.bcallee(j) or '').startswith(CR + '::message_digest::')]
            got = None
            if news:
                got = fam.get(news[0].rsplit('::', 1)[-1])
            elif callsx:
                got = callsx[0].rsplit('::', 1)[-1]
            pairs += 1
            ctx.check(got == lits[0], R3, 'create_by_name:%s' % lits[0], 'name %s creates a %s digest' % (lits[0], got), cbn.loc(i))
    ctx.require(pairs >= 6 or ctx.violations, 'C16.R3: create_by_name branches not found')

    # ---------------- R2
    hi = P.fn(CR + '::hmac::init')
    bsv = [d['ref'] for i in hi.all_nodes() if hi.N(i)['k'] == 'DeclStmt' for d in hi.N(i)['decls'] if d.get('init') is not None and any(q.short_of(hi.callee(j)) == 'block_size' for j in hi.calls(d['init']))]

    def whole(f, L, cont, bound_vars):
        """loop L of f visits every element of container variable `cont`: index 0..size()/block size, or begin()..end()"""
        cl = q.counting_loop(f, L)
        if cl is not None and cl['start'] == 0 and cl['step'] == 1 and cl['op'] == '<':
            b = cl['bound']
            if f.ref_of(b) in bound_vars:
                return True
            return any(q.short_of(f.bcallee(c) or '') == 'size' and f.obj(c) is not None and f.ref_of(f.obj(c)) == cont for c in f.calls(b))
        n_ = f.N(L)
        if n_['k'] == 'CXXForRangeStmt':
            return cont in f.subtree_refs(n_.get('range', L))
        if n_['k'] == 'ForStmt' and n_.get('init', -1) is not None and n_.get('init', -1) >= 0 and n_.get('cond', -1) is not None and n_.get('cond', -1) >= 0:
            b_ok = any(q.short_of(f.bcallee(c) or '') == 'begin' and f.obj(c) is not None and f.ref_of(f.obj(c)) == cont for c in f.calls(n_['init']))
            e_ok = any(q.short_of(f.bcallee(c) or '') == 'end' and f.obj(c) is not None and f.ref_of(f.obj(c)) == cont for c in f.calls(n_['cond']))
            inc = n_.get('inc', -1)
            esc = [j for j in f.walk(n_['body']) if f.N(j)['k'] in ('BreakStmt', 'ReturnStmt', 'GotoStmt', 'ContinueStmt')]
            arith = [j for part in (n_['init'], n_['cond']) for j in f.walk(part) if f.N(j).get('op') in ('+', '-', '+=', '-=', '++', '--') and f.N(j)['k'] in ('BinaryOperator', 'CXXOperatorCallExpr', 'UnaryOperator', 'CompoundAssignOperator')]
            return b_ok and e_ok and inc is not None and inc >= 0 and not esc and not arith
        return False
    xs = []        # (pad variable, constant, site, whole block covered)
    for i in hi.all_nodes():
        n = hi.N(i)
        if n['k'] == 'CompoundAssignOperator' and n.get('op') == '^=':
            tgt = [r for r in hi.subtree_refs(n['ch'][0]) if r.startswith('v:') and r not in [x for L in q.enclosing_loops(hi, i) for x in [(q.counting_loop(hi, L) or {}).get('var')]]]
            lp = q.enclosing_loops(hi, i)
            xs.append((tgt[0] if tgt else '?', hi.const_value(n['ch'][1]), i, len(lp) == 1 and bool(tgt) and whole(hi, lp[0], tgt[0], bsv)))
    for c in hi.calls():
        g = P.fns.get(hi.N(c).get('callee') or '')
        a = hi.args(c)
        if g is None or g.entry is None or len(a) != 2 or len(g.params) != 2 or hi.const_value(a[1]) is None or not (hi.ref_of(a[0]) or '').startswith('v:'):
            continue
        gx = [j for j in g.all_nodes() if g.N(j)['k'] == 'CompoundAssignOperator' and g.N(j).get('op') == '^=']
        if len(gx) != 1 or g.ref_of(g.N(gx[0])['ch'][1]) != g.params[1]['ref']:
            continue
        lp = q.enclosing_loops(g, gx[0])
        tgt_ok = g.params[0]['ref'] in q.deep_refs(g, g.N(gx[0])['ch'][0]) or (len(lp) == 1 and g.params[0]['ref'] in g.subtree_refs(g.N(lp[0]).get('init', lp[0]) if g.N(lp[0]).get('init', -1) not in (None, -1) else lp[0]))
        others = [w for w in q.writes_to(g, g.params[0]['ref']) if w != gx[0] and not g.contains(gx[0], w) and not g.contains(w, gx[0])]
        xs.append((hi.ref_of(a[0]), hi.const_value(a[1]), c, tgt_ok and len(lp) == 1 and whole(g, lp[0], g.params[0]['ref'], []) and not [w for w in others if g.N(w)['k'] in ('BinaryOperator', 'CompoundAssignOperator')]))
    nm = lambda r: r.split('@')[0][2:] if r and r != '?' else '?'
    ctx.check(sorted((nm(a), b) for a, b, _, _ in xs) == [('ipad', 0x36), ('opad', 0x5c)], R2, 'hmac::init:pads-0x36-0x5c', 'pad constants are %s' % [(nm(a), hex(b or 0)) for a, b, _, _ in xs], hi.where)
    ctx.check(bool(xs) and all(w_ for _, _, _, w_ in xs), R2, 'hmac::init:pads-cover-whole-block', 'pad loop does not run over the whole block', hi.where)
    apps = [i for i in hi.calls() if q.short_of(hi.callee(i)) == 'append' and hi.bcallee(i) == CR + '::message_digest::append']
    side = {}
    for i in apps:
        o = model.strip_targs(hi.access_path(hi.obj(i))[-1]) if hi.access_path(hi.obj(i)) else ''
        arg = [r.split('@')[0][2:] for r in hi.subtree_refs(hi.args(i)[0]) if r.startswith('v:')]
        side.setdefault(o.rsplit('::', 1)[-1], []).append(arg[0] if arg else 'key')
    ctx.check(side.get('md_opad_') == ['opad'] and side.get('md_', [])[-1:] == ['ipad'], R2, 'hmac::init:ipad-inner-opad-outer', 'pads are fed to the wrong digest objects: %s' % side, hi.where)
    g_long = hi.gate_edges(lambda atom, pol: hi.N(atom)['k'] == 'BinaryOperator' and hi.N(atom).get('op') == '>' and any(q.short_of(hi.callee(j)) == 'size' for j in q.expr_calls_deep(hi, hi.N(atom)['ch'][0])) and pol is True)
    ro_in = [i for i in hi.calls() if hi.bcallee(i) == CR + '::message_digest::readout']
    ctx.check(len(ro_in) == 1 and hi.only_through(ro_in[0], g_long), R2, 'hmac::init:long-key-hashed', 'keys longer than the block are not replaced by their digest (or short ones are)', hi.where)
    hr = P.fn(CR + '::hmac::readout')
    seq = []
    for i in sorted(hr.calls(), key=lambda j: hr.point_of(j) or (0, 0)):
        bc = hr.bcallee(i) or ''
        if bc.startswith(CR + '::message_digest::') and q.short_of(bc) in ('readout', 'append'):
            o = model.strip_targs(hr.access_path(hr.obj(i))[-1]).rsplit('::', 1)[-1] if hr.obj(i) is not None and hr.access_path(hr.obj(i)) else '?'
            seq.append((o, q.short_of(bc)))
        elif bc == CR + '::hmac::init':
            seq.append(('this', 'init'))
    ctx.check(seq == [('md_', 'readout'), ('md_opad_', 'append'), ('md_opad_', 'readout'), ('this', 'init')], R2, 'hmac::readout:inner-then-outer-then-reinit', 'readout sequence is %s' % seq, hr.where)
    outp = q.param_by_index(hr, 0)
    last = [i for i in hr.calls() if hr.bcallee(i) == CR + '::message_digest::readout' and hr.ref_of(hr.args(i)[0]) == outp]
    ctx.check(len(last) == 1 and 'md_opad_' in ''.join(hr.access_path(hr.obj(last[0])) or ()), R2, 'hmac::readout:result-is-outer-digest', 'caller receives something other than the outer digest', hr.where)

    # ---------------- R9 HMAC key material: where the key bytes go
    padvars = sorted(set(a for a, _, _, _ in xs if a and a != '?'))
    keycall = lambda f, e, what: any(q.short_of(f.callee(j) or '') == what and f.obj(j) is not None and 'key_' in ''.join(f.access_path(f.obj(j)) or ()) for j in q.expr_calls_deep(f, e))
    dcall = lambda f, e, what: any(q.short_of(f.callee(j) or '') == what and (f.bcallee(j) or '').startswith(CR + '::message_digest::') for j in q.expr_calls_deep(f, e))
    for pv_ in padvars:
        ini = [d for i in hi.all_nodes() if hi.N(i)['k'] == 'DeclStmt' for d in hi.N(i)['decls'] if d['ref'] == pv_]
        okz = False
        if ini and ini[0].get('init') is not None:
            ce = hi.N(hi.strip(ini[0]['init']))
            a_ = ce.get('ch', []) if ce['k'] == 'CXXConstructExpr' else []
            a_ = [x for x in a_ if hi.N(x)['k'] != 'CXXDefaultArgExpr']
            okz = 1 <= len(a_) <= 2 and hi.ref_of(a_[0]) in bsv and (len(a_) == 1 or hi.const_value(a_[1]) == 0)
        ctx.check(okz, R9, 'hmac::init:%s:block-of-zeros' % nm(pv_), 'the pad does not start as block_size zero bytes (short keys must be zero-extended to the block)', hi.where)
    copies = [i for i in hi.calls() if (hi.callee(i) or '') in ('memcpy', 'memmove', '__builtin_memcpy') or q.short_of(hi.callee(i) or '') == 'copy']
    g_short = hi.gate_edges(lambda atom, pol: hi.N(atom)['k'] == 'BinaryOperator' and hi.N(atom).get('op') == '>' and any(q.short_of(hi.callee(j)) == 'size' for j in q.expr_calls_deep(hi, hi.N(atom)['ch'][0])) and pol is False)
    for pv_ in padvars:
        mine = [i for i in copies if len(hi.args(i)) == 3 and pv_ in hi.subtree_refs(hi.args(i)[0]) and keycall(hi, hi.args(i)[1], 'data')]
        okk = len(mine) == 1 and keycall(hi, hi.args(mine[0])[2], 'size') and hi.only_through(mine[0], g_short) and not [r for r in hi.subtree_refs(hi.args(mine[0])[0]) if r != pv_ and r.startswith('v:')]
        first_x = [x[2] for x in xs if x[0] == pv_]
        okk = okk and bool(first_x) and q.reaches(hi, mine[0], first_x[0]) and not q.reaches(hi, first_x[0], mine[0])
        ctx.check(okk, R9, 'hmac::init:%s:short-key-copied-whole-before-xor' % nm(pv_), 'a key not longer than the block is not copied (data(), size()) to the start of the pad before the pad constant is mixed in', hi.where)
    ok_long = len(ro_in) == 1
    why_l = 'no single readout of the hashed key'
    if ok_long:
        tgt_pad = [r for r in hi.subtree_refs(hi.args(ro_in[0])[0]) if r in padvars]
        kap = [i for i in apps if keycall(hi, hi.args(i)[0], 'data') and keycall(hi, hi.args(i)[1], 'size') and 'md_opad_' not in ''.join(hi.access_path(hi.obj(i)) or ())]
        ok_long = len(tgt_pad) == 1 and len(kap) == 1 and q.before(hi, kap[0], ro_in[0]) and hi.only_through(kap[0], g_long)
        why_l = 'the long key is not appended whole (data(), size()) to the inner digest before its read-out into a pad'
        if ok_long:
            for pv_ in padvars:
                if pv_ == tgt_pad[0]:
                    continue
                cp = [i for i in copies if len(hi.args(i)) == 3 and pv_ in hi.subtree_refs(hi.args(i)[0]) and tgt_pad[0] in hi.subtree_refs(hi.args(i)[1])]
                if not (len(cp) == 1 and dcall(hi, hi.args(cp[0])[2], 'digest_size') and hi.only_through(cp[0], g_long) and q.before(hi, ro_in[0], cp[0]) and q.reaches(hi, cp[0], [x[2] for x in xs if x[0] == pv_][0]) and not q.reaches(hi, [x[2] for x in xs if x[0] == pv_][0], cp[0])):
                    ok_long, why_l = False, 'the hashed key (digest_size() bytes) does not reach the %s block' % nm(pv_)
    ctx.check(ok_long, R9, 'hmac::init:long-key:digest-becomes-the-key-of-both-pads', why_l, hi.where)
    hctors = [f for f in P.fns.values() if f.kind == 'ctor' and f.brecord == CR + '::hmac' and f.body is not None and not (f.params and 'hmac' in (f.types[f.params[0]['t']] or ''))]
    ctx.require(len(hctors) >= 2, 'C16.R9: hmac constructors not found')
    for f in sorted(hctors, key=lambda g: g.id):
        ini = [i for i in f.calls() if f.bcallee(i) == CR + '::hmac::init']
        cl = [i for i in f.calls() if q.short_of(f.callee(i) or '') == 'clone' and 'md_' in ''.join(f.access_path(f.obj(i)) or ()) and 'md_opad_' not in ''.join(f.access_path(f.obj(i)) or ())]
        rs = [i for i in f.calls() if q.short_of(f.callee(i) or '') in ('reset', 'operator=') and f.obj(i) is not None and 'md_opad_' in ''.join(f.access_path(f.obj(i)) or ()) and any(f.contains(i, c_) for c_ in cl)]
        keyinit = any(x.get('field', '').endswith('hmac::key_') and q.param_by_index(f, 1) in f.subtree_refs(x['n']) for x in f.d.get('inits', []))
        mdset = [i for i in f.calls() if q.short_of(f.callee(i) or '') in ('operator=', 'reset') and f.obj(i) is not None and 'md_' in ''.join(f.access_path(f.obj(i)) or ()) and 'md_opad_' not in ''.join(f.access_path(f.obj(i)) or ())
                 and (q.param_by_index(f, 0) in q.deep_refs(f, i))]
        keyinit = keyinit and len(mdset) == 1 and bool(cl) and q.before(f, mdset[0], cl[0])
        okc_ = keyinit and len(ini) == 1 and len(cl) == 1 and len(rs) == 1 and q.always_before_exit(f, ini) and q.before(f, rs[0], ini[0])
        ctx.check(okc_, R9, 'hmac::hmac#%d:outer-digest-cloned-then-init' % len(f.params) + ':' + (f.types[f.params[0]['t']] or '')[:24], 'the constructor does not clone the digest for the outer hash and prime both with init() on every normal path', f.where)
    ha = P.fn(CR + '::hmac::append')
    fw = [i for i in ha.calls() if ha.bcallee(i) == CR + '::message_digest::append']
    okf = len(fw) == 1 and 'md_opad_' not in ''.join(ha.access_path(ha.obj(fw[0])) or ()) and [ha.ref_of(a_) for a_ in ha.args(fw[0])] == [q.param_by_index(ha, 0), q.param_by_index(ha, 1)] and q.always_before_exit(ha, fw)
    ctx.check(okf, R9, 'hmac::append:forwards-piece-to-inner-digest', 'append does not hand (ptr,size) to the inner digest on every normal path', ha.where)
    oap = [i for i in hr.calls() if hr.bcallee(i) == CR + '::message_digest::append']
    rin = [i for i in hr.calls() if hr.bcallee(i) == CR + '::message_digest::readout' and 'md_opad_' not in ''.join(hr.access_path(hr.obj(i)) or ())]
    oko = len(oap) == 1 and len(rin) == 1
    if oko:
        bufv = [r for r in hr.subtree_refs(hr.args(rin[0])[0]) if r.startswith('v:')]
        oko = len(bufv) == 1 and bufv[0] in hr.subtree_refs(hr.args(oap[0])[0]) and dcall(hr, hr.args(oap[0])[1], 'digest_size')
        if oko:
            d_ = [d for i in hr.all_nodes() if hr.N(i)['k'] == 'DeclStmt' for d in hr.N(i)['decls'] if d['ref'] == bufv[0]]
            oko = bool(d_) and d_[0].get('init') is not None and dcall(hr, d_[0]['init'], 'digest_size')
    ctx.check(oko, R9, 'hmac::readout:outer-hash-gets-whole-inner-digest', 'the outer hash is not fed the digest_size() bytes read out of the inner hash', hr.where)

    # ---------------- R4
    mp = P.fn('cppcms::impl::md5_process', must=False) or [f for f in P.fns.values() if f.short == 'md5_process'][0]
    consts = maximal_consts(mp)
    c32 = [v & 0xFFFFFFFF for v in consts]
    ctx.check(is_subsequence(MD5_T, c32), R4, 'md5_process:sine-table-T1..T64-in-order', 'the 64 additive constants are not floor(2^32*|sin(i+1)|) in order', mp.where, detail={'found_large_constants': len([v for v in c32 if v > 0xFFFF])})
    smalls = [v for v in consts if v in (4, 5, 6, 7, 9, 10, 11, 12, 14, 15, 16, 17, 20, 21, 22, 23)]
    # each SET(a,b,c,d,k,s,Ti) mentions k then s: the shifts appear (possibly interleaved with k values) in order
    ctx.check(is_subsequence(MD5_S, consts), R4, 'md5_process:rotate-amounts-in-order', 'per-round rotate amounts differ from RFC 1321', mp.where)
    mi = [f for f in P.fns.values() if f.short == 'md5_init'][0]
    ci = [v & 0xFFFFFFFF for v in maximal_consts(mi)]
    ctx.check(is_subsequence(INIT, ci), R4, 'md5_init:initial-words', 'MD5 initial state differs from RFC 1321', mi.where)
    pad = [g for g in P.globals.values() if g['name'].endswith('pad') and g['file'].endswith('md5.cpp')]
    okp = False
    if pad:
        tb = absint.Interp(P, []).eval_global(pad[0])
        vals = [e.lo for e in tb.elems]
        okp = len(vals) == 64 and vals[0] == 0x80 and not any(vals[1:])
    ctx.check(okp, R4, 'md5:padding-vector-0x80-then-zeros', 'MD5 padding vector is not 0x80 followed by 63 zero bytes', pad[0]['file'] if pad else mi.where)
    sr = P.fn('cppcms::impl::sha1::reset')
    cs = [v & 0xFFFFFFFF for v in maximal_consts(sr)]
    ctx.check(is_subsequence(INIT + [0xC3D2E1F0], cs), R4, 'sha1::reset:initial-words', 'SHA-1 initial state differs from FIPS 180', sr.where)
    spb = [f for f in P.by_bname.get('cppcms::impl::sha1::process_block', []) if not f.params]
    ctx.require(spb, 'C16.R4: sha1::process_block() not found')
    ck = [v & 0xFFFFFFFF for v in maximal_consts(spb[0])]
    ctx.check(is_subsequence(SHA1_K, ck), R4, 'sha1::process_block:round-constants', 'SHA-1 round constants differ from floor(2^30*sqrt{2,3,5,10})', spb[0].where)
    # padding decision by abstract interpretation: for every fill level b of the last block
    gd = P.fn('cppcms::impl::sha1::get_digest')
    F = 'f:cppcms::impl::sha1::'
    bad = []
    for b in range(64):
        blocks = []

        def hook(it, fn, i, env):
            if fn.args(i):
                return NotImplemented
            blocks.append([e for e in it.fields[F + 'block_'].v.elems])
            return None
        it = absint.Interp(P, [], hooks={'cppcms::impl::sha1::process_block': hook})
        msg_len = 0x02345640 + b
        it.fields = {F + 'block_': Cell(Arr([AV.const(0x11)] * 64, 'block_')), F + 'block_byte_index_': Cell(AV.const(b)), F + 'byte_count_': Cell(AV.const(msg_len)),
                     F + 'h_': Cell(Arr([AV.const(0xA0B0C0D0 + k_) for k_ in range(5)], 'h_'))}
        out = Arr([AV.const(0)] * 5, 'digest')
        it.call_fn(gd, [PV(out, 0)])
        want_blocks = 1 if b <= 55 else 2
        okb = len(blocks) == want_blocks
        if okb:
            last = [e.lo & 0xFF for e in blocks[-1]]
            first = [e.lo & 0xFF for e in blocks[0]]
            okb = first[b] == 0x80 and all(v == 0 for v in first[b + 1:(56 if want_blocks == 1 else 64)]) and last[56:] == list(struct.pack('>Q', msg_len * 8)) and \
                (want_blocks == 1 or all(v == 0 for v in last[:56])) and it.fields[F + 'block_byte_index_'].v.lo == 0 and [e.lo & 0xFFFFFFFF for e in out.elems] == [0xA0B0C0D0 + k_ for k_ in range(5)]
        if not okb:
            bad.append((b, len(blocks)))
    ctx.check(not bad, R4, 'sha1::get_digest:padding-for-every-fill-level', ('fill level %d: %d block(s) processed / wrong padding bytes (messages of length = %d mod 64 get a non-standard digest)' % (bad[0][0], bad[0][1], bad[0][0])) if bad else '',
              gd.where, detail={'fill_levels': 64})

    # SHA-1 buffering: process_bytes for every fill level, reset, read-out of the state words
    pbs = P.fn('cppcms::impl::sha1::process_bytes')
    bad = []
    nruns = 0
    for b in range(64):
        for nb in sorted(set(x for x in (1, 2, 63 - b, 64 - b, 65 - b, 64, 65, 127, 128, 129, 130) if x > 0)):
            blocks = []

            def hook(it, fn, i, env):
                if fn.args(i):
                    return NotImplemented
                blocks.append([e for e in it.fields[F + 'block_'].v.elems])
                return None
            it = absint.Interp(P, [], hooks={'cppcms::impl::sha1::process_block': hook})
            it.fields = {F + 'block_': Cell(Arr([AV.const(1 + j) if j < b else AV.const(0xEE) for j in range(64)], 'block_')), F + 'block_byte_index_': Cell(AV.const(b)),
                         F + 'byte_count_': Cell(AV.const(640 + b)), F + 'h_': Cell(Arr([AV.const(0)] * 5, 'h_'))}
            try:
                it.call_fn(pbs, [PV(Arr([AV.const(100 + j) for j in range(nb)], 'buffer'), 0), AV.const(nb)])
            except (absint.OutOfBounds, absint.Unsupported) as e:
                bad.append((b, nb, str(e)))
                continue
            nruns += 1
            stream = [1 + j for j in range(b)] + [100 + j for j in range(nb)]
            want = [stream[k:k + 64] for k in range(0, len(stream) - 63, 64)]
            rest = stream[len(want) * 64:]
            got = [[(e.lo if e.is_const() else None) for e in bl] for bl in blocks]
            fi = it.fields
            if got != want:
                bad.append((b, nb, 'blocks compressed are not the 64-byte tiles of the byte stream (%d compressed, %d expected)' % (len(got), len(want))))
            elif [e.lo for e in fi[F + 'block_'].v.elems[:len(rest)]] != rest or fi[F + 'block_byte_index_'].v.lo != len(rest):
                bad.append((b, nb, 'the %d pending bytes / the fill index are not kept' % len(rest)))
            elif fi[F + 'byte_count_'].v.lo != 640 + b + nb:
                bad.append((b, nb, 'byte count after the call is %s, expected %d' % (fi[F + 'byte_count_'].v, 640 + b + nb)))
    ctx.check(not bad, R4, 'sha1::process_bytes:tiles-the-stream:every-fill-level', ('pending %d bytes, piece of %d: %s' % bad[0]) if bad else '', pbs.where, detail={'runs': nruns})
    it = absint.Interp(P, [])
    it.fields = {F + 'block_': Cell(Arr([AV.const(0x11)] * 64, 'block_')), F + 'block_byte_index_': Cell(AV.const(17)), F + 'byte_count_': Cell(AV.const(99)), F + 'h_': Cell(Arr([AV.const(7)] * 5, 'h_'))}
    try:
        it.call_fn(sr, [])
        st_ = [e.lo & 0xFFFFFFFF for e in it.fields[F + 'h_'].v.elems] + [it.fields[F + 'block_byte_index_'].v.lo, it.fields[F + 'byte_count_'].v.lo]
        okr, whyr = st_ == INIT + [0xC3D2E1F0, 0, 0], 'state after reset() is %s' % [hex(x) for x in st_]
    except (absint.OutOfBounds, absint.Unsupported) as e:
        okr, whyr = False, str(e)
    ctx.check(okr, R4, 'sha1::reset:H0..H4-empty-buffer-zero-count', whyr, sr.where)
    # ---------------- R5
    fh = P.fn(CR + '::key::from_hex')
    bad = []
    for (bx, r, it) in absint.explore(P, lambda it: it.call_fn(fh, [it.inbyte(0)]), [[(0, 255)]]):
        lo, hi_ = bx[0]
        for v in range(lo, hi_ + 1):
            ch = chr(v)
            exp = int(ch, 16) if ch in '0123456789abcdefABCDEF' else 0
        exp = frozenset((int(chr(v), 16) if chr(v) in '0123456789abcdefABCDEF' else 0) for v in range(lo, hi_ + 1))
        got = r.vals if r.vals is not None else frozenset(range(r.lo, r.hi + 1))
        if got != exp or (len(exp) > 1 and len(exp) != hi_ - lo + 1):
            bad.append((lo, hi_, r))
    ctx.check(not bad, R5, 'key::from_hex:nibble-values', ('bytes %02X-%02X decode to %r' % bad[0]) if bad else '', fh.where)
    sh = P.fn(CR + '::key::set_hex')
    thr = [i for i in sh.walk() if sh.N(i)['k'] == 'CXXThrowExpr']
    g_odd = sh.gate_edges(lambda atom, pol: sh.N(atom)['k'] == 'BinaryOperator' and sh.N(atom).get('op') == '!=' and any(sh.N(j)['k'] == 'BinaryOperator' and sh.N(j).get('op') == '%' and sh.const_value(sh.N(j)['ch'][1]) == 2 for j in sh.walk(atom)) and pol is True)
    g_even = sh.gate_edges(lambda atom, pol: sh.N(atom)['k'] == 'BinaryOperator' and sh.N(atom).get('op') == '!=' and any(sh.N(j)['k'] == 'BinaryOperator' and sh.N(j).get('op') == '%' and sh.const_value(sh.N(j)['ch'][1]) == 2 for j in sh.walk(atom)) and pol is False)
    news = [i for i in sh.all_nodes() if sh.N(i)['k'] == 'CXXNewExpr']
    ctx.check(len(thr) == 2 and any(sh.only_through(t, g_odd) for t in thr) and bool(news) and all(sh.only_through(nw, list(g_even)) for nw in news), R5, 'key::set_hex:odd-length-rejected', 'an odd number of hex digits is accepted', sh.where)
    # the whole decoder, evaluated abstractly on a two-character key with one character ranging over all byte values (each position):
    # it throws exactly when that character is not a hexadecimal digit, otherwise the stored byte is 16*high + low
    K = CR + '::key::'
    HEXV = {c: int(chr(c), 16) for c in range(256) if chr(c) in '0123456789abcdefABCDEF'}
    for pos in (0, 1):
        bad = []
        nb = 0
        for other in (0x30, 0x66, 0x41):
            def runh(it, pos=pos, other=other):
                it.hooks = {K + 'reset': lambda it_, fn_, i_, env_: AV.const(0)}
                it.fields = {'f:' + K + 'data_': Cell(AV.const(0)), 'f:' + K + 'size_': Cell(AV.const(0))}
                chars = [AV.const(other), AV.const(other)]
                chars[pos] = it.inbyte(0)
                arr = Arr(chars + [AV.const(0)], 'hex')
                r = it.call_fn(sh, [PV(arr, 0), AV.const(2)])
                return r, it.fields['f:' + K + 'data_'].v, it.fields['f:' + K + 'size_'].v
            for (bx, (r, data, size), it) in absint.explore(P, runh, [[(-128, 127)]]):
                nb += 1
                lo, hi_ = bx[0]
                vals = [v & 0xFF for v in range(lo, hi_ + 1)]
                threw = isinstance(r, tuple) and r and r[0] == 'throw'
                allhex, nonehex = all(v in HEXV for v in vals), not any(v in HEXV for v in vals)
                if not (allhex or nonehex) or threw != nonehex:
                    bad.append(('%02X-%02X' % (min(vals), max(vals)), 'threw' if threw else 'accepted'))
                    continue
                if not threw:
                    okv = isinstance(data, PV) and len(data.arr.elems) == 1 and isinstance(size, AV) and size.is_const() and size.lo == 1
                    if okv:
                        e = data.arr.elems[0]
                        got = set((x & 0xFF) for x in (e.vals if e.vals is not None else range(e.lo, e.hi + 1)))
                        want = set(((HEXV[v] << 4) + HEXV[other]) if pos == 0 else ((HEXV[other] << 4) + HEXV[v]) for v in vals)
                        okv = got == want
                    if not okv:
                        bad.append(('%02X-%02X' % (min(vals), max(vals)), 'decoded wrongly'))
        ctx.check(not bad, R5, 'key::set_hex:exact:position-%d' % pos, 'characters %s' % bad[:3], sh.where, detail={'boxes': nb})

    def run_hex(text):
        it = absint.Interp(P, [], hooks={K + 'reset': lambda it_, fn_, i_, env_: AV.const(0)})
        it.fields = {'f:' + K + 'data_': Cell(AV.const(0)), 'f:' + K + 'size_': Cell(AV.const(0))}
        r = it.call_fn(sh, [PV(Arr([AV.const(ord(c)) for c in text] + [AV.const(0)], 'hex'), 0), AV.const(len(text))])
        return r, it.fields['f:' + K + 'data_'].v, it.fields['f:' + K + 'size_'].v
    bad = []
    try:
        for n_ in (0, 2, 4, 6, 8, 16):
            text = '1a2B3c4D5e6F7089'[:n_]
            r, data, size = run_hex(text)
            got = [e.lo & 0xFF for e in data.arr.elems] if isinstance(data, PV) else []
            if (isinstance(r, tuple) and r and r[0] == 'throw') or got != list(bytes.fromhex(text)) or not (isinstance(size, AV) and size.is_const() and size.lo == n_ // 2):
                bad.append('%d digits %r decode to %s (size %s)' % (n_, text, bytes(got).hex(), size))
        for n_ in (4, 6):
            for p_ in range(n_):
                text = '1a2B3c'[:n_]
                text = text[:p_] + 'g' + text[p_ + 1:]
                r, data, size = run_hex(text)
                if not (isinstance(r, tuple) and r and r[0] == 'throw'):
                    bad.append('%r (invalid character at position %d) is accepted' % (text, p_))
        for n_ in (1, 3, 5):
            r, data, size = run_hex('1a2B3'[:n_])
            if not (isinstance(r, tuple) and r and r[0] == 'throw'):
                bad.append('%d digits are accepted' % n_)
    except (absint.OutOfBounds, absint.Unsupported) as e:
        bad.append(str(e))
    ctx.check(not bad, R5, 'key::set_hex:every-pair-decoded-in-place:every-position-validated', '; '.join(bad[:3]), sh.where)

    # ---------------- R10 key object plumbing
    import itertools as _it
    rf = P.fn(CR + '::key::read_from_file')
    zero = lambda it_, fn_, i_, env_: AV.const(0)

    def run_file(content, short_read=False, no_file=False):
        got = []

        def h_sethex(it_, fn_, i_, env_):
            a_ = fn_.args(i_)
            got.append((it_.rvalue(fn_, a_[0], env_), it_.rvalue(fn_, a_[1], env_)))
            return None

        def h_fread(it_, fn_, i_, env_):
            a_ = fn_.args(i_)
            p_, sz, cnt = it_.rvalue(fn_, a_[0], env_), it_.rvalue(fn_, a_[1], env_), it_.rvalue(fn_, a_[2], env_)
            if not (isinstance(p_, PV) and sz.is_const() and cnt.is_const()):
                raise absint.Unsupported('fread arguments')
            n_ = min(sz.lo * cnt.lo, len(content) - (1 if short_read else 0))
            for j in range(n_):
                it_.store(('elem', PV(p_.arr, p_.off + j)), AV.const(ord(content[j])))
            return AV.const(n_ // sz.lo if sz.lo else 0)
        fo = (lambda it_, fn_, i_, env_: AV.const(0)) if no_file else (lambda it_, fn_, i_, env_: PV(Arr([AV.const(1)], 'FILE'), 0))
        it = absint.Interp(P, [], hooks={K + 'reset': zero, K + 'set_hex': h_sethex, 'fread': h_fread, 'fopen': fo, 'booster::nowide::fopen': fo, 'setbuf': zero, 'fseek': zero, 'fclose': zero, 'rewind': zero,
                                         'ftell': lambda it_, fn_, i_, env_: AV.const(len(content)), 'memset': zero})
        it.fields = {}
        r = it.call_fn(rf, [Cell(absint.Out('name'))])
        return r, got
    bad = []
    nfile = 0
    threw = lambda r: isinstance(r, tuple) and bool(r) and r[0] == 'throw'
    try:
        for n_ in range(1, 5):
            for content in map(''.join, _it.product('a \n\r\tZ', repeat=n_)):
                nfile += 1
                r, got = run_file(content)
                want = len(content.rstrip(' \n\r\t'))
                if threw(r) or len(got) != 1 or not (isinstance(got[0][1], AV) and got[0][1].is_const() and got[0][1].lo == want) or not isinstance(got[0][0], PV) or got[0][0].off != 0 or \
                        [e.lo for e in got[0][0].arr.elems[:want]] != [ord(c) for c in content[:want]]:
                    bad.append('file content %r: set_hex receives %s, expected the first %d bytes' % (content, [(g[1]) for g in got] if not threw(r) else 'nothing (throws)', want))
                    break
        for (kw, what) in (({'short_read': True}, 'a short read'), ({'no_file': True}, 'a file that cannot be opened')):
            r, got = run_file('abcd\n', **kw)
            if not threw(r) or got:
                bad.append('%s does not throw before any key is set' % what)
        r, got = run_file('')
        if not threw(r) or got:
            bad.append('an empty key file is accepted')
    except (absint.OutOfBounds, absint.Unsupported) as e:
        bad.append(str(e))
    ctx.check(not bad, R10, 'key::read_from_file:whole-file-minus-trailing-blanks-reaches-set_hex', '; '.join(bad[:3]), rf.where, detail={'file_contents': nfile})
    ks = P.fn(CR + '::key::set')
    bad = []
    try:
        for n_ in (0, 1, 5, 64, 65):
            it = absint.Interp(P, [], hooks={K + 'reset': zero})
            it.fields = {'f:' + K + 'data_': Cell(AV.const(0)), 'f:' + K + 'size_': Cell(AV.const(0))}
            it.call_fn(ks, [PV(Arr([AV.const(10 + j) for j in range(n_)] + [AV.const(0xEE)], 'ptr'), 0), AV.const(n_)])
            d_, z_ = it.fields['f:' + K + 'data_'].v, it.fields['f:' + K + 'size_'].v
            if not (isinstance(d_, PV) and d_.off == 0 and [e.lo for e in d_.arr.elems] == [10 + j for j in range(n_)] and z_.is_const() and z_.lo == n_):
                bad.append('set(ptr,%d) stores %s bytes, size %s' % (n_, len(d_.arr.elems) if isinstance(d_, PV) else 'no', z_))
    except (absint.OutOfBounds, absint.Unsupported) as e:
        bad.append(str(e))
    rs_ = [i for i in ks.calls() if ks.bcallee(i) == CR + '::key::reset']
    ctx.check(not bad and len(rs_) == 1 and all(q.before(ks, rs_[0], i) for i in ks.all_nodes() if ks.N(i)['k'] == 'CXXNewExpr'), R10, 'key::set:copies-len-bytes-after-reset', '; '.join(bad[:2]) or 'old key not released first', ks.where)
    for f in sorted([g for g in P.fns.values() if g.brecord == CR + '::key' and g.body is not None and (g.kind == 'ctor' or g.short == 'operator=') and g.params], key=lambda g: g.id):
        t0 = f.types[f.params[0]['t']] or ''
        p0 = q.param_by_index(f, 0)
        if 'key' in t0:
            cs_ = [i for i in f.calls() if f.bcallee(i) == CR + '::key::set']
            okc_ = len(cs_) == 1
            if okc_:
                a_ = f.args(cs_[0])
                src = lambda e, fld_, acc: (p0 in f.subtree_refs(e)) and (('f:' + K + fld_) in f.subtree_refs(e) or any(q.short_of(f.callee(j) or '') == acc for j in f.calls(e)))
                okc_ = src(a_[0], 'data_', 'data') and src(a_[1], 'size_', 'size')
                okc_ = okc_ and (f.kind == 'ctor' and q.always_before_exit(f, cs_) or f.kind != 'ctor')
            ctx.check(okc_, R10, 'key::%s(key const&):copies-other-data-and-size' % ('key' if f.kind == 'ctor' else 'operator='), 'the copy does not take (data,size) of the source key', f.where)
        elif len(f.params) == 1:
            cs_ = [i for i in f.calls() if f.bcallee(i) == CR + '::key::set_hex']
            okc_ = len(cs_) == 1
            if okc_:
                a_ = f.args(cs_[0])
                okc_ = p0 in f.subtree_refs(a_[0]) and p0 in f.subtree_refs(a_[1]) and any((f.callee(j) or '') in ('strlen', '__builtin_strlen') or q.short_of(f.callee(j) or '') in ('size', 'length') for j in f.calls(a_[1]))
            ctx.check(okc_, R10, 'key::key(%s):whole-text-to-set_hex' % t0[:20].strip(), 'the hexadecimal text is not handed whole (pointer, its length) to set_hex', f.where)
        elif len(f.params) == 2:
            cs_ = [i for i in f.calls() if f.bcallee(i) == CR + '::key::set']
            okc_ = len(cs_) == 1 and [f.ref_of(x) for x in f.args(cs_[0])] == [p0, q.param_by_index(f, 1)] and q.always_before_exit(f, cs_)
            ctx.check(okc_, R10, 'key::key(ptr,len):set', 'the binary key is not stored whole', f.where)
    for f in sorted([g for g in P.fns.values() if g.brecord == CR + '::key' and g.body is not None and g.kind == 'ctor'], key=lambda g: g.id):
        iz = dict((x.get('field', ''), f.const_value(x['n'])) for x in f.d.get('inits', []))
        ctx.check(iz.get('f:' + K + 'data_') == 0 and iz.get('f:' + K + 'size_') == 0, R10, 'key::key#%s:starts-empty' % ','.join((f.types[p_['t']] or '')[:12].strip() for p_ in f.params),
                  'the constructor does not start from the empty key (data_ = 0, size_ = 0): initialisers %s' % iz, f.where)
    ka = [g for g in P.fns.values() if g.brecord == CR + '::key' and g.short == 'operator=' and g.body is not None]
    for f in ka:
        p0 = q.param_by_index(f, 0)
        same = f.gate_edges(lambda atom, pol: f.N(atom)['k'] == 'BinaryOperator' and f.N(atom).get('op') in ('==', '!=') and p0 in f.subtree_refs(atom) and any(f.N(j)['k'] == 'CXXThisExpr' for j in f.walk(atom)) and
                            pol is (f.N(atom).get('op') == '=='))
        cs_ = [i for i in f.calls() if f.bcallee(i) == CR + '::key::set']
        reach = set(f.reachable_blocks(cut_edges=[(g_[0], g_[1]) for g_ in same])) if same else None
        ok_ = len(cs_) == 1 and (not same or f.point_of(cs_[0])[0] in reach)
        rets = [i for i in f.all_nodes() if f.N(i)['k'] == 'ReturnStmt']
        ok_ = ok_ and bool(rets) and all(any(f.N(j)['k'] == 'CXXThisExpr' for j in f.walk(i)) for i in rets)
        ctx.check(ok_, R10, 'key::operator=:assigns-from-a-different-key', 'assignment from a different key object does not reach set() (or does not return *this)', f.where)
    for f in [g for g in P.fns.values() if g.brecord == CR + '::key' and g.kind == 'ctor' and g.body is not None and len(g.params) == 1 and (g.types[g.params[0]['t']] or '').replace('const ', '').strip().startswith('char')]:
        p0 = q.param_by_index(f, 0)
        cs_ = [i for i in f.calls() if f.bcallee(i) == CR + '::key::set_hex']
        nonnull = f.gate_edges(lambda atom, pol: (f.N(atom)['k'] == 'BinaryOperator' and f.N(atom).get('op') in ('==', '!=') and f.ref_of(f.N(atom)['ch'][0]) == p0 and f.const_value(f.N(atom)['ch'][1]) == 0 and pol is (f.N(atom).get('op') == '!=')) or
                               (f.ref_of(atom) == p0 and pol is True))
        ok_ = len(cs_) == 1 and bool(nonnull) and f.only_through(cs_[0], nonnull)
        ctx.check(ok_, R10, 'key::key(char const*):non-null-text-decoded', 'a non-null text does not reach set_hex, or a null pointer does', f.where)
    for f in (sh, rf):
        rs_ = [i for i in f.calls() if f.bcallee(i) == CR + '::key::reset']
        others = [i for i in f.calls() if i not in rs_] + [i for i in f.all_nodes() if f.N(i)['k'] in ('ReturnStmt', 'CXXThrowExpr')]
        ctx.check(len(rs_) >= 1 and all(q.before(f, rs_[0], i) for i in others if not f.contains(rs_[0], i) and f.point_of(i) is not None), R10, 'key::%s:old-key-dropped-first' % f.short, 'the previous key is not released before anything else: an empty text would leave the old key in place', f.where)
    kr = P.fn(CR + '::key::reset')
    it = absint.Interp(P, [], hooks={'memset': zero})
    it.fields = {'f:' + K + 'data_': Cell(PV(Arr([AV.const(65)] * 5, 'k'), 0)), 'f:' + K + 'size_': Cell(AV.const(5))}
    try:
        it.call_fn(kr, [])
        d_, z_ = it.fields['f:' + K + 'data_'].v, it.fields['f:' + K + 'size_'].v
        okr_ = isinstance(d_, AV) and d_.is_const() and d_.lo == 0 and isinstance(z_, AV) and z_.is_const() and z_.lo == 0
    except (absint.OutOfBounds, absint.Unsupported):
        okr_ = False
    ctx.check(okr_, R10, 'key::reset:leaves-the-empty-key', 'after reset() the key is not (data_ = 0, size_ = 0)', kr.where)
    for (nm_, fld_) in (('data', 'data_'), ('size', 'size_')):
        f = P.fn(CR + '::key::' + nm_)
        rets = [i for i in f.all_nodes() if f.N(i)['k'] == 'ReturnStmt']
        vals_ = [f.ref_of(f.N(i)['ch'][0]) if f.N(i)['ch'] else None for i in rets]
        nonfld = [i for i, v in zip(rets, vals_) if v != 'f:' + K + fld_]
        okd = ('f:' + K + fld_) in vals_ and (nm_ == 'size' and not nonfld or nm_ == 'data' and len(nonfld) <= 1)
        if okd and nm_ == 'data' and nonfld:
            it = absint.Interp(P, [])
            it.fields = {'f:' + K + 'data_': Cell(PV(Arr([AV.const(65), AV.const(0)], 'k'), 0)), 'f:' + K + 'size_': Cell(AV.const(1))}
            try:
                r_ = it.call_fn(f, [])
                okd = isinstance(r_, PV) and r_.arr.name == 'k' and r_.off == 0
            except (absint.OutOfBounds, absint.Unsupported):
                okd = False
        if okd and nm_ == 'data':
            it = absint.Interp(P, [])
            it.fields = {'f:' + K + 'data_': Cell(AV.const(0)), 'f:' + K + 'size_': Cell(AV.const(0))}
            try:
                r_ = it.call_fn(f, [])
                okd = isinstance(r_, PV)        # the empty key still yields a valid (empty) text, callers hand it to memcpy / append
            except (absint.OutOfBounds, absint.Unsupported):
                okd = False
        ctx.check(okd, R10, 'key::%s:returns-%s' % (nm_, fld_), 'the accessor does not return the stored %s' % fld_, f.where)

    # ---------------- R6 CBC chaining state (compiled back-end)
    PA = model.Program(build.extract([REPO + '/src/aes.cpp'], include_re='^/repo/(src|private|cppcms)/'))
    ctx.units.append('src/aes.cpp')
    # call sites as seen from the methods of the cipher object (a private helper that wraps the call is looked through)
    sites = [(f, i) for f in PA.fns.values() if f.kind == 'method' and f.short in ('encrypt', 'decrypt') for i in f.calls_deep() if f.callee(i) == 'AES_cbc_encrypt']
    if not sites:
        ctx.notes.append('C16.R6: the compiled cbc back-end does not call AES_cbc_encrypt (gcrypt build?): rule not applicable to this configuration')
        ctx.check(True, R6, 'openssl-backend:absent', loc=REPO + '/src/aes.cpp')
    for (f, i) in sites:
        a = f.args(i)
        direction = f.const_value(a[5]) if len(a) == 6 else None
        ivp = f.access_path(a[4]) if len(a) == 6 else None
        keyrefs = [model.strip_targs(r).rsplit('::', 1)[-1] for r in f.subtree_refs(a[3])] if len(a) == 6 else []
        want_iv, want_key = ('iv_enc_', 'key_enc_') if direction == 1 else ('iv_dec_', 'key_dec_')
        ok = ivp is not None and len(ivp) == 2 and ivp[0] == 'this' and ivp[1].rsplit('::', 1)[-1] == want_iv
        ctx.check(ok, R6, '%s:AES_cbc_encrypt:chains-through-%s' % (f.short, want_iv), 'the IV handed to AES_cbc_encrypt is not the member chaining buffer of this direction: the next call restarts from a stale IV', f.loc(i))
        ctx.check(want_key in keyrefs, R6, '%s:AES_cbc_encrypt:key-schedule-%s' % (f.short, want_key), 'wrong key schedule for this direction', f.loc(i))
        ctx.check((f.short == 'encrypt') == (direction == 1), R6, '%s:AES_cbc_encrypt:direction' % f.short, 'direction flag does not match the method', f.loc(i))
    if sites:
        rec = sites[0][0].record
        siv = [f for f in PA.fns.values() if f.record == rec and f.short == 'set_iv']
        okiv = len(siv) == 1
        if okiv:
            tg = set()
            for i in siv[0].calls():
                if siv[0].callee(i) in ('memcpy',):
                    ap_ = siv[0].access_path(siv[0].args(i)[0])
                    if ap_:
                        tg.add(ap_[-1].rsplit('::', 1)[-1])
            okiv = tg == {'iv_enc_', 'iv_dec_'}
        ctx.check(okiv, R6, 'set_iv:fills-both-directions', 'set_iv does not initialise both chaining buffers', siv[0].where if siv else sites[0][0].where)

    # ---------------- R7 md5_process reads the block it is given
    datap = q.param_by_index(mp, 1)
    ctx.require(datap is not None and 'char' in (mp.types[mp.params[1]['t']] or ''), 'C16.R7: md5_process(state, data) signature changed')
    n7 = 0
    for i in mp.calls():
        if mp.callee(i) in ('memcpy', 'memmove', '__builtin_memcpy'):
            a = mp.args(i)
            n7 += 1
            ctx.check(mp.ref_of(a[1]) == datap and (mp.ref_of(a[0]) or '').startswith('v:') and mp.const_value(a[2]) == 64, R7, 'md5_process:copy#%d:64-bytes-from-data' % n7,
                      'the word buffer is not filled with the 64 bytes of the block handed in', mp.loc(i))
    locals_ptr = set()
    for i in mp.all_nodes():
        if mp.N(i)['k'] == 'DeclStmt':
            for d in mp.N(i)['decls']:
                if (mp.types[d['t']] or '').rstrip().endswith('*'):
                    locals_ptr.add(d['ref'])
    for v in sorted(locals_ptr):
        for (dn, val) in mp.defs_of_var(v):
            if val is None:
                continue
            mval = mp.N(mp.strip(val))
            if mval['k'] in ('BinaryOperator', 'CompoundAssignOperator', 'UnaryOperator') and v in mp.subtree_refs(val) and mp.const_value(mval['ch'][-1]) is not None:
                continue            # stepping the pointer itself (xp += 4)
            refs = set(r for r in mp.subtree_refs(val) if r.startswith(('v:', 'p:', 'f:', 'sv:', 'g:')))
            n7 += 1
            ctx.check(bool(refs) and all(r == datap or r.startswith('v:') for r in refs), R7, 'md5_process:%s:derived-from-data' % v.split(':')[1].split('@')[0],
                      'message words are read through a pointer that is not derived from the block handed in: %s' % sorted(refs - {datap}), mp.loc(dn))
    ctx.check(n7 >= 2, R7, 'md5_process:block-sources-found', 'expected the aligned / unaligned sources of the message words', mp.where)
    # ---------------- R8 MD5 buffering and padding by abstract interpretation (md5_append / md5_finish interpreted, md5_process replaced by a recorder)
    ma, mf = P.fn('cppcms::impl::md5_append'), P.fn('cppcms::impl::md5_finish')
    fld = {}
    for g_ in (ma, mf):
        for i in g_.all_nodes():
            n_ = g_.N(i)
            if n_['k'] == 'MemberExpr' and (n_.get('ref') or '').startswith('f:'):
                fld[n_['ref'].rsplit('::', 1)[-1]] = n_['ref']
    ctx.require(all(x in fld for x in ('count', 'abcd', 'buf')), 'C16.R8: md5_state_t fields count/abcd/buf not found in md5_append / md5_finish (%s)' % sorted(fld))
    ABCD = [0x01020304, 0x11121314, 0x21222324, 0x31323334]

    def md5_machine(fill, count0, count1):
        blocks = []

        def hook(it, fn, i, env):
            a = fn.args(i)
            p = it.rvalue(fn, a[1], env)
            if isinstance(p, Arr):
                p = PV(p, 0)
            if not isinstance(p, PV):
                raise absint.Unsupported('md5_process block argument')
            blocks.append([it.load(('elem', PV(p.arr, p.off + j))) for j in range(64)])
            return None
        it = absint.Interp(P, [], hooks={'cppcms::impl::md5_process': hook})
        buf = Arr([AV.const(500 + j) if j < fill else AV.const(0x7777) for j in range(64)], 'buf')
        it.fields = {fld['buf']: Cell(buf), fld['count']: Cell(Arr([AV.const(count0), AV.const(count1)], 'count')), fld['abcd']: Cell(Arr([AV.const(v) for v in ABCD], 'abcd'))}
        return it, blocks, buf

    def tag(e):
        return e.lo if e.is_const() else None
    bad = []
    nruns = 0
    grid = [(o, n) for o in range(64) for n in range(1, 131)] + [(o, n) for o in (0, 1, 63) for n in (191, 192, 193, 255, 256, 257)]
    for (off, nb) in grid:
        base = 0 if (off + nb) % 2 else 64 * 8 * 3
        it, blocks, buf = md5_machine(off, base + off * 8, 0)
        data = Arr([AV.const(1000 + j) for j in range(nb)], 'data')
        try:
            it.call_fn(ma, [PV(Arr([AV.const(0)], 'pms'), 0), PV(data, 0), AV.const(nb)])
        except (absint.OutOfBounds, absint.Unsupported) as e:
            bad.append((off, nb, str(e)))
            continue
        nruns += 1
        stream = [500 + j for j in range(off)] + [1000 + j for j in range(nb)]
        want = [stream[k:k + 64] for k in range(0, len(stream) - 63, 64)]
        rest = stream[len(want) * 64:]
        got = [[tag(e) for e in b] for b in blocks]
        cnt = it.fields[fld['count']].v.elems
        if got != want:
            bad.append((off, nb, 'blocks handed to md5_process are not the 64-byte tiles of the byte stream (%d handed, %d expected%s)' % (len(got), len(want), '' if len(got) != len(want) else ', contents differ')))
        elif [tag(e) for e in buf.elems[:len(rest)]] != rest:
            bad.append((off, nb, 'the %d pending bytes are not kept at the start of the buffer' % len(rest)))
        elif (tag(cnt[0]), tag(cnt[1])) != (base + (off + nb) * 8, 0):
            bad.append((off, nb, 'bit count after the call is (%s,%s), expected (%d,0)' % (tag(cnt[0]), tag(cnt[1]), base + (off + nb) * 8)))
    ctx.check(not bad, R8, 'md5_append:tiles-the-stream:every-fill-level-x-length', ('pending %d bytes, append of %d: %s' % bad[0]) if bad else '', ma.where, detail={'runs': nruns, 'grid': len(grid)})
    # carry of the 64-bit bit count
    it, blocks, buf = md5_machine(0, 0xFFFFFE00, 7)
    okc = False
    why = ''
    try:
        it.call_fn(ma, [PV(Arr([AV.const(0)], 'pms'), 0), PV(Arr([AV.const(1000 + j) for j in range(128)], 'data'), 0), AV.const(128)])
        cnt = it.fields[fld['count']].v.elems
        okc = (tag(cnt[0]), tag(cnt[1])) == (0x200, 8)
        why = 'count = (%s,%s), expected (0x200, 8)' % (tag(cnt[0]), tag(cnt[1]))
    except (absint.OutOfBounds, absint.Unsupported) as e:
        why = str(e)
    ctx.check(okc, R8, 'md5_append:bit-count-carries-into-the-high-word', why, ma.where)
    nil = md5_machine(5, 64 * 8 + 40, 0)
    try:
        nil[0].call_fn(ma, [PV(Arr([AV.const(0)], 'pms'), 0), PV(Arr([AV.const(1)], 'data'), 0), AV.const(0)])
        cnt = nil[0].fields[fld['count']].v.elems
        okn = not nil[1] and tag(cnt[0]) == 64 * 8 + 40 and [tag(e) for e in nil[2].elems[:5]] == [500 + j for j in range(5)]
    except (absint.OutOfBounds, absint.Unsupported) as e:
        okn = False
    ctx.check(okn, R8, 'md5_append:empty-piece-changes-nothing', 'an append of zero bytes changes the state', ma.where)
    # the high word receives the bits of a piece that do not fit the low word: evaluated on the expression stored into count[1]
    npar = q.param_by_index(ma, 2)
    hi_adds = []
    for i in ma.all_nodes():
        n_ = ma.N(i)
        if n_['k'] == 'CompoundAssignOperator' and n_.get('op') == '+=':
            l_ = ma.N(ma.strip(n_['ch'][0]))
            if l_['k'] == 'ArraySubscriptExpr' and ma.N(ma.strip(l_['ch'][0])).get('ref') == fld['count'] and ma.const_value(l_['ch'][1]) == 1:
                hi_adds.append(n_['ch'][1])
    okh = len(hi_adds) == 1
    whyh = '%d additions to count[1] found' % len(hi_adds)
    if okh:
        for v in (1, (1 << 29) - 1, 1 << 29, (3 << 29) + 5, 0x7FFFFFFF):
            it = absint.Interp(P, [])
            it.fields = {}
            try:
                r_ = it.rvalue(ma, hi_adds[0], {npar: Cell(AV.const(v))})
                if not (r_.is_const() and r_.lo == v >> 29):
                    okh, whyh = False, 'a piece of %d bytes adds %s to the high word, expected %d' % (v, r_, v >> 29)
                    break
            except (absint.OutOfBounds, absint.Unsupported) as e:
                okh, whyh = False, str(e)
                break
    ctx.check(okh, R8, 'md5_append:high-word-gets-nbytes*8>>32', whyh, ma.where)
    mi_it, _, _ = md5_machine(0, 0x1234, 0x77)
    try:
        mi_it.call_fn(mi, [PV(Arr([AV.const(0)], 'pms'), 0)])
        st_ = [tag(e) for e in mi_it.fields[fld['abcd']].v.elems] + [tag(e) for e in mi_it.fields[fld['count']].v.elems]
        oki, whyi = [(x or 0) & 0xFFFFFFFF for x in st_] == INIT + [0, 0], 'state after md5_init is %s' % [hex((x or 0) & 0xFFFFFFFF) for x in st_]
    except (absint.OutOfBounds, absint.Unsupported) as e:
        oki, whyi = False, str(e)
    ctx.check(oki, R8, 'md5_init:A,B,C,D-and-zero-count', whyi, mi.where)
    bad = []
    for b in range(64):
        c0, c1 = (64 * 3 + b) * 8, 0x85868788
        it, blocks, buf = md5_machine(b, c0, c1)
        out = Arr([AV.const(0xEE)] * 16, 'digest')
        try:
            it.call_fn(mf, [PV(Arr([AV.const(0)], 'pms'), 0), PV(out, 0)])
        except (absint.OutOfBounds, absint.Unsupported) as e:
            bad.append((b, str(e)))
            continue
        stream = [500 + j for j in range(b)] + [0x80] + [0] * ((55 - b) % 64) + list(struct.pack('<II', c0, c1))
        want = [stream[k:k + 64] for k in range(0, len(stream), 64)]
        got = [[(tag(e) if tag(e) is None or tag(e) >= 500 else tag(e) & 0xFF) for e in bl] for bl in blocks]
        if got != want:
            bad.append((b, '%d block(s) compressed, expected %d%s' % (len(got), len(want), '' if len(got) != len(want) else '; padding / length bytes differ from RFC 1321 3.1-3.2')))
        elif [(tag(e) or 0) & 0xFF for e in out.elems] != list(struct.pack('<4I', *ABCD)):
            bad.append((b, 'digest bytes are not the little-endian state words A,B,C,D'))
    ctx.check(not bad, R8, 'md5_finish:padding-length-and-readout:every-fill-level', ('fill level %d: %s (messages of length = %d mod 64 get a non-standard digest)' % (bad[0][0], bad[0][1], bad[0][0])) if bad else '',
              mf.where, detail={'fill_levels': 64})
    ctx.floor(R8, 6)
    ctx.floor(R9, 9)
    ctx.floor(R10, 18)
    ctx.floor(R1, 25)
    ctx.floor(R7, 3)
    ctx.floor(R2, 6)
    ctx.floor(R3, 20)
    ctx.floor(R4, 9)
    ctx.floor(R5, 5)
    ctx.floor(R6, 1)
    ctx.trust('standard tables computed in rules/C16.py (sin table, sqrt constants, initial words, FIPS sizes); OpenSSL SHA2 primitives')
