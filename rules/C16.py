"""C16 — digests, HMAC and CBC compute the standard functions (structural / table / abstract-interpretation clauses)."""
import math, struct
from vlib import build, model, q, absint
from vlib.absint import AV, Arr, PV, Cell
from vlib.build import AnalysisBroken, REPO

CR = 'cppcms::crypto'
MD5_T = [int(abs(math.sin(i + 1)) * 2 ** 32) & 0xFFFFFFFF for i in range(64)]
MD5_S = [7, 12, 17, 22] * 4 + [5, 9, 14, 20] * 4 + [4, 11, 16, 23] * 4 + [6, 10, 15, 21] * 4
INIT = [0x67452301, 0xEFCDAB89, 0x98BADCFE, 0x10325476]
SHA1_K = [int(2 ** 30 * math.sqrt(x)) for x in (2, 3, 5, 10)]
SIZES = {'md5': (16, 64), 'sha1': (20, 64), 'sha224': (28, 64), 'sha256': (32, 64), 'sha384': (48, 128), 'sha512': (64, 128)}


def maximal_consts(f, root=None):
    """constant-folded values of maximal constant sub-expressions, in source order"""
    out = []
    for i in (f.walk(root) if root is not None else f.walk()):
        n = f.N(i)
        if 'cv' in n and n['k'] not in ('DeclRefExpr',):
            p = f.parent.get(i)
            if p is not None and 'cv' in f.N(p):
                continue
            out.append((n['l'], n['c'], n['cv'] & 0xFFFFFFFFFFFFFFFF))
    out.sort()
    return [v for (_, _, v) in out]


def is_subsequence(needle, hay):
    it = iter(hay)
    return all(any(x == y for y in it) for x in needle)


def run(ctx):
    ctx.explanation = ('Digest values for all messages are numerical and not decidable statically; decided are the code-shape and table clauses every correct implementation must satisfy: each readout re-initialises with the '
                       'initialiser of its own algorithm; the HMAC construction (pads, key hashing, inner/outer order); size table and name registry; the MD5 sine table, shifts, initial words, SHA-1 initial words and round constants '
                       'against independently computed standards; the SHA-1 padding decision for every block fill level by abstract interpretation; hex key decoding per byte.')
    P = model.Program(build.extract([REPO + '/src/crypto.cpp', REPO + '/src/md5.cpp'], include_re='^/repo/(src|private|cppcms)/'))
    ctx.units = ['src/crypto.cpp', 'src/md5.cpp']
    ctx.stats['functions'] = len(P.fns)
    R1 = ctx.rule('C16.R1', 'every message_digest::readout finalises and then re-initialises with the initialiser of the same algorithm; append/ctor use the same family')
    R2 = ctx.rule('C16.R2', 'HMAC shape: long keys hashed, ipad 0x36 -> inner, opad 0x5c -> outer over the whole block; readout = inner, outer(append digest), outer readout, re-init')
    R3 = ctx.rule('C16.R3', 'digest / block sizes and the name registry agree with FIPS 180-4 / RFC 1321')
    R4 = ctx.rule('C16.R4', 'MD5 sine table, shift amounts and initial words; SHA-1 initial words, round constants and padding decision equal the standards')
    R6 = ctx.rule('C16.R6', 'AES-CBC (OpenSSL back-end): the chaining value lives in the object - every AES_cbc_encrypt call is given the member IV of its direction, set_iv fills both, and each direction uses its own key schedule')
    R7 = ctx.rule('C16.R7', 'md5_process compresses the block it was handed: every pointer the message words are read through, and every copy into the word buffer, is derived from the `data` parameter (never from the state\'s pending-bytes buffer)')
    R5 = ctx.rule('C16.R5', 'hex key decoding: exactly [0-9A-Fa-f] accepted, value = nibble, odd length rejected')

    # ---------------- R1
    ros = P.overriders_of(CR + '::message_digest::readout')
    ctx.require(len(ros) >= 6, 'C16.R1: expected >=6 message_digest::readout overriders, found %d' % len(ros))
    fam = {}
    for f in sorted(ros, key=lambda g: g.id):
        cls = f.brecord.rsplit('::', 1)[-1]
        calls = [(i, f.callee(i) or '') for i in f.calls()]
        ok = False
        why = ''
        if cls == 'md5_digets':
            fin = [i for i, c in calls if c.endswith('md5_finish')]
            ini = [i for i, c in calls if c.endswith('md5_init')]
            ok = len(fin) == 1 and len(ini) == 1 and q.before(f, fin[0], ini[0]) and q.always_before_exit(f, ini)
            fam[cls] = 'md5'
        elif cls == 'sha1_digets':
            fin = [i for i, c in calls if c.endswith('sha1::get_digest')]
            ini = [i for i, c in calls if c.endswith('sha1::reset')]
            ok = len(fin) == 1 and len(ini) == 1 and q.before(f, fin[0], ini[0]) and q.always_before_exit(f, ini)
            fam[cls] = 'sha1'
        elif cls.startswith('ssl_sha'):
            nbits = cls[len('ssl_sha'):]
            fin = [i for i, c in calls if c == 'SHA%s_Final' % nbits]
            ini = [i for i, c in calls if c == 'SHA%s_Init' % nbits]
            other = [c for i, c in calls if c.startswith('SHA') and not c.startswith('SHA%s_' % nbits)]
            ok = len(fin) == 1 and len(ini) == 1 and not other and q.before(f, fin[0], ini[0]) and q.always_before_exit(f, ini)
            why = 'calls %s' % [c for _, c in calls if c.startswith('SHA')]
            fam[cls] = 'sha' + nbits
        else:
            why = 'unknown digest class'
        ctx.check(ok, R1, '%s::readout:finalise-then-own-init' % cls, 'readout does not re-initialise with its own algorithm (%s): the object computes a different function from the second message on' % why, f.where)
    for f in [g for g in P.fns.values() if g.brecord and g.brecord.rsplit('::', 1)[-1].startswith('ssl_sha') and (g.kind == 'ctor' or g.short == 'append')]:
        nbits = f.brecord.rsplit('::', 1)[-1][len('ssl_sha'):]
        import re as _re
        sha = [f.callee(i) for i in f.calls() if _re.match(r'^SHA\d+_', f.callee(i) or '')]
        want = 'SHA%s_Init' % nbits if f.kind == 'ctor' else 'SHA%s_Update' % nbits
        ctx.check(sha == [want], R1, 'ssl_sha%s::%s:own-family' % (nbits, 'ctor' if f.kind == 'ctor' else 'append'), 'uses %s instead of %s' % (sha, want), f.where)

    # ---------------- R3
    for f in [g for g in P.fns.values() if g.short in ('digest_size', 'block_size', 'name') and g.brecord and g.brecord.rsplit('::', 1)[-1] in fam]:
        cls = f.brecord.rsplit('::', 1)[-1]
        alg = fam[cls]
        rets = [r for r in f.returns() if f.ret_value(r) is not None]
        if f.short == 'name':
            lits = [f.N(j).get('s') for r in rets for j in f.walk(r) if f.N(j)['k'] == 'StringLiteral']
            ctx.check(lits == [alg], R3, '%s::name' % cls, 'name() returns %s' % lits, f.where)
            continue
        want = SIZES[alg][0 if f.short == 'digest_size' else 1]
        vals = set()
        for r in rets:
            vals.add(f.const_value(f.ret_value(r)))
        # block_size of the ssl classes is `if(len>=384) return 128; else return 64;` with len constant: evaluate the branch
        if len(vals) > 1:
            it = absint.Interp(P, [])
            v = it.call_fn(f, [])
            vals = {v.lo} if v.is_const() else vals
        ctx.check(vals == {want}, R3, '%s::%s=%d' % (cls, f.short, want), '%s() = %s, the standard says %d' % (f.short, sorted(x for x in vals if x is not None), want), f.where)
    cbn = P.fn(CR + '::message_digest::create_by_name')
    pairs = 0
    for i in cbn.all_nodes():
        n = cbn.N(i)
        if n['k'] == 'IfStmt':
            lits = [cbn.N(j).get('s') for j in cbn.walk(n['cond']) if cbn.N(j)['k'] == 'StringLiteral']
            if len(lits) != 1:
                continue
            then = n['then']
            news = [cbn.N(j).get('nt', '') for j in cbn.walk(then) if cbn.N(j)['k'] == 'CXXNewExpr']
            callsx = [cbn.bcallee(j) for j in cbn.calls(then) if (cbn.bcallee(j) or '').startswith(CR + '::message_digest::')]
            got = None
            if news:
                got = fam.get(news[0].rsplit('::', 1)[-1])
            elif callsx:
                got = callsx[0].rsplit('::', 1)[-1]
            pairs += 1
            ctx.check(got == lits[0], R3, 'create_by_name:%s' % lits[0], 'name %s creates a %s digest' % (lits[0], got), cbn.loc(i))
    ctx.require(pairs >= 6 or ctx.violations, 'C16.R3: create_by_name branches not found')

    # ---------------- R2
    hi = P.fn(CR + '::hmac::init')
    bsv = [d['ref'] for i in hi.all_nodes() if hi.N(i)['k'] == 'DeclStmt' for d in hi.N(i)['decls'] if d.get('init') is not None and any(q.short_of(hi.callee(j)) == 'block_size' for j in hi.calls(d['init']))]

    def whole(f, L, cont, bound_vars):
        """loop L of f visits every element of container variable `cont`: index 0..size()/block size, or begin()..end()"""
        cl = q.counting_loop(f, L)
        if cl is not None and cl['start'] == 0 and cl['step'] == 1 and cl['op'] == '<':
            b = cl['bound']
            if f.ref_of(b) in bound_vars:
                return True
            return any(q.short_of(f.bcallee(c) or '') == 'size' and f.obj(c) is not None and f.ref_of(f.obj(c)) == cont for c in f.calls(b))
        n_ = f.N(L)
        if n_['k'] == 'CXXForRangeStmt':
            return cont in f.subtree_refs(n_.get('range', L))
        if n_['k'] == 'ForStmt' and n_.get('init', -1) is not None and n_.get('init', -1) >= 0 and n_.get('cond', -1) is not None and n_.get('cond', -1) >= 0:
            b_ok = any(q.short_of(f.bcallee(c) or '') == 'begin' and f.obj(c) is not None and f.ref_of(f.obj(c)) == cont for c in f.calls(n_['init']))
            e_ok = any(q.short_of(f.bcallee(c) or '') == 'end' and f.obj(c) is not None and f.ref_of(f.obj(c)) == cont for c in f.calls(n_['cond']))
            inc = n_.get('inc', -1)
            esc = [j for j in f.walk(n_['body']) if f.N(j)['k'] in ('BreakStmt', 'ReturnStmt', 'GotoStmt', 'ContinueStmt')]
            arith = [j for part in (n_['init'], n_['cond']) for j in f.walk(part) if f.N(j).get('op') in ('+', '-', '+=', '-=', '++', '--') and f.N(j)['k'] in ('BinaryOperator', 'CXXOperatorCallExpr', 'UnaryOperator', 'CompoundAssignOperator')]
            return b_ok and e_ok and inc is not None and inc >= 0 and not esc and not arith
        return False
    xs = []        # (pad variable, constant, site, whole block covered)
    for i in hi.all_nodes():
        n = hi.N(i)
        if n['k'] == 'CompoundAssignOperator' and n.get('op') == '^=':
            tgt = [r for r in hi.subtree_refs(n['ch'][0]) if r.startswith('v:') and r not in [x for L in q.enclosing_loops(hi, i) for x in [(q.counting_loop(hi, L) or {}).get('var')]]]
            lp = q.enclosing_loops(hi, i)
            xs.append((tgt[0] if tgt else '?', hi.const_value(n['ch'][1]), i, len(lp) == 1 and bool(tgt) and whole(hi, lp[0], tgt[0], bsv)))
    for c in hi.calls():
        g = P.fns.get(hi.N(c).get('callee') or '')
        a = hi.args(c)
        if g is None or g.entry is None or len(a) != 2 or len(g.params) != 2 or hi.const_value(a[1]) is None or not (hi.ref_of(a[0]) or '').startswith('v:'):
            continue
        gx = [j for j in g.all_nodes() if g.N(j)['k'] == 'CompoundAssignOperator' and g.N(j).get('op') == '^=']
        if len(gx) != 1 or g.ref_of(g.N(gx[0])['ch'][1]) != g.params[1]['ref']:
            continue
        lp = q.enclosing_loops(g, gx[0])
        tgt_ok = g.params[0]['ref'] in q.deep_refs(g, g.N(gx[0])['ch'][0]) or (len(lp) == 1 and g.params[0]['ref'] in g.subtree_refs(g.N(lp[0]).get('init', lp[0]) if g.N(lp[0]).get('init', -1) not in (None, -1) else lp[0]))
        others = [w for w in q.writes_to(g, g.params[0]['ref']) if w != gx[0] and not g.contains(gx[0], w) and not g.contains(w, gx[0])]
        xs.append((hi.ref_of(a[0]), hi.const_value(a[1]), c, tgt_ok and len(lp) == 1 and whole(g, lp[0], g.params[0]['ref'], []) and not [w for w in others if g.N(w)['k'] in ('BinaryOperator', 'CompoundAssignOperator')]))
    nm = lambda r: r.split('@')[0][2:] if r and r != '?' else '?'
    ctx.check(sorted((nm(a), b) for a, b, _, _ in xs) == [('ipad', 0x36), ('opad', 0x5c)], R2, 'hmac::init:pads-0x36-0x5c', 'pad constants are %s' % [(nm(a), hex(b or 0)) for a, b, _, _ in xs], hi.where)
    ctx.check(bool(xs) and all(w_ for _, _, _, w_ in xs), R2, 'hmac::init:pads-cover-whole-block', 'pad loop does not run over the whole block', hi.where)
    apps = [i for i in hi.calls() if q.short_of(hi.callee(i)) == 'append' and hi.bcallee(i) == CR + '::message_digest::append']
    side = {}
    for i in apps:
        o = model.strip_targs(hi.access_path(hi.obj(i))[-1]) if hi.access_path(hi.obj(i)) else ''
        arg = [r.split('@')[0][2:] for r in hi.subtree_refs(hi.args(i)[0]) if r.startswith('v:')]
        side.setdefault(o.rsplit('::', 1)[-1], []).append(arg[0] if arg else 'key')
    ctx.check(side.get('md_opad_') == ['opad'] and side.get('md_', [])[-1:] == ['ipad'], R2, 'hmac::init:ipad-inner-opad-outer', 'pads are fed to the wrong digest objects: %s' % side, hi.where)
    g_long = hi.gate_edges(lambda atom, pol: hi.N(atom)['k'] == 'BinaryOperator' and hi.N(atom).get('op') == '>' and any(q.short_of(hi.callee(j)) == 'size' for j in q.expr_calls_deep(hi, hi.N(atom)['ch'][0])) and pol is True)
    ro_in = [i for i in hi.calls() if hi.bcallee(i) == CR + '::message_digest::readout']
    ctx.check(len(ro_in) == 1 and hi.only_through(ro_in[0], g_long), R2, 'hmac::init:long-key-hashed', 'keys longer than the block are not replaced by their digest (or short ones are)', hi.where)
    hr = P.fn(CR + '::hmac::readout')
    seq = []
    for i in sorted(hr.calls(), key=lambda j: hr.point_of(j) or (0, 0)):
        bc = hr.bcallee(i) or ''
        if bc.startswith(CR + '::message_digest::') and q.short_of(bc) in ('readout', 'append'):
            o = model.strip_targs(hr.access_path(hr.obj(i))[-1]).rsplit('::', 1)[-1] if hr.obj(i) is not None and hr.access_path(hr.obj(i)) else '?'
            seq.append((o, q.short_of(bc)))
        elif bc == CR + '::hmac::init':
            seq.append(('this', 'init'))
    ctx.check(seq == [('md_', 'readout'), ('md_opad_', 'append'), ('md_opad_', 'readout'), ('this', 'init')], R2, 'hmac::readout:inner-then-outer-then-reinit', 'readout sequence is %s' % seq, hr.where)
    outp = q.param_by_index(hr, 0)
    last = [i for i in hr.calls() if hr.bcallee(i) == CR + '::message_digest::readout' and hr.ref_of(hr.args(i)[0]) == outp]
    ctx.check(len(last) == 1 and 'md_opad_' in ''.join(hr.access_path(hr.obj(last[0])) or ()), R2, 'hmac::readout:result-is-outer-digest', 'caller receives something other than the outer digest', hr.where)

    # ---------------- R4
    mp = P.fn('cppcms::impl::md5_process', must=False) or [f for f in P.fns.values() if f.short == 'md5_process'][0]
    consts = maximal_consts(mp)
    c32 = [v & 0xFFFFFFFF for v in consts]
    ctx.check(is_subsequence(MD5_T, c32), R4, 'md5_process:sine-table-T1..T64-in-order', 'the 64 additive constants are not floor(2^32*|sin(i+1)|) in order', mp.where, detail={'found_large_constants': len([v for v in c32 if v > 0xFFFF])})
    smalls = [v for v in consts if v in (4, 5, 6, 7, 9, 10, 11, 12, 14, 15, 16, 17, 20, 21, 22, 23)]
    # each SET(a,b,c,d,k,s,Ti) mentions k then s: the shifts appear (possibly interleaved with k values) in order
    ctx.check(is_subsequence(MD5_S, consts), R4, 'md5_process:rotate-amounts-in-order', 'per-round rotate amounts differ from RFC 1321', mp.where)
    mi = [f for f in P.fns.values() if f.short == 'md5_init'][0]
    ci = [v & 0xFFFFFFFF for v in maximal_consts(mi)]
    ctx.check(is_subsequence(INIT, ci), R4, 'md5_init:initial-words', 'MD5 initial state differs from RFC 1321', mi.where)
    pad = [g for g in P.globals.values() if g['name'].endswith('pad') and g['file'].endswith('md5.cpp')]
    okp = False
    if pad:
        tb = absint.Interp(P, []).eval_global(pad[0])
        vals = [e.lo for e in tb.elems]
        okp = len(vals) == 64 and vals[0] == 0x80 and not any(vals[1:])
    ctx.check(okp, R4, 'md5:padding-vector-0x80-then-zeros', 'MD5 padding vector is not 0x80 followed by 63 zero bytes', pad[0]['file'] if pad else mi.where)
    sr = P.fn('cppcms::impl::sha1::reset')
    cs = [v & 0xFFFFFFFF for v in maximal_consts(sr)]
    ctx.check(is_subsequence(INIT + [0xC3D2E1F0], cs), R4, 'sha1::reset:initial-words', 'SHA-1 initial state differs from FIPS 180', sr.where)
    spb = [f for f in P.by_bname.get('cppcms::impl::sha1::process_block', []) if not f.params]
    ctx.require(spb, 'C16.R4: sha1::process_block() not found')
    ck = [v & 0xFFFFFFFF for v in maximal_consts(spb[0])]
    ctx.check(is_subsequence(SHA1_K, ck), R4, 'sha1::process_block:round-constants', 'SHA-1 round constants differ from floor(2^30*sqrt{2,3,5,10})', spb[0].where)
    # padding decision by abstract interpretation: for every fill level b of the last block
    gd = P.fn('cppcms::impl::sha1::get_digest')
    F = 'f:cppcms::impl::sha1::'
    bad = []
    for b in range(64):
        blocks = []

        def hook(it, fn, i, env):
            if fn.args(i):
                return NotImplemented
            blocks.append([e for e in it.fields[F + 'block_'].v.elems])
            return None
        it = absint.Interp(P, [], hooks={'cppcms::impl::sha1::process_block': hook})
        msg_len = 64 * 3 + b
        it.fields = {F + 'block_': Cell(Arr([AV.const(0x11)] * 64, 'block_')), F + 'block_byte_index_': Cell(AV.const(b)), F + 'byte_count_': Cell(AV.const(msg_len)),
                     F + 'h_': Cell(Arr([AV.const(0)] * 5, 'h_'))}
        out = Arr([AV.const(0)] * 5, 'digest')
        it.call_fn(gd, [PV(out, 0)])
        want_blocks = 1 if b <= 55 else 2
        okb = len(blocks) == want_blocks
        if okb:
            last = [e.lo & 0xFF for e in blocks[-1]]
            first = [e.lo & 0xFF for e in blocks[0]]
            okb = first[b] == 0x80 and all(v == 0 for v in first[b + 1:(56 if want_blocks == 1 else 64)]) and last[56:] == list(struct.pack('>Q', msg_len * 8)) and \
                (want_blocks == 1 or all(v == 0 for v in last[:56])) and it.fields[F + 'block_byte_index_'].v.lo == 0
        if not okb:
            bad.append((b, len(blocks)))
    ctx.check(not bad, R4, 'sha1::get_digest:padding-for-every-fill-level', ('fill level %d: %d block(s) processed / wrong padding bytes (messages of length = %d mod 64 get a non-standard digest)' % (bad[0][0], bad[0][1], bad[0][0])) if bad else '',
              gd.where, detail={'fill_levels': 64})

    # ---------------- R5
    fh = P.fn(CR + '::key::from_hex')
    bad = []
    for (bx, r, it) in absint.explore(P, lambda it: it.call_fn(fh, [it.inbyte(0)]), [[(0, 255)]]):
        lo, hi_ = bx[0]
        for v in range(lo, hi_ + 1):
            ch = chr(v)
            exp = int(ch, 16) if ch in '0123456789abcdefABCDEF' else 0
        exp = frozenset((int(chr(v), 16) if chr(v) in '0123456789abcdefABCDEF' else 0) for v in range(lo, hi_ + 1))
        got = r.vals if r.vals is not None else frozenset(range(r.lo, r.hi + 1))
        if got != exp or (len(exp) > 1 and len(exp) != hi_ - lo + 1):
            bad.append((lo, hi_, r))
    ctx.check(not bad, R5, 'key::from_hex:nibble-values', ('bytes %02X-%02X decode to %r' % bad[0]) if bad else '', fh.where)
    sh = P.fn(CR + '::key::set_hex')
    thr = [i for i in sh.walk() if sh.N(i)['k'] == 'CXXThrowExpr']
    g_odd = sh.gate_edges(lambda atom, pol: sh.N(atom)['k'] == 'BinaryOperator' and sh.N(atom).get('op') == '!=' and any(sh.N(j)['k'] == 'BinaryOperator' and sh.N(j).get('op') == '%' and sh.const_value(sh.N(j)['ch'][1]) == 2 for j in sh.walk(atom)) and pol is True)
    g_even = sh.gate_edges(lambda atom, pol: sh.N(atom)['k'] == 'BinaryOperator' and sh.N(atom).get('op') == '!=' and any(sh.N(j)['k'] == 'BinaryOperator' and sh.N(j).get('op') == '%' and sh.const_value(sh.N(j)['ch'][1]) == 2 for j in sh.walk(atom)) and pol is False)
    news = [i for i in sh.all_nodes() if sh.N(i)['k'] == 'CXXNewExpr']
    ctx.check(len(thr) == 2 and any(sh.only_through(t, g_odd) for t in thr) and bool(news) and all(sh.only_through(nw, list(g_even)) for nw in news), R5, 'key::set_hex:odd-length-rejected', 'an odd number of hex digits is accepted', sh.where)
    # the whole decoder, evaluated abstractly on a two-character key with one character ranging over all byte values (each position):
    # it throws exactly when that character is not a hexadecimal digit, otherwise the stored byte is 16*high + low
    K = CR + '::key::'
    HEXV = {c: int(chr(c), 16) for c in range(256) if chr(c) in '0123456789abcdefABCDEF'}
    for pos in (0, 1):
        bad = []
        nb = 0
        for other in (0x30, 0x66, 0x41):
            def runh(it, pos=pos, other=other):
                it.hooks = {K + 'reset': lambda it_, fn_, i_, env_: AV.const(0)}
                it.fields = {'f:' + K + 'data_': Cell(AV.const(0)), 'f:' + K + 'size_': Cell(AV.const(0))}
                chars = [AV.const(other), AV.const(other)]
                chars[pos] = it.inbyte(0)
                arr = Arr(chars + [AV.const(0)], 'hex')
                r = it.call_fn(sh, [PV(arr, 0), AV.const(2)])
                return r, it.fields['f:' + K + 'data_'].v, it.fields['f:' + K + 'size_'].v
            for (bx, (r, data, size), it) in absint.explore(P, runh, [[(-128, 127)]]):
                nb += 1
                lo, hi_ = bx[0]
                vals = [v & 0xFF for v in range(lo, hi_ + 1)]
                threw = isinstance(r, tuple) and r and r[0] == 'throw'
                allhex, nonehex = all(v in HEXV for v in vals), not any(v in HEXV for v in vals)
                if not (allhex or nonehex) or threw != nonehex:
                    bad.append(('%02X-%02X' % (min(vals), max(vals)), 'threw' if threw else 'accepted'))
                    continue
                if not threw:
                    okv = isinstance(data, PV) and len(data.arr.elems) == 1 and isinstance(size, AV) and size.is_const() and size.lo == 1
                    if okv:
                        e = data.arr.elems[0]
                        got = set((x & 0xFF) for x in (e.vals if e.vals is not None else range(e.lo, e.hi + 1)))
                        want = set(((HEXV[v] << 4) + HEXV[other]) if pos == 0 else ((HEXV[other] << 4) + HEXV[v]) for v in vals)
                        okv = got == want
                    if not okv:
                        bad.append(('%02X-%02X' % (min(vals), max(vals)), 'decoded wrongly'))
        ctx.check(not bad, R5, 'key::set_hex:exact:position-%d' % pos, 'characters %s' % bad[:3], sh.where, detail={'boxes': nb})

    # ---------------- R6 CBC chaining state (compiled back-end)
    PA = model.Program(build.extract([REPO + '/src/aes.cpp'], include_re='^/repo/(src|private|cppcms)/'))
    ctx.units.append('src/aes.cpp')
    # call sites as seen from the methods of the cipher object (a private helper that wraps the call is looked through)
    sites = [(f, i) for f in PA.fns.values() if f.kind == 'method' and f.short in ('encrypt', 'decrypt') for i in f.calls_deep() if f.callee(i) == 'AES_cbc_encrypt']
    if not sites:
        ctx.notes.append('C16.R6: the compiled cbc back-end does not call AES_cbc_encrypt (gcrypt build?): rule not applicable to this configuration')
        ctx.check(True, R6, 'openssl-backend:absent', loc=REPO + '/src/aes.cpp')
    for (f, i) in sites:
        a = f.args(i)
        direction = f.const_value(a[5]) if len(a) == 6 else None
        ivp = f.access_path(a[4]) if len(a) == 6 else None
        keyrefs = [model.strip_targs(r).rsplit('::', 1)[-1] for r in f.subtree_refs(a[3])] if len(a) == 6 else []
        want_iv, want_key = ('iv_enc_', 'key_enc_') if direction == 1 else ('iv_dec_', 'key_dec_')
        ok = ivp is not None and len(ivp) == 2 and ivp[0] == 'this' and ivp[1].rsplit('::', 1)[-1] == want_iv
        ctx.check(ok, R6, '%s:AES_cbc_encrypt:chains-through-%s' % (f.short, want_iv), 'the IV handed to AES_cbc_encrypt is not the member chaining buffer of this direction: the next call restarts from a stale IV', f.loc(i))
        ctx.check(want_key in keyrefs, R6, '%s:AES_cbc_encrypt:key-schedule-%s' % (f.short, want_key), 'wrong key schedule for this direction', f.loc(i))
        ctx.check((f.short == 'encrypt') == (direction == 1), R6, '%s:AES_cbc_encrypt:direction' % f.short, 'direction flag does not match the method', f.loc(i))
    if sites:
        rec = sites[0][0].record
        siv = [f for f in PA.fns.values() if f.record == rec and f.short == 'set_iv']
        okiv = len(siv) == 1
        if okiv:
            tg = set()
            for i in siv[0].calls():
                if siv[0].callee(i) in ('memcpy',):
                    ap_ = siv[0].access_path(siv[0].args(i)[0])
                    if ap_:
                        tg.add(ap_[-1].rsplit('::', 1)[-1])
            okiv = tg == {'iv_enc_', 'iv_dec_'}
        ctx.check(okiv, R6, 'set_iv:fills-both-directions', 'set_iv does not initialise both chaining buffers', siv[0].where if siv else sites[0][0].where)

    # ---------------- R7 md5_process reads the block it is given
    datap = q.param_by_index(mp, 1)
    ctx.require(datap is not None and 'char' in (mp.types[mp.params[1]['t']] or ''), 'C16.R7: md5_process(state, data) signature changed')
    n7 = 0
    for i in mp.calls():
        if mp.callee(i) in ('memcpy', 'memmove', '__builtin_memcpy'):
            a = mp.args(i)
            n7 += 1
            ctx.check(mp.ref_of(a[1]) == datap and (mp.ref_of(a[0]) or '').startswith('v:') and mp.const_value(a[2]) == 64, R7, 'md5_process:copy#%d:64-bytes-from-data' % n7,
                      'the word buffer is not filled with the 64 bytes of the block handed in', mp.loc(i))
    locals_ptr = set()
    for i in mp.all_nodes():
        if mp.N(i)['k'] == 'DeclStmt':
            for d in mp.N(i)['decls']:
                if (mp.types[d['t']] or '').rstrip().endswith('*'):
                    locals_ptr.add(d['ref'])
    for v in sorted(locals_ptr):
        for (dn, val) in mp.defs_of_var(v):
            if val is None:
                continue
            mval = mp.N(mp.strip(val))
            if mval['k'] in ('BinaryOperator', 'CompoundAssignOperator', 'UnaryOperator') and v in mp.subtree_refs(val) and mp.const_value(mval['ch'][-1]) is not None:
                continue            # stepping the pointer itself (xp += 4)
            refs = set(r for r in mp.subtree_refs(val) if r.startswith(('v:', 'p:', 'f:', 'sv:', 'g:')))
            n7 += 1
            ctx.check(bool(refs) and all(r == datap or r.startswith('v:') for r in refs), R7, 'md5_process:%s:derived-from-data' % v.split(':')[1].split('@')[0],
                      'message words are read through a pointer that is not derived from the block handed in: %s' % sorted(refs - {datap}), mp.loc(dn))
    ctx.check(n7 >= 2, R7, 'md5_process:block-sources-found', 'expected the aligned / unaligned sources of the message words', mp.where)
    ctx.floor(R1, 14)
    ctx.floor(R7, 3)
    ctx.floor(R2, 6)
    ctx.floor(R3, 20)
    ctx.floor(R4, 7)
    ctx.floor(R5, 4)
    ctx.floor(R6, 1)
    ctx.trust('standard tables computed in rules/C16.py (sin table, sqrt constants, initial words, FIPS sizes); OpenSSL SHA2 primitives')
