"""C10 — networked cache with local L1 never serves data another node replaced (structural clauses)."""
from vlib import build, model, q, lockset
from vlib.lin import Lin
from vlib.build import AnalysisBroken, REPO
from rules.C05 import load

OI = 'cppcms::impl::cache_over_ip'
TC = 'cppcms::impl::tcp_cache'
SS = 'cppcms::impl::tcp_cache_service::session'
HDR = 'cppcms::impl::tcp_operation_header'


def real_args(f, call):
    return [a for a in f.args(call) if f.N(a)['k'] != 'CXXDefaultArgExpr']


def hdr_fields(f, root=None):
    """{'substruct.field': set('r','w')} accesses to members of tcp_operation_header::operations.<substruct> in f"""
    out = {}
    it = f.walk(root) if root is not None else f.all_nodes()
    for i in it:
        n = f.N(i)
        if n['k'] == 'MemberExpr' and n.get('ref', '').startswith('f:' + HDR) and '(anonymous struct)' in n['ref']:
            ap = f.access_path(i)
            if not ap or len(ap) < 3:
                continue
            names = [x.rsplit('::', 1)[-1] for x in ap]
            if 'operations' not in names:
                continue
            k = names.index('operations')
            if len(names) < k + 3:
                continue
            key = names[k + 1] + '.' + names[k + 2]
            out.setdefault(key, set()).add(lockset.classify_access(f, i))
    return out


def run(ctx):
    ctx.explanation = ('Structural rules over cache_over_ip.cpp, tcp_cache_client.cpp, tcp_connector.cpp, tcp_cache_server.cpp and the generation stamp in mem_cache: an L1 hit is always revalidated with the '
                       'generation it was stored under, every L1 copy is stored under the server generation, invalidations are broadcast, the server answers uptodate only for an equal generation, '
                       'sender and receiver of each message agree on the header fields, and the server slices its input only past the length checks.')
    P = load(ctx, ['src/cache_over_ip.cpp', 'src/tcp_cache_client.cpp', 'src/tcp_connector.cpp', 'src/tcp_cache_server.cpp', 'src/cache_storage.cpp', 'src/tcp_messenger.cpp'])
    R1 = ctx.rule('C10.R1', 'cache_over_ip::fetch: every hit is (re)validated by the server; L1 copies carry the server generation; not_found purges L1')
    R2 = ctx.rule('C10.R2', 'rise / clear are broadcast to all servers; store / fetch go to the server selected by the key hash')
    R3 = ctx.rule('C10.R3', 'server: uptodate only for an equal generation of a present entry; no_data exactly on a miss')
    R4 = ctx.rule('C10.R4', 'every store gets a fresh generation; the counter is written nowhere else')
    R5 = ctx.rule('C10.R5', 'wire format: receiver reads only header fields the sender wrote; lengths describe the payload; the value is always taken from the reply')
    R6 = ctx.rule('C10.R6', 'server slices its input buffer only past the length checks')
    R7 = ctx.rule('C10.R7', 'messenger::transmit returns normally only after the request was written and the reply read on the same connection (a reconnect re-sends or throws, never drops the request)')

    # ---------------- R1
    # result codes of tcp_cache::fetch (static const int members): name -> value, read off any constant-evaluated reference
    ENUMV = {}
    for f_ in P.fns.values():
        for n_ in f_.nodes:
            r_ = n_.get('ref') or ''
            if n_['k'] == 'DeclRefExpr' and 'tcp_cache::' in r_ and 'cv' in n_:
                ENUMV.setdefault(r_.rsplit('::', 1)[-1], n_['cv'])
    fe = P.fn(OI + '::fetch')
    keyp = q.param_by_index(fe, 0)
    genp = q.param_by_index(fe, 4)
    tf = [i for i in fe.calls() if fe.bcallee(i) == TC + '::fetch']
    l1f = [i for i in fe.calls() if fe.bcallee(i) == 'cppcms::impl::base_cache::fetch']
    l1s = [i for i in fe.calls() if fe.bcallee(i) == 'cppcms::impl::base_cache::store']
    l1r = [i for i in fe.calls() if fe.bcallee(i) == 'cppcms::impl::base_cache::remove']
    ctx.require(len(tf) >= 3 and len(l1f) == 1, 'C10.R1: expected >=3 server fetches and one L1 fetch in cache_over_ip::fetch (%d, %d)' % (len(tf), len(l1f)))
    succ = q.nonfalse_returns(fe)
    tfb = q.blocks_of(fe, tf)
    reach = fe.reachable_blocks(cut_blocks=tfb)
    for k, r in enumerate(succ):
        ctx.check(fe.point_of(r)[0] not in reach, R1, 'fetch:success#%d:server-consulted' % k, 'a value can be returned from L1 without asking the server', fe.loc(r))
    g_hit = q.call_gate(fe, lambda i: i in l1f, True)
    hit_tf = [i for i in tf if fe.only_through(i, g_hit)]
    ctx.check(len(hit_tf) == 1, R1, 'fetch:l1-hit:single-revalidation', 'expected one revalidating fetch on the L1-hit path', fe.where)
    for i in hit_tf:
        a = fe.args(i)
        ctx.check(fe.const_value(a[5]) == 1, R1, 'fetch:l1-hit:transfer_if_not_updated', 'L1 hit is not revalidated (transfer_if_not_updated is not true)', fe.loc(i))
        ctx.check(genp in fe.subtree_refs(a[4]) and genp in fe.subtree_refs(fe.args(l1f[0])[4]), R1, 'fetch:l1-hit:generation-from-l1', 'revalidation does not send the generation of the L1 copy', fe.loc(i))
        ctx.check(fe.ref_of(a[0]) == keyp, R1, 'fetch:l1-hit:same-key', 'revalidation asks for a different key', fe.loc(i))
        resv = None
        par = fe.parent.get(i)
        for j in fe.all_nodes():
            if fe.N(j)['k'] == 'DeclStmt':
                for d in fe.N(j)['decls']:
                    if d.get('init') is not None and i in set(fe.walk(d['init'])):
                        resv = d['ref']

        def res_is(name, want):
            def p(atom, pol):
                n = fe.N(atom)
                if n['k'] != 'BinaryOperator' or n.get('op') not in ('==', '!=') or not ((resv is not None and fe.ref_of(n['ch'][0]) == resv) or fe.strip(n['ch'][0]) == i):
                    return False
                named = any(x.endswith('tcp_cache::' + name) for x in fe.subtree_refs(n['ch'][1]))
                byval = ENUMV.get(name) is not None and fe.const_value(n['ch'][1]) == ENUMV.get(name)      # `case up_to_date:` of a switch over the result
                if not (named or byval):
                    return False
                return (pol is want) if n['op'] == '==' else (pol is (not want))
            return fe.gate_edges(p)
        # success without re-storing only when up_to_date
        upd = res_is('up_to_date', True)
        hit_succ = [r for r in succ if fe.only_through(r, g_hit)]
        for k, r in enumerate(hit_succ):
            ok = fe.only_through(r, upd) or any(fe.point_of(s)[0] == fe.point_of(r)[0] and q.before(fe, s, r) for s in l1s)
            ctx.check(ok, R1, 'fetch:l1-hit:success#%d:uptodate-or-refreshed' % k, 'L1 value returned although the server did not confirm it and L1 was not refreshed', fe.loc(r))
        nf = res_is('not_found', True)
        ctx.check(len(l1r) == 1 and fe.only_through(l1r[0], nf) and keyp in fe.subtree_refs(l1r[0]), R1, 'fetch:l1-hit:not_found-purges-l1', 'an entry the server no longer has stays in L1', fe.where)
        if l1r:
            fr = [r for r in q.false_returns(fe) if fe.point_of(r)[0] == fe.point_of(l1r[0])[0]]
            ctx.check(len(fr) == 1, R1, 'fetch:l1-hit:not_found-is-a-miss', 'not_found on revalidation still returns the L1 value', fe.where)
    for k, s in enumerate(l1s):
        a = real_args(fe, s)
        ok = len(a) == 5 and fe.ref_of(a[4]) == genp and fe.ref_of(a[0]) == keyp
        ctx.check(ok, R1, 'fetch:l1-store#%d:stored-under-server-generation' % k, 'L1 copy is not stamped with the generation received from the server (default gen=0 lets L1 invent one)', fe.loc(s))
        g_found = fe.gate_edges(lambda atom, pol: fe.N(atom)['k'] == 'BinaryOperator' and fe.N(atom).get('op') in ('==', '!=') and any(x.endswith('tcp_cache::found') for x in fe.subtree_refs(atom)) and
                                ((fe.N(atom)['op'] == '==' and pol is True) or (fe.N(atom)['op'] == '!=' and pol is False)))
        ctx.check(fe.only_through(s, list(g_found) + list(g_hit)), R1, 'fetch:l1-store#%d:only-server-data' % k, 'L1 filled without data from the server', fe.loc(s))
    miss_tf = [i for i in tf if i not in hit_tf]
    for k, i in enumerate(miss_tf):
        ctx.check(fe.const_value(fe.args(i)[5]) == 0 and fe.ref_of(fe.args(i)[0]) == keyp, R1, 'fetch:miss#%d:plain-fetch-of-key' % k, 'miss path sends a conditional fetch', fe.loc(i))
    st = P.fn(OI + '::store')
    ts = [i for i in st.calls() if st.bcallee(i) == TC + '::store']
    ctx.check(len(ts) == 1 and q.always_before_exit(st, ts), R1, 'store:always-reaches-the-server', 'a store may stay local', st.where)
    for name in ('rise', 'clear'):
        f = P.fn(OI + '::' + name)
        c = [i for i in f.calls() if f.bcallee(i) == TC + '::' + name]
        ctx.check(len(c) == 1 and q.always_before_exit(f, c), R1, '%s:always-reaches-the-servers' % name, '%s may stay local' % name, f.where)

    # ---------------- R2
    for name in ('rise', 'clear'):
        f = P.fn(TC + '::' + name)
        b = [i for i in f.calls() if f.bcallee(i) == 'cppcms::impl::tcp_connector::broadcast']
        ctx.check(len(b) == 1 and q.always_before_exit(f, b), R2, 'tcp_cache::%s:broadcast' % name, 'invalidation is not sent to every server', f.where)
    for name in ('store', 'fetch'):
        f = P.fn(TC + '::' + name)
        g = [i for i in f.calls() if f.bcallee(i) == 'cppcms::impl::tcp_connector::get']
        ctx.check(len(g) == 1 and f.ref_of(f.args(g[0])[0]) == q.param_by_index(f, 0), R2, 'tcp_cache::%s:server-selected-by-key' % name, 'server is not selected by the key', f.where)
    bc = P.fn('cppcms::impl::tcp_connector::broadcast')
    lp = [L for L in q.loops(bc) if [i for i in bc.calls(bc.N(L)['body']) if q.short_of(bc.callee(i)) == 'transmit']]
    ok = len(lp) == 1
    if ok:
        # index loop 0..conns over tcp[i], or pointer loop tcp..tcp+conns: the number of steps is `conns`, every step transmits on the current element
        from vlib import lin as _lin
        cl = q.counting_loop(bc, lp[0])
        L = bc.N(lp[0])
        ok = cl is not None and cl['step'] == 1 and cl['op'] in ('<', '!=')
        if ok:
            env = {}
            for _ in range(2):
                S0 = _lin.Symb(bc, env)
                for i_ in bc.all_nodes():
                    if bc.N(i_)['k'] == 'DeclStmt':
                        for d in bc.N(i_)['decls']:
                            if d.get('init') is not None and d['ref'] != cl['var'] and len(bc.defs_of_var(d['ref'])) == 1:
                                env[d['ref']] = S0.lin(d['init'])
            S = _lin.Symb(bc, env)
            span = S.lin(cl['bound']) - S.lin(cl['start_node'])
            conns_atoms = [a_ for a_ in span.atoms() if model.strip_targs(a_).endswith('tcp_connector::conns')]
            ok = len(conns_atoms) == 1 and (span - Lin.atom(conns_atoms[0])).key() == Lin.const(0).key()
            tr = [i for i in bc.calls(L['body']) if q.short_of(bc.callee(i)) == 'transmit']
            ok = ok and len(tr) == 1 and cl['var'] in bc.subtree_refs(bc.obj(tr[0])) and \
                not [j for j in bc.walk(L['body']) if bc.N(j)['k'] in ('BreakStmt', 'ReturnStmt', 'ContinueStmt')]
    ctx.check(ok, R2, 'broadcast:all-connections', 'broadcast does not reach every connection', bc.where)
    hs = P.fn('cppcms::impl::tcp_connector::hash')
    refs = set(model.strip_targs(x) for x in hs.subtree_refs(hs.body) if x.startswith(('f:', 'g:')))
    ctx.check(refs <= {'f:cppcms::impl::tcp_connector::conns'}, R2, 'hash:depends-only-on-key-and-conns', 'server choice depends on %s' % sorted(refs), hs.where)
    gt = P.fn('cppcms::impl::tcp_connector::get')
    ctx.check(any(gt.bcallee(i) == 'cppcms::impl::tcp_connector::hash' for i in gt.calls()), R2, 'get:uses-hash', 'get does not use hash(key)', gt.where)

    # ---------------- R3
    sf = P.fn(SS + '::fetch')
    cf = [i for i in sf.calls() if sf.bcallee(i) == 'cppcms::impl::base_cache::fetch']
    ctx.require(len(cf) == 1, 'C10.R3: server fetch does not query the cache once')
    genv = [x for x in sf.subtree_refs(sf.args(cf[0])[4]) if x.startswith('v:')]
    opw = {}
    for w in q.field_writes(sf, 'tcp_operation_header::opcode'):
        v = [x.rsplit('::', 1)[-1] for x in sf.subtree_refs(sf.N(w)['ch'][1]) if x.startswith('e:')]
        if v:
            opw.setdefault(v[0], []).append(w)
    g_miss = q.call_gate(sf, lambda i: i in cf, False)
    g_hit = q.call_gate(sf, lambda i: i in cf, True)

    def same_gen(atom, pol):
        n = sf.N(atom)
        return n['k'] == 'BinaryOperator' and n.get('op') == '==' and genv and genv[0] in sf.subtree_refs(atom) and any(x.endswith('current_gen') for x in sf.subtree_refs(atom)) and pol is True
    g_same = sf.gate_edges(same_gen)
    g_cond = sf.gate_edges(lambda atom, pol: any(x.endswith('transfer_if_not_uptodate') for x in sf.subtree_refs(atom)) and sf.N(atom)['k'] == 'MemberExpr' and pol is True)
    ctx.check(len(opw.get('uptodate', [])) == 1 and all(sf.only_through(w, g_same) and sf.only_through(w, g_hit) and sf.only_through(w, g_cond) for w in opw.get('uptodate', [])), R3,
              'session::fetch:uptodate-only-for-equal-generation', 'server can answer uptodate for a different generation / without being asked / on a miss', sf.where)
    ctx.check(len(opw.get('no_data', [])) == 1 and all(sf.only_through(w, g_miss) for w in opw.get('no_data', [])), R3, 'session::fetch:no_data-only-on-miss', 'no_data sent for a present entry', sf.where)
    ctx.check(len(opw.get('data', [])) == 1 and all(sf.only_through(w, g_hit) for w in opw.get('data', [])), R3, 'session::fetch:data-only-on-hit', 'data sent on a miss', sf.where)
    gw = [w for w in sf.all_nodes() if sf.N(w)['k'] == 'BinaryOperator' and sf.N(w).get('op') == '=' and (sf.ref_of(sf.N(w)['ch'][0]) or '').endswith('::generation') and 'tcp_operation_header' in (sf.ref_of(sf.N(w)['ch'][0]) or '')]
    ctx.check(len(gw) == 1 and genv and sf.ref_of(sf.N(gw[0])['ch'][1]) == genv[0], R3, 'session::fetch:reply-carries-entry-generation', 'reply generation is not the generation of the fetched entry', sf.where)

    # ---------------- R4
    n4 = 0
    for f in [g for g in P.fns.values() if g.brecord == 'cppcms::impl::mem_cache']:
        for w in q.field_writes(f, 'mem_cache::generation'):
            n4 += 1
            ctx.check(f.short == 'store' and f.N(w)['k'] == 'UnaryOperator' and f.N(w).get('op') == '++', R4, '%s[%s]:generation-write' % (f.short, f.record.split('<')[-1].rstrip('>').split('::')[-1]),
                      'generation counter changed outside store / not by increment', f.loc(w))
        if f.short == 'store':
            gp = q.param_by_index(f, 4)
            cw = q.field_writes(f, 'container::generation')
            g_null = f.gate_edges(lambda atom, pol, f=f, gp=gp: f.ref_of(atom) == gp and pol is False)
            ok = len(cw) == 2
            fresh = [w for w in cw if any(model.strip_targs(x).endswith('mem_cache::generation') for x in f.subtree_refs(f.N(w)['ch'][1]))]
            given = [w for w in cw if gp in f.subtree_refs(f.N(w)['ch'][1])]
            ok = ok and len(fresh) == 1 and len(given) == 1 and f.only_through(fresh[0], g_null)
            ins = q.field_calls(f, 'mem_cache::primary', 'insert')
            ok = ok and bool(ins) and q.always_after(f, ins[0], cw)
            ctx.check(ok, R4, 'store[%s]:stamps-supplied-or-fresh-generation' % f.record.split('<')[-1].rstrip('>').split('::')[-1], 'a stored entry can keep / miss its generation stamp', f.where)
    ctx.require(n4 >= 2 or ctx.violations, 'C10.R4: generation counter writes not found')

    # ---------------- R5
    cfetch = P.fn(TC + '::fetch')
    cstore = P.fn(TC + '::store')
    crise = P.fn(TC + '::rise')
    sstore = P.fn(SS + '::store')
    pairs = [('fetch', cfetch, sf, 'fetch.'), ('data', sf, cfetch, 'data.'), ('store', cstore, sstore, 'store.')]
    for name, snd, rcv, prefix in pairs:
        w = set(k for k, m in hdr_fields(snd).items() if 'w' in m and k.startswith(prefix))
        r = set(k for k, m in hdr_fields(rcv).items() if 'r' in m and k.startswith(prefix))
        ctx.check(bool(r) and r <= w, R5, 'wire:%s:receiver-fields-written-by-sender' % name, 'receiver reads %s which the sender never sets' % sorted(r - w), rcv.where, detail={'sender_writes': sorted(w), 'receiver_reads': sorted(r)})
    for name, f in (('fetch', cfetch), ('store', cstore), ('rise', crise), ('data', sf)):
        sz = [w for w in q.field_writes(f, 'tcp_operation_header::size')]
        ok = len(sz) >= 1 and all(any(q.short_of(f.callee(j)) == 'size' for j in f.calls(f.N(w)['ch'][1])) or f.const_value(f.N(w)['ch'][1]) == 0 for w in sz)
        ctx.check(ok, R5, 'wire:%s:size-is-payload-size' % name, 'header size is not the size of the payload sent', f.where)
    # client: on `data` the value, deadline and generation always come from the reply
    ap = q.param_by_index(cfetch, 1)
    found = [r for r in cfetch.returns() if any(x.endswith('tcp_cache::found') for x in cfetch.subtree_refs(cfetch.ret_value(r)))]
    asg = [i for i in cfetch.calls() if q.short_of(cfetch.callee(i)) == 'assign' and cfetch.ref_of(cfetch.obj(i)) == ap]
    ok = len(found) == 1 and len(asg) == 1 and any(x.endswith('data_len') for x in cfetch.subtree_refs(asg[0]))
    if ok:
        g_data = cfetch.gate_edges(lambda atom, pol: cfetch.N(atom)['k'] == 'BinaryOperator' and cfetch.N(atom).get('op') == '!=' and any(x.endswith('opcodes::data') for x in cfetch.subtree_refs(atom)) and pol is False)
        start = [t for (_, t, _, _) in [e for e in g_data if len(e) == 4]]
        ok = bool(start)
        for sblk in start:
            reach = cfetch.reachable_blocks(start=sblk, cut_blocks=q.blocks_of(cfetch, asg))
            ok = ok and cfetch.point_of(found[0])[0] not in reach
    ctx.check(ok, R5, 'tcp_cache::fetch:value-always-replaced-by-reply', 'a data reply can leave the caller\'s (stale L1) value in place', cfetch.where)
    for fld, par in (('timeout', 3), ('generation', 4)):
        pr = q.param_by_index(cfetch, par)
        ws = [w for w in q.writes_to(cfetch, pr) if any(x.endswith('data::' + fld) or x.endswith('::' + fld) for x in cfetch.subtree_refs(w))]
        ctx.check(len(ws) == 1 and found and q.before(cfetch, ws[0], found[0]), R5, 'tcp_cache::fetch:%s-from-reply' % fld, '%s of a found entry is not taken from the reply' % fld, cfetch.where)
    # conditional fetch sends the caller's generation
    cg = [w for w in cfetch.all_nodes() if cfetch.N(w)['k'] == 'BinaryOperator' and cfetch.N(w).get('op') == '=' and (cfetch.ref_of(cfetch.N(w)['ch'][0]) or '').endswith('current_gen')]
    ctx.check(len(cg) == 1 and cfetch.ref_of(cfetch.N(cg[0])['ch'][1]) == q.param_by_index(cfetch, 4), R5, 'tcp_cache::fetch:sends-callers-generation', 'conditional fetch does not send the generation the caller holds', cfetch.where)

    # ---------------- R6
    slen = sstore.gate_edges(lambda atom, pol: sstore.N(atom)['k'] == 'BinaryOperator' and sstore.N(atom).get('op') == '!=' and
                             {'key_len', 'data_len', 'triggers_len'} <= set(x.rsplit('::', 1)[-1] for x in q.deep_refs(sstore, sstore.N(atom)['ch'][0]) if x.startswith('f:')) and
                             any(x.endswith('tcp_operation_header::size') for x in q.deep_refs(sstore, sstore.N(atom)['ch'][1])) and pol is False)
    # every place where the input buffer is sliced: iterator arithmetic on data_in_ (begin()+n) and ranges built from it
    sites = []
    for i in sstore.all_nodes():
        n = sstore.N(i)
        if n['k'] == 'CXXOperatorCallExpr' and n.get('op') in ('+', '+=') and any(model.strip_targs(x).endswith('session::data_in_') for x in sstore.subtree_refs(i)) and sstore.point_of(i):
            par = sstore.parent.get(i)
            inner = par is not None and sstore.N(par)['k'] == 'CXXOperatorCallExpr' and sstore.N(par).get('op') == '+'
            if not inner:
                sites.append(i)
    for k, i in enumerate(sites):
        ctx.check(sstore.only_through(i, slen), R6, 'session::store:slice#%d:after-length-equation' % k, 'input sliced without checking key_len+data_len+triggers_len == size', sstore.loc(i))
    for name, op, val in (('save', '<', 32), ('load', '!=', 32), ('remove', '!=', 32)):
        f = P.fn(SS + '::' + name)
        g = f.gate_edges(lambda atom, pol, f=f, op=op, val=val: f.N(atom)['k'] == 'BinaryOperator' and f.N(atom).get('op') == op and f.const_value(f.N(atom)['ch'][1]) == val and
                         any(x.endswith('tcp_operation_header::size') for x in f.subtree_refs(f.N(atom)['ch'][0])) and pol is False)
        uses = [i for i in f.calls() if f.N(i)['k'] in ('CXXConstructExpr', 'CXXTemporaryObjectExpr') and any(model.strip_targs(x).endswith('session::data_in_') for x in f.subtree_refs(i))]
        ctx.check(bool(uses) and all(f.only_through(u, g) for u in uses), R6, 'session::%s:sid-slice-after-length-check' % name, '32-byte sid sliced without the size check', f.where)
    oh = P.fn(SS + '::on_header_in')
    rs = [i for i in q.field_calls(oh, 'session::data_in_', 'resize')]
    ctx.check(len(rs) == 1 and any(x.endswith('tcp_operation_header::size') for x in oh.subtree_refs(rs[0])), R6, 'on_header_in:buffer-sized-by-header', 'input buffer is not sized by the announced payload size', oh.where)


    # ---------------- R7 transport: no silent drop
    tm = P.fn('cppcms::impl::messenger::transmit')
    wr = [i for i in tm.calls() if (tm.bcallee(i) or '').endswith('stream_socket::write')]
    rd = [i for i in tm.calls() if (tm.bcallee(i) or '').endswith('stream_socket::read')]
    ctx.require(wr and rd, 'C10.R7: messenger::transmit does not write / read the socket')
    # an optional completion flag: a bool local that becomes true only after the request was written and the reply header read
    flags = {}
    for i in tm.all_nodes():
        n = tm.N(i)
        if n['k'] == 'BinaryOperator' and n.get('op') == '=' and tm.const_value(n['ch'][1]) == 1 and (tm.ref_of(n['ch'][0]) or '').startswith('v:'):
            flags.setdefault(tm.ref_of(n['ch'][0]), []).append(i)
    done = [v for v, ws in flags.items() if all(q.before(tm, wr[0], w) and q.before(tm, rd[0], w) for w in ws) and
            all(v_ is None or tm.const_value(v_) in (0, 1) for (_, v_) in tm.defs_of_var(v))]
    g_done = []
    for dv in done:
        g_done += [e for e in tm.gate_edges(lambda atom, pol, dv=dv: tm.N(atom)['k'] == 'DeclRefExpr' and tm.N(atom).get('ref') == dv and pol is True) if len(e) == 4]
    # normal exit (not an exception leaving the function) is reachable neither from the entry nor from a reconnect without
    # passing the write and the read of the reply - edges that are taken only when the completion flag is set count as "after the read"
    exc_edges = [(b_, tm.exit) for b_ in tm.try_blocks]
    cn_ = [i for i in tm.calls() if (tm.bcallee(i) or '').endswith('::connect')]
    starts = [('entry', tm.entry)] + [('reconnect@L%d' % tm.N(i)['l'], tm.point_of(i)[0]) for i in cn_ if tm.point_of(i)]
    for nm, b0 in starts:
        for what, evs in (('written', wr), ('answered', rd[:1])):
            reach = tm.reachable_blocks(start=b0, cut_edges=g_done + exc_edges, cut_blocks=(q.blocks_of(tm, evs) | tm.abnormal_blocks()) - {b0})
            ctx.check(tm.exit not in reach, R7, 'transmit:from-%s:normal-return-only-after-request-%s' % (nm, what), 'transmit can return without an exception although the request was not (re)sent and answered', tm.where)
    ctx.check(len(rd) >= 2 and all(q.before(tm, rd[0], r) for r in rd[1:]), R7, 'transmit:reply-header-then-body', 'reply body is not read after the reply header', tm.where)
    cl = [i for i in tm.calls() if (tm.bcallee(i) or '').endswith('::close')]
    cn = [i for i in tm.calls() if (tm.bcallee(i) or '').endswith('::connect')]
    ctx.check(bool(cl) and bool(cn) and all(any(tm.N(a)['k'] == 'CXXCatchStmt' for a in tm.ancestors(i)) for i in cl + cn), R7, 'transmit:reconnect-only-in-failure-handler', 'connection is reopened outside the failure handler', tm.where)
    ctx.floor(R1, 16)
    ctx.floor(R2, 7)
    ctx.floor(R3, 4)
    ctx.floor(R4, 4)
    ctx.floor(R5, 10)
    ctx.floor(R6, 7)
    ctx.floor(R7, 4)
    ctx.notes.append('observed, not claimed: on an L1 hit followed by a newer server version the returned trigger set is the union of the old L1 triggers and the new ones '
                     '(tags is not cleared between l1_->fetch and tcp()->fetch); trigger names containing NUL cannot survive the NUL-separated wire format.')
