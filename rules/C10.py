"""C10 — networked cache with local L1 never serves data another node replaced (structural clauses)."""
from vlib import build, model, q, lockset
from vlib.lin import Lin
from vlib.build import AnalysisBroken, REPO
from rules.C05 import load

OI = 'cppcms::impl::cache_over_ip'
TC = 'cppcms::impl::tcp_cache'
SS = 'cppcms::impl::tcp_cache_service::session'
HDR = 'cppcms::impl::tcp_operation_header'


def real_args(f, call):
    return [a for a in f.args(call) if f.N(a)['k'] != 'CXXDefaultArgExpr']


def hdr_fields(f, root=None):
    """{'substruct.field': set('r','w')} accesses to members of tcp_operation_header::operations.<substruct> in f"""
    out = {}
    it = f.walk(root) if root is not None else f.all_nodes()
    for i in it:
        n = f.N(i)
        if n['k'] == 'MemberExpr' and n.get('ref', '').startswith('f:' + HDR) and '(anonymous struct)' in n['ref']:
            ap = f.access_path(i)
            if not ap or len(ap) < 3:
                continue
            names = [x.rsplit('::', 1)[-1] for x in ap]
            if 'operations' not in names:
                continue
            k = names.index('operations')
            if len(names) < k + 3:
                continue
            key = names[k + 1] + '.' + names[k + 2]
            out.setdefault(key, set()).add(lockset.classify_access(f, i))
    return out


def run(ctx):
    ctx.explanation = ('Structural rules over cache_over_ip.cpp, tcp_cache_client.cpp, tcp_connector.cpp, tcp_cache_server.cpp and the generation stamp in mem_cache: an L1 hit is always revalidated with the '
                       'generation it was stored under, every L1 copy is stored under the server generation, invalidations are broadcast, the server answers uptodate only for an equal generation, '
                       'sender and receiver of each message agree on the header fields, and the server slices its input only past the length checks.')
    P = load(ctx, ['src/cache_over_ip.cpp', 'src/tcp_cache_client.cpp', 'src/tcp_connector.cpp', 'src/tcp_cache_server.cpp', 'src/cache_storage.cpp', 'src/tcp_messenger.cpp'])
    R1 = ctx.rule('C10.R1', 'cache_over_ip::fetch: every hit is (re)validated by the server; L1 copies carry the server generation; not_found purges L1')
    R2 = ctx.rule('C10.R2', 'rise / clear are broadcast to all servers; store / fetch go to the server selected by the key hash')
    R3 = ctx.rule('C10.R3', 'server: uptodate only for an equal generation of a present entry; no_data exactly on a miss')
    R4 = ctx.rule('C10.R4', 'every store gets a fresh generation; the counter is written nowhere else')
    R5 = ctx.rule('C10.R5', 'wire format: receiver reads only header fields the sender wrote; lengths describe the payload; the value is always taken from the reply')
    R8 = ctx.rule('C10.R8', 'wire format end to end: a store frame is key + value + NUL-terminated trigger names with the three lengths set to those sizes, and the server slices [0,key_len), [key_len,+data_len), [..,+triggers_len) back, splits the names at the NULs and hands exactly these to the cache; a data reply is value + names with data_len / triggers_len likewise and the client takes the value and the names back the same way; rise / clear / remove reach the cache with the transmitted key')
    R6 = ctx.rule('C10.R6', 'server slices its input buffer only past the length checks')
    R7 = ctx.rule('C10.R7', 'messenger::transmit returns normally only after the request was written and the reply read on the same connection (a reconnect re-sends or throws, never drops the request)')

    # ---------------- R1
    # result codes of tcp_cache::fetch (static const int members): name -> value, read off any constant-evaluated reference
    ENUMV = {}
    for f_ in P.fns.values():
        for n_ in f_.nodes:
            r_ = n_.get('ref') or ''
            if n_['k'] == 'DeclRefExpr' and 'tcp_cache::' in r_ and 'cv' in n_:
                ENUMV.setdefault(r_.rsplit('::', 1)[-1], n_['cv'])
    fe = P.fn(OI + '::fetch')
    keyp = q.param_by_index(fe, 0)
    genp = q.param_by_index(fe, 4)
    tf = [i for i in fe.calls() if fe.bcallee(i) == TC + '::fetch']
    l1f = [i for i in fe.calls() if fe.bcallee(i) == 'cppcms::impl::base_cache::fetch']
    l1s = [i for i in fe.calls() if fe.bcallee(i) == 'cppcms::impl::base_cache::store']
    l1r = [i for i in fe.calls() if fe.bcallee(i) == 'cppcms::impl::base_cache::remove']
    ctx.require(len(tf) >= 3 and len(l1f) == 1, 'C10.R1: expected >=3 server fetches and one L1 fetch in cache_over_ip::fetch (%d, %d)' % (len(tf), len(l1f)))
    succ = q.nonfalse_returns(fe)
    tfb = q.blocks_of(fe, tf)
    reach = fe.reachable_blocks(cut_blocks=tfb)
    for k, r in enumerate(succ):
        ctx.check(fe.point_of(r)[0] not in reach, R1, 'fetch:success#%d:server-consulted' % k, 'a value can be returned from L1 without asking the server', fe.loc(r))
    g_hit = q.call_gate(fe, lambda i: i in l1f, True)
    hit_tf = [i for i in tf if fe.only_through(i, g_hit)]
    ctx.check(len(hit_tf) == 1, R1, 'fetch:l1-hit:single-revalidation', 'expected one revalidating fetch on the L1-hit path', fe.where)
    for i in hit_tf:
        a = fe.args(i)
        ctx.check(fe.const_value(a[5]) == 1, R1, 'fetch:l1-hit:transfer_if_not_updated', 'L1 hit is not revalidated (transfer_if_not_updated is not true)', fe.loc(i))
        ctx.check(genp in fe.subtree_refs(a[4]) and genp in fe.subtree_refs(fe.args(l1f[0])[4]), R1, 'fetch:l1-hit:generation-from-l1', 'revalidation does not send the generation of the L1 copy', fe.loc(i))
        ctx.check(fe.ref_of(a[0]) == keyp, R1, 'fetch:l1-hit:same-key', 'revalidation asks for a different key', fe.loc(i))
        resv = None
        par = fe.parent.get(i)
        for j in fe.all_nodes():
            if fe.N(j)['k'] == 'DeclStmt':
                for d in fe.N(j)['decls']:
                    if d.get('init') is not None and i in set(fe.walk(d['init'])):
                        resv = d['ref']

        def res_is(name, want):
            def p(atom, pol):
                n = fe.N(atom)
                if n['k'] != 'BinaryOperator' or n.get('op') not in ('==', '!=') or not ((resv is not None and fe.ref_of(n['ch'][0]) == resv) or fe.strip(n['ch'][0]) == i):
                    return False
                named = any(x.endswith('tcp_cache::' + name) for x in fe.subtree_refs(n['ch'][1]))
                byval = ENUMV.get(name) is not None and fe.const_value(n['ch'][1]) == ENUMV.get(name)      # `case up_to_date:` of a switch over the result
                if not (named or byval):
                    return False
                return (pol is want) if n['op'] == '==' else (pol is (not want))
            return fe.gate_edges(p)
        # success without re-storing only when up_to_date
        upd = res_is('up_to_date', True)
        hit_succ = [r for r in succ if fe.only_through(r, g_hit)]
        for k, r in enumerate(hit_succ):
            ok = fe.only_through(r, upd) or any(fe.point_of(s)[0] == fe.point_of(r)[0] and q.before(fe, s, r) for s in l1s)
            ctx.check(ok, R1, 'fetch:l1-hit:success#%d:uptodate-or-refreshed' % k, 'L1 value returned although the server did not confirm it and L1 was not refreshed', fe.loc(r))
        nf = res_is('not_found', True)
        ctx.check(len(l1r) == 1 and fe.only_through(l1r[0], nf) and keyp in fe.subtree_refs(l1r[0]), R1, 'fetch:l1-hit:not_found-purges-l1', 'an entry the server no longer has stays in L1', fe.where)
        if l1r:
            fr = [r for r in q.false_returns(fe) if fe.point_of(r)[0] == fe.point_of(l1r[0])[0]]
            ctx.check(len(fr) == 1, R1, 'fetch:l1-hit:not_found-is-a-miss', 'not_found on revalidation still returns the L1 value', fe.where)
    for k, s in enumerate(l1s):
        a = real_args(fe, s)
        ok = len(a) == 5 and fe.ref_of(a[4]) == genp and fe.ref_of(a[0]) == keyp
        ctx.check(ok, R1, 'fetch:l1-store#%d:stored-under-server-generation' % k, 'L1 copy is not stamped with the generation received from the server (default gen=0 lets L1 invent one)', fe.loc(s))
        g_found = fe.gate_edges(lambda atom, pol: fe.N(atom)['k'] == 'BinaryOperator' and fe.N(atom).get('op') in ('==', '!=') and any(x.endswith('tcp_cache::found') for x in fe.subtree_refs(atom)) and
                                ((fe.N(atom)['op'] == '==' and pol is True) or (fe.N(atom)['op'] == '!=' and pol is False)))
        ctx.check(fe.only_through(s, list(g_found) + list(g_hit)), R1, 'fetch:l1-store#%d:only-server-data' % k, 'L1 filled without data from the server', fe.loc(s))
    miss_tf = [i for i in tf if i not in hit_tf]
    for k, i in enumerate(miss_tf):
        ctx.check(fe.const_value(fe.args(i)[5]) == 0 and fe.ref_of(fe.args(i)[0]) == keyp, R1, 'fetch:miss#%d:plain-fetch-of-key' % k, 'miss path sends a conditional fetch', fe.loc(i))
    st = P.fn(OI + '::store')
    ts = [i for i in st.calls() if st.bcallee(i) == TC + '::store']
    ctx.check(len(ts) == 1 and q.always_before_exit(st, ts), R1, 'store:always-reaches-the-server', 'a store may stay local', st.where)
    for name in ('rise', 'clear'):
        f = P.fn(OI + '::' + name)
        c = [i for i in f.calls() if f.bcallee(i) == TC + '::' + name]
        ctx.check(len(c) == 1 and q.always_before_exit(f, c), R1, '%s:always-reaches-the-servers' % name, '%s may stay local' % name, f.where)

    # ---------------- R2
    for name in ('rise', 'clear'):
        f = P.fn(TC + '::' + name)
        b = [i for i in f.calls() if f.bcallee(i) == 'cppcms::impl::tcp_connector::broadcast']
        ctx.check(len(b) == 1 and q.always_before_exit(f, b), R2, 'tcp_cache::%s:broadcast' % name, 'invalidation is not sent to every server', f.where)
    for name in ('store', 'fetch'):
        f = P.fn(TC + '::' + name)
        g = [i for i in f.calls() if f.bcallee(i) == 'cppcms::impl::tcp_connector::get']
        ctx.check(len(g) == 1 and f.ref_of(f.args(g[0])[0]) == q.param_by_index(f, 0), R2, 'tcp_cache::%s:server-selected-by-key' % name, 'server is not selected by the key', f.where)
    bc = P.fn('cppcms::impl::tcp_connector::broadcast')
    lp = [L for L in q.loops(bc) if [i for i in bc.calls(bc.N(L)['body']) if q.short_of(bc.callee(i)) == 'transmit']]
    ok = len(lp) == 1
    if ok:
        # index loop 0..conns over tcp[i], or pointer loop tcp..tcp+conns: the number of steps is `conns`, every step transmits on the current element
        from vlib import lin as _lin
        cl = q.counting_loop(bc, lp[0])
        L = bc.N(lp[0])
        ok = cl is not None and cl['step'] == 1 and cl['op'] in ('<', '!=')
        if ok:
            env = {}
            for _ in range(2):
                S0 = _lin.Symb(bc, env)
                for i_ in bc.all_nodes():
                    if bc.N(i_)['k'] == 'DeclStmt':
                        for d in bc.N(i_)['decls']:
                            if d.get('init') is not None and d['ref'] != cl['var'] and len(bc.defs_of_var(d['ref'])) == 1:
                                env[d['ref']] = S0.lin(d['init'])
            S = _lin.Symb(bc, env)
            span = S.lin(cl['bound']) - S.lin(cl['start_node'])
            conns_atoms = [a_ for a_ in span.atoms() if model.strip_targs(a_).endswith('tcp_connector::conns')]
            ok = len(conns_atoms) == 1 and (span - Lin.atom(conns_atoms[0])).key() == Lin.const(0).key()
            tr = [i for i in bc.calls(L['body']) if q.short_of(bc.callee(i)) == 'transmit']
            ok = ok and len(tr) == 1 and cl['var'] in bc.subtree_refs(bc.obj(tr[0])) and \
                not [j for j in bc.walk(L['body']) if bc.N(j)['k'] in ('BreakStmt', 'ReturnStmt', 'ContinueStmt')]
    ctx.check(ok, R2, 'broadcast:all-connections', 'broadcast does not reach every connection', bc.where)
    hs = P.fn('cppcms::impl::tcp_connector::hash')
    refs = set(model.strip_targs(x) for x in hs.subtree_refs(hs.body) if x.startswith(('f:', 'g:')))
    ctx.check(refs <= {'f:cppcms::impl::tcp_connector::conns'}, R2, 'hash:depends-only-on-key-and-conns', 'server choice depends on %s' % sorted(refs), hs.where)
    gt = P.fn('cppcms::impl::tcp_connector::get')
    ctx.check(any(gt.bcallee(i) == 'cppcms::impl::tcp_connector::hash' for i in gt.calls()), R2, 'get:uses-hash', 'get does not use hash(key)', gt.where)

    # ---------------- R3
    sf = P.fn(SS + '::fetch')
    cf = [i for i in sf.calls() if sf.bcallee(i) == 'cppcms::impl::base_cache::fetch']
    ctx.require(len(cf) == 1, 'C10.R3: server fetch does not query the cache once')
    genv = [x for x in sf.subtree_refs(sf.args(cf[0])[4]) if x.startswith('v:')]
    opw = {}
    for w in q.field_writes(sf, 'tcp_operation_header::opcode'):
        v = [x.rsplit('::', 1)[-1] for x in sf.subtree_refs(sf.N(w)['ch'][1]) if x.startswith('e:')]
        if v:
            opw.setdefault(v[0], []).append(w)
    g_miss = q.call_gate(sf, lambda i: i in cf, False)
    g_hit = q.call_gate(sf, lambda i: i in cf, True)

    def same_gen(atom, pol):
        n = sf.N(atom)
        return n['k'] == 'BinaryOperator' and n.get('op') == '==' and genv and genv[0] in sf.subtree_refs(atom) and any(x.endswith('current_gen') for x in sf.subtree_refs(atom)) and pol is True
    g_same = sf.gate_edges(same_gen)
    g_cond = sf.gate_edges(lambda atom, pol: any(x.endswith('transfer_if_not_uptodate') for x in sf.subtree_refs(atom)) and sf.N(atom)['k'] == 'MemberExpr' and pol is True)
    ctx.check(len(opw.get('uptodate', [])) == 1 and all(sf.only_through(w, g_same) and sf.only_through(w, g_hit) and sf.only_through(w, g_cond) for w in opw.get('uptodate', [])), R3,
              'session::fetch:uptodate-only-for-equal-generation', 'server can answer uptodate for a different generation / without being asked / on a miss', sf.where)
    ctx.check(len(opw.get('no_data', [])) == 1 and all(sf.only_through(w, g_miss) for w in opw.get('no_data', [])), R3, 'session::fetch:no_data-only-on-miss', 'no_data sent for a present entry', sf.where)
    ctx.check(len(opw.get('data', [])) == 1 and all(sf.only_through(w, g_hit) for w in opw.get('data', [])), R3, 'session::fetch:data-only-on-hit', 'data sent on a miss', sf.where)
    gw = [w for w in sf.all_nodes() if sf.N(w)['k'] == 'BinaryOperator' and sf.N(w).get('op') == '=' and (sf.ref_of(sf.N(w)['ch'][0]) or '').endswith('::generation') and 'tcp_operation_header' in (sf.ref_of(sf.N(w)['ch'][0]) or '')]
    ctx.check(len(gw) == 1 and genv and sf.ref_of(sf.N(gw[0])['ch'][1]) == genv[0], R3, 'session::fetch:reply-carries-entry-generation', 'reply generation is not the generation of the fetched entry', sf.where)

    # ---------------- R4
    n4 = 0
    for f in [g for g in P.fns.values() if g.brecord == 'cppcms::impl::mem_cache']:
        for w in q.field_writes(f, 'mem_cache::generation'):
            n4 += 1
            ctx.check(f.short == 'store' and f.N(w)['k'] == 'UnaryOperator' and f.N(w).get('op') == '++', R4, '%s[%s]:generation-write' % (f.short, f.record.split('<')[-1].rstrip('>').split('::')[-1]),
                      'generation counter changed outside store / not by increment', f.loc(w))
        if f.short == 'store':
            gp = q.param_by_index(f, 4)
            cw = q.field_writes(f, 'container::generation')
            g_null = f.gate_edges(lambda atom, pol, f=f, gp=gp: f.ref_of(atom) == gp and pol is False)
            ok = len(cw) == 2
            fresh = [w for w in cw if any(model.strip_targs(x).endswith('mem_cache::generation') for x in f.subtree_refs(f.N(w)['ch'][1]))]
            given = [w for w in cw if gp in f.subtree_refs(f.N(w)['ch'][1])]
            ok = ok and len(fresh) == 1 and len(given) == 1 and f.only_through(fresh[0], g_null)
            ins = q.field_calls(f, 'mem_cache::primary', 'insert')
            ok = ok and bool(ins) and q.always_after(f, ins[0], cw)
            ctx.check(ok, R4, 'store[%s]:stamps-supplied-or-fresh-generation' % f.record.split('<')[-1].rstrip('>').split('::')[-1], 'a stored entry can keep / miss its generation stamp', f.where)
    ctx.require(n4 >= 2 or ctx.violations, 'C10.R4: generation counter writes not found')

    # ---------------- R5
    cfetch = P.fn(TC + '::fetch')
    cstore = P.fn(TC + '::store')
    crise = P.fn(TC + '::rise')
    sstore = P.fn(SS + '::store')
    pairs = [('fetch', cfetch, sf, 'fetch.'), ('data', sf, cfetch, 'data.'), ('store', cstore, sstore, 'store.')]
    for name, snd, rcv, prefix in pairs:
        w = set(k for k, m in hdr_fields(snd).items() if 'w' in m and k.startswith(prefix))
        r = set(k for k, m in hdr_fields(rcv).items() if 'r' in m and k.startswith(prefix))
        ctx.check(bool(r) and r <= w, R5, 'wire:%s:receiver-fields-written-by-sender' % name, 'receiver reads %s which the sender never sets' % sorted(r - w), rcv.where, detail={'sender_writes': sorted(w), 'receiver_reads': sorted(r)})
    for name, f in (('fetch', cfetch), ('store', cstore), ('rise', crise), ('data', sf)):
        sz = [w for w in q.field_writes(f, 'tcp_operation_header::size')]
        ok = len(sz) >= 1 and all(any(q.short_of(f.callee(j)) == 'size' for j in f.calls(f.N(w)['ch'][1])) or f.const_value(f.N(w)['ch'][1]) == 0 for w in sz)
        ctx.check(ok, R5, 'wire:%s:size-is-payload-size' % name, 'header size is not the size of the payload sent', f.where)
    # client: on `data` the value, deadline and generation always come from the reply
    ap = q.param_by_index(cfetch, 1)
    found = [r for r in cfetch.returns() if any(x.endswith('tcp_cache::found') for x in cfetch.subtree_refs(cfetch.ret_value(r)))]
    asg = [i for i in cfetch.calls() if q.short_of(cfetch.callee(i)) == 'assign' and cfetch.ref_of(cfetch.obj(i)) == ap]
    ok = len(found) == 1 and len(asg) == 1 and any(x.endswith('data_len') for x in cfetch.subtree_refs(asg[0]))
    if ok:
        g_data = cfetch.gate_edges(lambda atom, pol: cfetch.N(atom)['k'] == 'BinaryOperator' and cfetch.N(atom).get('op') == '!=' and any(x.endswith('opcodes::data') for x in cfetch.subtree_refs(atom)) and pol is False)
        start = [t for (_, t, _, _) in [e for e in g_data if len(e) == 4]]
        ok = bool(start)
        for sblk in start:
            reach = cfetch.reachable_blocks(start=sblk, cut_blocks=q.blocks_of(cfetch, asg))
            ok = ok and cfetch.point_of(found[0])[0] not in reach
    ctx.check(ok, R5, 'tcp_cache::fetch:value-always-replaced-by-reply', 'a data reply can leave the caller\'s (stale L1) value in place', cfetch.where)
    for fld, par in (('timeout', 3), ('generation', 4)):
        pr = q.param_by_index(cfetch, par)
        ws = [w for w in q.writes_to(cfetch, pr) if any(x.endswith('data::' + fld) or x.endswith('::' + fld) for x in cfetch.subtree_refs(w))]
        ctx.check(len(ws) == 1 and found and q.before(cfetch, ws[0], found[0]), R5, 'tcp_cache::fetch:%s-from-reply' % fld, '%s of a found entry is not taken from the reply' % fld, cfetch.where)
    # the verdict handed to cache_over_ip is decided by the opcode of the reply: up_to_date only for `uptodate`, found only for `data`
    def opcode_is(name, want):
        def pred(atom, pol):
            n_ = cfetch.N(atom)
            if n_['k'] != 'BinaryOperator' or n_.get('op') not in ('==', '!=') or not any(x.endswith('opcodes::' + name) for x in cfetch.subtree_refs(atom)) or not any(x.endswith('tcp_operation_header::opcode') for x in cfetch.subtree_refs(atom)):
                return False
            return ((n_['op'] == '==') == pol) == want
        return cfetch.gate_edges(pred)
    tr = [i for i in cfetch.calls() if q.short_of(cfetch.bcallee(i) or '') == 'transmit']
    for verdict, opname in (('up_to_date', 'uptodate'), ('found', 'data')):
        rets_ = [r for r in cfetch.returns() if any(x.endswith('tcp_cache::' + verdict) for x in cfetch.subtree_refs(cfetch.ret_value(r)))]
        g_op = opcode_is(opname, True)
        ctx.check(len(rets_) >= 1 and bool(g_op) and len(tr) == 1 and all(cfetch.only_through(r, g_op) and q.before(cfetch, tr[0], r) for r in rets_), R5, 'tcp_cache::fetch:%s-only-for-a-%s-reply' % (verdict, opname),
                  'the client reports %s although the server did not answer `%s` (a stale local copy / an unparsed reply is then used)' % (verdict, opname), cfetch.where)
    # conditional fetch sends the caller's generation
    cg = [w for w in cfetch.all_nodes() if cfetch.N(w)['k'] == 'BinaryOperator' and cfetch.N(w).get('op') == '=' and (cfetch.ref_of(cfetch.N(w)['ch'][0]) or '').endswith('current_gen')]
    ctx.check(len(cg) == 1 and cfetch.ref_of(cfetch.N(cg[0])['ch'][1]) == q.param_by_index(cfetch, 4), R5, 'tcp_cache::fetch:sends-callers-generation', 'conditional fetch does not send the generation the caller holds', cfetch.where)

    # ---------------- R8 wire format end to end
    from vlib.lin import Lin as _L8

    def fld_atom(S_, f, name):
        """the atom Symb uses for header field `name` (last path component) as read in f, or None"""
        for i in f.all_nodes():
            n_ = f.N(i)
            if n_['k'] == 'MemberExpr' and (n_.get('ref') or '').endswith('::' + name):
                l_ = S_.lin(i)
                if len(l_.t) == 1 and l_.c == 0:
                    return list(l_.t)[0]
        return None

    def nul_list_reader(f, tag_):
        """loop that splits [cursor, cursor+remaining) at NUL bytes: n = strlen(cursor); piece.assign(cursor, n); cursor += n+1; remaining -= n+1; set.insert(piece)"""
        lps_ = [L for L in q.loops(f) if any(f.callee(i) == 'strlen' for i in f.calls(f.N(L)['body']))]
        if not lps_:
            # the splitting may live in a helper of the same file that is handed the cursor, the length and the set
            hs = [g for g in [P.fns.get(f.N(i).get('callee') or '') for i in f.calls()] if g is not None and g.entry is not None and g.file == f.file and g is not f and
                  any(g.callee(i) == 'strlen' for i in g.calls())]
            if len(hs) == 1:
                cs_ = [i for i in f.calls() if f.N(i).get('callee') == hs[0].id]
                lens_ok = len(cs_) == 1 and any(any(r.endswith('::triggers_len') for r in q.deep_refs(f, a_)) for a_ in f.args(cs_[0]))
                if not lens_ok:
                    return False, 'the splitting helper is not handed the transmitted triggers_len'
                return nul_list_reader(hs[0], tag_)
        if len(lps_) != 1:
            return False, 'no single loop around strlen'
        L = lps_[0]
        body = f.N(L)['body']
        S_ = q.symb_with_locals(f)
        sl = [i for i in f.calls(body) if f.callee(i) == 'strlen']
        cur_ = f.ref_of(f.args(sl[0])[0])
        if len(sl) != 1 or cur_ is None:
            return False, 'strlen is not applied to the cursor'
        N_ = S_.lin(sl[0])
        asg_ = [i for i in f.calls(body) if q.short_of(f.bcallee(i) or '') == 'assign' and len(f.args(i)) == 2]
        ctor_ = [i for i in f.calls(body) if f.N(i)['k'] in ('CXXConstructExpr', 'CXXTemporaryObjectExpr') and 'basic_string' in (f.callee(i) or '') and len([a for a in f.args(i) if f.N(a)['k'] != 'CXXDefaultArgExpr']) == 2]
        asg_ = asg_ or ctor_
        if len(asg_) != 1 or f.ref_of(f.args(asg_[0])[0]) != cur_ or (S_.lin(f.args(asg_[0])[1]) - N_).key() != _L8.const(0).key():
            return False, 'the piece is not (cursor, strlen(cursor))'
        if f.N(asg_[0])['k'] == 'CXXMemberCallExpr':
            piece = f.ref_of(f.obj(asg_[0]))
        else:
            piece = ([d['ref'] for i in f.all_nodes() if f.N(i)['k'] == 'DeclStmt' for d in f.N(i)['decls'] if d.get('init') is not None and asg_[0] in set(f.walk(d['init']))] or [None])[0]
        insx = [i for i in f.calls(body) if q.short_of(f.bcallee(i) or '') == 'insert' and piece in f.subtree_refs(i)]
        if len(insx) != 1 or not q.before(f, asg_[0], insx[0]):
            return False, 'the piece is not inserted into the set'
        cw = [w for w in q.writes_to(f, cur_, body)]
        remv = [r for r in f.subtree_refs(f.N(L)['cond']) if r.startswith(('v:', 'p:')) and r != cur_]
        rw = [w for r in remv for w in q.writes_to(f, r, body)]
        okc = len(cw) == 1 and f.N(cw[0])['k'] == 'CompoundAssignOperator' and f.N(cw[0]).get('op') == '+=' and (S_.lin(f.N(cw[0])['ch'][1]) - N_ - _L8.const(1)).key() == _L8.const(0).key()
        okr = len(rw) == 1 and f.N(rw[0])['k'] == 'CompoundAssignOperator' and f.N(rw[0]).get('op') == '-=' and (S_.lin(f.N(rw[0])['ch'][1]) - N_ - _L8.const(1)).key() == _L8.const(0).key()
        cn_ = f.N(f.strip(f.N(L)['cond'])) if f.N(L).get('cond', -1) not in (None, -1) else {'k': None}
        okcond = cn_['k'] == 'BinaryOperator' and ((cn_.get('op') in ('>', '!=') and f.const_value(cn_['ch'][1]) == 0) or (cn_.get('op') == '<' and f.const_value(cn_['ch'][0]) == 0))
        if not (okc and okr and okcond):
            return False, 'cursor / remaining length are not moved by strlen + 1 per name, or the loop does not run while something remains'
        # the cursor moves after the piece was taken, and every turn inserts
        if piece is None or not (q.before(f, asg_[0], cw[0]) and q.before(f, sl[0], cw[0])):
            return False, 'the cursor is moved before the name is taken'
        return True, ''
    lt = P.fn(SS + '::load_triggers')
    okl, why = nul_list_reader(lt, 'load_triggers')
    ctx.check(okl, R8, 'server:load_triggers:splits-at-NUL', why, lt.where)
    okl, why = nul_list_reader(cfetch, 'fetch')
    ctx.check(okl, R8, 'client:fetch:trigger-names-split-at-NUL', why, cfetch.where)

    def nul_list_writer(f, out_match, setv_match):
        """for every element of the set: out.append(p->c_str(), p->size() + 1)"""
        for L in q.loops(f):
            body = f.N(L)['body']
            ap_ = [i for i in f.calls(body) if q.short_of(f.bcallee(i) or '') == 'append' and out_match(f, i) and len([a for a in f.args(i) if f.N(a)['k'] != 'CXXDefaultArgExpr']) == 2]
            if len(ap_) != 1:
                continue
            a_ = f.args(ap_[0])
            S_ = q.symb_with_locals(f)
            ln_ = S_.lin(a_[1])
            okn = ln_.c == 1 and len(ln_.t) == 1 and list(ln_.t.values()) == [1] and list(ln_.t)[0].endswith(('.size()', '.length()'))
            okp = any(q.short_of(f.bcallee(j) or '') in ('c_str', 'data') for j in f.calls(a_[0]))
            esc = [j for j in f.walk(body) if f.N(j)['k'] in ('BreakStmt', 'ContinueStmt', 'ReturnStmt', 'GotoStmt')]
            okw = q.whole_loop(f, L, setv_match)
            return (okn and okp and not esc and okw), ap_[0], L
        return False, None, None
    # client store frame
    keyp8, valp8, trp8 = q.param_by_index(cstore, 0), q.param_by_index(cstore, 1), q.param_by_index(cstore, 2)
    datav = [d['ref'] for i in cstore.all_nodes() if cstore.N(i)['k'] == 'DeclStmt' for d in cstore.N(i)['decls'] if (cstore.types[d['t']] or '').startswith('std::basic_string') or (cstore.types[d['t']] or '') == 'std::string']
    okw, apn, Lw = nul_list_writer(cstore, lambda f, i: f.obj(i) is not None and f.ref_of(f.obj(i)) in datav, lambda f, j: f.obj(j) is not None and f.ref_of(f.obj(j)) == trp8)
    aps = [i for i in cstore.calls() if q.short_of(cstore.bcallee(i) or '') == 'append' and cstore.obj(i) is not None and cstore.ref_of(cstore.obj(i)) in datav and len([a for a in cstore.args(i) if cstore.N(a)['k'] != 'CXXDefaultArgExpr']) == 1]
    order = len(aps) == 2 and cstore.ref_of(cstore.args(aps[0])[0]) == keyp8 and cstore.ref_of(cstore.args(aps[1])[0]) == valp8 and q.before(cstore, aps[0], aps[1]) and Lw is not None and q.before(cstore, aps[1], cstore.N(Lw)['cond'])
    S8 = q.symb_with_locals(cstore)

    def hw(name):
        ws_ = [w for w in cstore.all_nodes() if cstore.N(w)['k'] == 'BinaryOperator' and cstore.N(w).get('op') == '=' and (cstore.ref_of(cstore.N(w)['ch'][0]) or '').endswith('::' + name)]
        return ws_
    kl_, dl_, tl_ = hw('key_len'), hw('data_len'), hw('triggers_len')
    lens = len(kl_) == 1 and len(dl_) == 1 and len(tl_) == 1 and repr(S8.lin(cstore.N(kl_[0])['ch'][1])) == keyp8 + '.size()' and repr(S8.lin(cstore.N(dl_[0])['ch'][1])) == valp8 + '.size()'
    # triggers_len is a counter that grows by size()+1 per name in the same loop
    tl_ok = False
    if len(tl_) == 1 and Lw is not None:
        tv = cstore.ref_of(cstore.N(tl_[0])['ch'][1])
        incs = [w for w in q.writes_to(cstore, tv, Lw)] if tv else []
        if len(incs) == 1 and cstore.N(incs[0])['k'] == 'CompoundAssignOperator' and cstore.N(incs[0]).get('op') == '+=':
            e_ = S8.lin(cstore.N(incs[0])['ch'][1])
            tl_ok = e_.c == 1 and len(e_.t) == 1 and list(e_.t)[0].endswith('.size()') and any(cstore.const_value(v_) == 0 for (d_, v_) in cstore.defs_of_var(tv) if v_ is not None and not cstore.contains(Lw, d_)) and q.before(cstore, cstore.N(Lw)['cond'], tl_[0])
    ctx.check(okw and order and lens and tl_ok, R8, 'client:store:frame-is-key+value+names-with-their-lengths', 'the store frame is not key, value, NUL-terminated trigger names in this order with key_len / data_len / triggers_len set to their sizes', cstore.where)
    tmo = [w for w in cstore.all_nodes() if cstore.N(w)['k'] == 'BinaryOperator' and cstore.N(w).get('op') == '=' and (cstore.ref_of(cstore.N(w)['ch'][0]) or '').endswith('store)::timeout') or
           (cstore.N(w)['k'] == 'BinaryOperator' and cstore.N(w).get('op') == '=' and (cstore.ref_of(cstore.N(w)['ch'][0]) or '').endswith('::timeout'))]
    ctx.check(len(tmo) >= 1 and all(cstore.ref_of(cstore.N(w)['ch'][1]) == q.param_by_index(cstore, 3) for w in tmo), R8, 'client:store:deadline-sent', 'the deadline of the entry is not sent', cstore.where)
    # server store slices
    Ss = q.symb_with_locals(sstore)
    KL, DL, TL = fld_atom(Ss, sstore, 'key_len'), fld_atom(Ss, sstore, 'data_len'), fld_atom(Ss, sstore, 'triggers_len')
    BEG = None
    slices = {}
    for i in sstore.calls():
        if q.short_of(sstore.bcallee(i) or '') == 'assign' and len(sstore.args(i)) == 2 and sstore.obj(i) is not None:
            b_, e_ = Ss.lin(sstore.args(i)[0]), Ss.lin(sstore.args(i)[1])
            base = [a for a in b_.t if a.endswith('data_in_.begin()')]
            if len(base) == 1:
                slices[sstore.ref_of(sstore.obj(i))] = (b_ - _L8.atom(base[0]), e_ - b_, i)
    cst = [i for i in sstore.calls() if q.short_of(sstore.bcallee(i) or '') == 'store' and sstore.N(i)['k'] == 'CXXMemberCallExpr' and len(sstore.args(i)) >= 4]
    oks = len(cst) == 1 and KL and DL and TL
    if oks:
        a = sstore.args(cst[0])
        kv, dv = sstore.ref_of(a[0]), sstore.ref_of(a[1])
        z = _L8.const(0).key()
        oks = kv in slices and dv in slices and slices[kv][0].key() == z and (slices[kv][1] - _L8.atom(KL)).key() == z and \
            (slices[dv][0] - _L8.atom(KL)).key() == z and (slices[dv][1] - _L8.atom(DL)).key() == z
        ltc = [i for i in sstore.calls() if sstore.bcallee(i) == SS + '::load_triggers']
        oks = oks and len(ltc) == 1 and sstore.ref_of(sstore.args(ltc[0])[0]) == sstore.ref_of(a[2]) and q.before(sstore, ltc[0], cst[0])
        if oks:
            tsv = [r for r in sstore.subtree_refs(sstore.args(ltc[0])[1]) if r.startswith('v:')]
            oks = len(tsv) == 1 and tsv[0] in slices and (slices[tsv[0]][0] - _L8.atom(KL) - _L8.atom(DL)).key() == z and (slices[tsv[0]][1] - _L8.atom(TL)).key() == z and \
                (Ss.lin(sstore.args(ltc[0])[2]) - _L8.atom(TL)).key() == z
            tmv = [r for r in q.deep_refs(sstore, a[3]) if r.endswith('::timeout')]
            oks = oks and bool(tmv)
    ctx.check(bool(oks), R8, 'server:store:slices-and-hands-key-value-names-deadline-to-the-cache', 'the server does not cut the frame into [0,key_len), [key_len,+data_len), [..,+triggers_len) and pass exactly these (and the deadline) to cache->store', sstore.where)
    # server reply: value first, then the names; lengths
    okd, apn2, Lw2 = nul_list_writer(sf, lambda f, i: f.obj(i) is not None and (model.strip_targs(f.ref_of(f.obj(i)) or '')).endswith('session::data_out_'), lambda f, j: True)
    fc = [i for i in sf.calls() if q.short_of(sf.bcallee(i) or '') == 'fetch' and sf.N(i)['k'] == 'CXXMemberCallExpr']
    okd = okd and len(fc) == 1
    if okd:
        av = [r for r in sf.subtree_refs(sf.args(fc[0])[1]) if r.startswith('v:')]
        sw = [i for i in sf.calls() if q.short_of(sf.bcallee(i) or '') in ('swap', 'operator=', 'assign') and av and av[0] in sf.subtree_refs(i) and any(model.strip_targs(r).endswith('session::data_out_') for r in sf.subtree_refs(i))]
        dlw = [w for w in sf.all_nodes() if sf.N(w)['k'] == 'BinaryOperator' and sf.N(w).get('op') == '=' and (sf.ref_of(sf.N(w)['ch'][0]) or '').endswith('::data_len')]
        tlw = [w for w in sf.all_nodes() if sf.N(w)['k'] == 'BinaryOperator' and sf.N(w).get('op') == '=' and (sf.ref_of(sf.N(w)['ch'][0]) or '').endswith('::triggers_len')]
        Sf = q.symb_with_locals(sf)
        okd = len(sw) == 1 and len(dlw) == 1 and len(tlw) == 1 and q.before(sf, sw[0], dlw[0]) and q.before(sf, dlw[0], sf.N(Lw2)['cond']) and q.reaches(sf, sf.N(Lw2)['cond'], tlw[0]) and not q.reaches(sf, tlw[0], sf.N(Lw2)['cond'])
        if okd:
            dsz = Sf.lin(sf.N(dlw[0])['ch'][1])
            tsz = Sf.lin(sf.N(tlw[0])['ch'][1])
            okd = len(dsz.t) == 1 and list(dsz.t)[0].endswith('data_out_.size()') and dsz.c == 0 and any(a_.endswith('data_out_.size()') for a_ in tsz.t) and any(a_.endswith('::data_len') for a_ in tsz.t)
    ctx.check(bool(okd), R8, 'server:fetch:reply-is-value+names-with-their-lengths', 'the data reply is not the fetched value followed by the NUL-terminated names with data_len / triggers_len describing them', sf.where)
    # client takes the value from [0, data_len) and starts the names right behind it
    Sc = q.symb_with_locals(cfetch)
    okc = len(asg) == 1
    if okc:
        a = cfetch.args(asg[0])
        DLc = fld_atom(Sc, cfetch, 'data_len')
        curc = cfetch.ref_of(a[0])
        adv = [w for w in q.writes_to(cfetch, curc) if cfetch.N(w)['k'] == 'CompoundAssignOperator' and not any(cfetch.contains(L, w) for L in q.loops(cfetch))] if curc else []
        okc = DLc is not None and curc is not None and (Sc.lin(a[1]) - _L8.atom(DLc)).key() == _L8.const(0).key() and len(adv) == 1 and (Sc.lin(cfetch.N(adv[0])['ch'][1]) - _L8.atom(DLc)).key() == _L8.const(0).key() and q.before(cfetch, asg[0], adv[0])
        cdef = [v_ for (d_, v_) in cfetch.defs_of_var(curc) if v_ is not None and cfetch.N(d_)['k'] == 'DeclStmt'] if curc else []
        okc = okc and len(set(cdef)) == 1 and any(q.short_of(cfetch.bcallee(j) or '') in ('c_str', 'data') for j in cfetch.calls(cdef[0]))
    ctx.check(bool(okc), R8, 'client:fetch:value-is-the-first-data_len-bytes-names-follow', 'the client does not take the value from the first data_len bytes of the reply and the names from what follows', cfetch.where)
    # operations reach the cache
    for nm_, meth, needs_key in (('rise', 'rise', True), ('clear', 'clear', False)):
        f = P.fn(SS + '::' + nm_)
        cc = [i for i in f.calls() if q.short_of(f.bcallee(i) or '') == meth and f.N(i)['k'] == 'CXXMemberCallExpr' and any(model.strip_targs(r).endswith('session::cache_') for r in f.subtree_refs(f.obj(i)))]
        okx = len(cc) == 1 and q.always_before_exit(f, cc)
        if okx and needs_key:
            kv = f.ref_of(f.args(cc[0])[0])
            ka = [i for i in f.calls() if q.short_of(f.bcallee(i) or '') == 'assign' and f.obj(i) is not None and f.ref_of(f.obj(i)) == kv] + \
                 [v_ for (d_, v_) in f.defs_of_var(kv or '') if v_ is not None and f.N(f.strip(v_))['k'] in ('CXXConstructExpr',) and len(f.args(f.strip(v_))) >= 2]
            okx = len(ka) == 1 and any(q.short_of(f.bcallee(j) or '') == 'begin' for j in f.calls(ka[0])) and any(q.short_of(f.bcallee(j) or '') == 'end' for j in f.calls(ka[0])) and \
                not any(f.N(j)['k'] == 'CXXOperatorCallExpr' and f.N(j).get('op') in ('+', '-') for j in f.walk(ka[0]))
        ctx.check(okx, R8, 'server:%s:applied-to-the-cache-with-the-whole-payload' % nm_, 'the operation is acknowledged without being applied to the cache (with the transmitted name)', f.where)
    f = crise
    hsz = [w for w in f.all_nodes() if f.N(w)['k'] == 'BinaryOperator' and f.N(w).get('op') == '=' and (f.ref_of(f.N(w)['ch'][0]) or '').endswith('tcp_operation_header::size')]
    bc = [i for i in f.calls() if q.short_of(f.bcallee(i) or '') == 'broadcast']
    pv8 = f.ref_of(f.args(bc[0])[1]) if bc else None
    carries = bool(pv8) and any(v_ is not None and q.param_by_index(f, 0) in f.subtree_refs(v_) for (d_, v_) in f.defs_of_var(pv8)) and not [w for w in f.calls() if q.short_of(f.bcallee(w) or '') in ('clear', 'assign', 'append', 'erase') and f.obj(w) is not None and f.ref_of(f.obj(w)) == pv8]
    okx = len(bc) == 1 and len(hsz) == 1 and carries and q.param_by_index(f, 0) in f.subtree_refs(f.N(hsz[0])['ch'][1])
    ctx.check(okx, R8, 'client:rise:payload-is-the-trigger-name', 'rise does not send the trigger name as the payload', f.where)
    ctx.floor(R8, 8)

    # ---------------- R6
    slen = sstore.gate_edges(lambda atom, pol: sstore.N(atom)['k'] == 'BinaryOperator' and sstore.N(atom).get('op') == '!=' and
                             {'key_len', 'data_len', 'triggers_len'} <= set(x.rsplit('::', 1)[-1] for x in q.deep_refs(sstore, sstore.N(atom)['ch'][0]) if x.startswith('f:')) and
                             any(x.endswith('tcp_operation_header::size') for x in q.deep_refs(sstore, sstore.N(atom)['ch'][1])) and pol is False)
    # every place where the input buffer is sliced: iterator arithmetic on data_in_ (begin()+n) and ranges built from it
    sites = []
    for i in sstore.all_nodes():
        n = sstore.N(i)
        if n['k'] == 'CXXOperatorCallExpr' and n.get('op') in ('+', '+=') and any(model.strip_targs(x).endswith('session::data_in_') for x in sstore.subtree_refs(i)) and sstore.point_of(i):
            par = sstore.parent.get(i)
            inner = par is not None and sstore.N(par)['k'] == 'CXXOperatorCallExpr' and sstore.N(par).get('op') == '+'
            if not inner:
                sites.append(i)
    for k, i in enumerate(sites):
        ctx.check(sstore.only_through(i, slen), R6, 'session::store:slice#%d:after-length-equation' % k, 'input sliced without checking key_len+data_len+triggers_len == size', sstore.loc(i))
    for name, op, val in (('save', '<', 32), ('load', '!=', 32), ('remove', '!=', 32)):
        f = P.fn(SS + '::' + name)
        g = f.gate_edges(lambda atom, pol, f=f, op=op, val=val: f.N(atom)['k'] == 'BinaryOperator' and f.N(atom).get('op') == op and f.const_value(f.N(atom)['ch'][1]) == val and
                         any(x.endswith('tcp_operation_header::size') for x in f.subtree_refs(f.N(atom)['ch'][0])) and pol is False)
        uses = [i for i in f.calls() if f.N(i)['k'] in ('CXXConstructExpr', 'CXXTemporaryObjectExpr') and any(model.strip_targs(x).endswith('session::data_in_') for x in f.subtree_refs(i))]
        ctx.check(bool(uses) and all(f.only_through(u, g) for u in uses), R6, 'session::%s:sid-slice-after-length-check' % name, '32-byte sid sliced without the size check', f.where)
    oh = P.fn(SS + '::on_header_in')
    rs = [i for i in q.field_calls(oh, 'session::data_in_', 'resize')]
    ctx.check(len(rs) == 1 and any(x.endswith('tcp_operation_header::size') for x in oh.subtree_refs(rs[0])), R6, 'on_header_in:buffer-sized-by-header', 'input buffer is not sized by the announced payload size', oh.where)


    # ---------------- R7 transport: no silent drop
    tm = P.fn('cppcms::impl::messenger::transmit')
    wr = [i for i in tm.calls() if (tm.bcallee(i) or '').endswith('stream_socket::write')]
    rd = [i for i in tm.calls() if (tm.bcallee(i) or '').endswith('stream_socket::read')]
    ctx.require(wr and rd, 'C10.R7: messenger::transmit does not write / read the socket')
    # an optional completion flag: a bool local that becomes true only after the request was written and the reply header read
    flags = {}
    for i in tm.all_nodes():
        n = tm.N(i)
        if n['k'] == 'BinaryOperator' and n.get('op') == '=' and tm.const_value(n['ch'][1]) == 1 and (tm.ref_of(n['ch'][0]) or '').startswith('v:'):
            flags.setdefault(tm.ref_of(n['ch'][0]), []).append(i)
    done = [v for v, ws in flags.items() if all(q.before(tm, wr[0], w) and q.before(tm, rd[0], w) for w in ws) and
            all(v_ is None or tm.const_value(v_) in (0, 1) for (_, v_) in tm.defs_of_var(v))]
    g_done = []
    for dv in done:
        g_done += [e for e in tm.gate_edges(lambda atom, pol, dv=dv: tm.N(atom)['k'] == 'DeclRefExpr' and tm.N(atom).get('ref') == dv and pol is True) if len(e) == 4]
    # normal exit (not an exception leaving the function) is reachable neither from the entry nor from a reconnect without
    # passing the write and the read of the reply - edges that are taken only when the completion flag is set count as "after the read"
    exc_edges = [(b_, tm.exit) for b_ in tm.try_blocks]
    cn_ = [i for i in tm.calls() if (tm.bcallee(i) or '').endswith('::connect')]
    starts = [('entry', tm.entry)] + [('reconnect@L%d' % tm.N(i)['l'], tm.point_of(i)[0]) for i in cn_ if tm.point_of(i)]
    for nm, b0 in starts:
        for what, evs in (('written', wr), ('answered', rd[:1])):
            reach = tm.reachable_blocks(start=b0, cut_edges=g_done + exc_edges, cut_blocks=(q.blocks_of(tm, evs) | tm.abnormal_blocks()) - {b0})
            ctx.check(tm.exit not in reach, R7, 'transmit:from-%s:normal-return-only-after-request-%s' % (nm, what), 'transmit can return without an exception although the request was not (re)sent and answered', tm.where)
    ctx.check(len(rd) >= 2 and all(q.before(tm, rd[0], r) for r in rd[1:]), R7, 'transmit:reply-header-then-body', 'reply body is not read after the reply header', tm.where)
    cl = [i for i in tm.calls() if (tm.bcallee(i) or '').endswith('::close')]
    cn = [i for i in tm.calls() if (tm.bcallee(i) or '').endswith('::connect')]
    ctx.check(bool(cl) and bool(cn) and all(any(tm.N(a)['k'] == 'CXXCatchStmt' for a in tm.ancestors(i)) for i in cl + cn), R7, 'transmit:reconnect-only-in-failure-handler', 'connection is reopened outside the failure handler', tm.where)
    ctx.floor(R1, 16)
    ctx.floor(R2, 7)
    ctx.floor(R3, 4)
    ctx.floor(R4, 4)
    ctx.floor(R5, 10)
    ctx.floor(R6, 7)
    ctx.floor(R7, 4)
    ctx.notes.append('observed, not claimed: on an L1 hit followed by a newer server version the returned trigger set is the union of the old L1 triggers and the new ones '
                     '(tags is not cleared between l1_->fetch and tcp()->fetch); trigger names containing NUL cannot survive the NUL-separated wire format.')
