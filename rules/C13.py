"""C13 — the built-in file server never serves anything outside its document roots (structural clauses)."""
from vlib import build, model, q, lin
from vlib.lin import Lin
from vlib.build import AnalysisBroken, REPO
from rules.C05 import load

S = 'cppcms::impl::file_server'
CHK = S + '::check_in_document_root'


def validated_at(f, ref, node, g_chk, depth=0):
    """is every definition of `ref` reaching `node` the out-parameter of check_in_document_root (reached only
    through its true edge) or a copy of a variable that is validated at the point of the copy"""
    rds = f.reaching_defs(ref, node)
    if not rds:
        return False
    for d in rds:
        if d == '<entry>':
            return False
        n = f.N(d)
        if n['k'] in model.CALL_KINDS and f.bcallee(d) == CHK:
            if not f.def_reaches_only_through(ref, d, node, g_chk(d)):
                return False
        elif n['k'] in ('CXXOperatorCallExpr', 'BinaryOperator') and n.get('op') == '=' and depth < 2:
            src = f.ref_of(n['ch'][2] if n['k'] == 'CXXOperatorCallExpr' else n['ch'][1])
            if not src or not validated_at(f, src, d, g_chk, depth + 1):
                return False
        else:
            return False
    return True


def run(ctx):
    ctx.explanation = ('Provenance of every path handed to a file sink in file_server::main (reaching definitions + the true edge of check_in_document_root, flags followed through '
                       're-assignment), gate rules inside check_in_document_root / is_in_root / is_file_prefix, the floor of the normaliser cursor, regular-file gate, and escaping of every '
                       'name written into a directory listing.')
    P = load(ctx, ['src/internal_file_server.cpp'])
    R1 = ctx.rule('C13.R1', 'every path opened / stat-ed / listed in main() is an out-parameter of check_in_document_root on its true edge')
    R2 = ctx.rule('C13.R2', 'check_in_document_root normalises first; with symlink checking success needs canonical() and a component-wise prefix test against the root')
    R3 = ctx.rule('C13.R3', 'normalize_path never moves its output cursor below the leading slash')
    R6 = ctx.rule('C13.R6', 'normalize_path cannot produce a climbing path, for every input up to a bounded length (E3, all byte values): the result starts with "/" and has no ".." component')
    R4 = ctx.rule('C13.R4', 'only regular files are streamed, and the mode tested belongs to the path that is opened')
    R5 = ctx.rule('C13.R5', 'directory listing only when enabled, dot names skipped, every name escaped / url-encoded')

    m = P.fn(S + '::main')

    def g_chk(callnode):
        return q.call_gate(m, lambda i: i == callnode, True)
    sinks = []
    for i in m.calls():
        cn = m.bcallee(i) or ''
        n = m.N(i)
        if cn == S + '::file_mode':
            sinks.append(('file_mode', i, m.args(i)[0]))
        elif cn == S + '::list_dir':
            sinks.append(('list_dir', i, m.args(i)[1]))
        elif cn.endswith('async_file_handler::async_file_handler') and m.args(i):
            sinks.append(('async_file_handler', i, m.args(i)[0]))
        elif cn.endswith('basic_ifstream::basic_ifstream') and m.args(i):
            sinks.append(('ifstream', i, m.args(i)[0]))
    ctx.require(len(sinks) >= 5, 'C13.R1: expected >=5 file sinks in file_server::main, found %d' % len(sinks))
    cnt = {}
    for kind, i, a in sinks:
        refs = [r for r in m.subtree_refs(a) if r.startswith('v:')]
        k = cnt.get(kind, 0)
        cnt[kind] = k + 1
        ok = len(refs) == 1 and validated_at(m, refs[0], i, g_chk)
        # the argument is the validated variable itself (or .c_str() of it), not a string built from it
        plain = all(m.N(j)['k'] not in ('BinaryOperator',) and not (m.N(j)['k'] == 'CXXOperatorCallExpr' and m.N(j).get('op') == '+') for j in m.walk(a))
        ctx.check(ok and plain, R1, 'main:%s#%d:path-validated' % (kind, k), 'a path that did not pass check_in_document_root reaches a file operation', m.loc(i))
    # other file-system calls in main are not allowed
    raw = [i for i in m.calls() if (m.callee(i) or '') in ('open', 'fopen', 'stat', 'lstat', 'opendir', 'access', 'readlink')]
    ctx.check(not raw, R1, 'main:no-raw-filesystem-calls', 'raw file-system call in main bypasses the root check', m.loc(raw[0]) if raw else m.where)
    # 404 when the check fails
    c0 = [i for i in m.calls() if m.bcallee(i) == CHK]
    ctx.check(len(c0) >= 1, R1, 'main:calls-check', 'main does not call check_in_document_root', m.where)

    # ---------------- R2
    ck = P.fn(CHK)
    normal = q.param_by_index(ck, 0)
    np_ = [i for i in ck.calls() if ck.bcallee(i) == S + '::normalize_path']
    uses = [i for i in ck.walk() if ck.N(i).get('ref') == normal and ck.point_of(i)]
    ok = len(np_) == 1 and normal in ck.subtree_refs(np_[0]) and all(ck.contains(np_[0], u) or q.before(ck, np_[0], u) for u in uses)
    ctx.check(ok, R2, 'check_in_document_root:normalise-first', 'the request path is used before it is normalised', ck.where)
    g_root = q.call_gate(ck, lambda i: ck.bcallee(i) == S + '::is_in_root', True)
    g_nosym = ck.gate_edges(lambda atom, pol: (ck.ref_of(atom) or '').endswith('file_server::check_symlinks_') and pol is False)
    succ = q.nonfalse_returns(ck)
    ctx.check(bool(succ) and all(ck.only_through(r, list(g_root) + list(g_nosym)) for r in succ), R2, 'check_in_document_root:symlink-check-gates-success',
              'success with check_symlinks_ set without passing is_in_root', ck.where)
    def first_char_is_slash(atom, pol):
        n_ = ck.N(atom)
        if n_['k'] != 'BinaryOperator' or n_.get('op') != '!=' or ck.const_value(n_['ch'][1]) != ord('/') or pol is not False:
            return False
        x = ck.strip(n_['ch'][0])
        m_ = ck.N(x)
        if m_['k'] == 'CXXOperatorCallExpr' and m_.get('op') == '[]' and len(m_['ch']) == 3:
            return ck.ref_of(m_['ch'][1]) == normal and ck.const_value(m_['ch'][2]) == 0
        if m_['k'] == 'CXXMemberCallExpr' and q.short_of(ck.bcallee(x) or '') in ('front',):
            return ck.ref_of(ck.obj(x)) == normal
        return False
    g_abs = ck.gate_edges(first_char_is_slash)
    ctx.check(all(ck.only_through(r, g_abs) for r in succ), R2, 'check_in_document_root:path-starts-with-slash', 'success for a path that does not start with /', ck.where)
    bad = [i for i in ck.calls() if q.short_of(ck.callee(i)) in ('compare', 'find', 'rfind') and ck.N(i)['k'] == 'CXXMemberCallExpr' and ck.ref_of(ck.obj(i)) == normal]
    pf = [i for i in ck.calls() if (ck.callee(i) or '').endswith('is_file_prefix')]
    ctx.check(not bad and len(pf) >= 1, R2, 'check_in_document_root:alias-match-is-component-wise', 'alias matched with a raw string comparison', ck.where)
    # symlink checking is on unless the configuration turns it off
    ctor = [f for f in P.fns.values() if f.brecord == S and f.kind == 'ctor' and f.entry is not None]
    ctx.require(ctor, 'C13.R2: file_server constructor not found')
    csw = [w for w in q.field_writes(ctor[0], 'file_server::check_symlinks_')]
    okd = len(csw) == 1
    if okd:
        gets = [i for i in ctor[0].calls(csw[0]) if q.short_of(ctor[0].bcallee(i) or '') == 'get']
        okd = len(gets) == 1 and any(ctor[0].N(j)['k'] == 'StringLiteral' and ctor[0].N(j).get('s') == 'file_server.check_symlink' for j in ctor[0].walk(gets[0])) and ctor[0].const_value(ctor[0].args(gets[0])[1]) == 1
    ctx.check(okd, R2, 'file_server:symlink-check-on-by-default', 'a configuration that does not mention file_server.check_symlink runs without the realpath containment test', ctor[0].loc(csw[0]) if csw else ctor[0].where)
    # an alias is applied (its target becomes the root, its prefix is cut off the path) only when it prefixes the path as whole components
    rootv = [d['ref'] for i in ck.all_nodes() if ck.N(i)['k'] == 'DeclStmt' for d in ck.N(i)['decls'] if d.get('init') is not None and
             any(model.strip_targs(r).endswith('file_server::document_root_') for r in ck.subtree_refs(d['init']))]
    ctx.check(len(rootv) == 1, R2, 'check_in_document_root:root-starts-as-document-root', 'the root is not initialised with document_root_', ck.where)
    if len(rootv) == 1:
        rootv = rootv[0]
        g_alias = q.call_gate(ck, lambda i: (ck.callee(i) or '').endswith('is_file_prefix') and normal in ck.subtree_refs(ck.args(i)[1]), True)
        rw = [w for w in q.writes_to(ck, rootv) if ck.N(w)['k'] != 'DeclStmt']
        cut = [w for w in q.writes_to(ck, normal) if ck.point_of(w) and any(q.short_of(ck.bcallee(j) or '') == 'substr' for j in ck.calls(w))]
        for k_, w in enumerate(rw + cut):
            ctx.check(bool(g_alias) and ck.only_through(w, g_alias), R2, 'check_in_document_root:alias-applied#%d:only-if-it-prefixes-the-path' % k_,
                      'an alias target / a cut path is used although the alias does not prefix the request path as whole components', ck.loc(w))
        for k_, w in enumerate(rw):
            # alias_[i].second goes with the alias_[i].first that was tested
            pc = [i for i in ck.calls() if (ck.callee(i) or '').endswith('is_file_prefix') and normal in ck.subtree_refs(ck.args(i)[1])]
            idx_t = set(r for i in pc for r in q.deep_refs(ck, ck.args(i)[0]) if r.startswith('v:'))
            idx_w = set(r for r in q.deep_refs(ck, ck.N(w)['ch'][-1]) if r.startswith('v:'))
            second = any(model.strip_targs(r).endswith('pair::second') for r in ck.subtree_refs(ck.N(w)['ch'][-1]))
            ctx.check(second and bool(idx_t & idx_w), R2, 'check_in_document_root:alias-applied#%d:target-of-the-tested-alias' % k_, 'the root is taken from a different alias than the one tested', ck.loc(w))
        # one alias at most: once an alias was applied no further alias is tried on the already cut path
        for k_, w in enumerate(rw):
            lp_ = q.enclosing_loops(ck, w)
            if not lp_:
                continue
            L_ = lp_[0]
            leaves = [j for j in ck.walk(ck.N(L_)['body']) if (ck.N(j)['k'] == 'BreakStmt' and q.enclosing_loops(ck, j)[0] == L_) or ck.N(j)['k'] == 'ReturnStmt']
            again = [i for i in ck.calls(L_) if (ck.callee(i) or '').endswith('is_file_prefix')]
            # from the application, the next alias test is unreachable without leaving the loop
            pw = ck.last_point_of(w)
            # (a loop left through a flag that the application sets is followed by the path-sensitive reachability)
            reach = ck.reachable_blocks_flags([], [lambda a_, p_: False], start=pw[0], cut_blocks=[ck.point_of(j)[0] for j in leaves if ck.point_of(j)[0] != pw[0]])
            later_same_block = [j for j in leaves if ck.point_of(j)[0] == pw[0] and ck.point_of(j)[1] > pw[1]]
            okf = bool(later_same_block) or not any(ck.point_of(i)[0] in reach and ck.point_of(i)[0] != pw[0] for i in again)
            ctx.check(okf, R2, 'check_in_document_root:alias-applied#%d:then-no-further-alias' % k_, 'after one alias was applied a second alias can be matched against the already cut path', ck.loc(w))
        # without symlink checking the result is root + path with at most one trailing separator removed
        realp_ = q.param_by_index(ck, 1)
        asg = [w for w in q.writes_to(ck, realp_) if ck.N(w)['k'] == 'CXXOperatorCallExpr' and ck.N(w).get('op') == '=']
        oka = len(asg) == 1
        if oka:
            rhs = ck.strip(ck.N(asg[0])['ch'][2])
            pl = [j for j in ck.walk(rhs) if ck.N(j)['k'] == 'CXXOperatorCallExpr' and ck.N(j).get('op') == '+']
            oka = len(pl) == 1 and ck.ref_of(ck.N(pl[0])['ch'][1]) == rootv and ck.ref_of(ck.N(pl[0])['ch'][2]) == normal
        ctx.check(oka, R2, 'check_in_document_root:no-symlink-branch:result-is-root-plus-path', 'the unchecked result is not root + normalised path', ck.loc(asg[0]) if asg else ck.where)
        SYc = q.symb_with_locals(ck)
        RS = lin.Lin.atom(realp_ + '.size()')
        for k_, i in enumerate([i for i in ck.calls() if ck.N(i)['k'] == 'CXXMemberCallExpr' and ck.obj(i) is not None and ck.ref_of(ck.obj(i)) == realp_ and
                                q.short_of(ck.bcallee(i) or '') in ('resize', 'erase', 'pop_back', 'clear', 'assign', 'append', 'replace', 'insert', 'push_back')]):
            sh_ = q.short_of(ck.bcallee(i) or '')
            okr = False
            if sh_ in ('resize', 'pop_back'):
                by_one = sh_ == 'pop_back'
                if sh_ == 'resize':
                    d_ = _subst(SYc.lin(ck.args(i)[0]), ck, realp_, RS) - RS
                    by_one = d_.is_const() and d_.c == -1
                g_sep = ck.gate_edges(lambda atom, pol: ck.N(atom)['k'] in model.CALL_KINDS and (ck.callee(atom) or '').endswith('is_directory_separator') and realp_ in ck.subtree_refs(atom) and pol is True and
                                      any(ck.N(j)['k'] == 'CXXOperatorCallExpr' and ck.N(j).get('op') == '[]' and (_subst(SYc.lin(ck.N(j)['ch'][2]), ck, realp_, RS) - RS).is_const() and
                                          (_subst(SYc.lin(ck.N(j)['ch'][2]), ck, realp_, RS) - RS).c == -1 for j in ck.walk(atom)))
                okr = by_one and bool(g_sep) and ck.only_through(i, g_sep) and q.before(ck, asg[0], i) if asg else False
            ctx.check(okr, R2, 'check_in_document_root:no-symlink-branch:%s#%d:only-one-trailing-separator' % (sh_, k_),
                      'the unchecked result is shortened / edited by something other than dropping one trailing separator: it can name a sibling of the root', ck.loc(i))
    # the root handed to is_in_root / concatenated is document_root_ or the matched alias target
    ir = P.fn(S + '::is_in_root')
    g_c = q.call_gate(ir, lambda i: ir.bcallee(i) == S + '::canonical', True)
    g_p = q.call_gate(ir, lambda i: (ir.callee(i) or '').endswith('is_file_prefix'), True)
    succ = q.nonfalse_returns(ir)
    ctx.check(bool(succ) and all(ir.only_through(r, g_c) and ir.only_through(r, g_p) for r in succ), R2, 'is_in_root:canonical-and-prefix', 'is_in_root succeeds without canonical() and the prefix test', ir.where)
    pfc = [i for i in ir.calls() if (ir.callee(i) or '').endswith('is_file_prefix')]
    rootp, realp = q.param_by_index(ir, 1), q.param_by_index(ir, 2)
    ctx.check(len(pfc) == 1 and ir.ref_of(ir.args(pfc[0])[0]) == rootp and ir.ref_of(ir.args(pfc[0])[1]) == realp, R2, 'is_in_root:prefix(root,real)', 'prefix test is not is_file_prefix(root, canonical path)', ir.where)
    cc = [i for i in ir.calls() if ir.bcallee(i) == S + '::canonical']
    ctx.check(len(cc) == 1 and ir.ref_of(ir.args(cc[0])[1]) == realp and rootp in ir.subtree_refs(_def_or_self(ir, ir.args(cc[0])[0])), R2, 'is_in_root:canonical(root+path)', 'canonicalised path is not built from the root', ir.where)
    fp = [f for f in P.fns.values() if f.short == 'is_file_prefix']
    ctx.require(fp, 'C13.R2: is_file_prefix not found')
    fp = fp[0]
    pre, full = q.param_by_index(fp, 0), q.param_by_index(fp, 1)
    from vlib import lin as _lin
    SYL = q.symb_with_locals(fp)          # single-definition locals (prefix_size, full_size) stand for their initialisers
    PSa, FSa = _lin.Lin.atom(pre + '.size()'), _lin.Lin.atom(full + '.size()')

    def long_enough(atom, pol):
        n_ = fp.N(atom)
        if n_['k'] != 'BinaryOperator' or n_.get('op') not in ('<', '<=', '>', '>='):
            return False
        cons = SYL.rel(atom, pol)
        return bool(cons) and _lin.implies(cons, _lin.ge(FSa - PSa))
    g_len = fp.gate_edges(long_enough)
    mc = [i for i in fp.calls() if fp.callee(i) == 'memcmp']
    g_eq = fp.gate_edges(lambda atom, pol: fp.N(atom)['k'] == 'BinaryOperator' and fp.N(atom).get('op') in ('!=', '==') and any(fp.callee(j) == 'memcmp' for j in fp.calls(atom)) and
                         fp.const_value(fp.N(atom)['ch'][1]) == 0 and ((fp.N(atom)['op'] == '!=' and pol is False) or (fp.N(atom)['op'] == '==' and pol is True)))
    succ = q.nonfalse_returns(fp)
    ctx.check(bool(succ) and all(fp.only_through(r, g_len) and fp.only_through(r, g_eq) for r in succ), R2, 'is_file_prefix:length-and-bytes', 'prefix accepted without the length test and the byte comparison', fp.where)
    # the boundary test: success only if the prefix is empty, ends with a separator, is the whole of `full`
    # (decided by linear implication: the guard taken must force full.size() == prefix.size()), or `full` continues with a separator
    SY = SYL
    PS, FS = PSa, FSa

    def boundary(atom, pol):
        n = fp.N(atom)
        if n['k'] in model.CALL_KINDS and (fp.callee(atom) or '').endswith('is_directory_separator'):
            refs = fp.subtree_refs(atom)
            if pre in refs and pol is True:       # prefix[prefix_size-1] is a separator
                return True
            if full in refs and pol is True:      # full[prefix_size] is a separator
                idx = [j for j in fp.walk(atom) if fp.N(j)['k'] == 'CXXOperatorCallExpr' and fp.N(j).get('op') == '[]']
                return bool(idx) and (SY.lin(fp.N(idx[0])['ch'][2]) - PS).is_const() and (SY.lin(fp.N(idx[0])['ch'][2]) - PS).c == 0
            return False
        if n['k'] == 'BinaryOperator' and n.get('op') in ('==', '<', '<=', '>', '>=', '!='):
            cons = SY.rel(atom, pol)
            if not cons:
                return False
            if _lin.implies(cons + [_lin.ge(PS)], _lin.eq(PS)):           # prefix_size == 0
                return True
            # with the length test already passed (full.size() >= prefix_size) the guard forces equality
            return _lin.implies(cons + [_lin.ge(FS - PS)], _lin.eq(FS - PS))
        return False
    g_b = fp.gate_edges(boundary)
    ctx.check(bool(succ) and all(fp.only_through(r, g_b) for r in succ), R2, 'is_file_prefix:component-boundary',
              'prefix accepted although the next character of the longer path is not a separator (/rootx or /root~ would match /root)', fp.where)
    if len(mc) == 1:
        ln = fp.args(mc[0])[2]
        lv = fp.ref_of(ln)
        okl = any(q.short_of(fp.callee(j)) == 'size' and fp.ref_of(fp.obj(j)) == pre for j in fp.calls(_def_or_self(fp, ln)))
        ctx.check(okl, R2, 'is_file_prefix:compares-whole-prefix', 'byte comparison does not cover the whole prefix', fp.loc(mc[0]))

    # ---------------- R3
    nz = P.fn(S + '::normalize_path')
    pathp = q.param_by_index(nz, 0)

    def floor_in(fn, x, floors):
        """is x  path.begin()+1  (directly or via a local initialised with it), or one of `floors` (a parameter that stands for it)"""
        if fn.ref_of(x) in floors:
            return True
        x = _def_or_self(fn, x)
        has_begin = any(q.short_of(fn.callee(j)) == 'begin' and fn.ref_of(fn.obj(j)) == pathp for j in fn.calls(x) if fn.N(j)['k'] == 'CXXMemberCallExpr')
        one = any(fn.const_value(j) == 1 for j in fn.walk(x))
        return fn is nz and has_begin and one
    # the functions that move the output cursor back: normalize_path itself and helpers of the file it hands the cursor and the floor to
    hosts = [(nz, set())]
    for c in nz.calls():
        g = P.fns.get(nz.N(c).get('callee') or '')
        if g is None or g.entry is None or g.file != nz.file or g is nz or g.kind not in ('function', 'method'):
            continue
        fl = set(g.params[k]['ref'] for k, a in enumerate(nz.args(c)) if k < len(g.params) and floor_in(nz, a, set()))
        if fl:
            hosts.append((g, fl))
    decs = []
    for (fn, floors) in hosts:
        for i in fn.all_nodes():
            n = fn.N(i)
            if (n['k'] == 'UnaryOperator' and n.get('op') == '--') or (n['k'] == 'CXXOperatorCallExpr' and n.get('op') == '--'):
                decs.append((fn, floors, i))
    ctx.require(len(decs) >= 2, 'C13.R3: expected cursor decrements in normalize_path (or a helper it hands the cursor to), found %d' % len(decs))
    for k, (fn, floors, d) in enumerate(decs):
        var = fn.ref_of(fn.N(d)['ch'][1] if fn.N(d)['k'] == 'CXXOperatorCallExpr' else fn.N(d)['ch'][0])

        def above(atom, pol, var=var, fn=fn, floors=floors):
            n = fn.N(atom)
            if n.get('op') not in ('>', '<', '>=', '<=') or n['k'] not in ('CXXOperatorCallExpr', 'BinaryOperator'):
                return False
            ch = n['ch'][1:] if n['k'] == 'CXXOperatorCallExpr' else n['ch']
            l, r = ch
            if fn.ref_of(l) == var and floor_in(fn, r, floors):
                return n['op'] == '>' and pol is True
            if fn.ref_of(r) == var and floor_in(fn, l, floors):
                return n['op'] == '<' and pol is True
            return False
        g = fn.gate_edges(above)
        okd = fn.only_through(d, g)
        # ... and the guard is the branch immediately governing the decrement (no other write of the cursor in between)
        pb = fn.point_of(d)[0]
        direct = any(t == pb for (_, t, _, _) in [e for e in g if len(e) == 4])
        ctx.check(okd and direct, R3, 'normalize_path:decrement#%d:only-above-floor' % k, 'output cursor decremented without the `out > begin+1` guard', fn.loc(d))
    rs = [i for i in nz.calls() if q.short_of(nz.callee(i)) == 'resize' and nz.ref_of(nz.obj(i)) == pathp]
    ctx.check(len(rs) == 1 and q.always_before_exit(nz, rs), R3, 'normalize_path:result-truncated-to-cursor', 'result is not cut at the output cursor', nz.where)

    # ---------------- R6 normalize_path exact on all short inputs (E3)
    from vlib import absint
    from vlib.absint import AV, Arr, PV, Cell, Split, Unsupported
    import itertools as _it

    def norm_hooks():
        def h_find(it, fn, i, env):
            a = [it.rvalue(fn, x, env) for x in fn.args(i)]
            if not (len(a) == 3 and isinstance(a[0], PV) and isinstance(a[1], PV) and isinstance(a[2], AV) and a[2].is_const()):
                raise Unsupported('std::find shape')
            for j in range(a[0].off, a[1].off):
                e = it.load(('elem', PV(a[0].arr, j)))
                if e.is_const():
                    if e.lo == a[2].lo:
                        return PV(a[0].arr, j)
                    continue
                if e.vals is not None and a[2].lo not in e.vals:
                    continue
                if e.vals is None and not (e.lo <= a[2].lo <= e.hi):
                    continue
                it.split_on(e.deps)
            return a[1]

        def h_copy(it, fn, i, env):
            a = [it.rvalue(fn, x, env) for x in fn.args(i)]
            if not (len(a) == 3 and all(isinstance(x, PV) for x in a)):
                raise Unsupported('std::copy shape')
            n_ = a[1].off - a[0].off
            for j in range(n_):
                it.store(('elem', PV(a[2].arr, a[2].off + j)), it.load(('elem', PV(a[0].arr, a[0].off + j))))
            return PV(a[2].arr, a[2].off + n_)

        def h_resize(it, fn, i, env):
            ov = it.rvalue(fn, fn.obj(i), env)
            k_ = it.rvalue(fn, fn.args(i)[0], env)
            if not (isinstance(ov, Arr) and isinstance(k_, AV)):
                raise Unsupported('resize shape')
            if not k_.is_const():
                it.split_on(k_.deps)
            if k_.lo < 0 or k_.lo > len(ov.elems) - 1:
                raise absint.OutOfBounds('resize(%d) of a string of %d bytes' % (k_.lo, len(ov.elems) - 1))
            del ov.elems[k_.lo:]
            ov.elems.append(AV.const(0))
            return AV.const(0)

        def h_empty(it, fn, i, env):
            ov = it.rvalue(fn, fn.obj(i), env)
            if isinstance(ov, Arr):
                return AV.const(1 if len(ov.elems) <= 1 else 0)
            return NotImplemented

        def h_plus(it, fn, i, env):
            a = [it.rvalue(fn, x, env) for x in fn.args(i)]
            out = []
            for x in a:
                if isinstance(x, Arr):
                    out += x.elems[:-1]
                elif isinstance(x, PV):
                    j = x.off
                    while True:
                        e = it.load(('elem', PV(x.arr, j)))
                        if e.is_const() and e.lo == 0:
                            break
                        out.append(e)
                        j += 1
                else:
                    raise Unsupported('operator+ operand')
            return Arr(out + [AV.const(0)], 'str:tmp')

        def h_assign(it, fn, i, env):
            n_ = fn.N(i)
            if n_['k'] != 'CXXOperatorCallExpr' or n_.get('op') != '=':
                return NotImplemented
            dst = it.rvalue(fn, n_['ch'][1], env)
            src = it.rvalue(fn, n_['ch'][2], env)
            if isinstance(dst, Arr) and isinstance(src, Arr):
                dst.elems[:] = list(src.elems)        # in place: iterators and references to the string stay bound to it
                return dst
            return NotImplemented
        return {'std::find': h_find, 'std::copy': h_copy, 'std::basic_string::resize': h_resize, 'std::basic_string::empty': h_empty, 'std::operator+': h_plus,
                'std::basic_string::operator=': h_assign}

    def resolve(bs):
        st = []
        for comp in bytes(bs).split(b'/'):
            if comp in (b'', b'.'):
                continue
            if comp == b'..':
                if st:
                    st.pop()
                continue
            st.append(comp)
        return b'/' + b'/'.join(st)

    def run_norm(L):
        def runs(it):
            a = Arr([it.inbyte(k_) for k_ in range(L)] + [AV.const(0)], 'str:path')
            it.hooks = norm_hooks()
            c = Cell(a)
            it.call_fn(nz, [c])
            return c.v
        nb = 0
        CLS = [(-128, 45), (46, 46), (47, 47), (48, 127)]        # '.', '/', and everything below / above them
        try:
            explored = list(absint.explore(P, runs, [list(c_) for c_ in _it.product(CLS, repeat=L)]))
        except absint.OutOfBounds as e_:
            return 'inputs of %d bytes: %s (the cursor left the string)' % (L, e_), nb
        for (bx, r, it) in explored:
            nb += 1
            if not isinstance(r, Arr):
                return 'box %s: result is not a string' % (bx,), nb
            outb = r.elems[:-1]
            cands = [sorted(set([lo, hi]) | set(x for x in (46, 47) if lo <= x <= hi)) for (lo, hi) in bx]
            for combo in _it.product(*cands):
                inp = bytes(v & 0xFF for v in combo)
                conc = []
                for e in outb:
                    if e.is_const():
                        conc.append(e.lo & 0xFF)
                    elif len(e.deps) == 1:
                        conc.append(combo[next(iter(e.deps))] & 0xFF)      # a copied input byte
                    else:
                        return 'box %s: output byte %r is neither constant nor a copy of one input byte' % (bx, e), nb
                got = bytes(conc)
                # what containment needs (with symlink checking off the result is appended to the root as it is): rooted, and no
                # component that climbs.  (That the result also *equals* the lexical resolution is not demanded: a normaliser that
                # keeps a trailing slash or an empty component still serves from inside the root.)
                if not got.startswith(b'/') or b'..' in got.split(b'/'):
                    return 'input %r: normalised to %r (lexical resolution: %r): the result can climb out of the root it is appended to' % (inp, got, resolve(inp)), nb
        return None, nb
    for L in range(0, (6 if ctx.tier == 'quick' else 8) + 1):
        bad, nb = run_norm(L)
        ctx.check(bad is None, R6, 'normalize_path:all-inputs-of-%d-bytes' % L, bad or '', nz.where, detail={'boxes': nb})
    ctx.floor(R6, 5)

    # ---------------- R4
    g_reg = m.gate_edges(lambda atom, pol: m.N(atom)['k'] == 'BinaryOperator' and m.N(atom).get('op') == '&' and m.const_value(m.N(atom)['ch'][1]) == 0o100000 and pol is True)
    for kind, i, a in sinks:
        if kind in ('ifstream', 'async_file_handler'):
            ctx.check(m.only_through(i, g_reg), R4, 'main:%s:only-regular-files' % kind, 'a non-regular file can be streamed', m.loc(i))
    # the mode variable tested is the mode of the path variable opened: definitions come in pairs
    sdefs = []
    for i in m.all_nodes():
        n = m.N(i)
        if n['k'] == 'BinaryOperator' and n.get('op') & 0 if False else (n['k'] == 'BinaryOperator' and n.get('op') == '=' and (m.ref_of(n['ch'][0]) or '').startswith('v:s@')):
            sdefs.append(i)
    pathv = [r for k_, i_, a_ in sinks if k_ == 'ifstream' for r in m.subtree_refs(a_) if r.startswith('v:')]
    ok = bool(pathv)
    if ok:
        pv = pathv[0]
        for d in sdefs:
            src = m.ref_of(m.N(d)['ch'][1])
            blk = m.point_of(d)[0]
            pd = [w for (w, v) in m.defs_of_var(pv) if m.point_of(w) and m.point_of(w)[0] == blk and v is not None]
            if not pd:
                ok = False
                continue
            psrc = m.ref_of([v for (w, v) in m.defs_of_var(pv) if w == pd[0]][0])
            # src (mode_2) must be file_mode(psrc (path2))
            sd = m.defs_of_var(src)
            ok = ok and any(v is not None and any(m.bcallee(j) == S + '::file_mode' and m.ref_of(m.args(j)[0]) == psrc for j in m.calls(v)) for (_, v) in sd)
    ctx.check(ok and len(sdefs) >= 1, R4, 'main:mode-belongs-to-opened-path', 'the mode that is tested is not the mode of the path that is opened', m.where)

    # ---------------- R5
    ldc = [i for k_, i, a in sinks if k_ == 'list_dir']
    g_list = m.gate_edges(lambda atom, pol: (m.ref_of(atom) or '').endswith('file_server::list_directories_') and pol is True)
    for i in ldc:
        ctx.check(m.only_through(i, g_list), R5, 'main:list_dir-only-if-enabled', 'directory listing reachable with listing disabled', m.loc(i))
    ld = P.fn(S + '::list_dir')
    urlp = q.param_by_index(ld, 0)
    names = [i for i in ld.calls() if ld.bcallee(i) == 'cppcms::impl::directory::name']
    shifts = [i for i in ld.calls() if ld.N(i)['k'] == 'CXXOperatorCallExpr' and ld.N(i).get('op') == '<<']
    n_out = 0
    for i in shifts:
        arg = ld.N(i)['ch'][2] if len(ld.N(i)['ch']) > 2 else None
        if arg is None:
            continue
        tainted = [j for j in ld.walk(arg) if (ld.N(j).get('ref') == urlp) or (ld.N(j)['k'] == 'CXXMemberCallExpr' and ld.bcallee(j) == 'cppcms::impl::directory::name')]
        if not tainted:
            continue
        n_out += 1
        wrapped = any((ld.bcallee(j) or '') in ('cppcms::util::escape', 'cppcms::util::urlencode') for j in ld.calls(arg))
        ctx.check(wrapped, R5, 'list_dir:output#%d:escaped' % n_out, 'a file name / URL is written into the page without escaping', ld.loc(i))
    ctx.check(n_out >= 3, R5, 'list_dir:name-outputs-found', 'expected >=3 name/url outputs, found %d' % n_out, ld.where)
    # dot names skipped before any row output
    g_dot = ld.gate_edges(lambda atom, pol: ld.N(atom)['k'] == 'BinaryOperator' and ld.N(atom).get('op') == '==' and any(ld.callee(j) == 'memcmp' for j in ld.calls(atom)) and pol is False)
    rows = [i for i in shifts if any(ld.bcallee(j) == 'cppcms::impl::directory::name' for j in ld.calls(i))]
    ctx.check(bool(rows) and all(ld.only_through(i, g_dot) for i in rows), R5, 'list_dir:dot-names-skipped', 'hidden (dot) names can be listed', ld.where)

    # ---------------- R7 what counts as a separator; roots and alias targets are resolved paths
    R7 = ctx.rule('C13.R7', 'the component-wise prefix test splits at "/" only in this (POSIX) configuration (E3 over every byte: a backslash is an ordinary file-name character, so "www\\x" is not inside "www"); '
                            'the document root and every alias target are stored only after canonical() resolved them - an unresolved alias is refused, never registered with an empty target '
                            '(an empty root is a prefix of every path)')
    ids = [g for g in P.fns.values() if g.short == 'is_directory_separator' and g.body is not None]
    ctx.require(len(ids) == 1, 'C13.R7: is_directory_separator not found')
    win = 'CPPCMS_WIN32' in ctx.stats.get('defs', '')
    acc = set()
    for (bx, rv, it) in absint.explore(P, lambda it: it.call_fn(ids[0], [it.inbyte(0)]), [[(-128, 127)]]):
        if not (isinstance(rv, absint.AV) and rv.is_const()):
            acc.add(None)
        elif rv.lo:
            acc |= set(v & 0xFF for v in range(bx[0][0], bx[0][1] + 1))
    want = {47, 92} if win else {47}
    ctx.check(acc == want, R7, 'is_directory_separator:exactly-the-separators-of-this-platform', 'bytes accepted as directory separator: %s, expected %s' % (sorted(x for x in acc if x is not None), sorted(want)), ids[0].where)
    fsc = [g for g in P.fns.values() if g.kind == 'ctor' and (g.record or '').endswith('file_server') and g.body is not None]
    ctx.require(len(fsc) >= 1, 'C13.R7: file_server constructor not found')
    fc_ = fsc[0]
    can = [i for i in fc_.calls() if q.short_of(fc_.callee(i) or '') == 'canonical']
    pushes = [i for i in fc_.calls() if q.short_of(fc_.callee(i) or '') in ('push_back', 'emplace_back', 'insert') and fc_.obj(i) is not None and any(model.strip_targs(x).endswith('file_server::alias_') for x in fc_.subtree_refs(fc_.obj(i)))]
    ok7 = len(pushes) >= 1 and len(can) >= 2
    why7 = 'alias registration / canonical() calls not found'
    if ok7:
        for p_ in pushes:
            outs = [fc_.ref_of(fc_.args(c_)[1]) for c_ in can]
            mine = [c_ for c_ in can if fc_.ref_of(fc_.args(c_)[1]) and fc_.ref_of(fc_.args(c_)[1]) in q.deep_refs(fc_, p_)]
            g_ok = q.call_gate(fc_, lambda i: i in mine, True)
            if not (len(mine) == 1 and bool(g_ok) and fc_.only_through(p_, g_ok)):
                ok7, why7 = False, 'an alias is registered although canonical() did not resolve its target (the stored target is then empty and matches every path)'
        rootc = [c_ for c_ in can if model.strip_targs(fc_.ref_of(fc_.args(c_)[1]) or '').endswith('file_server::document_root_')]
        if ok7 and len(rootc) != 1:
            ok7, why7 = False, 'the document root is not the out-parameter of canonical()'
        if ok7:
            # a failed resolution of the root never lets construction complete normally
            g_bad = q.call_gate(fc_, lambda i: i == rootc[0], False)
            for (b_, s_, lab_, tag_) in g_bad:
                if fc_.exit in fc_.reachable_blocks(start=s_) and not [t_ for t_ in fc_.all_nodes() if fc_.N(t_)['k'] == 'CXXThrowExpr' and fc_.point_of(t_) is not None and fc_.point_of(t_)[0] in fc_.reachable_blocks(start=s_)]:
                    ok7, why7 = False, 'an unresolvable document root does not stop construction'
    ctx.check(ok7, R7, 'file_server():roots-and-alias-targets-only-after-canonical()-succeeded', why7, fc_.where)
    ctx.floor(R7, 2)
    ctx.floor(R1, 6)
    ctx.floor(R2, 9)
    ctx.floor(R3, 4)
    ctx.floor(R4, 3)
    ctx.floor(R5, 5)
    ctx.assume('canonicalize_file_name / realpath resolve symlinks as POSIX specifies')


def _subst(e, f, full, FS):
    """rename the atom of `full.size()` to the canonical one"""
    from vlib import lin as _lin
    out = _lin.Lin({}, e.c)
    for a, v in e.t.items():
        if a == full + '.size()':
            out = out + FS.scale(v)
        else:
            out = out + _lin.Lin.atom(a).scale(v)
    return out


def _def_or_self(f, x):
    r = f.ref_of(x)
    if r is None:
        vs = [v for v in f.subtree_refs(x) if v.startswith('v:')]
        if len(vs) == 1 and not any(f.N(j)['k'] in ('BinaryOperator',) or (f.N(j)['k'] == 'CXXOperatorCallExpr' and f.N(j).get('op') == '+') for j in f.walk(x)):
            r = vs[0]
    if r and r.startswith('v:'):
        ds = f.defs_of_var(r)
        if len(ds) == 1 and ds[0][1] is not None:
            return ds[0][1]
    return x
