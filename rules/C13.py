"""C13 — the built-in file server never serves anything outside its document roots (structural clauses)."""
from vlib import build, model, q, lin
from vlib.lin import Lin
from vlib.build import AnalysisBroken, REPO
from rules.C05 import load

S = 'cppcms::impl::file_server'
CHK = S + '::check_in_document_root'


def validated_at(f, ref, node, g_chk, depth=0):
    """is every definition of `ref` reaching `node` the out-parameter of check_in_document_root (reached only
    through its true edge) or a copy of a variable that is validated at the point of the copy"""
    rds = f.reaching_defs(ref, node)
    if not rds:
        return False
    for d in rds:
        if d == '<entry>':
            return False
        n = f.N(d)
        if n['k'] in model.CALL_KINDS and f.bcallee(d) == CHK:
            if not f.def_reaches_only_through(ref, d, node, g_chk(d)):
                return False
        elif n['k'] in ('CXXOperatorCallExpr', 'BinaryOperator') and n.get('op') == '=' and depth < 2:
            src = f.ref_of(n['ch'][2] if n['k'] == 'CXXOperatorCallExpr' else n['ch'][1])
            if not src or not validated_at(f, src, d, g_chk, depth + 1):
                return False
        else:
            return False
    return True


def run(ctx):
    ctx.explanation = ('Provenance of every path handed to a file sink in file_server::main (reaching definitions + the true edge of check_in_document_root, flags followed through '
                       're-assignment), gate rules inside check_in_document_root / is_in_root / is_file_prefix, the floor of the normaliser cursor, regular-file gate, and escaping of every '
                       'name written into a directory listing.')
    P = load(ctx, ['src/internal_file_server.cpp'])
    R1 = ctx.rule('C13.R1', 'every path opened / stat-ed / listed in main() is an out-parameter of check_in_document_root on its true edge')
    R2 = ctx.rule('C13.R2', 'check_in_document_root normalises first; with symlink checking success needs canonical() and a component-wise prefix test against the root')
    R3 = ctx.rule('C13.R3', 'normalize_path never moves its output cursor below the leading slash')
    R4 = ctx.rule('C13.R4', 'only regular files are streamed, and the mode tested belongs to the path that is opened')
    R5 = ctx.rule('C13.R5', 'directory listing only when enabled, dot names skipped, every name escaped / url-encoded')

    m = P.fn(S + '::main')

    def g_chk(callnode):
        return q.call_gate(m, lambda i: i == callnode, True)
    sinks = []
    for i in m.calls():
        cn = m.bcallee(i) or ''
        n = m.N(i)
        if cn == S + '::file_mode':
            sinks.append(('file_mode', i, m.args(i)[0]))
        elif cn == S + '::list_dir':
            sinks.append(('list_dir', i, m.args(i)[1]))
        elif cn.endswith('async_file_handler::async_file_handler') and m.args(i):
            sinks.append(('async_file_handler', i, m.args(i)[0]))
        elif cn.endswith('basic_ifstream::basic_ifstream') and m.args(i):
            sinks.append(('ifstream', i, m.args(i)[0]))
    ctx.require(len(sinks) >= 5, 'C13.R1: expected >=5 file sinks in file_server::main, found %d' % len(sinks))
    cnt = {}
    for kind, i, a in sinks:
        refs = [r for r in m.subtree_refs(a) if r.startswith('v:')]
        k = cnt.get(kind, 0)
        cnt[kind] = k + 1
        ok = len(refs) == 1 and validated_at(m, refs[0], i, g_chk)
        # the argument is the validated variable itself (or .c_str() of it), not a string built from it
        plain = all(m.N(j)['k'] not in ('BinaryOperator',) and not (m.N(j)['k'] == 'CXXOperatorCallExpr' and m.N(j).get('op') == '+') for j in m.walk(a))
        ctx.check(ok and plain, R1, 'main:%s#%d:path-validated' % (kind, k), 'a path that did not pass check_in_document_root reaches a file operation', m.loc(i))
    # other file-system calls in main are not allowed
    raw = [i for i in m.calls() if (m.callee(i) or '') in ('open', 'fopen', 'stat', 'lstat', 'opendir', 'access', 'readlink')]
    ctx.check(not raw, R1, 'main:no-raw-filesystem-calls', 'raw file-system call in main bypasses the root check', m.loc(raw[0]) if raw else m.where)
    # 404 when the check fails
    c0 = [i for i in m.calls() if m.bcallee(i) == CHK]
    ctx.check(len(c0) >= 1, R1, 'main:calls-check', 'main does not call check_in_document_root', m.where)

    # ---------------- R2
    ck = P.fn(CHK)
    normal = q.param_by_index(ck, 0)
    np_ = [i for i in ck.calls() if ck.bcallee(i) == S + '::normalize_path']
    uses = [i for i in ck.walk() if ck.N(i).get('ref') == normal and ck.point_of(i)]
    ok = len(np_) == 1 and normal in ck.subtree_refs(np_[0]) and all(ck.contains(np_[0], u) or q.before(ck, np_[0], u) for u in uses)
    ctx.check(ok, R2, 'check_in_document_root:normalise-first', 'the request path is used before it is normalised', ck.where)
    g_root = q.call_gate(ck, lambda i: ck.bcallee(i) == S + '::is_in_root', True)
    g_nosym = ck.gate_edges(lambda atom, pol: (ck.ref_of(atom) or '').endswith('file_server::check_symlinks_') and pol is False)
    succ = q.nonfalse_returns(ck)
    ctx.check(bool(succ) and all(ck.only_through(r, list(g_root) + list(g_nosym)) for r in succ), R2, 'check_in_document_root:symlink-check-gates-success',
              'success with check_symlinks_ set without passing is_in_root', ck.where)
    g_abs = ck.gate_edges(lambda atom, pol: ck.N(atom)['k'] == 'BinaryOperator' and ck.N(atom).get('op') == '!=' and ck.const_value(ck.N(atom)['ch'][1]) == ord('/') and normal in ck.subtree_refs(atom) and pol is False)
    ctx.check(all(ck.only_through(r, g_abs) for r in succ), R2, 'check_in_document_root:path-starts-with-slash', 'success for a path that does not start with /', ck.where)
    bad = [i for i in ck.calls() if q.short_of(ck.callee(i)) in ('compare', 'find', 'rfind') and ck.N(i)['k'] == 'CXXMemberCallExpr' and ck.ref_of(ck.obj(i)) == normal]
    pf = [i for i in ck.calls() if (ck.callee(i) or '').endswith('is_file_prefix')]
    ctx.check(not bad and len(pf) >= 1, R2, 'check_in_document_root:alias-match-is-component-wise', 'alias matched with a raw string comparison', ck.where)
    # the root handed to is_in_root / concatenated is document_root_ or the matched alias target
    ir = P.fn(S + '::is_in_root')
    g_c = q.call_gate(ir, lambda i: ir.bcallee(i) == S + '::canonical', True)
    g_p = q.call_gate(ir, lambda i: (ir.callee(i) or '').endswith('is_file_prefix'), True)
    succ = q.nonfalse_returns(ir)
    ctx.check(bool(succ) and all(ir.only_through(r, g_c) and ir.only_through(r, g_p) for r in succ), R2, 'is_in_root:canonical-and-prefix', 'is_in_root succeeds without canonical() and the prefix test', ir.where)
    pfc = [i for i in ir.calls() if (ir.callee(i) or '').endswith('is_file_prefix')]
    rootp, realp = q.param_by_index(ir, 1), q.param_by_index(ir, 2)
    ctx.check(len(pfc) == 1 and ir.ref_of(ir.args(pfc[0])[0]) == rootp and ir.ref_of(ir.args(pfc[0])[1]) == realp, R2, 'is_in_root:prefix(root,real)', 'prefix test is not is_file_prefix(root, canonical path)', ir.where)
    cc = [i for i in ir.calls() if ir.bcallee(i) == S + '::canonical']
    ctx.check(len(cc) == 1 and ir.ref_of(ir.args(cc[0])[1]) == realp and rootp in ir.subtree_refs(_def_or_self(ir, ir.args(cc[0])[0])), R2, 'is_in_root:canonical(root+path)', 'canonicalised path is not built from the root', ir.where)
    fp = [f for f in P.fns.values() if f.short == 'is_file_prefix']
    ctx.require(fp, 'C13.R2: is_file_prefix not found')
    fp = fp[0]
    pre, full = q.param_by_index(fp, 0), q.param_by_index(fp, 1)
    g_len = fp.gate_edges(lambda atom, pol: fp.N(atom)['k'] == 'BinaryOperator' and fp.N(atom).get('op') == '>' and any(q.short_of(fp.callee(j)) == 'size' and fp.ref_of(fp.obj(j)) == full for j in fp.calls(fp.N(atom)['ch'][1])) and pol is False)
    mc = [i for i in fp.calls() if fp.callee(i) == 'memcmp']
    g_eq = fp.gate_edges(lambda atom, pol: fp.N(atom)['k'] == 'BinaryOperator' and fp.N(atom).get('op') in ('!=', '==') and any(fp.callee(j) == 'memcmp' for j in fp.calls(atom)) and
                         fp.const_value(fp.N(atom)['ch'][1]) == 0 and ((fp.N(atom)['op'] == '!=' and pol is False) or (fp.N(atom)['op'] == '==' and pol is True)))
    succ = q.nonfalse_returns(fp)
    ctx.check(bool(succ) and all(fp.only_through(r, g_len) and fp.only_through(r, g_eq) for r in succ), R2, 'is_file_prefix:length-and-bytes', 'prefix accepted without the length test and the byte comparison', fp.where)
    # the boundary test: success only if the prefix is empty, ends with a separator, is the whole of `full`
    # (decided by linear implication: the guard taken must force full.size() == prefix.size()), or `full` continues with a separator
    from vlib import lin as _lin
    SY = _lin.Symb(fp)
    psz_var = None
    for i in fp.all_nodes():
        if fp.N(i)['k'] == 'DeclStmt':
            for d in fp.N(i)['decls']:
                if d.get('init') is not None and any(q.short_of(fp.callee(j)) == 'size' and fp.ref_of(fp.obj(j)) == pre for j in fp.calls(d['init'])):
                    psz_var = d['ref']
    PS = _lin.Lin.atom(psz_var) if psz_var else _lin.Lin.atom(pre + '.size()')
    FS = _lin.Lin.atom(full + '.size()')

    def boundary(atom, pol):
        n = fp.N(atom)
        if n['k'] in model.CALL_KINDS and (fp.callee(atom) or '').endswith('is_directory_separator'):
            refs = fp.subtree_refs(atom)
            if pre in refs and pol is True:       # prefix[prefix_size-1] is a separator
                return True
            if full in refs and pol is True:      # full[prefix_size] is a separator
                idx = [j for j in fp.walk(atom) if fp.N(j)['k'] == 'CXXOperatorCallExpr' and fp.N(j).get('op') == '[]']
                return bool(idx) and (SY.lin(fp.N(idx[0])['ch'][2]) - PS).is_const() and (SY.lin(fp.N(idx[0])['ch'][2]) - PS).c == 0
            return False
        if n['k'] == 'BinaryOperator' and n.get('op') in ('==', '<', '<=', '>', '>=', '!='):
            cons = SY.rel(atom, pol)
            if not cons:
                return False
            cons = [(k, _subst(e, fp, full, FS)) for (k, e) in cons]
            if _lin.implies(cons + [_lin.ge(PS)], _lin.eq(PS)):           # prefix_size == 0
                return True
            # with the length test already passed (full.size() >= prefix_size) the guard forces equality
            return _lin.implies(cons + [_lin.ge(FS - PS)], _lin.eq(FS - PS))
        return False
    g_b = fp.gate_edges(boundary)
    ctx.check(bool(succ) and all(fp.only_through(r, g_b) for r in succ), R2, 'is_file_prefix:component-boundary',
              'prefix accepted although the next character of the longer path is not a separator (/rootx or /root~ would match /root)', fp.where)
    if len(mc) == 1:
        ln = fp.args(mc[0])[2]
        lv = fp.ref_of(ln)
        okl = any(q.short_of(fp.callee(j)) == 'size' and fp.ref_of(fp.obj(j)) == pre for j in fp.calls(_def_or_self(fp, ln)))
        ctx.check(okl, R2, 'is_file_prefix:compares-whole-prefix', 'byte comparison does not cover the whole prefix', fp.loc(mc[0]))

    # ---------------- R3
    nz = P.fn(S + '::normalize_path')
    outv = None
    decs = []
    for i in nz.all_nodes():
        n = nz.N(i)
        if (n['k'] == 'UnaryOperator' and n.get('op') == '--') or (n['k'] == 'CXXOperatorCallExpr' and n.get('op') == '--'):
            decs.append(i)
    ctx.require(len(decs) >= 3, 'C13.R3: expected >=3 cursor decrements in normalize_path, found %d' % len(decs))
    pathp = q.param_by_index(nz, 0)

    def floor_expr(x):
        """is x  path.begin()+1  (directly or via a local initialised with it)"""
        x = _def_or_self(nz, x)
        has_begin = any(q.short_of(nz.callee(j)) == 'begin' and nz.ref_of(nz.obj(j)) == pathp for j in nz.calls(x) if nz.N(j)['k'] == 'CXXMemberCallExpr')
        one = any(nz.const_value(j) == 1 for j in nz.walk(x))
        return has_begin and one
    for k, d in enumerate(decs):
        var = nz.ref_of(nz.N(d)['ch'][1] if nz.N(d)['k'] == 'CXXOperatorCallExpr' else nz.N(d)['ch'][0])

        def above(atom, pol, var=var):
            n = nz.N(atom)
            if n.get('op') not in ('>', '<', '>=', '<=') or n['k'] not in ('CXXOperatorCallExpr', 'BinaryOperator'):
                return False
            ch = n['ch'][1:] if n['k'] == 'CXXOperatorCallExpr' else n['ch']
            l, r = ch
            if nz.ref_of(l) == var and floor_expr(r):
                return n['op'] == '>' and pol is True
            if nz.ref_of(r) == var and floor_expr(l):
                return n['op'] == '<' and pol is True
            return False
        g = nz.gate_edges(above)
        okd = nz.only_through(d, g)
        # ... and the guard is the branch immediately governing the decrement (no other write of the cursor in between)
        pb = nz.point_of(d)[0]
        direct = any(t == pb for (_, t, _, _) in [e for e in g if len(e) == 4])
        ctx.check(okd and direct, R3, 'normalize_path:decrement#%d:only-above-floor' % k, 'output cursor decremented without the `out > begin+1` guard', nz.loc(d))
    rs = [i for i in nz.calls() if q.short_of(nz.callee(i)) == 'resize' and nz.ref_of(nz.obj(i)) == pathp]
    ctx.check(len(rs) == 1 and q.always_before_exit(nz, rs), R3, 'normalize_path:result-truncated-to-cursor', 'result is not cut at the output cursor', nz.where)

    # ---------------- R4
    g_reg = m.gate_edges(lambda atom, pol: m.N(atom)['k'] == 'BinaryOperator' and m.N(atom).get('op') == '&' and m.const_value(m.N(atom)['ch'][1]) == 0o100000 and pol is True)
    for kind, i, a in sinks:
        if kind in ('ifstream', 'async_file_handler'):
            ctx.check(m.only_through(i, g_reg), R4, 'main:%s:only-regular-files' % kind, 'a non-regular file can be streamed', m.loc(i))
    # the mode variable tested is the mode of the path variable opened: definitions come in pairs
    sdefs = []
    for i in m.all_nodes():
        n = m.N(i)
        if n['k'] == 'BinaryOperator' and n.get('op') & 0 if False else (n['k'] == 'BinaryOperator' and n.get('op') == '=' and (m.ref_of(n['ch'][0]) or '').startswith('v:s@')):
            sdefs.append(i)
    pathv = [r for k_, i_, a_ in sinks if k_ == 'ifstream' for r in m.subtree_refs(a_) if r.startswith('v:')]
    ok = bool(pathv)
    if ok:
        pv = pathv[0]
        for d in sdefs:
            src = m.ref_of(m.N(d)['ch'][1])
            blk = m.point_of(d)[0]
            pd = [w for (w, v) in m.defs_of_var(pv) if m.point_of(w) and m.point_of(w)[0] == blk and v is not None]
            if not pd:
                ok = False
                continue
            psrc = m.ref_of([v for (w, v) in m.defs_of_var(pv) if w == pd[0]][0])
            # src (mode_2) must be file_mode(psrc (path2))
            sd = m.defs_of_var(src)
            ok = ok and any(v is not None and any(m.bcallee(j) == S + '::file_mode' and m.ref_of(m.args(j)[0]) == psrc for j in m.calls(v)) for (_, v) in sd)
    ctx.check(ok and len(sdefs) >= 1, R4, 'main:mode-belongs-to-opened-path', 'the mode that is tested is not the mode of the path that is opened', m.where)

    # ---------------- R5
    ldc = [i for k_, i, a in sinks if k_ == 'list_dir']
    g_list = m.gate_edges(lambda atom, pol: (m.ref_of(atom) or '').endswith('file_server::list_directories_') and pol is True)
    for i in ldc:
        ctx.check(m.only_through(i, g_list), R5, 'main:list_dir-only-if-enabled', 'directory listing reachable with listing disabled', m.loc(i))
    ld = P.fn(S + '::list_dir')
    urlp = q.param_by_index(ld, 0)
    names = [i for i in ld.calls() if ld.bcallee(i) == 'cppcms::impl::directory::name']
    shifts = [i for i in ld.calls() if ld.N(i)['k'] == 'CXXOperatorCallExpr' and ld.N(i).get('op') == '<<']
    n_out = 0
    for i in shifts:
        arg = ld.N(i)['ch'][2] if len(ld.N(i)['ch']) > 2 else None
        if arg is None:
            continue
        tainted = [j for j in ld.walk(arg) if (ld.N(j).get('ref') == urlp) or (ld.N(j)['k'] == 'CXXMemberCallExpr' and ld.bcallee(j) == 'cppcms::impl::directory::name')]
        if not tainted:
            continue
        n_out += 1
        wrapped = any((ld.bcallee(j) or '') in ('cppcms::util::escape', 'cppcms::util::urlencode') for j in ld.calls(arg))
        ctx.check(wrapped, R5, 'list_dir:output#%d:escaped' % n_out, 'a file name / URL is written into the page without escaping', ld.loc(i))
    ctx.check(n_out >= 3, R5, 'list_dir:name-outputs-found', 'expected >=3 name/url outputs, found %d' % n_out, ld.where)
    # dot names skipped before any row output
    g_dot = ld.gate_edges(lambda atom, pol: ld.N(atom)['k'] == 'BinaryOperator' and ld.N(atom).get('op') == '==' and any(ld.callee(j) == 'memcmp' for j in ld.calls(atom)) and pol is False)
    rows = [i for i in shifts if any(ld.bcallee(j) == 'cppcms::impl::directory::name' for j in ld.calls(i))]
    ctx.check(bool(rows) and all(ld.only_through(i, g_dot) for i in rows), R5, 'list_dir:dot-names-skipped', 'hidden (dot) names can be listed', ld.where)

    ctx.floor(R1, 6)
    ctx.floor(R2, 9)
    ctx.floor(R3, 4)
    ctx.floor(R4, 3)
    ctx.floor(R5, 5)
    ctx.assume('canonicalize_file_name / realpath resolve symlinks as POSIX specifies')


def _subst(e, f, full, FS):
    """rename the atom of `full.size()` to the canonical one"""
    from vlib import lin as _lin
    out = _lin.Lin({}, e.c)
    for a, v in e.t.items():
        if a == full + '.size()':
            out = out + FS.scale(v)
        else:
            out = out + _lin.Lin.atom(a).scale(v)
    return out


def _def_or_self(f, x):
    r = f.ref_of(x)
    if r is None:
        vs = [v for v in f.subtree_refs(x) if v.startswith('v:')]
        if len(vs) == 1 and not any(f.N(j)['k'] in ('BinaryOperator',) or (f.N(j)['k'] == 'CXXOperatorCallExpr' and f.N(j).get('op') == '+') for j in f.walk(x)):
            r = vs[0]
    if r and r.startswith('v:'):
        ds = f.defs_of_var(r)
        if len(ds) == 1 and ds[0][1] is not None:
            return ds[0][1]
    return x
