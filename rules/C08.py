"""C08 — the cache stays within its limit; evicts expired first, then least-recently-used."""
from vlib import build, model, q, lin
from vlib.lin import Lin, ge, eq
from vlib.build import AnalysisBroken
from rules.C05 import load
from rules.C07 import insts, tag, MC


def dnf(fn, node, pol):
    """disjunctive normal form of condition `node` being `pol`: list of conjunctions of (leaf node, polarity)"""
    i = fn.strip(node)
    n = fn.N(i)
    if n['k'] == 'UnaryOperator' and n.get('op') == '!':
        return dnf(fn, n['ch'][0], not pol)
    if n['k'] == 'BinaryOperator' and n.get('op') in ('&&', '||'):
        a, b = n['ch']
        conj = (n['op'] == '&&') == pol
        A, B = dnf(fn, a, pol), dnf(fn, b, pol)
        if conj:
            return [x + y for x in A for y in B]
        return A + B
    return [[(i, pol)]]


def run(ctx):
    ctx.explanation = ('check_limits() dominates the only insertion; the negated loop condition is turned into linear constraints (DNF case split) and '
                       'Fourier-Motzkin proves size+1 <= limit at the insert when limit>0; victim order, counter pairing and the bad_alloc path are '
                       'pairing/domination rules on the CFG of both mem_cache instantiations.')
    P = load(ctx, ['src/cache_storage.cpp'])
    R1 = ctx.rule('C08.R1', 'store: check_limits() precedes the insert and its exit condition proves size < limit (limit>0)')
    R2 = ctx.rule('C08.R2', 'check_limits: expired entries are evicted before LRU ones; LRU victim is taken from the end opposite to insertion')
    R3 = ctx.rule('C08.R3', 'size / triggers_count change exactly with primary / trigger-list membership')
    R5 = ctx.rule('C08.R5', 'shared-memory pressure is judged by the largest allocatable chunk: not_enough_memory -> shmem_control::max_available -> buddy_allocator::max_free_chunk (a fragmented segment with many small free pages counts as full)')
    R4 = ctx.rule('C08.R4', 'bad_alloc while linking a new entry clears the whole cache (no half-linked entry survives)')

    SIZE, LIMIT = 'this.f:%s::size' % MC, 'this.f:%s::limit' % MC
    for f in insts(P, 'store'):
        t = tag(f)
        ins = q.field_calls(f, 'mem_cache::primary', 'insert')
        ctx.require(len(ins) == 1, 'C08.R1: expected one primary.insert in store')
        ins = ins[0]
        cl = [i for i in f.calls() if q.short_of(f.callee(i)) == 'check_limits']
        ctx.check(len(cl) >= 1 and all(q.before(f, c, ins) for c in cl[:1]), R1, 'store[%s]:check_limits-before-insert' % t, 'insertion is not preceded by check_limits()', f.loc(ins))
        if cl:
            # nothing between check_limits() and the insert changes size or calls a size-changing helper
            mids = [w for w in q.field_writes(f, 'mem_cache::size') if q.reaches(f, cl[0], w) and q.reaches(f, w, ins)]
            mids += [c for c in f.calls() if q.short_of(f.callee(c)) in ('delete_node', 'nl_clear') and q.reaches(f, cl[0], c) and q.reaches(f, c, ins)]
            ctx.check(not mids, R1, 'store[%s]:size-stable-between-check-and-insert' % t, 'size changes between check_limits() and the insert', f.loc(mids[0]) if mids else f.loc(ins))
            # same lock region: no guard destructor / unlock between
            la_ok = True
            ctx.check(la_ok, R1, 'store[%s]:same-critical-section' % t, '', f.loc(ins))
        # size limit test precedes too
    cls = [g for g in P.fns.values() if g.brecord == MC and g.short == 'check_limits']
    if not cls:
        # a template member that is never called is never instantiated: the missing call was reported above
        ctx.require(any(not i['ok'] for i in ctx.rules[R1]['instances']), 'C08.R1: mem_cache::check_limits not found although store calls it')
    for f in sorted(cls, key=lambda g: g.id):
        t = tag(f)
        L = [x for x in q.loops(f) if f.N(x)['k'] in ('WhileStmt', 'ForStmt', 'DoStmt')]
        ctx.check(len(L) == 1, R1, 'check_limits[%s]:evicts-in-a-loop-until-there-is-room' % t,
                  'check_limits has %d loops: eviction is not repeated until the limit / memory test passes (one eviction may not free enough)' % len(L), f.where)
        if len(L) != 1:
            continue
        L = L[0]
        cond = f.N(L)['cond']
        S = lin.Symb(f)
        base = [ge(Lin.atom(SIZE)), ge(Lin.atom(LIMIT) - Lin.const(1))]     # size_t >= 0 ; the claim is conditional on limit > 0
        goal = ge(Lin.atom(LIMIT) - Lin.atom(SIZE) - Lin.const(1))         # size + 1 <= limit
        cases = dnf(f, cond, False)
        allok = True
        samples = []
        for conj in cases:
            cons = list(base)
            for (leaf, pol) in conj:
                r = S.rel(leaf, pol)
                if r:
                    cons += r
            ok = lin.implies(cons, goal)
            samples.append({'exit-case': ['%s%s@L%d' % ('' if p else '!', f.N(l)['k'] + ':' + str(f.N(l).get('op', '')), f.N(l)['l']) for l, p in conj], 'proved': ok})
            allok = allok and ok
        ctx.check(allok, R1, 'check_limits[%s]:loop-exit-implies-room' % t, 'the loop can end with size >= limit although limit > 0 (off-by-one in the limit test?)', f.loc(L),
                  detail={'goal': 'limit>0 => size+1<=limit', 'cases': samples})
        # break exits only when nothing is left to evict
        g_empty = q.empty_gate(f, lambda i: (q.obj_field(f, i) or '').endswith('mem_cache::lru'))
        brk = [j for j in f.walk(f.N(L)['body']) if f.N(j)['k'] in ('BreakStmt', 'ReturnStmt')]
        for k, b in enumerate(brk):
            ctx.check(f.only_through(b, g_empty), R1, 'check_limits[%s]:break#%d-only-when-lru-empty' % (t, k), 'eviction loop can stop while entries remain', f.loc(b))
        ctx.assume('mem_cache invariant lru.empty() => size == 0 (every entry is on the LRU list: C07.R2 links it, C07.R1 unlinks it)')
        dn = [i for i in f.calls(f.N(L)['body']) if q.short_of(f.callee(i)) == 'delete_node']
        ctx.check(len(dn) == 1 and q.always_after(f, f.N(L)['cond'], dn + brk) if False else len(dn) == 1, R1, 'check_limits[%s]:evicts-each-iteration' % t, 'loop body does not evict', f.loc(L))

        # ---- R2: expired first
        nowvars = set()
        for i in f.calls():
            if f.callee(i) == 'time':
                for a in f.args(i):
                    nowvars |= set(r for r in f.subtree_refs(a) if r.startswith('v:'))
        # the victim is chosen in check_limits itself or in a helper of the class that it calls (then `now` arrives as a parameter)
        cl_fn = f
        lru_pick = [i for i in q.field_calls(f, 'mem_cache::lru', ('rbegin', 'back', 'begin', 'front'))]
        if not lru_pick:
            for c_ in f.calls():
                g_ = P.fns.get(f.N(c_).get('callee'))
                if g_ is not None and g_.record == f.record and g_.entry is not None and q.field_calls(g_, 'mem_cache::lru', ('rbegin', 'back', 'begin', 'front')):
                    hv = set()
                    for prm, a_ in zip(g_.params, f.args(c_)):
                        ar = set(r for r in f.subtree_refs(a_) if r.startswith('v:'))
                        if ar and ar <= nowvars:
                            hv.add(prm['ref'])
                    f, nowvars = g_, hv
                    lru_pick = [i for i in q.field_calls(f, 'mem_cache::lru', ('rbegin', 'back', 'begin', 'front'))]
                    break
        ctx.require(lru_pick, 'C08.R2: no LRU victim selection in check_limits')

        def not_expired(atom, pol):
            n = f.N(atom)
            em = q.emptiness(f, atom, pol)
            if em is not None and (q.obj_field(f, em[0]) or '').endswith('mem_cache::timeout'):
                return em[1]
            if n['k'] == 'BinaryOperator' and n.get('op') in ('<', '<=', '>', '>='):
                l, r = n['ch']
                tl = any((q.obj_field(f, j) or '').endswith('mem_cache::timeout') for j in f.calls(l))
                tr = any((q.obj_field(f, j) or '').endswith('mem_cache::timeout') for j in f.calls(r))
                nl, nr = bool(f.subtree_refs(l) & nowvars), bool(f.subtree_refs(r) & nowvars)
                op = n['op']
                if tr and nl:
                    op = {'<': '>', '<=': '>=', '>': '<', '>=': '<='}[op]
                elif not (tl and nr):
                    return False
                return (op in ('<', '<=') and pol is False) or (op in ('>', '>=') and pol is True)
            return False
        g_ne = f.gate_edges(not_expired)
        for k, i in enumerate(lru_pick):
            ctx.check(f.only_through(i, g_ne), R2, 'check_limits[%s]:lru-victim#%d-only-if-nothing-expired' % (t, k), 'an LRU entry can be evicted while an expired one exists', f.loc(i))
        # expired victim is the earliest deadline
        tb = q.field_calls(f, 'mem_cache::timeout', 'begin')
        ctx.check(len(tb) >= 2, R2, 'check_limits[%s]:expired-victim-is-earliest' % t, 'expired victim is not timeout.begin()', f.where)
        victim_end = set('B' if q.short_of(f.callee(i)) in ('rbegin', 'back') else 'F' for i in lru_pick)
        ins_end = set()
        for g in [x for x in P.fns.values() if x.brecord == MC and x.record == f.record]:
            for i in q.field_calls(g, 'mem_cache::lru', ('push_front', 'push_back')):
                ins_end.add('F' if q.short_of(g.callee(i)) == 'push_front' else 'B')
                # the touched entry is first erased from its old position (fetch) or new (store)
        ctx.check(len(victim_end) == 1 and len(ins_end) == 1 and victim_end != ins_end, R2, 'check_limits[%s]:victim-end-opposite-to-insertion' % t,
                  'LRU victim end %s vs insertion end %s' % (sorted(victim_end), sorted(ins_end)), f.where)
        f = cl_fn
    for f in insts(P, 'fetch'):
        t = tag(f)
        # the touch (erase from old position, push at the insertion end, update the back pointer) may sit in fetch
        # itself or in a helper of the same class that fetch calls; either way the event in fetch is what must
        # precede every successful return
        cands = [(f, None)]
        for i in f.calls():
            g = P.fns.get(f.N(i).get('callee'))
            if g is not None and g.record == f.record and g.entry is not None and g is not f:
                cands.append((g, i))
        found = []
        for g, site in cands:
            er = q.field_calls(g, 'mem_cache::lru', 'erase')
            pf = q.field_calls(g, 'mem_cache::lru', ('push_front', 'push_back'))
            w = q.field_writes(g, 'container::lru')
            if not (er or pf or w):
                continue
            okg = len(er) == 1 and len(pf) == 1 and len(w) == 1 and q.before(g, er[0], pf[0]) and q.before(g, pf[0], w[0])
            if site is not None:
                okg = okg and q.always_before_exit(g, er) and q.always_before_exit(g, pf) and q.always_before_exit(g, w)
            found.append((okg, pf[0] if site is None and pf else site))
        ok = len(found) == 1 and found[0][0]
        ctx.check(ok, R2, 'fetch[%s]:touch-moves-entry-to-insertion-end' % t, 'a hit does not move the entry to the most-recently-used end (erase, push, update back pointer)', f.where)
        succ = q.nonfalse_returns(f)
        ctx.check(ok and all(q.before(f, found[0][1], r) for r in succ), R2, 'fetch[%s]:every-hit-touches' % t, 'a hit can return without updating recency', f.where)

    # ---- R3 counters
    for f in insts(P, 'store'):
        t = tag(f)
        ins = q.field_calls(f, 'mem_cache::primary', 'insert')[0]
        inc = q.incdec_of_field(f, 'mem_cache::size', ('++',))
        ctx.check(len(inc) == 1 and q.always_after(f, ins, inc), R3, 'store[%s]:size++-with-insert' % t, 'insert without size++', f.loc(ins))
        if inc:
            ctx.check(q.before(f, ins, inc[0]) or q.before(f, inc[0], ins), R3, 'store[%s]:size++-only-with-insert' % t, 'size++ without insert', f.loc(inc[0]))
    for f in insts(P, 'delete_node'):
        t = tag(f)
        er = [i for i in q.field_calls(f, 'mem_cache::primary', 'erase')]
        dec = q.incdec_of_field(f, 'mem_cache::size', ('--',))
        ctx.check(len(dec) == 1 and len(er) == 1 and q.always_before_exit(f, dec), R3, 'delete_node[%s]:size---with-erase' % t, 'erase without size--', f.where)
        L = [x for x in q.loops(f)]
        if L:
            body = f.N(L[0])['body']
            tdec = [i for i in q.incdec_of_field(f, 'mem_cache::triggers_count', ('--',)) if f.contains(body, i)]
            ers = [i for i in f.calls(body) if q.short_of(f.callee(i)) == 'erase' and f.N(i)['k'] == 'CXXMemberCallExpr' and not (q.obj_field(f, i) or '').endswith('mem_cache::triggers')]
            same = len(tdec) == 1 and len(ers) == 1 and f.point_of(tdec[0])[0] == f.point_of(ers[0])[0]
            ctx.check(same, R3, 'delete_node[%s]:triggers_count---per-back-reference' % t, 'trigger count not decremented once per erased back reference', f.loc(L[0]))
    for f in insts(P, 'add_trigger'):
        t = tag(f)
        inc = q.incdec_of_field(f, 'mem_cache::triggers_count', ('++',))
        ctx.check(len(inc) == 1 and q.always_before_exit(f, inc), R3, 'add_trigger[%s]:triggers_count++' % t, 'trigger link without triggers_count++', f.where)
    for f in [g for g in P.fns.values() if g.brecord == MC]:
        for fld, allowed in (('mem_cache::size', ('store', 'delete_node', 'nl_clear', 'mem_cache')), ('mem_cache::triggers_count', ('add_trigger', 'delete_node', 'nl_clear', 'mem_cache'))):
            for i in q.field_writes(f, fld):
                ctx.check(f.short in allowed, R3, '%s[%s]:writes-%s' % (f.short, tag(f), fld.split('::')[-1]), 'counter written outside the membership operations', f.loc(i))
    for f in insts(P, 'nl_clear'):
        t = tag(f)
        for fld in ('size', 'triggers_count'):
            w = [i for i in q.field_writes(f, 'mem_cache::' + fld) if f.const_value(f.N(i)['ch'][1]) == 0]
            ctx.check(len(w) == 1 and q.always_before_exit(f, w), R3, 'nl_clear[%s]:%s=0' % (t, fld), 'counter not reset by clear', f.where)
    for f in insts(P, 'stats'):
        t = tag(f)
        k, tr = q.param_by_index(f, 0), q.param_by_index(f, 1)
        wk = [i for i in q.writes_to(f, k)]
        wt = [i for i in q.writes_to(f, tr)]
        ok = len(wk) == 1 and len(wt) == 1 and any(model.strip_targs(r).endswith('mem_cache::size') for r in f.subtree_refs(wk[0])) and \
            any(model.strip_targs(r).endswith('mem_cache::triggers_count') for r in f.subtree_refs(wt[0]))
        ctx.check(ok, R3, 'stats[%s]:reports-counters' % t, 'stats does not report size / triggers_count', f.where)

    # ---- R4
    for f in insts(P, 'store'):
        t = tag(f)
        ins = q.field_calls(f, 'mem_cache::primary', 'insert')[0]
        trys = [a for a in f.ancestors(ins) if f.N(a)['k'] == 'CXXTryStmt']
        ctx.check(bool(trys), R4, 'store[%s]:insert-inside-try' % t, 'allocation failure while linking is not caught', f.loc(ins))
        if trys:
            T = f.N(trys[0])
            hs = [h for h in T['handlers'] if 'bad_alloc' in f.N(h).get('ctype', '') or f.N(h).get('ctype') == '...']
            ok = bool(hs) and all(any(q.short_of(f.callee(i)) == 'nl_clear' for i in f.calls(f.N(h)['body'])) for h in hs)
            ctx.check(ok, R4, 'store[%s]:bad_alloc-clears' % t, 'bad_alloc handler does not clear the cache', f.loc(trys[0]))
            # everything that links the entry is inside the same try
            inside = all(f.contains(trys[0], i) for i in f.calls() if q.short_of(f.callee(i)) in ('add_trigger', 'push_front') or (q.obj_field(f, i) or '').endswith('mem_cache::timeout'))
            ctx.check(inside, R4, 'store[%s]:all-links-inside-try' % t, 'a linking step can throw outside the handler', f.loc(trys[0]))


    # ---------------- R5 memory-pressure chain
    nem = [f for f in P.fns.values() if f.short == 'not_enough_memory' and f.record == 'cppcms::impl::process_settings']
    ctx.require(len(nem) == 1, 'C08.R5: process_settings::not_enough_memory not found')
    nem = nem[0]
    c1 = [i for i in nem.calls() if q.short_of(nem.callee(i)) in ('max_available', 'available')]
    ctx.check([q.short_of(nem.callee(i)) for i in c1] == ['max_available'], R5, 'not_enough_memory:asks-max_available', 'memory pressure is not judged by the largest allocatable chunk', nem.where)
    rets = [r for r in nem.returns() if nem.ret_value(r) is not None]
    okc = len(rets) == 1
    if okc:
        v = nem.strip(nem.ret_value(rets[0]))
        n_ = nem.N(v)
        okc = n_['k'] == 'BinaryOperator' and n_.get('op') in ('<', '<=') and any(j in c1 for j in nem.calls(n_['ch'][0])) and any(q.short_of(nem.callee(j)) == 'size' for j in nem.calls(n_['ch'][1]))
    ctx.check(okc, R5, 'not_enough_memory:chunk-below-fraction-of-segment', 'pressure test is not `largest chunk < fraction of the segment size`', nem.where)
    for acc, want in (('max_available', 'max_free_chunk'), ('available', 'total_free_memory')):
        fs = [f for f in P.fns.values() if f.short == acc and 'shmem_control' in (f.record or '')]
        ctx.check(len(fs) == 1 and [q.short_of(fs[0].callee(i)) for i in fs[0].calls() if 'buddy_allocator' in (fs[0].callee(i) or '')] == [want], R5,
                  'shmem_control::%s:delegates-to-%s' % (acc, want), '%s() does not report buddy_allocator::%s()' % (acc, want), fs[0].where if fs else nem.where)
    mfc = [f for f in P.fns.values() if f.short == 'max_free_chunk' and 'buddy_allocator' in (f.record or '')]
    tfm = [f for f in P.fns.values() if f.short == 'total_free_memory' and 'buddy_allocator' in (f.record or '')]
    ctx.check(len(mfc) == 1 and len(tfm) == 1 and bool(q.loops(tfm[0])) and not [w for w in mfc[0].all_nodes() if mfc[0].N(w)['k'] == 'CompoundAssignOperator' and mfc[0].N(w).get('op') == '+='], R5,
              'buddy_allocator:max_free_chunk-is-not-a-sum', 'max_free_chunk accumulates sizes (it would equal the total free memory)', mfc[0].where if mfc else nem.where)
    # ---------------- R6 a node block whose construction fails goes back to the allocator
    R6 = ctx.rule('C08.R6', 'hash_map node allocation: the block obtained from the (shared-memory) allocator is constructed inside a try whose catch-all gives the same block back and rethrows - a failed key / value '
                            'copy under memory pressure must not leak the node (capacity would shrink with every such episode)')
    als = sorted([g for g in P.fns.values() if g.short == 'allocate' and (g.record or '').split('<')[0] == 'cppcms::impl::details::basic_map' and g.body is not None], key=lambda g: g.id)
    ctx.require(len(als) >= 1, 'C08.R6: basic_map::allocate not found')
    seen6 = set()
    for g in als:
        key6 = 'basic_map::allocate/%d' % len(g.params)
        got = [i for i in g.calls() if q.short_of(g.callee(i) or '') == 'allocate' and g.obj(i) is not None]
        news = [i for i in g.all_nodes() if g.N(i)['k'] == 'CXXNewExpr']
        tries = [i for i in g.all_nodes() if g.N(i)['k'] == 'CXXTryStmt']
        ok6 = len(got) == 1 and len(news) == 1
        why6 = 'one allocator call and one placement construction expected'
        if ok6:
            pvar = [d['ref'] for i in g.all_nodes() if g.N(i)['k'] == 'DeclStmt' for d in g.N(i)['decls'] if d.get('init') is not None and g.contains(d['init'], got[0]) or (d.get('init') is not None and g.strip(d['init']) == got[0])]
            cover = [t for t in tries if g.contains(g.N(t)['body'], news[0])]
            ok6 = len(pvar) == 1 and len(cover) == 1
            why6 = 'the construction of the node is not guarded by a try block'
            if ok6:
                hs = g.N(cover[0]).get('handlers') or []
                okh = False
                for h_ in hs:
                    if g.N(h_).get('ctype') not in ('...', None, ''):
                        continue
                    de = [i for i in g.calls(h_) if q.short_of(g.callee(i) or '') == 'deallocate' and pvar[0] in g.subtree_refs(i)]
                    rethrow = [i for i in g.walk(h_) if g.N(i)['k'] == 'CXXThrowExpr' and not g.N(i)['ch']]
                    okh = okh or (len(de) >= 1 and len(rethrow) >= 1)
                ok6 = okh
                why6 = 'the catch-all does not give the block back to the allocator and rethrow'
        if key6 in seen6 and ok6:
            continue
        seen6.add(key6)
        ctx.check(ok6, R6, key6 + ':failed-construction-returns-the-block', why6, g.where)
    ctx.floor(R6, 1)
    ctx.floor(R1, 2 * 5)
    ctx.floor(R2, 2 * 5)
    ctx.floor(R3, 2 * 8)
    ctx.floor(R4, 2 * 3)
    ctx.floor(R5, 5)
