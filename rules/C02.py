"""C02 — no request, however malformed, crashes the service or is seen twice (structural / linear / abstract clauses)."""
from vlib import build, model, q, linear, linbound, absint
from vlib.absint import AV, Arr, PV, Cell, Out
from vlib.lin import Lin, ge
from vlib.build import AnalysisBroken, REPO

UNITS = ['src/cgi_api.cpp', 'src/http_api.cpp', 'src/scgi_api.cpp', 'src/fastcgi_api.cpp', 'src/http_context.cpp', 'src/tcp_cache_server.cpp', 'src/http_request.cpp']
FRONT = [REPO + '/' + u for u in ('src/cgi_api.cpp', 'src/http_api.cpp', 'src/scgi_api.cpp', 'src/fastcgi_api.cpp', 'src/http_context.cpp', 'src/tcp_cache_server.cpp',
                                  'private/cgi_acceptor.h', 'private/cgi_api.h', 'private/http_parser.h')]
CONN = 'cppcms::impl::cgi::connection'
FC = 'cppcms::impl::cgi::fastcgi'
SC = 'cppcms::impl::cgi::scgi'
# one-symbol allow-list for the linearity rule
LINEAR_ALLOW = {
    'cppcms::impl::cgi::connection::async_write_binder::operator():this->h':
        'after invoking h the binder stores itself into cached_async_write_binder_ and reset() replaces h by an empty handler: the `this` value is cached, not re-armed',
}


def run(ctx):
    ctx.explanation = ('Front-end robustness clauses decided on every CFG path: each completion handler is consumed at most once (so the context / application see a request at most once); no throw in connection classes; '
                       'peer-declared lengths are sign-checked before they size a buffer; C-string walks over receive buffers are dominated by a NUL sentinel; FastCGI record / name-value parsing and cache cursors stay in bounds '
                       '(linear proofs under the cursor invariant); error pages are written at most once; application code runs inside catch(...); FastCGI continuations hand out success only for the expected record type; '
                       'the cookie scanner always advances (abstract interpretation), so a malformed header cannot stall the event loop.')
    ctx.units = list(UNITS)
    P = model.Program(build.extract([REPO + '/' + u for u in UNITS], include_re='^/repo/(src|private|cppcms)/'))
    ctx.stats['functions'] = len(P.fns)
    R1 = ctx.rule('C02.R1', 'every completion handler is consumed at most once on every path (front-end sources)')
    R2 = ctx.rule('C02.R2', 'no throw expression in connection classes and their callback structs, and no throwing overload of a booster::aio socket operation where an error_code overload exists')
    R3 = ctx.rule('C02.R3', 'a peer-declared length is known to be non-negative before it sizes a buffer')
    R4 = ctx.rule('C02.R4', 'strlen-style walks over a receive buffer are dominated by a NUL sentinel store into that buffer')
    R5 = ctx.rule('C02.R5', 'FastCGI / SCGI parsing stays inside its buffers (linear bounds under the cursor invariant)')
    R6 = ctx.rule('C02.R6', 'error responses: written only if nothing was sent, reached only from a non-zero status')
    R7 = ctx.rule('C02.R7', 'application code is called inside try/catch(...) that turns exceptions into a status')
    R8 = ctx.rule('C02.R8', 'FastCGI continuations report success only for the expected record type / version / role')
    R10 = ctx.rule('C02.R10', 'request preparation on the event-loop thread cannot throw: no throw expression and no checked (throwing) standard accessor is reachable from context::on_headers_ready / on_content_progress / on_request_ready outside a try block')
    R11 = ctx.rule('C02.R11', 'the per-connection string pool (request environment, reused across keep-alive requests): the bump pointer is only ever re-armed with page_size_ bytes on a page that was allocated with page_size_ bytes')
    R12 = ctx.rule('C02.R12', 'the open-addressing table of the request environment always keeps an empty slot (total_ < data_.size() is an invariant of add / clear / the constructor), so the probe loops of get() and insert() terminate for every key')
    R9 = ctx.rule('C02.R9', 'the cookie scanner makes progress on every input (no byte string can stall the event loop)')

    # ---------------- R1
    fns = [f for f in P.fns.values() if f.file in FRONT]
    summ = linear.compute_summaries(P, list(P.fns.values()))
    nt = 0
    for f in sorted(fns, key=lambda g: g.id):
        for tok in linear.tokens_of(f, P):
            nt += 1
            key = '%s:%s' % (f.bname.replace('cppcms::impl::cgi::', '').replace('cppcms::', ''), tok.name)
            L = linear.Linear(f, tok, summ)
            dbl = L.double_sites()
            full = '%s:%s' % (f.bname, tok.name)
            if dbl and full in LINEAR_ALLOW:
                ctx.check(True, R1, key, loc=f.where, detail={'exempt': LINEAR_ALLOW[full]})
                continue
            ctx.check(not dbl, R1, key, 'handler %s can be consumed twice on one path: the request would be completed / seen twice' % tok.name, f.loc(dbl[0]) if dbl else f.where)
    ctx.stats['handler_tokens'] = nt
    ctx.floor(R1, 45)

    # ---------------- R2
    conn_classes = P.derived_from(CONN) | {CONN}
    n2 = 0
    for f in sorted(P.fns.values(), key=lambda g: g.id):
        if not f.brecord:
            continue
        owner = f.brecord
        if not any(owner == c or owner.startswith(c + '::') for c in conn_classes):
            continue
        n2 += 1
        thr = [i for i in f.all_nodes() if f.N(i)['k'] == 'CXXThrowExpr']
        ctx.check(not thr, R2, f.bname.replace('cppcms::impl::cgi::', ''), 'throw inside a connection callback: the event loop rethrows it and service::run() stops', f.loc(thr[0]) if thr else f.where)
        # socket operations come in pairs op(args, error_code &) / op(args) [throws system_error]: only the first may be used here
        for i in f.calls():
            n = f.N(i)
            rec = model.strip_targs(n.get('rec') or '')
            if n['k'] != 'CXXMemberCallExpr' or not rec.startswith('booster::aio::'):
                continue
            ov = n.get('ov') or []
            if ov and 'error_code' in ov[-1]:
                continue
            sh = q.short_of(f.callee(i))
            def params_of(mid):
                inner = mid[mid.index('(') + 1:mid.rindex(')')] if '(' in mid else ''
                return [x.strip() for x in inner.split(',')] if inner.strip() else []
            want_ps = [x.strip() for x in ov] + ['std::error_code &']
            twins = [m for a_ in q._ancestors(P, rec) for r_ in P.brecords.get(a_, []) for m in r_.get('methods', []) if m.get('short') == sh and params_of(m.get('id', '')) == want_ps]
            if not twins:
                continue
            guarded = any(f.N(a)['k'] == 'CXXTryStmt' and f.N(a)['ch'] and f.contains(f.N(a)['ch'][0], i) for a in f.ancestors(i))
            ctx.check(guarded, R2, '%s:%s@L%d:error_code-overload' % (f.bname.replace('cppcms::impl::cgi::', ''), sh, n['l'] - f.line),
                      'the throwing overload of %s::%s is used in a connection class (a peer reset makes it throw: in a destructor that is std::terminate, in a callback it stops service::run())' % (rec, sh), f.loc(i))
    # booster::aio::endpoint accessors raise on an endpoint that was never filled in - which is what xxx_endpoint(error_code &) hands back when getpeername / getsockname failed
    # (a peer that resets the connection right behind its request makes getpeername fail with ENOTCONN while the request is still readable). In a connection class an accessor
    # applied to the result of such a call has to sit in a try block or behind the test of that call's error code.
    PA = model.Program(build.extract([REPO + '/booster/lib/aio/src/endpoint.cpp', REPO + '/booster/lib/aio/src/basic_socket.cpp'], include_re='^/repo/booster/lib/aio/src/'))
    ctx.stats['aio_functions'] = len(PA.fns)
    def _unguarded(g, i):
        return not any(g.N(a)['k'] == 'CXXTryStmt' and g.N(a)['ch'] and g.contains(g.N(a)['ch'][0], i) for a in g.ancestors(i))
    EP = 'booster::aio::endpoint'
    may_throw = {}
    for g in PA.fns.values():
        if g.body is not None and g.brecord == EP:
            th = [i for i in g.all_nodes() if g.N(i)['k'] == 'CXXThrowExpr' and _unguarded(g, i)]
            if th:
                may_throw[g.id] = g.loc(th[0])
    changed = True
    while changed:
        changed = False
        for g in PA.fns.values():
            if g.body is None or g.id in may_throw or g.brecord != EP:
                continue
            for i in g.calls():
                c = g.N(i).get('callee')
                if c in may_throw and _unguarded(g, i):
                    may_throw[g.id] = '%s -> %s' % (g.loc(i), may_throw[c])
                    changed = True
                    break
    accessors = set(k for k in may_throw if k.endswith(') const') and not k.startswith(EP + '::throw_invalid'))
    ctx.require(len(accessors) >= 3 and EP + '::ip() const' in accessors, 'C02.R2: the raising endpoint accessors were not found (%s)' % sorted(accessors))
    # the producers: calls that return an endpoint and report failure through an error code, leaving the endpoint empty on failure
    def _producer(f, k_):
        n_ = f.N(k_)
        return n_['k'] in ('CXXMemberCallExpr', 'CallExpr') and f.args(k_) and 'error_code' in ((n_.get('ov') or [''])[-1]) and q.short_of(f.callee(k_) or '').endswith('_endpoint')
    ctx.stats['raising_endpoint_accessors'] = len(accessors)
    n2b = 0
    for f in sorted(P.fns.values(), key=lambda g: g.id):
        if not f.brecord or not any(f.brecord == c or f.brecord.startswith(c + '::') for c in conn_classes) or f.body is None:
            continue
        for i in f.calls():
            c = f.N(i).get('callee')
            if c not in accessors:
                continue
            o = f.obj(i)
            if o is None:
                continue
            so = f.strip(o)
            okc = None
            if _producer(f, so):
                okc = False          # applied to the unnamed result: the error code cannot have been looked at in between
            else:
                oref = f.ref_of(o)
                prod = [d_ for j_ in f.all_nodes() if f.N(j_)['k'] == 'DeclStmt' for d_ in f.N(j_)['decls'] if oref and d_['ref'] == oref and d_.get('init') is not None]
                pc = [k_ for d_ in prod for k_ in f.walk(d_['init']) if _producer(f, k_)]
                if len(pc) == 1:
                    ev = f.ref_of(f.args(pc[0])[-1])
                    g_ok = f.gate_edges(lambda atom, pol, ev=ev: pol is False and ev in f.subtree_refs(atom) and not [x_ for x_ in f.subtree_refs(atom) if x_ != ev and (x_.startswith('v:') or x_.startswith('f:'))])
                    okc = f.only_through(i, [e_ for e_ in g_ok if q.reaches(f, pc[0], f.blocks[e_[0]].tcond if len(e_) == 4 and f.blocks[e_[0]].tcond is not None else i)])
            if okc is None:
                continue
            n2b += 1
            okc = okc or not _unguarded(f, i)
            ctx.check(okc, R2, '%s:%s@L%d:endpoint-accessor-only-after-the-error-test' % (f.bname.replace('cppcms::impl::cgi::', ''), q.short_of(c), f.N(i)['l'] - f.line),
                      '%s raises on an empty endpoint (%s) and is applied outside a try block to the result of a call whose error code has not been tested: a peer that resets the connection '
                      'right behind its request makes getpeername fail, the exception leaves the event loop and service::run() stops' % (c, may_throw[c]), f.loc(i))
    ctx.require(n2b >= 1, 'C02.R2: no endpoint accessor on the result of remote_endpoint(error_code &) found in the connection classes')
    ctx.stats['raising_aio_calls'] = n2b
    ctx.floor(R2, 100)

    # ---------------- R3
    sinks = 0
    for f in sorted(fns + [g for g in P.fns.values() if g.file == REPO + '/src/http_request.cpp'], key=lambda g: g.id):
        srcs = [i for i in f.calls() if (f.callee(i) or '') in ('atoi', 'atol', 'atoll', 'strtol', 'strtoll') or q.short_of(f.callee(i)) == 'env_content_length']
        if not srcs:
            continue
        for s in srcs:
            # the variable / field that receives the parsed number
            tgt = None
            for a in f.ancestors(s):
                n = f.N(a)
                if n['k'] == 'DeclStmt':
                    for d in n['decls']:
                        if d.get('init') is not None and f.contains(d['init'], s):
                            tgt = d['ref']
                    break
                if n['k'] == 'BinaryOperator' and n.get('op') == '=' and f.contains(n['ch'][1], s):
                    tgt = f.ref_of(n['ch'][0])
                    break
                if n['k'] == 'ReturnStmt':
                    tgt = 'return'
                    break
            if not tgt or tgt == 'return':
                continue
            short = model.strip_targs(tgt).rsplit('::', 1)[-1].split('@')[0].replace('v:', '')
            uses = []
            for g in ([f] if tgt.startswith('v:') else [x for x in P.fns.values() if x.record == f.record]):
                for i in g.calls():
                    if q.short_of(g.callee(i)) in ('resize', 'reserve') and tgt in g.subtree_refs(i):
                        uses.append((g, i))
                for i in g.all_nodes():
                    if g.N(i)['k'] == 'CXXNewExpr' and g.N(i).get('array') and tgt in g.subtree_refs(i):
                        uses.append((g, i))
            for (g, i) in uses:
                sinks += 1

                def nonneg(atom, pol, g=g, tgt=tgt):
                    n = g.N(atom)
                    if n['k'] != 'BinaryOperator' or n.get('op') not in ('<', '<=', '>', '>='):
                        return False
                    l, r = n['ch']
                    if g.ref_of(l) == tgt and g.const_value(r) == 0:
                        return (n['op'] == '<' and pol is False) or (n['op'] in ('>', '>=') and pol is True) or (n['op'] == '<=' and pol is False)
                    if g.ref_of(r) == tgt and g.const_value(l) == 0:
                        return (n['op'] == '>' and pol is False) or (n['op'] in ('<', '<=') and pol is True)
                    return False
                ok = g.only_through(i, g.gate_edges(nonneg))
                # or the value was clamped where it was stored: (x = atoll(..)) <= 0 -> x = 0
                if not ok:
                    clamp = [w for w in q.field_writes(f, short) if f.const_value(f.N(w)['ch'][-1]) == 0] if not tgt.startswith('v:') else []
                    cg = f.gate_edges(lambda atom, pol: f.N(atom)['k'] == 'BinaryOperator' and f.N(atom).get('op') == '<=' and f.contains(atom, s) and f.const_value(f.N(atom)['ch'][1]) == 0 and pol is True)
                    ok = bool(clamp) and bool(cg) and any(f.only_through(w, cg) for w in clamp)
                ctx.check(ok, R3, '%s:%s:%s' % (g.bname.replace('cppcms::impl::cgi::', ''), short, q.short_of(g.callee(i)) or 'new[]'),
                          'a negative %s (from %s) reaches a size argument: huge allocation / std::length_error escapes the event loop' % (short, f.callee(s)), g.loc(i))
    # the virtual env_content_length() -> request::on_content_start path
    cs = P.fn('cppcms::http::request::on_content_start')
    CL = '_data::content_length'
    rz = [i for i in cs.calls() if q.short_of(cs.callee(i)) == 'resize' and any(model.strip_targs(x).endswith(CL) for x in cs.subtree_refs(i))]
    gpos = cs.gate_edges(lambda atom, pol: cs.N(atom)['k'] == 'BinaryOperator' and cs.N(atom).get('op') == '<' and any(model.strip_targs(x).endswith(CL) for x in cs.subtree_refs(cs.N(atom)['ch'][0])) and cs.const_value(cs.N(atom)['ch'][1]) == 0 and pol is False)
    ctx.check(len(rz) == 1 and cs.only_through(rz[0], gpos), R3, 'request::on_content_start:content_length:resize', 'a negative Content-Length reaches post_data.resize()', cs.where)
    ctx.floor(R3, 3)

    # ---------------- R4
    n4 = 0
    for f in sorted(fns, key=lambda g: g.id):
        walks = [i for i in f.calls() if (f.callee(i) or '') in ('strlen', 'strcmp', 'strchr', 'strcpy') or ((f.bcallee(i) or '') == 'cppcms::impl::string_pool::add' and len([a for a in f.args(i) if f.N(a)['k'] != 'CXXDefaultArgExpr']) == 1)]
        for i in walks:
            arg = f.args(i)[0]
            r = f.ref_of(arg)
            if not r or not r.startswith('v:'):
                continue
            # pointer variable derived from a std::vector<char> member
            bufs = set()
            for (_, v) in f.defs_of_var(r):
                if v is not None:
                    for x in f.subtree_refs(v):
                        if x.startswith('f:') and 'std::vector<char' in (_field_type(P, x) or ''):
                            bufs.add(x)
            if not bufs:
                continue
            n4 += 1
            buf = sorted(bufs)[0]
            stores = []
            for w in f.all_nodes():
                n = f.N(w)
                if n['k'] == 'BinaryOperator' and n.get('op') == '=' and f.const_value(n['ch'][1]) == 0 and buf in f.subtree_refs(n['ch'][0]) and \
                        any(q.short_of(f.callee(j)) == 'back' for j in f.calls(n['ch'][0])):
                    stores.append(w)
            reach = f.reachable_blocks(cut_blocks=q.blocks_of(f, stores))
            ctx.check(bool(stores) and f.point_of(i)[0] not in reach, R4, '%s:%s(%s)' % (f.bname.replace('cppcms::impl::cgi::', ''), q.short_of(f.callee(i)), r.split('@')[0][2:]),
                      'C-string walk over %s without a terminating NUL stored at its end on every path' % buf.rsplit('::', 1)[-1], f.loc(i))
    ctx.floor(R4, 3)

    # ---------------- R5  (linear bounds)
    E = linbound.Engine(P, inline_depth=2 if ctx.tier == 'quick' else 3)
    E.range_sinks = {'cppcms::impl::string_pool::add': (0, 1)}
    E.struct_sizes = {FC + '::fcgi_header': 8}
    CS, CE, CSZ = 'this.f:%s::cache_start_' % FC, 'this.f:%s::cache_end_' % FC, 'this.f:%s::cache_.size()' % FC

    def inv(engine, fn, st):
        for a in (CS, CE, CSZ):
            st.env[a] = Lin.atom(a)
        st.cons += [ge(Lin.atom(CS)), ge(Lin.atom(CE) - Lin.atom(CS)), ge(Lin.atom(CSZ) - Lin.atom(CE))]
    targets = [FC + '::non_blocking_read_record', FC + '::async_read_from_socket', FC + '::peek_bytes']
    for name in targets:
        E.analyse(P.fn(name), entry=inv)
    for f in sorted(P.by_bname.get(FC + '::parse_pairs', []), key=lambda g: g.id):
        E.analyse(f, entry=inv)
    E.analyse(P.fn(FC + '::on_header_read'), entry=inv)
    # the request-start record: what is reinterpreted as a protocol struct must be there (front() of an emptied vector is undefined, and aborts under _GLIBCXX_ASSERTIONS)
    n_before = len(E.obligations)
    E.front_needs_element = True
    pending_broken = []
    paths_before = E.paths
    try:
        E.analyse(P.fn(FC + '::on_start_request'), entry=inv)
    except AnalysisBroken as ex_:
        E.paths = paths_before      # the budget is per engine: the other entry points keep theirs
        # raised at the end, and only when nothing else was reported: a path explosion caused by a defect another rule names (a missing return after a completion) must not hide that report
        pending_broken.append(str(ex_))
    E.front_needs_element = False
    # of this entry point only the emptiness obligations are claimed (the sizes of the short replies it builds are not linear facts)
    E.obligations[n_before:] = [ob for ob in E.obligations[n_before:] if ob.kind.endswith('-nonempty')]
    BSZ = 'this.f:%s::buffer_.size()' % SC

    def scgi_inv(engine, fn, st):
        st.env[BSZ] = Lin.atom(BSZ)
        st.cons += [ge(Lin.atom(BSZ) - Lin.const(16))]
        n_ = q.param_by_index(fn, 1)
        st.env[n_] = Lin.atom(n_)
        st.cons += [ge(Lin.atom(n_)), ge(Lin.const(16) - Lin.atom(n_))]
    E.analyse(P.fn(SC + '::on_first_read'), entry=scgi_inv)
    ctx.assume('scgi::on_first_read runs on the 16-byte buffer that async_read_headers sized and handed to async_read_some (buffer_.size() >= 16, n <= 16)')
    ctx.stats['linbound_paths'] = E.paths
    seen = {}
    for ob in E.obligations:
        top = ob.chain[0]
        base = '%s>%s:%s' % (top.short, ob.fn.short, ob.kind) if top is not ob.fn else '%s:%s' % (ob.fn.short, ob.kind)
        k = seen.get(base, 0)
        seen[base] = k + 1
        ctx.check(ob.proved, R5, '%s@L%d' % (base, ob.fn.N(ob.node)['l'] - ob.fn.line), 'not provable: ' + ob.desc, ob.fn.loc(ob.node),
                  detail={'obligation': ob.desc, 'constraints': [repr(c[1]) + (' >= 0' if c[0] == 'ge' else ' == 0') for c in ob.cons][-10:]})
    ctx.assume('fastcgi cursor invariant 0 <= cache_start_ <= cache_end_ <= cache_.size() at the entry of the record readers (re-established by async_read_from_socket / on_some_read_from_socket; an asynchronous read completes with at most the bytes of the buffer it was given)')
    ctx.floor(R5, 10)

    # ---------------- R6
    he = P.fn(CONN + '::handle_http_error')
    callers = [(f, i) for f in P.fns.values() for i in f.calls() if f.bcallee(i) == CONN + '::handle_http_error']
    ctx.require(len(callers) >= 2, 'C02.R6: callers of handle_http_error not found')
    for k, (f, i) in enumerate(callers):
        st = f.ref_of(f.args(i)[0])
        g = f.gate_edges(lambda atom, pol, f=f, st=st: f.N(atom)['k'] == 'BinaryOperator' and f.N(atom).get('op') == '!=' and st in f.subtree_refs(atom) and f.const_value(f.N(atom)['ch'][1]) == 0 and pol is True)
        ctx.check(bool(st) and f.only_through(i, g), R6, '%s:error-page-only-for-nonzero-status' % f.short, 'error response started for status 0', f.loc(i))
        rets = [r for r in f.returns()]
        ctx.check(q.always_after(f, i, rets), R6, '%s:returns-after-error' % f.short, 'request processing continues after the error response was started', f.loc(i))
    wr = [i for i in he.calls() if q.short_of(he.callee(i)) in ('write_http_headers', 'make_error_response_html_body', 'status')]
    g_clean = q.call_gate(he, lambda i: q.short_of(he.callee(i)) == 'some_output_was_written', False)
    ctx.check(len(wr) >= 2 and all(he.only_through(i, g_clean) for i in wr), R6, 'handle_http_error:status-page-only-if-nothing-written', 'a status page can be appended to a partly written response', he.where)
    es = q.field_writes(he, 'connection::error_state_')
    ctx.check(len(es) == 1 and q.always_before_exit(he, es), R6, 'handle_http_error:marks-connection-unusable', 'connection stays reusable after an error response', he.where)
    oe = P.fn('cppcms::http::request::on_error')
    fe_ = [i for i in oe.calls() if q.short_of(oe.callee(i)) == 'on_error']
    g_no = oe.gate_edges(lambda atom, pol: model.strip_targs(oe.ref_of(atom) or '').endswith('_data::no_on_error') and pol is False)
    ctx.check(len(fe_) == 1 and oe.only_through(fe_[0], g_no), R6, 'request::on_error:filter-told-once', 'filter on_error is called although it already aborted', oe.where)

    # ---------------- R7
    n7 = 0
    for f in [g for g in P.fns.values() if g.file == REPO + '/src/http_context.cpp']:
        for i in f.calls():
            if f.bcallee(i) == 'cppcms::application::main' or (q.short_of(f.callee(i)) == 'main' and 'application' in (f.callee(i) or '')):
                n7 += 1
                trys = [a for a in f.ancestors(i) if f.N(a)['k'] == 'CXXTryStmt']
                ok = bool(trys) and any(f.N(h).get('ctype') == '...' for h in f.N(trys[0])['handlers'])
                ctx.check(ok, R7, '%s:application::main#%d' % (f.short, n7), 'application code runs outside catch(...): an exception stops the event loop / worker', f.loc(i))
    ctx.floor(R7, 2)

    # ---------------- R8
    def type_gate(f, const):
        def p(atom, pol):
            n = f.N(atom)
            if n['k'] != 'BinaryOperator' or n.get('op') not in ('!=', '=='):
                return False
            refs = f.subtree_refs(atom)
            if not any(model.strip_targs(x).endswith('fcgi_header::type') for x in refs) or not any(x.endswith('::' + const) for x in refs):
                return False
            return (n['op'] == '!=' and pol is False) or (n['op'] == '==' and pol is True)
        return f.gate_edges(p)

    def success_calls(f):
        """invocations h(error_code()) with a default-constructed (success) code"""
        out = []
        for i in f.calls():
            n = f.N(i)
            if n['k'] == 'CXXOperatorCallExpr' and n.get('op') == '()' and len(n['ch']) == 3 and (f.ref_of(n['ch'][1]) or '').startswith('p:'):
                a = f.strip(n['ch'][2])
                if f.N(a)['k'] in ('CXXTemporaryObjectExpr', 'CXXConstructExpr') and not f.args(a):
                    out.append(i)
        return out
    for name, const in (('params_record_expected', 'fcgi_params'), ('stdin_eof_expected', 'fcgi_stdin')):
        f = P.fn(FC + '::' + name)
        sc = success_calls(f)
        g = type_gate(f, const)
        ctx.check(bool(sc) and all(f.only_through(i, g) for i in sc), R8, '%s:success-only-for-%s' % (name, const), 'success reported for a record of another type', f.where)
        cont = [i for i in f.calls() if f.bcallee(i) in (FC + '::stdin_eof_expected', FC + '::async_read_record', FC + '::parse_pairs') and f.point_of(i)]
        cont = [i for i in cont if f.bcallee(i) != FC + '::async_read_record' or True]
        pp = [i for i in f.calls() if f.bcallee(i) == FC + '::parse_pairs']
        if pp:
            ctx.check(all(f.only_through(i, g) for i in pp), R8, '%s:parse-only-%s-records' % (name, const), 'name-value pairs parsed from a record of another type', f.where)
    sr = P.fn(FC + '::on_start_request')
    gv = sr.gate_edges(lambda atom, pol: sr.N(atom)['k'] == 'BinaryOperator' and sr.N(atom).get('op') == '!=' and any(model.strip_targs(x).endswith('fcgi_header::version') for x in sr.subtree_refs(atom)) and pol is False)
    gb = type_gate(sr, 'fcgi_begin_request')
    cont = [i for i in sr.calls() if sr.bcallee(i) in (FC + '::params_record_expected', FC + '::async_read_record') and sr.contains(sr.body, i)]
    starts = [i for i in sr.calls() if sr.bcallee(i) in (FC + '::params_record_expected',)]
    rid = q.field_writes(sr, 'fastcgi::request_id_')
    ctx.check(bool(rid) and all(sr.only_through(w, gv) and sr.only_through(w, gb) for w in rid), R8, 'on_start_request:request-accepted-only-for-version1-begin_request', 'a request is started from a record that is not a version-1 BEGIN_REQUEST', sr.where)
    role = sr.gate_edges(lambda atom, pol: sr.N(atom)['k'] == 'BinaryOperator' and sr.N(atom).get('op') in ('!=', '==') and any(x.endswith('fcgi_responder') for x in sr.subtree_refs(atom)) and
                         ((sr.N(atom)['op'] == '!=' and pol is False) or (sr.N(atom)['op'] == '==' and pol is True)))
    nxt = [i for i in sr.calls() if sr.bcallee(i) in (FC + '::non_blocking_read_record',)]
    ctx.check(bool(role) and bool(nxt) and all(sr.only_through(i, role) for i in nxt), R8, 'on_start_request:responder-role-only', 'a non-responder role proceeds to the parameter records', sr.where)

    # ---------------- R9 cookie scanner progress (abstract interpretation)
    rkv = P.fn('cppcms::http::request::read_key_value')
    bad = []
    nb = 0
    for L in ((1, 2) if ctx.tier == 'quick' else (1, 2, 3)):
        def runp(it, L=L):
            arr = Arr([it.inbyte(k) for k in range(L)], 'cookie')
            p = Cell(PV(arr, 0))
            key, val = Out('key'), Out('value')
            it.call_fn(rkv, [p, PV(arr, L), Cell(key), Cell(val)])
            return p.v.off
        for (bx, off, it) in absint.explore(P, runp, [[(0, 255)] * L], max_boxes=400000):
            nb += 1
            if not (isinstance(off, int) and 0 < off <= L):
                bad.append((bx, off))
                if len(bad) > 3:
                    break
        if bad:
            break
    ctx.check(not bad, R9, 'read_key_value:advances-on-every-input', ('input %s leaves the cursor at %s: parse_cookies would spin forever' % (['%02X-%02X' % b for b in bad[0][0]], bad[0][1])) if bad else '',
              rkv.where, detail={'boxes': nb})
    pc = P.fn('cppcms::http::request::parse_cookies')
    lp = q.loops(pc)
    calls_in = [i for i in pc.calls() if pc.bcallee(i) == 'cppcms::http::request::read_key_value' and lp and pc.contains(lp[0], i)]
    cond_ok = False
    if lp:
        c = pc.N(pc.strip(pc.N(lp[0])['cond']))
        cond_ok = c.get('op') == '<'
    prog = False
    if lp and calls_in:
        cb = pc.point_of(pc.N(lp[0])['cond'])[0]
        body_first = [s_ for (s_, lab) in pc.succ_edges(cb) if lab is True]
        # a full turn of the loop (back to the loop head) without calling the scanner must be impossible
        reach = pc.reachable_blocks(start=body_first[0], cut_blocks=q.blocks_of(pc, calls_in), with_catch=False) if body_first else {cb}
        prog = cb not in reach
    ctx.check(len(lp) == 1 and len(calls_in) == 1 and cond_ok and prog, R9,
              'parse_cookies:every-iteration-calls-the-advancing-scanner', 'an iteration of the cookie loop can complete without consuming input', pc.where)

    # ---------------- R10 nothing throws through the event loop while a request is prepared
    XU = ['src/http_context.cpp', 'src/http_request.cpp', 'src/http_content_type.cpp', 'src/http_cookie.cpp', 'src/cgi_api.cpp', 'src/applications_pool.cpp', 'src/mount_point.cpp', 'src/http_protocol.cpp']
    import os
    PX = model.Program(build.extract([REPO + '/' + u for u in XU if os.path.exists(REPO + '/' + u)]))
    THROWERS = ('std::basic_string::at', 'std::vector::at', 'std::map::at', 'std::deque::at', 'std::array::at', 'std::stoi', 'std::stol', 'std::stoul', 'std::stoll', 'std::stoull', 'std::stod', 'std::stof',
                'std::bitset::test', 'std::basic_string::replace', 'std::basic_string::insert', 'std::basic_string::erase', 'std::basic_string::compare')

    def guarded(f, i):
        for a in f.ancestors(i):
            if f.N(a)['k'] == 'CXXTryStmt' and f.N(a)['ch'] and f.contains(f.N(a)['ch'][0], i):
                return True
        return False

    def throw_sites(f, chain, seen, out):
        if f.id in seen:
            return
        seen.add(f.id)
        for i in f.all_nodes():
            n = f.N(i)
            if n['k'] == 'CXXThrowExpr' and n['ch'] and not guarded(f, i):
                out.append(('throw', chain + [f], i))
        for i in f.calls():
            if guarded(f, i):
                continue
            bc = f.bcallee(i) or ''
            if bc in THROWERS and (bc.rsplit('::', 1)[-1] == 'at' or bc.startswith('std::sto') or bc == 'std::bitset::test'):
                out.append((bc, chain + [f], i))
            g = PX.fns.get(f.N(i).get('callee'))
            if g is not None and g.entry is not None and g.file.startswith(REPO + '/src/') and not f.N(i).get('virt'):
                throw_sites(g, chain + [f], seen, out)
    roots = [PX.fn('cppcms::http::context::' + nm) for nm in ('on_headers_ready', 'on_content_progress', 'on_request_ready')]
    seen10, out10 = set(), []
    for r_ in roots:
        throw_sites(r_, [], seen10, out10)
    ctx.check(len(seen10) >= 20, R10, 'event-loop-preparation:functions-explored:%d' % len(seen10), 'call graph from the context callbacks is unexpectedly small', roots[0].where,
              detail={'functions': sorted(PX.fns[x].short for x in seen10)[:60]})
    for k, (what, chain, i) in enumerate(out10):
        f = chain[-1]
        ctx.check(False, R10, '%s:%s#%d' % (' > '.join(g.short for g in chain), what.rsplit('::', 1)[-1], k),
                  '%s outside any try block is reachable from %s on the event-loop thread: the exception leaves service::run() and stops the whole service' % ('a throw expression' if what == 'throw' else what + '()', chain[0].short), f.loc(i))
    # positive control: the detector sees the throw in context::async_flush_output
    ctl_s, ctl_o = set(), []
    throw_sites(PX.fn('cppcms::http::context::async_flush_output'), [], ctl_s, ctl_o)
    ctx.require(any(w == 'throw' for (w, _, _) in ctl_o), 'C02.R10: the throw detector no longer matches its positive control context::async_flush_output')
    ctx.check(True, R10, 'detector:positive-control:async_flush_output', loc=PX.fn('cppcms::http::context::async_flush_output').where)
    ctx.assume('library calls without an analysed body are taken not to throw except the listed checked accessors; allocation failure is out of scope; virtual calls (application code, filters) are covered by C02.R7')

    # ---------------- R11 string_pool: which pages may be re-armed as the current page
    SP = 'cppcms::impl::string_pool'
    spf = [f for f in P.fns.values() if f.brecord == SP and f.entry is not None]
    ctx.require(len(spf) >= 5, 'C02.R11: string_pool not found in the analysed units')

    # allocation helpers of the class: one size parameter, the block returned is malloc(<that parameter> + sizeof(page))
    alloc_helpers = {}
    for g in spf:
        if len(g.params) == 1 and (g.types[g.params[0]['t']] or '').replace('const ', '').strip() in ('size_t', 'unsigned long', 'std::size_t'):
            mcs = [j for j in g.calls() if g.callee(j) == 'malloc']
            if len(mcs) == 1 and g.params[0]['ref'] in g.subtree_refs(g.args(mcs[0])[0]) and not [r for r in g.subtree_refs(g.args(mcs[0])[0]) if r.startswith('f:')] and \
                    not q.field_writes(g, 'string_pool::pages_') and not q.field_writes(g, 'string_pool::data_'):
                alloc_helpers[g.id] = g

    def malloc_kinds(f):
        """local variable -> 'std' (malloc of sizeof(page)+page_size_) | 'big' (any other malloc)"""
        out = {}
        if f.id in alloc_helpers:
            return out
        for i in f.all_nodes():
            if f.N(i)['k'] == 'DeclStmt':
                for d in f.N(i)['decls']:
                    if d.get('init') is not None:
                        mc = [f.args(j)[0] for j in f.calls(d['init']) if f.callee(j) == 'malloc']
                        mc += [f.args(j)[0] for j in f.calls(d['init']) if f.N(j).get('callee') in alloc_helpers and f.args(j)]
                        if mc:
                            refs = [model.strip_targs(r).rsplit('::', 1)[-1] for r in f.subtree_refs(mc[0])]
                            pars = [r for r in f.subtree_refs(mc[0]) if r.startswith(('p:', 'v:'))]
                            out[d['ref']] = 'std' if ('page_size_' in refs and not pars) else 'big'
        return out
    # kind of every value stored into the list head `pages_`
    head_kinds = []
    for f in spf:
        mk = malloc_kinds(f)
        for w in q.field_writes(f, 'string_pool::pages_'):
            n = f.N(w)
            rhs = n['ch'][1] if n['k'] == 'BinaryOperator' and n.get('op') == '=' else None
            if rhs is None:
                head_kinds.append((f, w, 'other'))
                continue
            r = f.ref_of(rhs)
            if r in mk:
                kind = mk[r]
            elif f.const_value(rhs) == 0:
                kind = 'null'
            elif any(model.strip_targs(x).endswith('page::next') for x in f.subtree_refs(rhs)):
                kind = 'next'          # some later node of the list: may be an over-sized block
            else:
                kind = 'other'
            head_kinds.append((f, w, kind))
    # over-sized blocks are linked behind the head, so a `next` node can be one
    big_linked_behind_head = any(mk_ == 'big' for f in spf for mk_ in malloc_kinds(f).values())
    rearm = [(f, w) for f in spf for w in q.field_writes(f, 'string_pool::free_space_')
             if f.N(w)['k'] == 'BinaryOperator' and f.N(w).get('op') == '=' and any(model.strip_targs(x).endswith('string_pool::page_size_') for x in f.subtree_refs(f.N(w)['ch'][1]))]
    ctx.check(len(rearm) >= 2, R11, 'string_pool:re-arm-sites', 'expected the sites that reset free_space_ to page_size_', spf[0].where)
    for (f, w) in rearm:
        mk = malloc_kinds(f)
        dws = [x for x in q.field_writes(f, 'string_pool::data_') if f.N(x)['k'] == 'BinaryOperator' and f.N(x).get('op') == '=' and f.point_of(x) and f.point_of(x)[0] == f.point_of(w)[0]]
        ok = len(dws) == 1
        why = 'free_space_ is reset without pointing data_ at the start of a page'
        if ok:
            src = f.N(dws[0])['ch'][1]
            roots = [r for r in f.subtree_refs(src) if r.startswith('v:') or model.strip_targs(r).endswith('string_pool::pages_')]
            if any(r in mk for r in roots):
                ok = all(mk[r] == 'std' for r in roots if r in mk)
                why = 'the bump pointer is re-armed with page_size_ bytes on a block of another size'
            else:
                # through the list head: fine only if the head is always a standard page *at this point*: in this function no
                # `next` node was made the head before, or no over-sized block can sit in the list
                moved = [hk for hk in head_kinds if hk[0] is f and hk[2] in ('next', 'other') and q.reaches(f, hk[1], w)]
                ok = not (moved and big_linked_behind_head)
                why = ('the page kept for reuse is whatever node ended up at the head of the list after `pages_ = pages_->next`: an over-sized block '
                       '(allocated with its own size and linked behind the head) is then re-armed with page_size_ bytes - later requests on the connection write past it')
        ctx.check(ok, R11, 'string_pool::%s:re-armed-page-has-page_size_-bytes' % f.short, why, f.loc(w))
    ctx.floor(R11, 3)

    # ---------------- R12 string_map load factor (termination of the probe loops on the event-loop thread)
    from vlib import lin as _lin
    SM = 'cppcms::impl::string_map'
    sadd = [f for f in P.fns.values() if f.brecord == SM and f.short == 'add' and f.entry is not None]
    ctx.require(len(sadd) == 1, 'C02.R12: string_map::add not found')
    sadd = sadd[0]
    S = q.symb_with_locals(sadd)
    T, SZ = 'this.f:%s::total_' % SM, 'this.f:%s::data_.size()' % SM
    ifs = [i for i in sadd.walk() if sadd.N(i)['k'] == 'IfStmt' and any(model.strip_targs(r).endswith('string_map::total_') for r in sadd.subtree_refs(sadd.N(i)['cond']))]
    inc = q.incdec_of_field(sadd, 'string_map::total_', ('++',)) + [w for w in q.field_writes(sadd, 'string_map::total_') if sadd.N(w)['k'] == 'CompoundAssignOperator']
    inc = sorted(set(inc))
    ok = len(ifs) == 1 and len(inc) == 1
    detail = {}
    if ok:
        cond = sadd.N(ifs[0])['cond']
        t, sz = Lin.atom(T), Lin.atom(SZ)
        inv = [ge(t), ge(sz - Lin.const(64)), ge(sz - t - Lin.const(1))]          # 0 <= total_ < size, size >= 64 (initial size, only doubled)
        # no growth: the negated condition must leave room for one more entry and still one empty slot
        stay = S.rel(cond, False)
        ok_stay = stay is not None and _lin.implies(inv + stay, ge(sz - t - Lin.const(2)))
        # growth: the new table is built with a size expression in terms of the old size; total_ + 1 < new size
        # the rebuild may live in a helper of the class called from the growing branch (its size expression is over the same fields)
        grow = [(sadd, S, i) for i in sadd.calls(sadd.N(ifs[0])['then']) if sadd.N(i)['k'] == 'CXXConstructExpr' and 'std::vector' in (sadd.callee(i) or '') and sadd.args(i)]
        for c_ in sadd.calls(sadd.N(ifs[0])['then']):
            g_ = P.fns.get(sadd.N(c_).get('callee') or '')
            if g_ is not None and g_.brecord == SM and g_.entry is not None and not g_.params and g_ is not sadd:
                Sg = q.symb_with_locals(g_)
                grow += [(g_, Sg, i) for i in g_.calls() if g_.N(i)['k'] == 'CXXConstructExpr' and 'std::vector' in (g_.callee(i) or '') and g_.args(i) and
                         not q.field_writes(g_, 'string_map::total_')]
        ok_grow = len(grow) == 1
        if ok_grow:
            nsz = grow[0][1].lin(grow[0][0].args(grow[0][2])[0])
            ok_grow = _lin.implies(inv + (S.rel(cond, True) or []), ge(nsz - t - Lin.const(2))) and _lin.implies(inv, ge(nsz - sz))
            detail['new_size'] = repr(nsz)
        detail.update({'no-growth facts': [repr(c[1]) for c in (stay or [])], 'stays': ok_stay, 'grows': ok_grow})
        ok = ok_stay and ok_grow
    ctx.check(ok, R12, 'string_map::add:an-empty-slot-remains', 'after add() the table can be completely full: the next lookup of an absent key (HTTP_HOST, HTTP_COOKIE ... on the event-loop thread) never terminates', sadd.where, detail=detail)
    for f in [g for g in P.fns.values() if g.brecord == SM and (g.kind == 'ctor' or g.short == 'clear') and g.entry is not None]:
        rs = [i for i in q.field_calls(f, 'string_map::data_', 'resize')]
        tw = [w for w in q.field_writes(f, 'string_map::total_') if f.const_value(f.N(w)['ch'][1]) == 0]
        ctx.check(len(rs) >= 1 and all((f.const_value(f.args(i)[0]) or 0) >= 64 for i in rs) and len(tw) == 1, R12, 'string_map::%s:starts-empty-with-64-slots' % (f.short if f.kind != 'ctor' else 'string_map()'),
                  'the table does not start with total_ = 0 and at least 64 slots', f.where)
    # lookup follows the probe sequence of insertion: next slot modulo the table size, left only on an empty slot or a match
    for nm_ in ('insert', 'get'):
        fs_ = [g for g in P.fns.values() if g.brecord == SM and g.short == nm_ and g.entry is not None]
        okp = len(fs_) == 1
        if okp:
            g = fs_[0]
            lp = [L for L in q.loops(g) if any(model.strip_targs(r).endswith('entry::key') for r in g.subtree_refs(g.N(L).get('cond', L) if g.N(L).get('cond', -1) not in (None, -1) else L))]
            okp = len(lp) == 1
            if okp:
                L = lp[0]
                pv = [r for r in g.subtree_refs(g.N(L)['cond']) if r.startswith('v:')]
                ws_ = [w for r in pv for w in q.writes_to(g, r, L)]
                esc = [j for j in g.walk(g.N(L)['body']) if g.N(j)['k'] in ('ReturnStmt', 'BreakStmt', 'GotoStmt')]
                okp = len(ws_) == 1 and not esc
                if okp:
                    m_ = g.N(ws_[0])
                    rhs = g.N(g.strip(m_['ch'][1])) if m_['k'] == 'BinaryOperator' and m_.get('op') == '=' else {}
                    okp = rhs.get('k') == 'BinaryOperator' and rhs.get('op') == '%' and any(q.short_of(g.bcallee(c) or '') == 'size' for c in q.expr_calls_deep(g, rhs['ch'][1])) and \
                        (lambda a_: a_['k'] == 'BinaryOperator' and a_.get('op') == '+' and g.ref_of(a_['ch'][0]) in pv and g.const_value(a_['ch'][1]) == 1)(g.N(g.strip(rhs['ch'][0])))
        ctx.check(okp, R12, 'string_map::%s:probes-next-slot-modulo-size-until-empty-or-found' % nm_, 'the probe sequence is not "next slot modulo the table size, stop at an empty slot or a match": a variable that wrapped around on insertion is not found by name', fs_[0].where if fs_ else sadd.where)
    ctx.floor(R12, 5)
    ctx.floor(R9, 2)
    ctx.floor(R6, 7)
    ctx.floor(R8, 5)
    if pending_broken and not ctx.violations:
        raise AnalysisBroken(pending_broken[0])


def _field_type(P, ref):
    if not hasattr(P, '_ftypes'):
        P._ftypes = {}
        for r in P.records.values():
            for f in r['fields']:
                P._ftypes[f['ref']] = f['type']
    return P._ftypes.get(ref)
