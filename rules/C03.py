"""C03 — the client receives exactly the bytes the application wrote, once and in order (structural / linear clauses)."""
from vlib import build, model, q, linbound, lin
from vlib.lin import Lin, ge
from vlib.build import AnalysisBroken, REPO
from rules import C01

CONN = 'cppcms::impl::cgi::connection'
FC = 'cppcms::impl::cgi::fastcgi'
HTTP = 'cppcms::impl::cgi::http'
SC = 'cppcms::impl::cgi::scgi'


def run(ctx):
    ctx.explanation = ('Byte-exactness under arbitrary short-write schedules is a value property and is not claimed. Decided: the header block enters the output exactly under the not-yet-written flag which is set on that path; '
                       'FastCGI record headers are proved in range and the pre-built full-size header is only used when the same call prepared it; END_REQUEST only on the completed edge; literal/length pairs agree; '
                       'chunk framing order; output-side keep-alive reset; the bytes re-queued after a short write are exactly output+n of the buffer that was written.')
    ctx.units = ['src/http_api.cpp', 'src/fastcgi_api.cpp', 'src/cgi_api.cpp', 'src/scgi_api.cpp', 'src/http_response.cpp', 'src/cache_interface.cpp']
    P = model.Program(build.extract([REPO + '/' + u for u in ctx.units], include_re='^/repo/(src|private|cppcms)/'))
    ctx.stats['functions'] = len(P.fns)
    R1 = ctx.rule('C03.R1', 'format_output: the header block is emitted exactly on the path where the written-flag was false, and the flag is set there')
    R2 = ctx.rule('C03.R2', 'FastCGI framing: record length fields in range (proved), full-size header used only when prepared, padding 8-aligned, END_REQUEST only when completed')
    R3 = ctx.rule('C03.R3', 'finalisation happens once: gzip stream finished only while open; response::finalize closes every buffer once')
    R4 = ctx.rule('C03.R4', 'every (string literal, explicit length) pair passed to a buffer / write has the literal\'s length')
    R5 = ctx.rule('C03.R5', 'chunked transfer: size line, data, CRLF in that order; terminating chunk only when completed; header says chunked exactly when chunking')
    R11 = ctx.rule('C03.R11', 'embedded HTTP server framing: the body bytes of every write are part of what is sent (as they are, or inside a chunk when chunking); a computed Content-Length is the size of the single complete write and only added when none was set; the connection is kept alive only when the length is known or chunking is possible (HTTP/1.1), and chunking is chosen exactly when it is kept alive without a known length; the header block ends with an empty line')
    R6 = ctx.rule('C03.R6', 'every output-side per-request field is reset at the request boundary (or survives by design)')
    R7 = ctx.rule('C03.R7', 'page copy for the cache: the tee buffer is spliced between the (optional) gzip stage and the device, forwards exactly the bytes it holds, and keeps them')
    R10 = ctx.rule('C03.R10', 'both header formatters emit every stored header and every added header line, each as `name: value CRLF`, and nothing is skipped except the Status line that was already written')
    R9 = ctx.rule('C03.R9', 'after response::flush_async_chunk has produced the output (and, on completion, its end-of-response framing), the remaining flush of pending bytes - a write of an empty buffer - passes eof = false')
    R8 = ctx.rule('C03.R8', 'after a short write exactly the unsent tail of the buffer that was written is re-queued; pending output is dropped only when everything was sent')

    # ---------------- R1
    fos = P.overriders_of(CONN + '::format_output')
    ctx.require(len(fos) == 3, 'C03.R1: expected 3 format_output overriders, found %d' % len(fos))
    FLAGS = ('response_headers_written_', 'headers_done_', 'headers_written_')
    HDRS = ('response_headers_', 'headers_')
    for f in sorted(fos, key=lambda g: g.id):
        short = f.brecord.rsplit('::', 1)[-1]
        flag = [x for x in FLAGS if any(model.strip_targs(r).endswith('::' + x) for r in f.subtree_refs(f.body))]
        ctx.check(len(flag) == 1, R1, '%s::format_output:has-written-flag' % short, 'no headers-written flag consulted', f.where)
        if len(flag) != 1:
            continue
        flag = flag[0]
        g_first = f.gate_edges(lambda atom, pol, f=f, flag=flag: model.strip_targs(f.ref_of(atom) or '').endswith('::' + flag) and pol is False)
        # header buffer handed to booster::aio::buffer(...)
        uses = [i for i in f.calls() if (f.bcallee(i) or '') == 'booster::aio::buffer' and any(model.strip_targs(r).rsplit('::', 1)[-1] in HDRS for r in f.subtree_refs(i))]
        ctx.check(len(uses) == 1 and f.only_through(uses[0], g_first), R1, '%s::format_output:headers-only-when-flag-false' % short, 'header block can be emitted again after it was written', f.loc(uses[0]) if uses else f.where)
        sets = [w for w in q.field_writes(f, '::' + flag) if f.const_value(f.N(w)['ch'][1]) == 1]
        ok = len(sets) == 1 and bool(uses)
        if ok:
            # on every path from the header emission to the exit the flag is set (or was set just before)
            ok = q.always_after(f, uses[0], sets) or q.before(f, sets[0], uses[0])
        ctx.check(ok, R1, '%s::format_output:flag-set-with-headers' % short, 'headers emitted without marking them written', f.where)
        clears = [(g, w) for g in P.fns.values() if g.brecord == f.brecord for w in q.field_writes(g, '::' + flag) if g.const_value(g.N(w)['ch'][1]) == 0]
        ctx.check(all(g.short in C01.BOUNDARY + ('set_response_headers',) or g.kind == 'ctor' for g, _ in clears), R1, '%s:flag-cleared-only-at-request-boundary' % short,
                  'the headers-written flag is cleared in %s' % [g.short for g, _ in clears if g.short not in C01.BOUNDARY + ('set_response_headers',)], f.where)

    # ---------------- R2
    fo = [f for f in fos if f.brecord == FC][0]
    E = linbound.Engine(P, inline_depth=1)
    E.struct_sizes = {FC + '::fcgi_header': 8}
    MAXV = [g for g in P.globals.values() if g['name'].endswith('max_packet_len')]
    # the full-size record header is a connection member: it must be (re)prepared by the call that sends it.  The block that
    # prepares it (writes full_header_.request_id) has to be entered on the strength of this invocation's own data only.
    prep = [w for w in fo.all_nodes() if fo.N(w)['k'] == 'BinaryOperator' and fo.N(w).get('op') == '=' and
            any(model.strip_targs(r).endswith('fastcgi::full_header_') for r in fo.subtree_refs(fo.N(w)['ch'][0])) and
            any(model.strip_targs(r).endswith('fcgi_header::request_id') for r in fo.subtree_refs(fo.N(w)['ch'][0]))]
    ctx.check(len(prep) == 1 and any(model.strip_targs(r).endswith('fastcgi::request_id_') for r in fo.subtree_refs(fo.N(prep[0])['ch'][1])), R2,
              'format_output:full-header:request-id-from-current-request', 'full_header_.request_id is not set from request_id_', fo.where)
    lps_ = q.loops(fo)
    remv = []
    for L_ in lps_:
        c_ = fo.N(L_).get('cond', -1)
        if c_ is not None and c_ >= 0:
            remv += [r for r in fo.subtree_refs(c_) if r.startswith('v:')]
    insz = []
    if prep:
        gate_if = fo.enclosing(prep[0], ('IfStmt',))
        crefs = fo.subtree_refs(fo.N(gate_if)['cond']) if gate_if is not None else set()
        member_state = sorted(r for r in crefs if r.startswith('f:'))
        ctx.check(gate_if is not None and not member_state, R2, 'format_output:full-header:prepared-on-this-calls-data-only',
                  'whether the full-size record header is prepared depends on connection state %s left by an earlier request' % member_state, fo.loc(prep[0]))
        insz = [r for r in crefs if r.startswith('v:') and r not in remv and len(fo.defs_of_var(r)) == 1]
    ctx.require(remv, 'C03.R2: no record loop in fastcgi::format_output')
    ctx.check(len(insz) == 1, R2, 'format_output:full-header:total-size-local', 'no per-call total (a local fixed before the record loop) decides the preparation of the full-size header', fo.where)
    if len(insz) != 1:
        insz = remv[:1]

    def full_header_use(engine, fn, st, node, chain):
        n = fn.N(node)
        if (fn.bcallee(node) or '') != 'booster::aio::buffer':
            return
        refs = [model.strip_targs(r) for r in fn.subtree_refs(node)]
        if any(r.endswith('fastcgi::full_header_') for r in refs):
            v = engine.value(fn, st, _declref(fn, insz[0]))
            engine.oblige(fn, st, node, 'full-header-prepared', 'full_header_ is sent only when this call prepared it: in_size > 65535 (in_size=%s)' % v, ge(v - Lin.const(65536)), chain)
    E.site_hooks.append(full_header_use)
    E.analyse(fo)
    def framing(ob):
        if ob.kind != 'narrow-store':
            return True
        lhs = ob.fn.N(ob.node)['ch'][0]
        return any(model.strip_targs(r).rsplit('::', 1)[-1] in ('content_length', 'padding_length') for r in ob.fn.subtree_refs(lhs))
    for ob in [o for o in E.obligations if framing(o)]:
        ctx.check(ob.proved, R2, 'format_output:%s@L%d' % (ob.kind, ob.fn.N(ob.node)['l'] - ob.fn.line), 'not provable: ' + ob.desc, ob.fn.loc(ob.node),
                  detail={'obligation': ob.desc, 'constraints': [repr(c[1]) + (' >= 0' if c[0] == 'ge' else ' == 0') for c in ob.cons][-10:]})
    ctx.require(any(ob.kind == 'narrow-store' for ob in E.obligations) and any(ob.kind == 'full-header-prepared' for ob in E.obligations), 'C03.R2: framing obligations not generated')
    # padding keeps the record 8-aligned: (8 - r%8) % 8 for the last record, 1 for a 65535-byte record
    pads = [w for w in fo.all_nodes() if fo.N(w)['k'] == 'BinaryOperator' and fo.N(w).get('op') == '=' and (fo.ref_of(fo.N(w)['ch'][0]) or '').startswith('v:pad_len')]
    okp = len(pads) >= 2
    for w in pads:
        rhs = fo.N(w)['ch'][1]
        cv = fo.const_value(rhs)
        if cv is not None:
            okp = okp and (65535 + cv) % 8 == 0
        else:
            mods = [j for j in fo.walk(rhs) if fo.N(j)['k'] == 'BinaryOperator' and fo.N(j).get('op') == '%' and fo.const_value(fo.N(j)['ch'][1]) == 8]
            okp = okp and len(mods) == 2 and remv[0] in fo.subtree_refs(rhs) and any(fo.const_value(j) == 8 and fo.N(fo.parent[j])['k'] == 'BinaryOperator' and fo.N(fo.parent[j]).get('op') == '-' for j in fo.walk(rhs) if j in fo.parent)
    ctx.check(okp, R2, 'format_output:padding-8-aligned', 'record padding does not round the record up to a multiple of 8', fo.where)
    eofu = [i for i in fo.calls() if (fo.bcallee(i) or '') == 'booster::aio::buffer' and any(model.strip_targs(r).endswith('fastcgi::eof_') for r in fo.subtree_refs(i))]
    pe = [i for i in fo.calls() if fo.bcallee(i) == FC + '::prepare_eof']
    g_done = fo.gate_edges(lambda atom, pol: fo.ref_of(atom) == q.param_by_index(fo, 1) and pol is True)
    ctx.check(len(eofu) == 1 and len(pe) == 1 and fo.only_through(eofu[0], g_done) and q.before(fo, pe[0], eofu[0]), R2, 'format_output:END_REQUEST-only-when-completed', 'END_REQUEST record sent before the response is complete / without being prepared', fo.where)
    # ... and always when completed
    if eofu:
        g_not = fo.gate_edges(lambda atom, pol: fo.ref_of(atom) == q.param_by_index(fo, 1) and pol is False)
        reach = fo.reachable_blocks(cut_edges=g_not, cut_blocks=q.blocks_of(fo, eofu) | fo.abnormal_blocks(), with_catch=False)
        ctx.check(fo.exit not in reach, R2, 'format_output:END_REQUEST-always-when-completed', 'a completed response can lack its END_REQUEST record', fo.where)
    pf = P.fn(FC + '::prepare_eof')
    vals = {}
    for w in pf.all_nodes():
        n = pf.N(w)
        if n['k'] == 'BinaryOperator' and n.get('op') == '=':
            lhs = n['ch'][0]
            names = [model.strip_targs(pf.N(j)['ref']).rsplit('::', 1)[-1] for j in pf.walk(lhs) if pf.N(j)['k'] == 'MemberExpr' and pf.N(j).get('ref', '').startswith('f:')]
            names.reverse()
            idx = [pf.const_value(pf.N(j)['ch'][1]) for j in pf.walk(lhs) if pf.N(j)['k'] == 'ArraySubscriptExpr']
            rhs = n['ch'][1]
            vals[('.'.join(names), tuple(idx))] = [r.rsplit('::', 1)[-1] for r in pf.subtree_refs(rhs) if r.startswith('e:')] or pf.const_value(rhs)
    ok = vals.get(('eof_.headers_.type', (0,))) == ['fcgi_stdout'] and vals.get(('eof_.headers_.type', (1,))) == ['fcgi_end_request'] and vals.get(('eof_.headers_.content_length', (1,))) == 8 and \
        vals.get(('eof_.record_.protocol_status', ())) == ['fcgi_request_complete']
    ctx.check(ok, R2, 'prepare_eof:empty-STDOUT-then-END_REQUEST(8 bytes)', 'END_REQUEST block is %s' % {k: v for k, v in vals.items() if 'eof_' in k[0]}, pf.where)
    rid = [w for w in pf.all_nodes() if pf.N(w)['k'] == 'BinaryOperator' and pf.N(w).get('op') == '=' and any(model.strip_targs(r).endswith('fcgi_header::request_id') for r in pf.subtree_refs(pf.N(w)['ch'][0])) and
           any(model.strip_targs(r).endswith('fastcgi::request_id_') for r in pf.subtree_refs(pf.N(w)['ch'][1]))]
    ctx.check(len(rid) == 1 and bool(q.enclosing_loops(pf, rid[0])), R2, 'prepare_eof:both-records-carry-request-id', 'END_REQUEST records do not carry the request id', pf.where)

    # ---------------- R3
    gz = [f for f in P.fns.values() if (f.brecord or '').endswith('gzip_buf') and f.short == 'close']
    ctx.require(gz, 'C03.R3: gzip_buf::close not found')
    gz = gz[0]
    g_open = gz.gate_edges(lambda atom, pol: model.strip_targs(gz.ref_of(atom) or '').endswith('gzip_buf::opened_') and pol is True)
    fin = [i for i in gz.calls() if gz.callee(i) == 'deflateEnd' or (q.short_of(gz.callee(i)) == 'do_write')]
    clr = [w for w in q.field_writes(gz, 'gzip_buf::opened_') if gz.const_value(gz.N(w)['ch'][1]) == 0]
    ctx.check(len(fin) == 2 and all(gz.only_through(i, g_open) for i in fin) and len(clr) == 1 and q.always_after(gz, fin[-1], clr), R3, 'gzip_buf::close:finish-only-while-open-then-closed',
              'the deflate stream can be finished twice (or is left marked open)', gz.where)
    zf = [i for i in gz.calls() if q.short_of(gz.callee(i)) == 'do_write']
    ctx.check(len(zf) == 1 and gz.const_value(gz.args(zf[0])[2]) == 4, R3, 'gzip_buf::close:Z_FINISH', 'final write does not use Z_FINISH', gz.where)
    gd = [f for f in P.fns.values() if (f.brecord or '').endswith('gzip_buf') and f.kind == 'dtor']
    for f in gd:
        de = [i for i in f.calls() if f.callee(i) == 'deflateEnd']
        g = f.gate_edges(lambda atom, pol, f=f: model.strip_targs(f.ref_of(atom) or '').endswith('gzip_buf::opened_') and pol is True)
        ctx.check(all(f.only_through(i, g) for i in de), R3, 'gzip_buf::~gzip_buf:deflateEnd-only-if-open', 'deflateEnd on a stream that close() already ended', f.where)
    rf = P.fn('cppcms::http::response::finalize')
    g_nf = rf.gate_edges(lambda atom, pol: model.strip_targs(rf.ref_of(atom) or '').endswith('response::finalized_') and pol is False)
    cl = [i for i in rf.calls() if q.short_of(rf.callee(i)) == 'close']
    st_ = [w for w in q.field_writes(rf, 'response::finalized_')]
    lp = q.loops(rf)
    ctx.check(len(cl) == 1 and rf.only_through(cl[0], g_nf) and len(st_) == 1 and len(lp) == 1 and rf.contains(lp[0], cl[0]) and q.mentions_field_call(rf, rf.N(lp[0])['init'] if rf.N(lp[0]).get('init', -1) >= 0 else lp[0], '_data::buffers', 'begin')
              and q.mentions_field_call(rf, rf.N(lp[0])['cond'], '_data::buffers', 'end'), R3, 'response::finalize:closes-every-buffer-once', 'finalize can run twice / skips a buffer', rf.where)

    # ---------------- R4 literal lengths
    n4 = 0
    for f in sorted([g for g in P.fns.values() if g.file.split('/')[-1] in ('http_api.cpp', 'http_response.cpp', 'cgi_api.cpp', 'fastcgi_api.cpp', 'scgi_api.cpp')], key=lambda g: g.id):
        for i in f.calls():
            sh = q.short_of(f.callee(i))
            if not ((f.bcallee(i) or '') == 'booster::aio::buffer' or sh in ('sputn', 'write', 'append', 'assign')):
                continue
            a = [x for x in f.args(i) if f.N(x)['k'] != 'CXXDefaultArgExpr']
            if len(a) != 2:
                continue
            lit = _literal_of(f, a[0])
            if lit is None:
                continue
            pairs = _pairs(f, a[0], a[1])
            if pairs is None:
                continue
            n4 += 1
            bad = [(s, l) for (s, l) in pairs if len(s.encode('latin-1')) != l]
            ctx.check(not bad, R4, '%s:%s#%d' % (f.short, sh, n4), 'literal %r is passed with length %d' % bad[0] if bad else '', f.loc(i), detail={'pairs': [(s, l) for s, l in pairs]})
    ctx.floor(R4, 2)

    # ---------------- R5
    mc = P.fn(HTTP + '::make_chunked_wrapper')
    inp, comp = q.param_by_index(mc, 0), q.param_by_index(mc, 1)
    rets = [r for r in mc.returns() if mc.ret_value(r) is not None]
    full = [r for r in rets if any(model.strip_targs(x).endswith('http::chunked_header_') for x in mc.subtree_refs(r))]
    ok = len(full) == 1
    if ok:
        order = []
        for j in sorted(mc.walk(full[0]), key=lambda j: (mc.N(j)['l'], mc.N(j)['c'])):
            r = mc.N(j).get('ref') if mc.N(j)['k'] in ('DeclRefExpr', 'MemberExpr') else None
            if r and (model.strip_targs(r).endswith('chunked_header_') or r == inp or r.startswith('v:trailer@')):
                order.append('hdr' if 'chunked_header_' in r else ('in' if r == inp else 'trailer'))
        ok = order == ['hdr', 'in', 'trailer']
    ctx.check(ok, R5, 'make_chunked_wrapper:size-line,data,trailer', 'chunk is not framed as size line + data + CRLF', mc.where)
    hx = [i for i in mc.all_nodes() if mc.N(i)['k'] == 'DeclRefExpr' and mc.N(i).get('ref', '').endswith('std::hex(std::ios_base &)')]
    ctx.check(len(hx) == 1, R5, 'make_chunked_wrapper:hex-size', 'chunk size is not written in hexadecimal', mc.where)
    g_empty = mc.gate_edges(lambda atom, pol: mc.N(atom)['k'] == 'BinaryOperator' and mc.N(atom).get('op') == '==' and mc.const_value(mc.N(atom)['ch'][1]) == 0 and inp in mc.subtree_refs(atom) and pol is True)
    g_comp = mc.gate_edges(lambda atom, pol: mc.ref_of(atom) == comp and pol is True)
    term = [r for r in rets if any(mc.N(j)['k'] == 'StringLiteral' and mc.N(j).get('s') == '0\r\n\r\n' for j in mc.walk(r))]
    same = [r for r in rets if mc.ref_of(mc.ret_value(r)) == inp or (mc.subtree_refs(mc.ret_value(r)) == {inp})]
    ctx.check(len(term) == 1 and mc.only_through(term[0], g_empty) and mc.only_through(term[0], g_comp) and len(same) == 1 and mc.only_through(same[0], g_empty), R5,
              'make_chunked_wrapper:empty-write-cases', 'an empty write is framed as a terminating chunk before completion (or data is dropped)', mc.where)
    # the data trailer that also carries the terminating chunk ("\r\n0\r\n\r\n") is selected only when the response is completed:
    # every use of that text - the literal itself, or a static array initialised with it - sits behind `completed`
    TERM = '\r\n0\r\n\r\n'
    statics = {}
    for i in mc.all_nodes():
        if mc.N(i)['k'] == 'DeclStmt':
            for d in mc.N(i)['decls']:
                if d.get('init') is not None and d['ref'].startswith('sv:') and any(mc.N(j)['k'] == 'StringLiteral' and mc.N(j).get('s') == TERM for j in mc.walk(d['init'])):
                    statics[d['ref']] = d['init']
    tsites = [j for j in mc.all_nodes() if mc.N(j)['k'] == 'StringLiteral' and mc.N(j).get('s') == TERM and not any(j in set(mc.walk(v)) for v in statics.values()) and mc.point_of(j)]
    tsites += [j for j in mc.all_nodes() if mc.N(j)['k'] == 'DeclRefExpr' and mc.N(j).get('ref') in statics and mc.point_of(j) and
               not any(mc.N(a_)['k'] == 'UnaryExprOrTypeTraitExpr' for a_ in mc.ancestors(j))]
    ctx.check(len(tsites) >= 1 and all(mc.only_through(j, g_comp) for j in tsites), R5, 'make_chunked_wrapper:terminator-only-when-completed', 'the zero-length terminating chunk is appended to a non-final write', mc.where)
    fh = [f for f in fos if f.brecord == HTTP][0]
    te = [i for i in fh.calls() if any(fh.N(j)['k'] == 'StringLiteral' and 'Transfer-Encoding: chunked' in fh.N(j).get('s', '') for j in fh.walk(i))]
    cs = [w for w in q.field_writes(fh, 'http::chunked_te_') if fh.const_value(fh.N(w)['ch'][1]) == 1]
    ctx.check(len(te) == 1 and len(cs) == 1 and fh.point_of(te[0])[0] == fh.point_of(cs[0])[0], R5, 'http::format_output:chunked-header-iff-chunking', 'Transfer-Encoding header and chunked_te_ disagree', fh.where)
    clh = [i for i in fh.calls() if any(fh.N(j)['k'] == 'StringLiteral' and 'Content-Length: ' in fh.N(j).get('s', '') for j in fh.walk(i))]
    g_cl = fh.gate_edges(lambda atom, pol: fh.ref_of(atom) == q.param_by_index(fh, 1) and pol is True)
    ctx.check(len(clh) == 1 and fh.only_through(clh[0], g_cl), R5, 'http::format_output:content-length-only-for-complete-single-write', 'Content-Length announced for a response that is not complete', fh.where)

    # ---------------- R11 HTTP framing decisions and the body
    inp, compl = q.param_by_index(fh, 0), q.param_by_index(fh, 1)
    g_ch = lambda pol_: fh.gate_edges(lambda atom, pol: model.strip_targs(fh.ref_of(atom) or '').endswith('http::chunked_te_') and pol is pol_)
    wraps = [i for i in fh.calls() if q.short_of(fh.bcallee(i) or '') == 'make_chunked_wrapper']
    ok = len(wraps) >= 1 and all(fh.ref_of(fh.args(i)[0]) == inp and fh.ref_of(fh.args(i)[1]) == compl and fh.only_through(i, g_ch(True)) for i in wraps)
    # every return hands out: the input itself (not chunking), a wrapper of it, or the packet that received one of the two
    pk = [d['ref'] for i in fh.all_nodes() if fh.N(i)['k'] == 'DeclStmt' for d in fh.N(i)['decls'] if 'const_buffer' in (fh.types[d['t']] or '')]
    for r in fh.returns():
        v = fh.ret_value(r)
        if v is None:
            ok = False
            continue
        vv = fh.strip(v)
        while fh.N(vv)['k'] in ('CXXConstructExpr', 'CXXTemporaryObjectExpr', 'CXXBindTemporaryExpr', 'MaterializeTemporaryExpr') and len([c_ for c_ in fh.N(vv)['ch'] if fh.N(c_)['k'] != 'CXXDefaultArgExpr']) == 1:
            vv = fh.strip([c_ for c_ in fh.N(vv)['ch'] if fh.N(c_)['k'] != 'CXXDefaultArgExpr'][0])
        v = vv
        rv = fh.ref_of(v)
        if rv == inp:
            ok = ok and fh.only_through(r, g_ch(False))
        elif any(i in set(fh.walk(v)) for i in wraps):
            ok = ok and True
        elif rv in pk:
            adds = [i for i in fh.calls() if fh.N(i)['k'] == 'CXXOperatorCallExpr' and fh.N(i).get('op') == '+=' and fh.ref_of(fh.N(i)['ch'][1]) == rv]
            body_adds = [i for i in adds if fh.ref_of(fh.N(i)['ch'][2]) == inp or any(w in set(fh.walk(i)) for w in wraps)]
            reach = fh.reachable_blocks(cut_blocks=q.blocks_of(fh, body_adds))
            ok = ok and bool(body_adds) and fh.point_of(r)[0] not in reach
            plain = [i for i in body_adds if fh.ref_of(fh.N(i)['ch'][2]) == inp]
            ok = ok and all(fh.only_through(i, g_ch(False)) for i in plain)
            # the packet starts with the header block
            init = [v_ for (d_, v_) in fh.defs_of_var(rv) if v_ is not None]
            ok = ok and len(init) == 1 and any(model.strip_targs(x).endswith('http::response_headers_') for x in fh.subtree_refs(init[0]))
        else:
            ok = False
    ctx.check(ok, R11, 'http::format_output:body-of-every-write-is-sent', 'a write can be answered with a buffer that does not contain the bytes written (as they are, or chunk-framed when chunking)', fh.where)
    # Content-Length computed = size of this write; stored too
    S11 = q.symb_with_locals(fh)
    fn_ = [i for i in fh.calls() if q.short_of(fh.bcallee(i) or fh.callee(i) or '') == 'format_number']
    clw = [w for w in q.field_writes(fh, 'http::output_content_length_')]
    g_unknown = fh.gate_edges(lambda atom, pol: fh.N(atom)['k'] == 'BinaryOperator' and fh.N(atom).get('op') in ('==', '!=') and model.strip_targs(fh.ref_of(fh.N(atom)['ch'][0]) or '').endswith('http::output_content_length_') and
                              fh.const_value(fh.N(atom)['ch'][1]) == -1 and ((fh.N(atom)['op'] == '==') == pol))
    bc = lambda node: any(q.short_of(fh.bcallee(j) or '') == 'bytes_count' and fh.obj(j) is not None and fh.ref_of(fh.obj(j)) == inp for j in q.expr_calls_deep(fh, node))
    ok = len(fn_) == 1 and bc(fh.args(fn_[0])[0]) and len(clw) == 1 and bc(fh.N(clw[0])['ch'][1]) and len(clh) == 1 and bool(g_unknown) and fh.only_through(clh[0], g_unknown) and fh.only_through(clw[0], g_unknown) and \
        fh.point_of(clw[0])[0] == fh.point_of(clh[0])[0]
    if ok:
        bufv = fh.ref_of(fh.args(fn_[0])[1])
        uses = [i for i in fh.calls() if fh.N(i)['k'] == 'CXXOperatorCallExpr' and fh.N(i).get('op') == '+=' and fh.ref_of(fh.N(i)['ch'][2]) == bufv and model.strip_targs(fh.ref_of(fh.N(i)['ch'][1]) or '').endswith('http::response_headers_')]
        ok = bufv is not None and len(uses) == 1 and q.before(fh, fn_[0], uses[0]) and fh.point_of(uses[0])[0] == fh.point_of(clh[0])[0]
        # "Content-Length: " <number> CRLF, in this order, in one go
        blk = fh.point_of(clh[0])[0]
        seq = sorted([i for i in fh.calls() if fh.N(i)['k'] == 'CXXOperatorCallExpr' and fh.N(i).get('op') == '+=' and model.strip_targs(fh.ref_of(fh.N(i)['ch'][1]) or '').endswith('http::response_headers_') and fh.point_of(i)[0] == blk], key=lambda i: fh.point_of(i)[1])
        k0 = seq.index(clh[0]) if clh[0] in seq else -1
        ok = ok and k0 >= 0 and len(seq) >= k0 + 3 and seq[k0 + 1] == uses[0] and fh.N(fh.strip(fh.N(seq[k0 + 2])['ch'][2])).get('s') == '\r\n' and fh.N(fh.strip(fh.N(clh[0])['ch'][2])).get('s') == 'Content-Length: '
    ctx.check(ok, R11, 'http::format_output:computed-content-length-is-this-writes-size', 'the Content-Length that is added is not the size of the (single, complete) write, or it replaces one the application set', fh.where)
    # keep-alive / chunking decisions
    kaw = [w for w in q.field_writes(fh, 'http::keep_alive_')]
    ka_t = [w for w in kaw if fh.const_value(fh.N(w)['ch'][1]) == 1]
    ka_f = [w for w in kaw if fh.const_value(fh.N(w)['ch'][1]) == 0]

    def framable(atom, pol):
        n_ = fh.N(atom)
        r = model.strip_targs(fh.ref_of(atom) or '')
        if r.endswith('http::is_http_11_'):
            return pol is True
        if n_['k'] == 'BinaryOperator' and n_.get('op') in ('==', '!=') and model.strip_targs(fh.ref_of(n_['ch'][0]) or '').endswith('http::output_content_length_') and fh.const_value(n_['ch'][1]) == -1:
            return (n_['op'] == '!=') == pol
        return False
    g_fr = fh.gate_edges(framable)
    g_cka = fh.gate_edges(lambda atom, pol: model.strip_targs(fh.ref_of(atom) or '').endswith('http::client_accepts_keep_alive_') and pol is True)
    g_noerr = fh.gate_edges(lambda atom, pol: model.strip_targs(fh.ref_of(atom) or '').endswith('::error_state_') and pol is False)
    lit_ = lambda i, txt: any(fh.N(j)['k'] == 'StringLiteral' and txt in fh.N(j).get('s', '') for j in fh.walk(i))
    kah = [i for i in fh.calls() if lit_(i, 'Connection: keep-alive')]
    clo = [i for i in fh.calls() if lit_(i, 'Connection: close')]
    ok = len(ka_t) == 1 and len(ka_f) == 1 and len(kah) == 1 and len(clo) == 1 and bool(g_fr) and bool(g_cka) and bool(g_noerr) and \
        fh.only_through(ka_t[0], g_fr) and fh.only_through(ka_t[0], g_cka) and fh.only_through(ka_t[0], g_noerr) and \
        fh.point_of(kah[0])[0] == fh.point_of(ka_t[0])[0] and fh.point_of(clo[0])[0] == fh.point_of(ka_f[0])[0]
    # chunking exactly when kept alive and the length is unknown; otherwise reset to false on this pass
    cs_f = [w for w in q.field_writes(fh, 'http::chunked_te_') if fh.const_value(fh.N(w)['ch'][1]) == 0]
    ok = ok and len(cs) == 1 and fh.only_through(cs[0], g_unknown) and q.reaches(fh, ka_t[0], cs[0]) and not q.reaches(fh, ka_f[0], cs[0]) and len(cs_f) >= 1 and all(q.before(fh, w, cs[0]) for w in cs_f)
    # if kept alive with unknown length, chunking is chosen (not merely allowed): from keep_alive_=true with length unknown the exit is not reached without it
    if ok:
        g_known = fh.gate_edges(lambda atom, pol: fh.N(atom)['k'] == 'BinaryOperator' and fh.N(atom).get('op') in ('==', '!=') and model.strip_targs(fh.ref_of(fh.N(atom)['ch'][0]) or '').endswith('http::output_content_length_') and
                                fh.const_value(fh.N(atom)['ch'][1]) == -1 and ((fh.N(atom)['op'] == '!=') == pol))
        reach = fh.reachable_blocks(start=fh.point_of(ka_t[0])[0], cut_blocks=q.blocks_of(fh, cs), cut_edges=g_known)
        ok = fh.exit not in reach
    ctx.check(ok, R11, 'http::format_output:keep-alive-only-when-the-body-can-be-delimited:chunked-iff-kept-alive-without-length', 'the connection can be kept alive although the end of the body cannot be recognised, or chunking does not follow the keep-alive / length decision', fh.where)
    # header block closed by an empty line on every first pass
    endl = [i for i in fh.calls() if fh.N(i)['k'] == 'CXXOperatorCallExpr' and fh.N(i).get('op') == '+=' and model.strip_targs(fh.ref_of(fh.N(i)['ch'][1]) or '').endswith('http::response_headers_') and
            fh.N(fh.strip(fh.N(i)['ch'][2]))['k'] == 'StringLiteral' and fh.N(fh.strip(fh.N(i)['ch'][2])).get('s') == '\r\n']
    last = [i for i in endl if not any(q.reaches(fh, i, j) for j in fh.calls() if j != i and fh.N(j)['k'] == 'CXXOperatorCallExpr' and fh.N(j).get('op') == '+=' and model.strip_targs(fh.ref_of(fh.N(j)['ch'][1]) or '').endswith('http::response_headers_'))]
    hw = [w for w in q.field_writes(fh, 'http::headers_done_') if fh.const_value(fh.N(w)['ch'][1]) == 1]
    ok = len(last) == 1 and len(hw) == 1 and q.before(fh, last[0], hw[0])
    ctx.check(ok, R11, 'http::format_output:header-block-ends-with-an-empty-line', 'nothing guarantees that the last thing added to the header block is the empty line', fh.where)
    # chunk trailer text and its length are chosen together
    mcw = P.fn(HTTP + '::make_chunked_wrapper')
    tv = [d['ref'] for i in mcw.all_nodes() if mcw.N(i)['k'] == 'DeclStmt' for d in mcw.N(i)['decls'] if d.get('init') is not None and mcw.N(mcw.strip(d['init']))['k'] == 'StringLiteral' and
          (mcw.types[d['t']] or '').rstrip().endswith('*')]
    ok = True
    npairs = 0
    for tvar in tv:
        for (d_, v_) in mcw.defs_of_var(tvar):
            if v_ is None or mcw.N(mcw.strip(v_))['k'] != 'StringLiteral':
                continue
            L_ = mcw.N(mcw.strip(v_)).get('sl', len(mcw.N(mcw.strip(v_)).get('s', '')))
            blk = mcw.point_of(d_)[0]
            lens_ = [(x, mcw.const_value(vv_)) for r_ in set(r for r in mcw.subtree_refs(mcw.body) if r.startswith('v:') and r != tvar) for (x, vv_) in mcw.defs_of_var(r_) if vv_ is not None and mcw.const_value(vv_) is not None and mcw.point_of(x) and mcw.point_of(x)[0] == blk]
            npairs += 1
            ok = ok and any(cv_ == L_ for (_, cv_) in lens_)
    # (a wrapper that passes literals with their lengths directly is covered by R4; nothing to pair then)
    ctx.check(ok, R11, 'make_chunked_wrapper:trailer-text-and-length-set-together', 'the chunk trailer is replaced without its length (the terminating chunk is cut off or garbage is sent)', mcw.where)
    ctx.floor(R11, 5)
    # raw I/O modes: the header block the application writes is parsed line by line into response_headers; every line is *added*
    # (a repeated name - Set-Cookie, Link, Vary - must survive), never stored through the replacing setter
    hp = [f for f in P.fns.values() if f.short == 'add_header' and (f.brecord or '').endswith('cgi_headers_parser') and f.entry is not None]
    if hp:
        hp = hp[0]
        stores = [i for i in hp.calls() if hp.N(i)['k'] == 'CXXMemberCallExpr' and (hp.bcallee(i) or '').startswith('cppcms::impl::response_headers::') and q.short_of(hp.bcallee(i)) in ('add_header', 'set_header')]
        okh = len(stores) >= 1 and all(q.short_of(hp.bcallee(i)) == 'add_header' for i in stores) and q.always_before_exit(hp, stores)
        ctx.check(okh, R10, 'cgi_headers_parser:every-parsed-line-is-added', 'a header line written in raw mode is stored through set_header (a repeated name replaces the earlier line) or dropped', hp.loc(stores[0]) if stores else hp.where)
    else:
        ctx.check(False, R10, 'cgi_headers_parser:every-parsed-line-is-added', 'cgi_headers_parser::add_header not found in the analysed units', fh.where)

    # ---------------- R6
    C01.reset_rule(ctx, P, R6, 'output')
    ctx.floor(R6, 8)

    # ---------------- R7 cache tee
    ro = P.fn('cppcms::http::response::out')
    opn = [i for i in q.field_calls(ro, '_data::cached', 'open')]
    inst = [i for i in ro.calls() if q.short_of(ro.callee(i)) == 'rdbuf' and ro.args(i) and any(model.strip_targs(r).endswith('_data::cached') for r in ro.subtree_refs(ro.args(i)[0]))]
    pf = [i for i in q.field_calls(ro, '_data::buffers', 'push_front') if any(model.strip_targs(r).endswith('_data::cached') for r in ro.subtree_refs(i))]
    g_copy = ro.gate_edges(lambda atom, pol: model.strip_targs(ro.ref_of(atom) or '').endswith('response::copy_to_cache_') and pol is True)
    ok = len(opn) == 1 and len(inst) == 1 and len(pf) == 1 and all(ro.only_through(x, g_copy) for x in opn + inst + pf)
    if ok:
        # the tee forwards to whatever the stream wrote to before it was spliced in
        ok = any(q.short_of(ro.callee(j)) == 'rdbuf' and not ro.args(j) for j in ro.calls(ro.args(opn[0])[0])) and q.before(ro, opn[0], inst[0])
    ctx.check(ok, R7, 'response::out:tee-spliced-in-front-of-previous-buffer', 'the cache copy buffer is not opened on the previous stream buffer before replacing it', ro.where)
    zo = [i for i in q.field_calls(ro, '_data::zbuf', 'open')]
    if zo:
        okz = len(zo) == 1 and any(q.short_of(ro.callee(j)) == 'front' and (q.obj_field(ro, j) or '').endswith('_data::buffers') for j in ro.calls(ro.args(zo[0])[0]))
        # on the path where both are active the tee was pushed first, so the compressor writes into the tee: the copy equals what is sent
        okz = okz and bool(pf) and not q.reaches(ro, zo[0], pf[0])
        ctx.check(okz, R7, 'response::out:gzip-writes-into-the-tee', 'with gzip the cache copy is not taken from the bytes that are sent', ro.loc(zo[0]))
    cb = [f for f in P.fns.values() if (f.brecord or '').endswith('copy_buf') and f.short == 'overflow']
    ctx.require(len(cb) == 1, 'C03.R7: copy_buf::overflow not found')
    cb = cb[0]
    sp = [i for i in cb.calls() if q.short_of(cb.callee(i)) == 'sputn' and (q.obj_field(cb, i) or cb.ref_of(cb.obj(i)) or '').endswith('out_')]
    okf = len(sp) == 1
    if okf:
        a0, a1 = cb.args(sp[0])
        okf = [q.short_of(cb.callee(j)) for j in cb.calls(a0)] == ['pbase']
        nv = cb.ref_of(a1)
        defs = [v for (_, v) in cb.defs_of_var(nv)] if nv else []
        lens = defs if defs else [a1]
        okf = okf and len(lens) == 1 and lens[0] is not None and sorted(q.short_of(cb.callee(j)) for j in cb.calls(lens[0])) == ['pbase', 'pptr']
        # a short forward is an error
        g_short = cb.gate_edges(lambda atom, pol: cb.N(atom)['k'] == 'BinaryOperator' and cb.N(atom).get('op') in ('!=', '==') and sp[0] in set(cb.walk(atom)) and pol is (cb.N(atom)['op'] == '!='))
        errw = [w for w in cb.all_nodes() if cb.N(w)['k'] == 'BinaryOperator' and cb.N(w).get('op') == '=' and cb.const_value(cb.N(w)['ch'][1]) == -1]
        okf = okf and bool(g_short) and any(cb.only_through(w, g_short) for w in errw)
    ctx.check(okf, R7, 'copy_buf::overflow:forwards-[pbase,pptr)', 'the tee does not forward exactly its pending bytes / ignores a short forward', cb.where)
    # the put area only ever moves forward inside buffer_ (bytes already copied stay in place); it is reset only by getstr
    setps = [(f, i) for f in P.fns.values() if (f.brecord or '').endswith('copy_buf') for i in f.calls() if q.short_of(f.callee(i)) == 'setp']
    okk = len(setps) >= 4
    for (f, i) in setps:
        a = f.args(i)
        zero = f.const_value(a[0]) == 0 and f.const_value(a[1]) == 0
        if zero:
            okk = okk and f.short not in ('overflow', 'sync', 'xsputn', 'sputc')      # dropping the put area belongs to handing the page out, never to the write path
        elif f.short == 'overflow':
            cont = [q.short_of(f.callee(j)) for j in f.calls(a[0])] == ['pptr']
            idx = [f.N(j)['ch'][2] for j in f.walk(a[0]) if f.N(j)['k'] == 'CXXOperatorCallExpr' and f.N(j).get('op') == '[]' and len(f.N(j)['ch']) == 3]
            fresh = grow = False
            if len(idx) == 1:
                if f.const_value(idx[0]) == 0:
                    # starting at the front of the buffer is only right while nothing was written yet (pptr()==0)
                    g0 = f.gate_edges(lambda atom, pol, f=f: f.N(atom)['k'] == 'BinaryOperator' and f.N(atom).get('op') == '==' and [q.short_of(f.callee(j)) for j in f.calls(atom)] == ['pptr'] and f.const_value(f.N(atom)['ch'][1]) == 0 and pol is True)
                    fresh = bool(g0) and f.only_through(i, g0)
                else:
                    v = f.ref_of(idx[0])
                    ds = f.defs_of_var(v) if v else []
                    rs = [j for j in q.field_calls(f, 'copy_buf::buffer_', 'resize')]
                    grow = len(ds) == 1 and ds[0][1] is not None and [q.short_of(f.callee(j)) for j in f.calls(ds[0][1])] == ['size'] and any(q.before(f, ds[0][0], r) and q.before(f, r, i) for r in rs)
            okk = okk and (fresh or grow or cont)
    ctx.check(okk, R7, 'copy_buf:put-area-only-advances', 'the tee can rewind its put area over bytes it already copied', cb.where)
    gs = [f for f in P.fns.values() if (f.brecord or '').endswith('copy_buf') and f.short == 'getstr']
    okg = bool(gs)
    for f in gs:
        # n = buffer_.size() - (epptr() - pptr())
        dn = [v for i in f.all_nodes() if f.N(i)['k'] == 'DeclStmt' for d in f.N(i)['decls'] if d.get('init') is not None for v in [d['init']] if any(q.short_of(f.callee(j)) == 'epptr' for j in f.calls(d['init']))]
        okg = okg and len(dn) == 1 and sorted(q.short_of(f.callee(j)) for j in f.calls(dn[0])) == ['epptr', 'pptr', 'size']
    ctx.check(okg, R7, 'copy_buf::getstr:length-is-size-minus-free-space', 'the copied page length is not buffer size minus the unused put area', gs[0].where if gs else cb.where)

    # a page served from the cache is sent as stored: the compressed variant is announced before the output stream is created,
    # because response::out() decides on (re)compression from the Content-Encoding header
    fp = P.fn('cppcms::cache_interface::fetch_page')
    ce = [i for i in fp.calls() if q.short_of(fp.callee(i)) == 'content_encoding']
    outs = [i for i in fp.calls() if fp.bcallee(i) == 'cppcms::http::response::out']
    ng = [i for i in fp.calls() if q.short_of(fp.callee(i)) == 'need_gzip']
    gz_v = set(d['ref'] for i_ in fp.all_nodes() if fp.N(i_)['k'] == 'DeclStmt' for d in fp.N(i_)['decls'] if d.get('init') is not None and any(j in ng for j in fp.calls(d['init'])))
    g_gz = fp.gate_edges(lambda atom, pol: ((fp.ref_of(atom) in gz_v) or atom in ng) and pol is True)
    g_ngz = fp.gate_edges(lambda atom, pol: ((fp.ref_of(atom) in gz_v) or atom in ng) and pol is False)
    ok = len(ce) == 1 and len(outs) >= 1 and bool(ng) and fp.only_through(ce[0], g_gz)
    if ok:
        for o in outs:
            # out() is reached either on the not-gzip edge or after content_encoding
            reach = fp.reachable_blocks(cut_edges=[e for e in g_ngz if len(e) == 4], cut_blocks=q.blocks_of(fp, ce))
            po, pc = fp.point_of(o), fp.point_of(ce[0])
            ok = ok and (po[0] not in reach or (po[0] == pc[0] and pc[1] < po[1])) and not (po[0] == pc[0] and po[1] < pc[1])
    ctx.check(ok, R7, 'fetch_page:content-encoding-before-out', 'on a cache hit the output stream is created before the stored encoding is announced: the compressed page is compressed again', fp.where)
    ctx.floor(R7, 4)

    # ---------------- R10 header formatters
    fmts = sorted([f for f in P.fns.values() if f.short in ('format_http_headers', 'format_cgi_headers') and (f.brecord or '').endswith('response_headers') and f.entry is not None], key=lambda g: g.id)
    ctx.require(len(fmts) >= 2, 'C03.R10: response_headers formatters not instantiated (%d)' % len(fmts))
    seen_f = set()
    for f in fmts:
        if f.short in seen_f:
            continue
        seen_f.add(f.short)
        lps_ = q.loops(f)

        def loop_over(L, fld):
            n = f.N(L)
            part = n.get('range', -1) if n['k'] == 'CXXForRangeStmt' else n.get('init', -1)
            return part is not None and part >= 0 and any(model.strip_targs(r).endswith('response_headers::' + fld) for r in f.subtree_refs(part))
        over_h = [L for L in lps_ if loop_over(L, 'headers_')]
        over_a = [L for L in lps_ if loop_over(L, 'added_headers_')]
        ok = len(over_h) == 1 and len(over_a) == 1
        why = 'expected one loop over headers_ and one over added_headers_'
        if ok:
            L = over_h[0]
            n = f.N(L)
            if n['k'] == 'CXXForRangeStmt':
                whole = True
            else:
                begin = any(q.short_of(f.callee(j)) == 'begin' for j in f.calls(n['init']))
                cond = f.strip(n['cond'])
                ends = any(q.short_of(f.callee(j)) == 'end' for j in f.calls(n['init'])) or any(q.short_of(f.callee(j)) == 'end' for j in f.calls(cond))
                whole = begin and ends and f.N(cond).get('op') == '!='
            # the iterator found by find("Status"): the only entry that may be skipped
            statv = set(r for i_ in f.all_nodes() if f.N(i_)['k'] == 'DeclStmt' for d in f.N(i_)['decls'] if d.get('init') is not None and
                        any(f.N(x)['k'] == 'StringLiteral' and f.N(x).get('s') == 'Status' for x in f.walk(d['init'])) for r in [d['ref']])
            esc = []
            for L2 in (over_h[0], over_a[0]):
                for j in f.walk(f.N(L2)['body']):
                    k_ = f.N(j)['k']
                    if k_ in ('BreakStmt', 'ReturnStmt', 'GotoStmt'):
                        esc.append(j)
                    elif k_ == 'ContinueStmt':
                        gi = f.enclosing(j, ('IfStmt',))
                        if not (L2 == over_h[0] and gi is not None and f.contains(f.N(L2)['body'], gi) and len([r for r in f.subtree_refs(f.N(gi)['cond']) if r in statv]) == 1):
                            esc.append(j)
            ok = whole and not esc
            why = 'the loop over headers_ does not run from begin() to end() without leaving early'
            if ok:
                lits = sorted(set(f.N(j).get('s') for j in f.walk(f.N(L)['body']) if f.N(j)['k'] == 'StringLiteral'))
                flds = sorted(set(model.strip_targs(f.N(j).get('ref', '')).rsplit('::', 1)[-1] for j in f.walk(f.N(L)['body']) if f.N(j)['k'] == 'MemberExpr' and 'pair' in f.N(j).get('ref', '')))
                ok = lits == ['\r\n', ': '] and flds == ['first', 'second']
                why = 'a stored header is not written as `name: value CRLF` (%s, %s)' % (lits, flds)
            if ok:
                # the only guard inside the loop compares the iterator with the Status entry
                conds = [j for j in f.walk(f.N(L)['body']) if f.N(j)['k'] == 'IfStmt']
                for j in conds:
                    ok = ok and len([r for r in f.subtree_refs(f.N(j)['cond']) if r in statv]) == 1
                    why = 'a header other than Status can be skipped'
            if ok:
                la = sorted(set(f.N(j).get('s') for j in f.walk(f.N(over_a[0])['body']) if f.N(j)['k'] == 'StringLiteral'))
                ok = la == ['\r\n']
                why = 'an added header line is not followed by CRLF only'
        ctx.check(ok, R10, '%s:every-header-once' % f.short, why, f.where)
        cmpl = q.param_by_index(f, len(f.params) - 1)
        g_c = f.gate_edges(lambda atom, pol: f.ref_of(atom) == cmpl and pol is True)
        tails = [j for j in f.all_nodes() if f.N(j)['k'] == 'StringLiteral' and f.N(j).get('s') == '\r\n' and not q.enclosing_loops(f, j) and f.point_of(f.enclosing(j, ('CXXOperatorCallExpr',)) or j)]
        endw = [f.enclosing(j, ('CXXOperatorCallExpr',)) for j in tails]
        endw = [w for w in endw if w is not None and f.only_through(w, g_c)]
        ctx.check(len(endw) == 1, R10, '%s:blank-line-only-when-complete' % f.short, 'the terminating blank line is not written exactly under `complete`', f.where)
    ctx.floor(R10, 4)

    # ---------------- R9 pending flush never re-frames
    n9 = 0
    for f in sorted(P.fns.values(), key=lambda g: g.id):
        if not f.file.endswith('/src/cgi_api.cpp') and not f.file.endswith('/src/http_response.cpp'):
            continue
        # only where the response layer has just produced the output itself (flush_async_chunk runs the buffers' own end-of-response framing)
        if not [j for j in f.calls() if (f.bcallee(j) or '').endswith('response::flush_async_chunk')]:
            continue
        for i in f.calls():
            if f.bcallee(i) not in (CONN + '::async_write', CONN + '::write', CONN + '::nonblocking_write'):
                continue
            a = f.args(i)
            if len(a) < 2:
                continue
            d0 = f.strip(a[0])
            empty = f.N(d0)['k'] in ('CXXTemporaryObjectExpr', 'CXXConstructExpr') and not [x for x in f.args(d0) if f.N(x)['k'] != 'CXXDefaultArgExpr'] and 'const_buffer' in (f.callee(d0) or '')
            if not empty:
                continue
            n9 += 1
            ctx.check(f.const_value(a[1]) == 0, R9, '%s:flush-of-pending:eof-false@L%d' % (f.short, f.N(i)['l'] - f.line), 'an empty write that only flushes pending output passes a non-constant / true eof flag: the terminating framing can be emitted twice', f.loc(i))
    ctx.require(n9 >= 1 or ctx.violations, 'C03.R9: no flush-of-pending write found')

    # ---------------- R8
    nb = P.fn(CONN + '::nonblocking_write')
    ws = [i for i in nb.calls() if q.short_of(nb.callee(i)) == 'write_some']
    ctx.require(len(ws) == 1, 'C03.R8: write_some call in nonblocking_write not found')
    outv = nb.ref_of(nb.args(ws[0])[0])
    nv = [d['ref'] for i in nb.all_nodes() if nb.N(i)['k'] == 'DeclStmt' for d in nb.N(i)['decls'] if d.get('init') is not None and ws[0] in set(nb.walk(d['init']))]
    ndv = [d['ref'] for i in nb.all_nodes() if nb.N(i)['k'] == 'DeclStmt' for d in nb.N(i)['decls'] if d.get('init') is not None and any(nb.bcallee(j) == CONN + '::format_output' or q.short_of(nb.callee(j)) == 'format_output' for j in nb.calls(d['init']))]
    ctx.require(outv and nv and ndv, 'C03.R8: output / n / new_data locals not found')
    g_zero = nb.gate_edges(lambda atom, pol: nb.N(atom)['k'] == 'BinaryOperator' and nb.N(atom).get('op') == '==' and nb.ref_of(nb.N(atom)['ch'][0]) == nv[0] and nb.const_value(nb.N(atom)['ch'][1]) == 0 and pol is True)
    g_all = nb.gate_edges(lambda atom, pol: nb.N(atom)['k'] == 'BinaryOperator' and nb.N(atom).get('op') == '==' and nb.ref_of(nb.N(atom)['ch'][0]) == nv[0] and any(q.short_of(nb.callee(j)) == 'bytes_count' and nb.ref_of(nb.obj(j)) == outv for j in nb.calls(nb.N(atom)['ch'][1])) and pol is True)
    aps = [i for i in nb.calls() if nb.bcallee(i) == CONN + '::append_pending']
    ctx.check(len(aps) >= 2, R8, 'nonblocking_write:requeue-sites', 'expected the n==0 and the partial-write re-queue sites', nb.where)
    for k, i in enumerate(aps):
        a = nb.args(i)[0]
        refs = set(r for r in nb.subtree_refs(a) if r.startswith('v:'))
        plus = [j for j in nb.walk(a) if nb.N(j)['k'] == 'CXXOperatorCallExpr' and nb.N(j).get('op') == '+']
        if refs == {ndv[0]} and not plus:
            ctx.check(nb.only_through(i, g_zero), R8, 'nonblocking_write:requeue#%d:new-data-only-if-nothing-sent' % k, 'all of the new data is re-queued although part of the buffer was sent', nb.loc(i))
        else:
            ctx.check(refs == {outv, nv[0]} and len(plus) == 1, R8, 'nonblocking_write:requeue#%d:unsent-tail-is-output+n' % k,
                      're-queued data is %s, not (the buffer that was written) + (bytes written)' % sorted(x.split('@')[0][2:] for x in refs), nb.loc(i))
    clears = [i for i in q.field_calls(nb, 'connection::pending_output_', 'clear')]
    ctx.check(all(nb.only_through(i, g_all) for i in clears) and len(clears) == 1, R8, 'nonblocking_write:pending-dropped-only-when-all-sent', 'pending output dropped although not everything was written', nb.where)
    swaps = [i for i in q.field_calls(nb, 'connection::pending_output_', 'swap')]
    for i in swaps:
        ctx.check(any(q.before(nb, i, a_) for a_ in aps), R8, 'nonblocking_write:swap-then-requeue', 'pending buffer swapped away without re-queueing the tail', nb.loc(i))
    awh = P.fn(CONN + '::async_write_handler::operator()')
    ws2 = [i for i in awh.calls() if q.short_of(awh.callee(i)) == 'write_some']
    adv = [i for i in awh.calls() if awh.N(i)['k'] == 'CXXOperatorCallExpr' and awh.N(i).get('op') == '+=']
    ok = len(ws2) == 1 and len(adv) == 1
    if ok:
        ob = model.strip_targs(awh.ref_of(awh.args(ws2[0])[0]) or '')
        nvar = [d['ref'] for i in awh.all_nodes() if awh.N(i)['k'] == 'DeclStmt' for d in awh.N(i)['decls'] if d.get('init') is not None and ws2[0] in set(awh.walk(d['init']))]
        ok = ob.endswith('async_write_handler::output') and model.strip_targs(awh.ref_of(awh.N(adv[0])['ch'][1]) or '') == ob and nvar and awh.ref_of(awh.N(adv[0])['ch'][2]) == nvar[0] and q.before(awh, ws2[0], adv[0])
    ctx.check(ok, R8, 'async_write_handler:advance-by-written', 'the pending buffer is not advanced by exactly the bytes written', awh.where)
    wr = P.fn(CONN + '::write')
    ws3 = [i for i in wr.calls() if wr.bcallee(i) == CONN + '::write_to_socket']
    cl3 = q.field_calls(wr, 'connection::pending_output_', 'clear')
    ctx.check(len(ws3) == 1 and len(cl3) == 1 and q.before(wr, ws3[0], cl3[0]), R8, 'write:pending-cleared-after-blocking-write', 'pending output cleared before it was written', wr.where)
    wts = P.fn(CONN + '::write_to_socket')
    ctx.check(any(wts.N(j)['k'] == 'BinaryOperator' and wts.N(j).get('op') == '==' and any(q.short_of(wts.callee(c)) == 'bytes_count' for c in wts.calls(j)) for r in wts.returns() for j in wts.walk(r)), R8,
              'write_to_socket:true-iff-all-bytes-written', 'a short blocking write is reported as success', wts.where)
    ap = P.fn(CONN + '::append_pending')
    rs = q.field_calls(ap, 'connection::pending_output_', 'resize')
    mc = [i for i in ap.calls() if ap.callee(i) == 'memcpy']
    okap = len(rs) == 1 and len(mc) == 1 and any(q.short_of(ap.callee(j)) == 'bytes_count' for j in ap.calls(rs[0])) and q.before(ap, rs[0], mc[0]) and \
        (any(q.short_of(ap.callee(j)) == 'size' for j in ap.calls(rs[0])) or
         any(v is not None and any(q.short_of(ap.callee(j)) == 'size' for j in ap.calls(v)) for r_ in ap.subtree_refs(ap.args(rs[0])[0]) if r_.startswith('v:') for (_, v) in ap.defs_of_var(r_)))
    posv = [d['ref'] for i in ap.all_nodes() if ap.N(i)['k'] == 'DeclStmt' for d in ap.N(i)['decls'] if d['name'] == 'pos']
    okap = okap and posv and posv[0] in ap.subtree_refs(ap.args(mc[0])[0]) and bool(q.enclosing_loops(ap, mc[0])) and \
        any(ap.N(w)['k'] == 'CompoundAssignOperator' and ap.N(w).get('op') == '+=' and ap.ref_of(ap.N(w)['ch'][0]) == posv[0] and q.enclosing_loops(ap, w) for w in ap.all_nodes())
    ctx.check(okap, R8, 'append_pending:grow-by-bytes_count-then-copy-each-entry-at-advancing-offset', 'pending buffer is not grown by the size of the new data / entries are not appended one after another', ap.where)
    ctx.floor(R1, 9)
    ctx.floor(R2, 8)
    ctx.floor(R3, 4)
    ctx.floor(R5, 6)
    # R8b: `buffer + n` itself (booster::aio::details::advance): skips exactly n bytes and keeps everything after them
    PB = model.Program(build.extract([REPO + '/src/cgi_api.cpp'], include_re='^/repo/booster/booster/aio/buffer\\.h'))
    advs = [f for f in PB.fns.values() if f.bname == 'booster::aio::details::advance' and f.entry is not None]
    ctx.require(advs, 'C03.R8: booster::aio::details::advance is not instantiated by src/cgi_api.cpp')
    for f in sorted(advs, key=lambda g: g.id)[:2]:
        tagb = 'const' if 'const_buffer' in f.id else 'mutable'
        nv_ = q.param_by_index(f, 1)
        adds = [i for i in f.calls() if q.short_of(f.callee(i)) == 'add' and len(f.args(i)) == 2]
        part = [i for i in adds if nv_ in f.subtree_refs(i)]
        whole = [i for i in adds if i not in part]
        okp = len(part) == 1
        if okp:
            a0, a1 = f.args(part[0])
            S_ = lin.Symb(f)
            l0, l1 = S_.lin(a0), S_.lin(a1)
            ptrs = [a for a in l0.atoms() if a.endswith('::ptr') or a.endswith('.ptr') or 'ptr' in a.rsplit('::', 1)[-1]]
            szs = [a for a in l1.atoms() if 'size' in a.rsplit('::', 1)[-1]]
            # (ptr + n, size - n) with the same n
            okp = len(ptrs) == 1 and len(szs) == 1 and (l0 - Lin.atom(ptrs[0]) - Lin.atom(nv_)).key() == Lin.const(0).key() and (l1 - Lin.atom(szs[0]) + Lin.atom(nv_)).key() == Lin.const(0).key()
        ctx.check(okp, R8, 'advance<%s>:partial-entry-is-(ptr+n,size-n)' % tagb, 'the entry that contains the cut is not re-added as its unsent tail', f.loc(part[0]) if part else f.where)
        if len(part) == 1:
            zero = [w for w in q.writes_to(f, nv_) if f.N(w)['k'] == 'BinaryOperator' and f.N(w).get('op') == '=' and f.const_value(f.N(w)['ch'][1]) == 0]
            brk = [j for j in f.all_nodes() if f.N(j)['k'] in ('BreakStmt',) and q.enclosing_loops(f, j) and q.enclosing_loops(f, part[0]) and q.enclosing_loops(f, j)[0] == q.enclosing_loops(f, part[0])[0]]
            ctx.check(q.always_after(f, part[0], zero + brk), R8, 'advance<%s>:skipping-stops-after-the-cut' % tagb, 'after the entry containing the cut, later entries are still shortened or dropped (n is not cleared)', f.loc(part[0]))

            def whole_skip(atom, pol):
                n = f.N(atom)
                if n['k'] != 'BinaryOperator' or n.get('op') not in ('<=', '>', '<', '>='):
                    return False
                l, r = n['ch']
                ls, rs = any('size' in x.rsplit('::', 1)[-1] for x in f.subtree_refs(l)), any('size' in x.rsplit('::', 1)[-1] for x in f.subtree_refs(r))
                ln, rn = f.ref_of(l) == nv_, f.ref_of(r) == nv_
                op = n['op']
                if rs and ln:
                    op = {'<=': '>=', '>=': '<=', '<': '>', '>': '<'}[op]
                elif not (ls and rn):
                    return False
                # size <= n is the condition for skipping the whole entry (size == n may go either way: an empty tail is harmless)
                return (op in ('<=', '<') and pol is False) or (op in ('>', '>=') and pol is True)
            ctx.check(f.only_through(part[0], f.gate_edges(whole_skip)), R8, 'advance<%s>:partial-only-when-entry-longer-than-n' % tagb, 'an entry is cut although all of it was sent (or the reverse)', f.loc(part[0]))
            dec = [w for w in q.writes_to(f, nv_) if f.N(w)['k'] == 'CompoundAssignOperator' and f.N(w).get('op') == '-=' and any('size' in x.rsplit('::', 1)[-1] for x in f.subtree_refs(f.N(w)['ch'][1]))]
            ctx.check(len(dec) == 1 and not f.only_through(dec[0], f.gate_edges(whole_skip)), R8, 'advance<%s>:whole-entry-skip-consumes-its-size' % tagb, 'skipping a fully sent entry does not reduce n by its size', f.where)
        ctx.check(len(whole) >= 1 and all(not (nv_ in f.subtree_refs(i)) for i in whole) and q.always_before_exit(f, [j for j in f.all_nodes() if f.N(j)['k'] in ('WhileStmt', 'ForStmt') and any(f.contains(j, w_) for w_ in whole)] or whole) if whole else False,
                  R8, 'advance<%s>:remaining-entries-kept-whole' % tagb, 'entries after the cut are not all kept', f.where)
    ctx.floor(R8, 8)
    # ---------------- R12 output stream buffers keep byte 0xFF
    R12 = ctx.rule('C03.R12', 'the output stream buffers of the response (tee, gzip, device, buffered device) test the overflowing character against EOF as the int it arrived as: no comparison with EOF on a value '
                              'narrowed to char (byte 0xFF would read as "nothing to store" and vanish from the page)')
    ovs = sorted([g for g in P.fns.values() if g.short == 'overflow' and g.file.endswith('/src/http_response.cpp') and g.body is not None and len(g.params) == 1], key=lambda g: g.id)
    ctx.require(len(ovs) >= 4 or ctx.violations, 'C03.R12: overflow(int) overrides of http_response.cpp not found (%d)' % len(ovs))
    for f in ovs:
        bad = q.narrowed_char_eof_tests(f)
        cp_ = q.param_by_index(f, 0)
        tests = [i for i in f.all_nodes() if f.N(i)['k'] == 'BinaryOperator' and f.N(i).get('op') in ('==', '!=') and any(f.const_value(x) == -1 for x in f.N(i)['ch'])]
        ctx.check(not bad and all(cp_ in f.subtree_refs(i) for i in tests), R12, '%s::overflow:EOF-tested-on-the-int' % (f.record or '?').rsplit('::', 1)[-1],
                  'the overflowing character is compared with EOF after narrowing to char: byte 0xFF is dropped', f.loc(bad[0]) if bad else f.where)
        dr_ = q.overflow_drops_char(f)
        ctx.check(not dr_, R12, '%s::overflow:takes-the-character' % (f.record or '?').rsplit('::', 1)[-1], 'overflow(c) can report success without having taken c (neither stored, put nor handed on, and c was not EOF): the byte that did not fit is lost', f.loc(dr_[0]) if dr_ else f.where)
    # the embedded server's watchdog: progress of an asynchronous write counts as activity, not only its completion
    owp = [g for g in P.fns.values() if g.short == 'on_async_write_progress' and (g.record or '').endswith('cgi::http') and g.body is not None]
    if owp:
        f_ = owp[0]
        ut = [i for i in f_.calls() if q.short_of(f_.callee(i) or '') == 'update_time']
        cp_ = q.param_by_index(f_, 0)
        g_done = f_.gate_edges(lambda atom, pol: f_.ref_of(atom) == cp_ and pol is True)
        okw = len(ut) >= 1 and (not g_done or f_.point_of(ut[0])[0] in f_.reachable_blocks(cut_edges=g_done)) and q.always_before_exit(f_, ut)
        ctx.check(okw, R11, 'http::on_async_write_progress:every-progress-is-activity', 'the inactivity deadline is pushed forward only when the write completed: a large response to a slow but steady reader is cut off after http.timeout', f_.where)
    ctx.floor(R12, 4)
    # ---------------- R13 the header map keeps different names apart
    R13 = ctx.rule('C03.R13', 'response header map: its comparator orders names as their lower-cased spellings are ordered (E3 over a grid of header names, including names that are prefixes of one another), so two '
                              'names collide exactly when they are the same name up to case - a comparator that calls a name and its prefix equivalent makes one header overwrite the other')
    from vlib import absint as _a13
    icmp = [g for g in P.fns.values() if g.short == 'operator()' and 'icompare_type' in (g.record or '') and g.body is not None and len(g.params) == 2]
    ctx.require(len(icmp) >= 1, 'C03.R13: response_headers icompare_type::operator() not found')
    names13 = ['', 'A', 'a', 'B', 'Link', 'link', 'LINK', 'Link-Template', 'Accept', 'Accept-Ranges', 'Content-Length', 'Content-Type', 'content-type', 'Content-Security-Policy', 'Content-Security-Policy-Report-Only', 'X', 'x-y', 'X_Y', '[', '@']
    low = lambda s_: ''.join(chr(ord(c) + 32) if 'A' <= c <= 'Z' else c for c in s_)

    def h_size(it, fn_, i_, env_):
        o_ = it.rvalue(fn_, fn_.obj(i_), env_)
        o_ = _a13.PV(o_, 0) if isinstance(o_, _a13.Arr) else o_
        if not isinstance(o_, _a13.PV):
            raise _a13.Unsupported('size() of something that is not a modelled string')
        return _a13.AV.const(len(o_.arr.elems) - 1 - o_.off)
    bad = []
    npairs = 0
    for x in names13:
        for y in names13:
            it = _a13.Interp(P, [], hooks={'std::basic_string::size': h_size, 'std::basic_string::length': h_size})
            it.fields = {}
            ax = _a13.Arr([_a13.AV.const(ord(c)) for c in x] + [_a13.AV.const(0)], 'left')
            ay = _a13.Arr([_a13.AV.const(ord(c)) for c in y] + [_a13.AV.const(0)], 'right')
            try:
                rv = it.call_fn(icmp[0], [_a13.Cell(_a13.PV(ax, 0)), _a13.Cell(_a13.PV(ay, 0))])
            except _a13.OutOfBounds as e:
                bad.append('%r vs %r: %s' % (x, y, e))
                continue
            npairs += 1
            if not (isinstance(rv, _a13.AV) and rv.is_const() and bool(rv.lo) == (low(x) < low(y))):
                bad.append('less(%r, %r) = %r, the lower-cased names compare %s' % (x, y, rv, low(x) < low(y)))
    ctx.check(not bad, R13, 'icompare_type:order-of-lower-cased-names', '; '.join(bad[:2]), icmp[0].where, detail={'pairs': npairs})
    ctx.floor(R13, 1)
    ctx.assume('append_pending: the sum of the entry sizes of a const_buffer equals its bytes_count() (booster::aio::const_buffer contract)')


def _declref(fn, ref):
    for i in fn.all_nodes():
        n = fn.N(i)
        if n['k'] == 'DeclRefExpr' and n.get('ref') == ref:
            return i
    raise AnalysisBroken('no reference to %s' % ref)


def _literal_of(f, a):
    s = f.strip(a)
    if f.N(s)['k'] == 'StringLiteral':
        return f.N(s).get('s')
    r = f.ref_of(a)
    if r and r.startswith('v:'):
        ds = f.defs_of_var(r)
        if ds and all(v is not None and f.N(f.strip(v))['k'] == 'StringLiteral' for _, v in ds):
            return [f.N(f.strip(v)).get('s') for _, v in ds]
    return None


def _pairs(f, pa, la):
    """[(literal, length)] pairs that reach the call together"""
    lit = _literal_of(f, pa)
    if isinstance(lit, str):
        lv = f.const_value(la)
        return [(lit, lv)] if lv is not None else None
    pr, lr = f.ref_of(pa), f.ref_of(la)
    if not lr or not lr.startswith('v:'):
        return None
    out = []
    pd = f.defs_of_var(pr)
    ld = f.defs_of_var(lr)
    for (pn, pv) in pd:
        same = [(ln, lv) for (ln, lv) in ld if f.point_of(ln) and f.point_of(pn) and f.point_of(ln)[0] == f.point_of(pn)[0]]
        if len(same) != 1 or same[0][1] is None or f.const_value(same[0][1]) is None:
            return None
        out.append((f.N(f.strip(pv)).get('s'), f.const_value(same[0][1])))
    return out
