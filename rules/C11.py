"""C11 — JSON parsing / serialisation (structural clauses; escape tables are decided by the abstract interpreter)."""
from vlib import build, model, q
from vlib.build import AnalysisBroken, REPO
from rules.C05 import load

J = 'cppcms::json'


def model_strip(x):
    return x.replace('std::__1::', 'std::')


def run(ctx):
    ctx.explanation = ('Structural rules over src/json.cpp and cppcms/json.h: the target of a parse is written only on the success path past the trailing-input test; nesting is bounded by the '
                       'loop guard; strings are accepted only after UTF-8 validation; duplicate keys lead to the error state; number output is bracketed by the C locale on every entry point; '
                       'integer extraction is guarded by the round-trip comparison.')
    P = load(ctx, ['src/json.cpp'])
    R1 = ctx.rule('C11.R1', 'parse_stream writes its target only when the document is complete, after the trailing-input test, and then returns true')
    R2 = ctx.rule('C11.R2', 'nesting depth is bounded: every push is inside the loop guarded by stack.size() <= json_max_depth; no recursion')
    R3 = ctx.rule('C11.R3', 'string tokens are accepted only after utf8::validate over the whole decoded string; control characters rejected')
    R4 = ctx.rule('C11.R4', 'a duplicate object key leads to the error state before anything is stored')
    R5 = ctx.rule('C11.R5', 'string writer (generic_append) is exact against RFC 8259 section 7: every byte sequence of length 1 and 2 is written as a quoted string that decodes back to it, with ", \\ and U+0000..U+001F escaped (E3)')
    R8 = ctx.rule('C11.R8', 'parsed strings keep their length: the parser never hands a token to a NUL-terminated (char const *) interface, so names and values containing \\u0000 are stored whole')
    R9 = ctx.rule('C11.R9', 'object keys are ordered and compared over their whole length: the string_key comparison operators the object map relies on reach no NUL-terminated C string primitive (a name containing \\u0000 is a legal, distinct key)')
    R6 = ctx.rule('C11.R6', 'numbers are written / read under the C locale: write() brackets write_value(), the tokenizer brackets the stream; every public writer goes through write()')
    R7 = ctx.rule('C11.R7', 'integer / float extraction returns only past the round-trip / range comparison')

    pss = [f for f in P.by_bname.get(J + '::(anonymous namespace)::parse_stream', [])]
    ctx.require(len(pss) == 2, 'C11: expected two parse_stream overloads, found %d' % len(pss))
    ps = [f for f in pss if 'std::basic_istream' in f.id][0]
    fw = [f for f in pss if f is not ps][0]
    outp, forcep = q.param_by_index(ps, 1), q.param_by_index(ps, 2)
    statev = None
    for i in ps.all_nodes():
        if ps.N(i)['k'] == 'DeclStmt':
            for d in ps.N(i)['decls']:
                if d['name'] == 'state' or 'state_type' in ps.types[d['t']]:
                    statev = statev or d['ref']
    ctx.require(statev, 'C11.R1: parser state variable not found')
    g_done = ps.gate_edges(lambda atom, pol: ps.N(atom)['k'] == 'BinaryOperator' and ps.N(atom).get('op') == '==' and ps.ref_of(ps.N(atom)['ch'][0]) == statev and
                           any(r.endswith('::st_done') for r in ps.subtree_refs(ps.N(atom)['ch'][1])) and pol is True)

    def eofok(atom, pol):
        n = ps.N(atom)
        if ps.ref_of(atom) == forcep:
            return pol is False
        if n['k'] == 'BinaryOperator' and n.get('op') in ('!=', '==') and any(r.endswith('::tock_eof') for r in ps.subtree_refs(atom)) and any(q.short_of(ps.callee(j)) == 'next' for j in ps.calls(atom)):
            return (n['op'] == '!=' and pol is False) or (n['op'] == '==' and pol is True)
        return False
    g_eof = ps.gate_edges(eofok)
    ws = q.writes_to(ps, outp)
    succ = q.nonfalse_returns(ps)
    ctx.check(len(ws) == 1, R1, 'parse_stream:single-write-of-target', 'target written at %d places' % len(ws), ps.where)
    for k, w in enumerate(ws):
        ctx.check(ps.only_through(w, g_done), R1, 'parse_stream:target-write#%d:only-when-done' % k, 'target written although the document is not complete', ps.loc(w))
        ctx.check(ps.only_through(w, g_eof), R1, 'parse_stream:target-write#%d:after-trailing-input-test' % k, 'target overwritten before trailing input is rejected', ps.loc(w))
        ctx.check(q.always_after(ps, w, succ), R1, 'parse_stream:target-write#%d:then-return-true' % k, 'target written on a path that does not report success', ps.loc(w))
    for k, r in enumerate(succ):
        ctx.check(ps.only_through(r, g_done) and ps.only_through(r, g_eof), R1, 'parse_stream:success#%d:only-when-done-and-no-trailing-input' % k, 'success reported for an incomplete / over-long document', ps.loc(r))
        ctx.check(any(q.before(ps, w, r) for w in ws), R1, 'parse_stream:success#%d:target-written' % k, 'success without storing the result', ps.loc(r))
    c2 = [i for i in fw.calls() if fw.bcallee(i) == J + '::(anonymous namespace)::parse_stream']
    ctx.check(len(c2) == 1 and fw.ref_of(fw.args(c2[0])[1]) == q.param_by_index(fw, 2) and len(q.writes_to(fw, q.param_by_index(fw, 2))) == 1, R1, 'parse_stream(range):forwards-target', 'range overload touches the target itself', fw.where)
    loaders = P.by_bname.get(J + '::value::load', [])
    for k, f in enumerate(sorted(loaders, key=lambda g: g.id)):
        pc = [i for i in f.calls() if f.bcallee(i) == J + '::(anonymous namespace)::parse_stream']
        g = q.call_gate(f, lambda i: i in pc, True)
        ctx.check(len(pc) == 1 and all(f.only_through(r, g) for r in q.nonfalse_returns(f)), R1, 'value::load#%d:true-iff-parsed' % k, 'load reports success without a successful parse', f.where)

    # ---------------- R2
    pushes = [i for i in ps.calls() if q.short_of(ps.callee(i)) == 'push' and 'stack' in (ps.callee(i) or '')]
    lp = [L for L in q.loops(ps) if ps.N(L)['k'] == 'WhileStmt']
    ctx.require(len(lp) == 1 and len(pushes) >= 5, 'C11.R2: main loop / pushes not found')
    L = lp[0]
    cond = ps.N(L)['cond']
    bound = None
    for j in ps.walk(cond):
        n = ps.N(j)
        if n['k'] == 'BinaryOperator' and n.get('op') in ('<=', '<') and any(q.short_of(ps.callee(x)) == 'size' for x in ps.calls(n['ch'][0])):
            bound = (n['op'], ps.const_value(n['ch'][1]))
    ctx.check(bound is not None and bound[1] is not None and bound[1] <= 4096, R2, 'parse_stream:loop-guard-bounds-depth', 'loop guard does not bound stack.size() by a constant (found %s)' % (bound,), ps.loc(L))
    outside = [p for p in pushes if not ps.contains(L, p)]
    ctx.check(len(outside) == 1 and q.before(ps, outside[0], L if ps.point_of(L) else cond), R2, 'parse_stream:single-initial-push', 'pushes outside the guarded loop: %d' % len(outside), ps.where)
    # at most one push per iteration: no two pushes on one path through the body
    body = ps.N(L)['body']
    twice = False
    for a in pushes:
        for b in pushes:
            if a != b and ps.contains(body, a) and ps.contains(body, b) and q.reaches(ps, a, b) and ps.point_of(a)[0] != ps.point_of(b)[0]:
                # reachable only through the back edge?
                reach = ps.reachable_blocks(start=ps.point_of(a)[0], cut_blocks=[ps.point_of(cond)[0]] if ps.point_of(cond) else [])
                if ps.point_of(b)[0] in reach and ps.point_of(b)[0] != ps.point_of(a)[0]:
                    twice = True
    ctx.check(not twice, R2, 'parse_stream:one-push-per-iteration', 'two pushes possible in one iteration: depth bound can be exceeded by more than one', ps.loc(L))
    rec = [i for i in ps.calls() if ps.N(i).get('callee') == ps.id]
    ctx.check(not rec, R2, 'parse_stream:no-recursion', 'parser recurses', ps.where)

    # ---------------- R3
    pstr = [f for f in P.fns.values() if f.short == 'parse_string' and 'tockenizer' in (f.record or '')]
    ctx.require(pstr, 'C11.R3: tockenizer::parse_string not found')
    pstr = pstr[0]
    g_utf = q.call_gate(pstr, lambda i: pstr.bcallee(i) == 'cppcms::utf8::validate', True)
    succ = q.nonfalse_returns(pstr)
    ctx.check(bool(succ) and all(pstr.only_through(r, g_utf) for r in succ), R3, 'parse_string:true-only-if-utf8-valid', 'a string token can be accepted without UTF-8 validation', pstr.where)
    vc = [i for i in pstr.calls() if pstr.bcallee(i) == 'cppcms::utf8::validate']
    if vc:
        a = pstr.args(vc[0])
        whole = any(q.short_of(pstr.callee(j)) == 'begin' for j in pstr.calls(a[0])) and any(q.short_of(pstr.callee(j)) == 'end' for j in pstr.calls(a[1])) and \
            all(model.strip_targs(r).endswith('tockenizer::str') or r == 'this' or r.startswith('fn:') for x in a[:2] for r in pstr.subtree_refs(x))
        ctx.check(whole, R3, 'parse_string:validates-whole-decoded-string', 'validation does not cover the whole decoded string', pstr.loc(vc[0]))
        # JSON strings may hold any code point (escaped control characters, DEL, C1): the validation must not run in the html-safe mode
        g_v = P.fns.get(pstr.N(vc[0]).get('callee') or '')
        hp = [k_ for k_, p_ in enumerate(g_v.params) if (g_v.types[p_['t']] or '').strip() in ('bool', '_Bool')] if g_v is not None else []
        eff = None
        if hp and len(a) > hp[0]:
            eff = pstr.const_value(a[hp[0]])
            if eff is None:
                eff = pstr.N(pstr.strip(a[hp[0]])).get('cv')
        ctx.check(bool(hp) and eff == 0, R3, 'parse_string:validation-is-plain-UTF-8-not-html-safe', 'the decoded string is validated in html-safe mode (effective argument %r): well-formed documents with \\u0000-\\u001f, DEL or C1 characters are rejected' % (eff,), pstr.loc(vc[0]))
    # raw control characters rejected: every append of the raw byte is past the 0..0x1F test
    g_ctl = pstr.gate_edges(lambda atom, pol: pstr.N(atom)['k'] == 'BinaryOperator' and pol is False and
                            ((pstr.N(atom).get('op') in ('<=', '<') and pstr.const_value(pstr.N(atom)['ch'][1]) in (0x1F, 0x20)) or
                             (pstr.N(atom).get('op') == '<=' and pstr.const_value(pstr.N(atom)['ch'][0]) == 0)))
    raw = [i for i in pstr.calls() if pstr.N(i)['k'] == 'CXXOperatorCallExpr' and pstr.N(i).get('op') == '+=' and any(pstr.N(j)['k'] == 'CXXFunctionalCastExpr' for j in pstr.walk(i))
           and not pstr.enclosing(i, ('SwitchStmt',))]
    ctx.check(len(raw) >= 1 and all(pstr.only_through(i, g_ctl) for i in raw), R3, 'parse_string:control-characters-rejected', 'an unescaped control character can be appended', pstr.where)
    sw = [i for i in pstr.walk() if pstr.N(i)['k'] == 'SwitchStmt']
    ok = len(sw) == 1
    if ok:
        dflt = [j for j in pstr.walk(sw[0]) if pstr.N(j)['k'] == 'DefaultStmt']
        ok = len(dflt) == 1 and any(pstr.N(j)['k'] == 'ReturnStmt' and pstr.const_value(pstr.ret_value(j)) == 0 for j in pstr.walk(dflt[0]))
    ctx.check(ok, R3, 'parse_string:unknown-escape-rejected', 'an unknown escape letter is not rejected', pstr.where)

    # ---------------- R4
    ins = [i for i in ps.calls() if q.short_of(ps.callee(i)) == 'insert' and 'map' in (ps.callee(i) or '')]
    ctx.check(len(ins) == 1, R4, 'parse_stream:object-insert-found', 'expected one object insert', ps.where)
    if ins:
        resv = None
        for i in ps.all_nodes():
            if ps.N(i)['k'] == 'DeclStmt':
                for d in ps.N(i)['decls']:
                    if d.get('init') is not None and ins[0] in set(ps.walk(d['init'])):
                        resv = d['ref']
        is_second = lambda x: ps.N(x)['k'] == 'MemberExpr' and model.strip_targs(ps.N(x).get('ref') or '').endswith('pair::second') and resv in ps.subtree_refs(x)
        g_new = q.truth_gate(ps, is_second, True)
        valv = [d['ref'] for i in ps.all_nodes() if ps.N(i)['k'] == 'DeclStmt' for d in ps.N(i)['decls'] if d.get('init') is not None and resv in ps.subtree_refs(d['init']) and d.get('isref')]
        uses = [i for i in ps.all_nodes() if ps.N(i).get('ref') in valv and ps.point_of(i)]
        ctx.check(bool(valv) and bool(uses) and all(ps.only_through(u, g_new) for u in uses), R4, 'parse_stream:duplicate-key-rejected-before-store', 'a duplicate key overwrites / is stored instead of being an error', ps.loc(ins[0]))
        # the duplicate edge sets st_error
        dup = q.truth_gate(ps, is_second, False)
        oke = False
        for (b, s, lab, tag) in [e_ for e_ in dup if len(e_) == 4]:
            for e in ps.blocks[s].elems:
                if 'n' in e and ps.N(e['n'])['k'] == 'BinaryOperator' and ps.N(e['n']).get('op') == '=' and ps.ref_of(ps.N(e['n'])['ch'][0]) == statev and any(r.endswith('::st_error') for r in ps.subtree_refs(ps.N(e['n'])['ch'][1])):
                    oke = True
        ctx.check(oke, R4, 'parse_stream:duplicate-key-sets-error-state', 'duplicate key does not lead to the error state', ps.loc(ins[0]))

    # ---------------- R6
    wr = P.fn(J + '::value::write')
    imb = [i for i in wr.calls() if q.short_of(wr.callee(i)) == 'imbue']
    wv = [i for i in wr.calls() if wr.bcallee(i) == J + '::value::write_value']
    cimb = [i for i in imb if any(wr.N(j)['k'] == 'StringLiteral' and wr.N(j).get('s') == 'C' for j in wr.walk(i)) or any(q.short_of(wr.callee(j)) == 'classic' for j in wr.calls(i))]
    rest = [i for i in imb if i not in cimb]
    ctx.check(len(wv) == 1 and len(cimb) == 1 and q.before(wr, cimb[0], wv[0]), R6, 'value::write:C-locale-before-writing', 'numbers can be written under the stream locale', wr.where)
    trys = [a for a in wr.ancestors(wv[0]) if wr.N(a)['k'] == 'CXXTryStmt'] if wv else []
    in_catch = [i for i in rest if any(wr.N(a)['k'] == 'CXXCatchStmt' for a in wr.ancestors(i))]
    normal = [i for i in rest if i not in in_catch]
    ctx.check(bool(trys) and len(in_catch) >= 1 and len(normal) >= 1 and q.always_after(wr, wv[0], normal), R6, 'value::write:locale-restored-on-both-paths', 'stream locale not restored on the normal and the exceptional path', wr.where)
    callers = [(f, i) for f in P.fns.values() for i in f.calls() if f.bcallee(i) == J + '::value::write_value']
    bad = [(f, i) for (f, i) in callers if f.bname not in (J + '::value::write', J + '::value::write_value')]
    ctx.check(len(callers) >= 3 and not bad, R6, 'write_value:only-reached-through-write', 'a writer calls write_value() directly, bypassing the C-locale bracket: %s' % [f.bname for f, _ in bad], bad[0][0].loc(bad[0][1]) if bad else wr.where)
    for f in P.by_bname.get(J + '::value::save', []):
        c = [i for i in f.calls() if f.bcallee(i) == J + '::value::write' or (f.bcallee(i) == J + '::value::save' and f.N(i).get('callee') != f.id)]
        ctx.check(len(c) == 1 and q.always_before_exit(f, c), R6, 'value::save/%d:goes-through-write' % len(f.params), 'save does not go through write()', f.where)
    tk = [f for f in P.fns.values() if 'tockenizer' in (f.record or '') and f.kind in ('ctor', 'dtor')]
    ctx.require(len(tk) == 2, 'C11.R6: tockenizer ctor/dtor not found')
    for f in tk:
        imb = [i for i in f.calls() if q.short_of(f.callee(i)) == 'imbue']
        if f.kind == 'ctor':
            ok = len(imb) == 1 and any(q.short_of(f.callee(j)) == 'classic' for j in f.calls(imb[0])) and any(x.get('field', '').endswith('locale_') and any(q.short_of(f.callee(j)) == 'getloc' for j in f.calls(x['n'])) for x in f.d.get('inits', []))
            ctx.check(ok, R6, 'tockenizer:classic-locale-for-reading', 'input numbers can be read under the stream locale', f.where)
        else:
            ok = len(imb) == 1 and any(model.strip_targs(r).endswith('tockenizer::locale_') for r in f.subtree_refs(imb[0]))
            ctx.check(ok, R6, 'tockenizer:locale-restored', 'stream locale not restored after parsing', f.where)

    # ---------------- R7
    gets = [f for f in P.fns.values() if f.brecord == J + '::traits' and f.short == 'get' and f.file.endswith('cppcms/json.h')]
    ints = [f for f in gets if f.ret in ('char', 'signed char', 'unsigned char', 'short', 'unsigned short', 'int', 'unsigned int', 'long', 'unsigned long', 'long long', 'unsigned long long', 'wchar_t', 'float')]
    ctx.require(len(ints) >= 10, 'C11.R7: integer traits<T>::get specialisations not found (%d)' % len(ints))
    for f in sorted(ints, key=lambda g: g.id):
        rets = [r for r in f.returns() if f.ret_value(r) is not None]
        if f.ret == 'float':
            g = f.gate_edges(lambda atom, pol, f=f: f.N(atom)['k'] == 'BinaryOperator' and f.N(atom).get('op') in ('<', '>') and pol is False)
            ok = bool(rets) and all(f.only_through(r, g) for r in rets) and len(g) >= 2
        else:
            def round_trip(atom, pol, f=f):
                # `converted != v.number()` is false: one operand has the extraction type, the other is the stored double (possibly through a local)
                n_ = f.N(atom)
                if n_['k'] != 'BinaryOperator' or n_.get('op') != '!=' or pol is not False:
                    return False
                ty = lambda x: (f.type_of(f.N(f.strip(x))) or '').replace('const ', '').strip()
                for a_, b_ in (n_['ch'], n_['ch'][::-1]):
                    if ty(a_) == f.ret and ty(b_) == 'double' and any(q.short_of(f.callee(j)) == 'number' for j in q.expr_calls_deep(f, b_)) and \
                            any(q.short_of(f.callee(j)) == 'number' for j in q.expr_calls_deep(f, a_)):
                        return True
                return False
            g = f.gate_edges(round_trip)
            ok = bool(rets) and all(f.only_through(r, g) for r in rets)
            thr = [i for i in f.walk() if f.N(i)['k'] == 'CXXThrowExpr']
            ok = ok and bool(thr)
        ctx.check(ok, R7, 'traits<%s>::get:checked' % f.ret, 'a number that does not fit is returned silently truncated', f.where)


    # narrowing floating conversions: both bounds of the range test are the limits of the type converted to (double is what a JSON number is stored as)
    nar = [(f, 'float') for f in gets if f.ret == 'float'] + \
          [(f, 'double') for f in P.fns.values() if f.brecord == J + '::traits' and f.short == 'set' and f.file.endswith('cppcms/json.h') and len(f.params) == 2 and 'long double' in (f.types[f.params[1]['t']] or '')]
    ctx.require(len(nar) == 2 or ctx.violations, 'C11.R7: traits<float>::get / traits<long double>::set not found (%d)' % len(nar))
    for f, tgt in nar:
        limc = [i for i in f.calls() if q.short_of(f.callee(i) or '') in ('max', 'lowest', 'min') and 'numeric_limits' in (f.callee(i) or '')]
        lim = [model_strip(f.callee(i) or '') for i in limc]
        # a limit may be kept in a local first (`float const float_max = numeric_limits<float>::max();`)
        limv = set(d_['ref'] for j_ in f.all_nodes() if f.N(j_)['k'] == 'DeclStmt' for d_ in f.N(j_)['decls'] if d_.get('init') is not None and f.strip(d_['init']) in limc)
        is_lim = lambda x: any(j in limc for j in f.walk(x)) or any(rf in limv for rf in f.subtree_refs(x))
        negs = [i for i in f.all_nodes() if f.N(i)['k'] == 'UnaryOperator' and f.N(i).get('op') == '-' and is_lim(i)]
        lows = [i for i in limc if q.short_of(f.callee(i) or '') == 'lowest']
        def bound(lower):
            def p(atom, pol):
                n_ = f.N(atom)
                if n_['k'] != 'BinaryOperator' or n_.get('op') not in ('<', '>', '<=', '>=') or pol is not False or not is_lim(atom):
                    return False
                has_low = any(f.contains(atom, x_) for x_ in negs + lows)
                return has_low if lower else not has_low
            return p
        g_lo, g_hi = f.gate_edges(bound(True)), f.gate_edges(bound(False))
        sinks = [r_ for r_ in f.returns() if f.ret_value(r_) is not None] + [i for i in f.calls() if q.short_of(f.callee(i) or '') == 'number' and f.args(i)]
        ok = len(lim) >= 1 and all(x == 'std::numeric_limits<%s>::max' % tgt or x == 'std::numeric_limits<%s>::lowest' % tgt for x in lim) and bool(g_lo) and bool(g_hi) and bool(sinks) and \
            all(f.only_through(s_, g_lo) and f.only_through(s_, g_hi) for s_ in sinks)
        ctx.check(ok, R7, 'traits<%s>::%s:both-bounds-are-the-limits-of-%s' % ('float' if tgt == 'float' else 'long double', f.short, tgt),
                  'the range test uses %s: a value outside the range of %s is converted silently (to an infinity the writer cannot represent)' % (lim, tgt), f.where)

    # ---------------- R5 writer escape table (E3)
    from vlib import absint
    from vlib.absint import AV, Arr, PV, Cell, Out, Unsupported
    gas = [f for f in P.fns.values() if f.bname == J + '::details::generic_append' and f.entry is not None]
    ctx.require(gas, 'C11.R5: json::details::generic_append instantiations not found')
    APP = ('cppcms::json::details::string_append::append', 'cppcms::json::details::stream_append::append')

    def app_hook(it, fn, i, env):
        a = [it.rvalue(fn, x, env) for x in fn.args(i)]
        out = it.sink
        if len(a) == 1 and isinstance(a[0], AV):
            it.emit(out, a[0])
        elif len(a) == 1 and isinstance(a[0], PV):
            it.emit(out, a[0])          # NUL-terminated C string
        elif len(a) == 2 and isinstance(a[0], PV) and isinstance(a[1], AV):
            if not a[1].is_const():
                it.split_on(a[1].deps)
            for j in range(a[1].lo):
                it.emit(out, it.load(('elem', PV(a[0].arr, a[0].off + j))))
        else:
            raise Unsupported('appender call shape')
        return AV.const(0)
    hooks = {k: app_hook for k in APP}

    def decode(items):
        """RFC 8259 string -> list of byte sets, or None if not a well-formed quoted string without raw control/quote/backslash characters.
        items: list of frozenset of unsigned byte values; escapes must be concrete (singletons)"""
        if len(items) < 2 or items[0] != frozenset([0x22]) or items[-1] != frozenset([0x22]):
            return None
        body, out, k = items[1:-1], [], 0
        while k < len(body):
            e = body[k]
            if e == frozenset([0x5C]):
                if k + 1 >= len(body) or len(body[k + 1]) != 1:
                    return None
                c = next(iter(body[k + 1]))
                simple = {0x22: 0x22, 0x5C: 0x5C, 0x2F: 0x2F, 0x62: 8, 0x66: 12, 0x6E: 10, 0x72: 13, 0x74: 9}
                if c in simple:
                    out.append(frozenset([simple[c]]))
                    k += 2
                    continue
                if c == 0x75:
                    hx = body[k + 2:k + 6]
                    if len(hx) != 4 or any(len(h) != 1 for h in hx):
                        return None
                    try:
                        v = int(bytes(next(iter(h)) for h in hx).decode('ascii'), 16)
                    except ValueError:
                        return None
                    if v > 0x7F:
                        return None
                    out.append(frozenset([v]))
                    k += 6
                    continue
                return None
            if any(v <= 0x1F or v in (0x22, 0x5C) for v in e):
                return None      # must have been escaped
            out.append(e)
            k += 1
        return out
    CLS = [(b, b) for b in range(0, 0x20)] + [(0x20, 0x21), (0x22, 0x22), (0x23, 0x5B), (0x5C, 0x5C), (0x5D, 0x7F), (0x80, 0xFF)]
    from rules.C15 import out_bytes
    for ga in sorted(gas, key=lambda g: g.id):
        pt = ga.types[ga.params[2]['t']]
        tagn = 'string' if 'string_append' in pt else 'stream' if 'stream_append' in pt else pt[-24:]
        for nlen in (0, 1, 2):
            bad = None
            nb = 0

            def run(it, nlen=nlen, ga=ga):
                it.hooks = hooks
                it.sink = Out('json')
                arr = Arr([it.inbyte(k) for k in range(nlen)] + [AV.const(0)], 'input')
                it.call_fn(ga, [PV(arr, 0), PV(arr, nlen), Cell(Out('appender'))])
                return it.sink
            boxes = [[]] if nlen == 0 else [[c] for c in CLS] if nlen == 1 else [[c, d] for c in CLS for d in CLS]
            for (bx, o, it) in absint.explore(P, run, boxes, max_boxes=400000):
                nb += 1
                got = decode(out_bytes(o))
                want = [frozenset(range(lo, hi + 1)) for (lo, hi) in bx]
                if got != want:
                    bad = bad or (bx, [sorted(x)[:4] for x in out_bytes(o)])
            ctx.check(bad is None, R5, 'generic_append<%s>:len=%d:decodes-back-and-escapes' % (tagn, nlen), ('input %s written as %s' % bad) if bad else '', ga.where, detail={'boxes': nb})
    # reader side: the escape switch of parse_string maps each RFC 8259 escape letter to its character, nothing else
    sws = [i for i in pstr.walk() if pstr.N(i)['k'] == 'SwitchStmt']
    SPEC = {0x22: 0x22, 0x5C: 0x5C, 0x2F: 0x2F, 0x62: 8, 0x66: 12, 0x6E: 10, 0x72: 13, 0x74: 9}
    esc = None
    for sw in sws:
        labels = [pstr.const_value(pstr.N(j)['lhs']) for j in pstr.walk(sw) if pstr.N(j)['k'] == 'CaseStmt']
        if 0x6E in labels and 0x75 in labels:
            esc = sw
    ctx.require(esc is not None, 'C11.R5: the escape-letter switch of parse_string was not found (anchor moved)')
    if esc is not None:
        cv = pstr.ref_of(pstr.N(esc)['cond']) if pstr.N(esc).get('cond', -1) >= 0 else None
        got = {}
        pending = []
        dflt_rejects = False
        body = pstr.N(esc)['body'] if pstr.N(esc).get('body', -1) >= 0 else esc

        def first_stmt(j):
            # CaseStmt nests: case a: case b: stmt
            labs = []
            while pstr.N(j)['k'] in ('CaseStmt', 'DefaultStmt'):
                labs.append(pstr.const_value(pstr.N(j)['lhs']) if pstr.N(j)['k'] == 'CaseStmt' else 'default')
                j = pstr.N(j)['sub']
            return labs, j
        for j in pstr.N(body)['ch']:
            if pstr.N(j)['k'] not in ('CaseStmt', 'DefaultStmt'):
                continue
            labs, st = first_stmt(j)
            stn = pstr.N(pstr.strip(st)) if pstr.N(st)['k'] not in ('ReturnStmt', 'CompoundStmt') else pstr.N(st)
            val = None
            if stn['k'] == 'CXXOperatorCallExpr' and stn.get('op') == '+=' and (pstr.ref_of(stn['ch'][1]) or '').endswith('tockenizer::str'):
                a = stn['ch'][2]
                if pstr.const_value(a) is not None:
                    val = ('const', pstr.const_value(a))
                elif cv is not None and cv in pstr.subtree_refs(a) and not [x for x in pstr.walk(a) if pstr.N(x)['k'] in ('BinaryOperator', 'UnaryOperator', 'CallExpr')]:
                    val = ('same',)
            elif stn['k'] == 'ReturnStmt' and pstr.const_value(pstr.ret_value(st)) == 0:
                val = ('reject',)
            for lb in labs:
                got[lb] = val
        badm = []
        for letter, ch in sorted(SPEC.items()):
            v = got.get(letter)
            okv = v == ('const', ch) or (v == ('same',) and letter == ch)
            if not okv:
                badm.append('\\%s -> %s' % (chr(letter), v))
        extra = [lb for lb in got if lb not in SPEC and lb not in (0x75, 'default')]
        ctx.check(not badm, R5, 'parse_string:escape-letters-map-to-their-characters', 'escape table differs from RFC 8259: %s' % badm, pstr.loc(esc))
        ctx.check(not extra, R5, 'parse_string:no-extra-escapes', 'escape letters outside RFC 8259 accepted: %s' % [chr(x) if isinstance(x, int) else x for x in extra], pstr.loc(esc))
        ctx.check(got.get('default') == ('reject',), R5, 'parse_string:unknown-escape-rejected', 'an unknown escape letter is not rejected', pstr.loc(esc))
    ctx.trust('RFC 8259 section 7 decoder embedded in rules/C11.py (C11.R5); the two appender structs are modelled as an emission log')

    # ---------------- R8 no NUL-truncating conversion of parsed text
    def cstr_narrowings(f):
        """calls in f that receive `x.c_str()` / `x.data()` of a std::string as a `const char *` parameter without a length / end companion"""
        out = []
        for i in f.calls():
            n = f.N(i)
            if n['k'] == 'CXXMemberCallExpr' and q.short_of(f.callee(i)) in ('c_str', 'data') and 'basic_string' in (f.callee(i) or ''):
                # the call (or constructor) that consumes the pointer
                par = f.parent.get(i)
                while par is not None and f.N(par)['k'] in ('ImplicitCastExpr', 'ParenExpr', 'MaterializeTemporaryExpr', 'CXXBindTemporaryExpr', 'ExprWithCleanups'):
                    par = f.parent.get(par)
                if par is None or f.N(par)['k'] not in model.CALL_KINDS:
                    continue
                args = f.args(par)
                mine = [a for a in args if i in set(f.walk(a))]
                if not mine or f.strip(mine[0]) != i:
                    continue          # pointer arithmetic such as s.c_str()+s.size(): the length travels along
                src = f.ref_of(f.obj(i)) or '.'.join(f.access_path(f.obj(i)) or ())
                others = [a for a in args if a is not mine[0]]
                has_len = any(any(q.short_of(f.callee(j)) in ('size', 'length', 'c_str', 'data', 'end') for j in f.calls(a)) for a in others)
                if not has_len:
                    out.append((par, i, src))
        return out
    tk = [f for f in P.fns.values() if 'tockenizer' in (f.record or '') and f.entry is not None]
    sites = []
    for f in [ps] + tk:
        sites += [(f, par, src) for (par, i, src) in cstr_narrowings(f)]
    for k, (f, par, src) in enumerate(sites):
        ctx.check(False, R8, '%s:c_str-to-%s#%d' % (f.short, q.short_of(f.callee(par)) or '?', k), 'parsed text %s is passed as a NUL-terminated string to %s: an embedded \\u0000 truncates it' % (src, f.callee(par)), f.loc(par))
    ctx.check(True, R8, 'parser:functions-scanned:%d' % (1 + len(tk)), loc=ps.where, detail={'functions': [ps.short] + sorted(f.short for f in tk)})
    # positive control: the detector must see the (legitimate, path-string) conversion in value::find(std::string const &)
    ctl = [f for f in P.by_bname.get(J + '::value::find', []) if 'basic_string' in f.id]
    ctx.require(ctl and cstr_narrowings(ctl[0]), 'C11.R8: the c_str() detector no longer matches its positive control value::find(std::string const &)')
    ctx.check(True, R8, 'detector:positive-control:value::find', loc=ctl[0].where)

    # ---------------- R9 key comparison sees the whole key
    CSTR = ('strcmp', 'strncmp', 'strcoll', 'strlen', 'strcasecmp', 'strncasecmp', 'strstr', 'strchr', 'strcpy', 'strncpy', 'strnlen', 'strxfrm')
    cmps = [f for f in P.fns.values() if f.brecord == 'cppcms::string_key' and f.short in ('operator<', 'operator>', 'operator<=', 'operator>=', 'operator==', 'operator!=') and len(f.params) == 1 and f.body is not None and f.body >= 0]
    ctx.require(len(cmps) >= 6, 'C11.R9: string_key comparison operators not found')
    for f in sorted(cmps, key=lambda g: g.short):
        seen, todo, hit = set(), [f], []
        while todo:
            g = todo.pop()
            if g.id in seen:
                continue
            seen.add(g.id)
            for i in g.calls():
                nm = g.callee(i) or ''
                if q.short_of(g.bcallee(i) or nm) in CSTR and not (g.bcallee(i) or '').startswith('cppcms::'):
                    hit.append((g, i))
                h = P.fns.get(g.N(i).get('callee') or '')
                if h is not None and h.brecord == 'cppcms::string_key' and h.body is not None and h.body >= 0:
                    todo.append(h)
        ctx.check(not hit, R9, 'string_key::%s:length-delimited' % f.short, 'keys are compared with %s, which stops at the first NUL byte: two different names that agree up to a \\u0000 become the same key' % (hit[0][0].callee(hit[0][1]) if hit else ''),
                  hit[0][0].loc(hit[0][1]) if hit else f.where, detail={'functions_followed': len(seen)})
    # ---------------- R10 \\u escapes become UTF-8: utf8::encode and the UTF-16 helpers, exact (E3)
    R10 = ctx.rule('C11.R10', 'escape decoding arithmetic is exact (E3 over every code point in aligned 64-blocks / every code unit): utf8::encode yields the RFC 3629 byte sequence and its length, '
                              'is_first_surrogate / is_second_surrogate are exactly D800-DBFF / DC00-DFFF, combine_surrogate is 0x10000 + (hi-D800)*0x400 + (lo-DC00)')
    from vlib import absint as _ai
    enc = P.fn('cppcms::utf8::encode', must=False)
    ctx.require(enc is not None and enc.body is not None, 'C11.R10: utf8::encode not found in the json unit')
    fc, fl = 'f:cppcms::utf8::seq::c', 'f:cppcms::utf8::seq::len'
    ctx.require({fc, fl} <= set(enc.N(i).get('ref') for i in enc.all_nodes() if enc.N(i)['k'] == 'MemberExpr'), 'C11.R10: utf8::seq fields not found')

    def ref_utf8(v):
        if v <= 0x7F:
            return [v]
        if v <= 0x7FF:
            return [0xC0 | (v >> 6), 0x80 | (v & 0x3F)]
        if v <= 0xFFFF:
            return [0xE0 | (v >> 12), 0x80 | ((v >> 6) & 0x3F), 0x80 | (v & 0x3F)]
        return [0xF0 | (v >> 18), 0x80 | ((v >> 12) & 0x3F), 0x80 | ((v >> 6) & 0x3F), 0x80 | (v & 0x3F)]

    def run_enc(it):
        it.fields = {fc: _ai.Cell(_ai.Arr([_ai.AV.const(0xEE)] * 4, 'c')), fl: _ai.Cell(_ai.AV.const(99))}
        it.call_fn(enc, [it.inbyte(0)])
        return list(it.fields[fc].v.elems), it.fields[fl].v
    step = 1 if ctx.tier == 'thorough' else 7          # quick: every 7th block plus the blocks at the length boundaries
    blocks = [b for b in range(0, 0x110000 // 64) if b % step == 0 or b in (0, 1, 2, 0x7FF // 64, 0x800 // 64, 0xD7FF // 64, 0xE000 // 64, 0xFFFF // 64, 0x10000 // 64, 0x10FFFF // 64)]
    bad = []
    nb = 0
    for (bx, (cs, ln), it) in _ai.explore(P, run_enc, [[(b * 64, b * 64 + 63)] for b in blocks], max_boxes=400000):
        nb += 1
        lo, hi = bx[0]
        rl, rh = ref_utf8(lo), ref_utf8(hi)
        okb = len(rl) == len(rh) and ln.is_const() and ln.lo == len(rl)
        if okb:
            for k_ in range(len(rl)):
                e = cs[k_]
                glo, ghi = (e.lo & 0xFF), (e.hi & 0xFF)
                if k_ < len(rl) - 1 and (lo >> 6) == (hi >> 6):
                    okb = okb and e.is_const() and glo == rl[k_]
                elif k_ == len(rl) - 1:
                    okb = okb and glo == rl[k_] and ghi == rh[k_] and e.size() == hi - lo + 1
        if not okb:
            bad.append('U+%04X..U+%04X: length %r bytes %r, RFC 3629 gives %s .. %s' % (lo, hi, ln, cs[:4], bytes(rl).hex(), bytes(rh).hex()))
            if len(bad) > 2:
                break
    ctx.check(not bad, R10, 'utf8::encode:RFC-3629-bytes-for-every-code-point', '; '.join(bad[:2]), enc.where, detail={'boxes': nb, 'blocks_of_64': len(blocks)})
    for (nm_, a_, b_) in (('is_first_surrogate', 0xD800, 0xDBFF), ('is_second_surrogate', 0xDC00, 0xDFFF)):
        f = P.fn('cppcms::utf16::' + nm_, must=False)
        ctx.require(f is not None and f.body is not None, 'C11.R10: utf16::%s not found' % nm_)
        bad = []
        pending = [[(0, 0xFFFF)]]
        nb = 0
        while pending:
            box = pending.pop()
            for (bx, rv, it) in _ai.explore(P, lambda it, f=f: it.call_fn(f, [it.inbyte(0)]), [box]):
                lo, hi = bx[0]
                inside = [a_ <= v <= b_ for v in (lo, hi)]
                if inside[0] != inside[1] or (lo < a_ and hi > b_):
                    mid = a_ if lo < a_ <= hi else b_ + 1
                    pending += [[(lo, mid - 1)], [(mid, hi)]]
                    continue
                nb += 1
                if not (isinstance(rv, _ai.AV) and rv.is_const() and bool(rv.lo) == inside[0]):
                    bad.append('%04X..%04X -> %r' % (lo, hi, rv))
        ctx.check(not bad, R10, 'utf16::%s:exactly-%04X-%04X' % (nm_, a_, b_), '; '.join(bad[:3]), f.where, detail={'boxes': nb})
    cs_ = P.fn('cppcms::utf16::combine_surrogate', must=False)
    ctx.require(cs_ is not None and cs_.body is not None, 'C11.R10: utf16::combine_surrogate not found')
    bad = []
    w1s = range(0xD800, 0xDC00) if ctx.tier == 'thorough' else [0xD800, 0xD801, 0xD834, 0xD9AB, 0xDBFE, 0xDBFF] + list(range(0xD800, 0xDC00, 37))
    nb = 0
    for w1 in w1s:
        for (bx, rv, it) in _ai.explore(P, lambda it, w1=w1: it.call_fn(cs_, [_ai.AV.const(w1), it.inbyte(0)]), [[(0xDC00, 0xDFFF)]]):
            nb += 1
            lo, hi = bx[0]
            want_lo, want_hi = 0x10000 + ((w1 - 0xD800) << 10) + (lo - 0xDC00), 0x10000 + ((w1 - 0xD800) << 10) + (hi - 0xDC00)
            if not (isinstance(rv, _ai.AV) and rv.lo == want_lo and rv.hi == want_hi and rv.size() == hi - lo + 1):
                bad.append('(%04X, %04X..%04X) -> %r, expected U+%X..U+%X' % (w1, lo, hi, rv, want_lo, want_hi))
                break
        if bad:
            break
    ctx.check(not bad, R10, 'utf16::combine_surrogate:exact', '; '.join(bad[:2]), cs_.where, detail={'boxes': nb})
    ctx.floor(R10, 4)

    ctx.floor(R1, 8)
    ctx.floor(R9, 6)
    ctx.floor(R2, 4)
    ctx.floor(R3, 4)
    ctx.floor(R4, 3)
    ctx.floor(R5, 10)
    ctx.floor(R8, 2)
    ctx.floor(R6, 7)
    ctx.floor(R7, 10)
