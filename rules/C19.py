"""C19 — serialisation round-trips; damaged archives are rejected safely."""
import re
from vlib import build, model, q, linbound
from vlib.lin import Lin, ge
from vlib.build import AnalysisBroken, REPO, VERIF
from rules.C05 import load

AR = 'cppcms::archive'
SAVE_EVENTS = ('write_chunk', 'save', 'archive_save_container', 'operator<<', 'operator&')
LOAD_EVENTS = ('read_chunk', 'read_chunk_as_string', 'load', 'archive_load_container', 'operator>>', 'operator&')


def chunk_events(f, names):
    out = []
    for i in f.calls():
        cn = f.bcallee(i) or ''
        sh = cn.rsplit('::', 1)[-1]
        if sh not in names:
            continue
        if cn.startswith(AR + '::') or cn.startswith('cppcms::archive_traits::') or cn.startswith('cppcms::details::') or cn.startswith('cppcms::operator'):
            out.append(i)
    return out


def flat_interval(P, f, names, memo, depth=0):
    """(min,max) primitive chunk operations per path, helper / nested-trait calls replaced by their own interval"""
    if f.id in memo:
        return memo[f.id]
    memo[f.id] = (1, 1)          # recursion guard (self-similar containers): count as one operation
    w = {}
    for i in chunk_events(f, names):
        g = P.fns.get(f.N(i).get('callee'))
        if g is not None and depth < 6 and not g.bname.startswith(AR + '::'):
            iv = flat_interval(P, g, names, memo, depth + 1)
            w[i] = iv if iv is not None else (1, 1)
        else:
            w[i] = (1, 1)
    r = q.event_interval(f, w, cap=12)
    memo[f.id] = r
    return r


def run(ctx):
    ctx.explanation = ('archive read path: forward propagation of linear constraints over ptr_, buffer_.size() and the chunk length with the callee next_chunk_size() inlined; '
                       'every memcpy / std::string(p,n) gets the obligation offset+length <= buffer size, proved by Fourier-Motzkin. Structural rules: the length check dominates the copy, '
                       'and for every archive_traits specialisation (macro-generated ones included) save and load perform the same number of chunk operations on every path.')
    ctx.units = ['src/archive.cpp', 'witness/c19_archive.cpp']
    P = model.Program(build.extract([REPO + '/src/archive.cpp', VERIF + '/witness/c19_archive.cpp'], include_re='^/repo/(src|cppcms)/(archive|serialization|json)'))
    ctx.stats['functions'] = len(P.fns)
    R1 = ctx.rule('C19.R1', 'archive reads stay inside the buffer: ptr_+4+len <= buffer_.size() proved at every copy')
    R2 = ctx.rule('C19.R2', 'read_chunk copies only after the stored length equals the requested one; cursor advances by header+payload')
    R3 = ctx.rule('C19.R3', 'save and load of every archive_traits specialisation perform the same chunk operations on every path')

    E = linbound.Engine(P, inline_depth=2 if ctx.tier == 'quick' else 3)
    targets = [AR + '::next_chunk_size', AR + '::read_chunk', AR + '::read_chunk_as_string']
    for name in targets:
        f = P.fn(name)
        before = len(E.obligations)
        E.analyse(f)
    ctx.stats['paths'] = E.paths
    seen = {}
    for ob in E.obligations:
        top = ob.chain[0]
        base = '%s>%s:%s' % (top.short, ob.fn.short, ob.kind) if top is not ob.fn else '%s:%s' % (ob.fn.short, ob.kind)
        n = seen.get(base, 0)
        # several paths reach the same site: one obligation per (site, path); same key -> all must hold
        key = '%s@%s' % (base, ob.fn.N(ob.node)['k'])
        seen[base] = n + 1
        ctx.check(ob.proved, R1, key, 'not provable: ' + ob.desc, ob.fn.loc(ob.node), detail={'obligation': ob.desc, 'constraints': [repr(c[1]) + (' >= 0' if c[0] == 'ge' else ' == 0') for c in ob.cons][-12:]})
    ctx.assume('size_t sums of a 32-bit chunk length and a buffer offset do not wrap on the 64-bit target')
    ctx.floor(R1, 8)

    # R2
    rc = P.fn(AR + '::read_chunk')
    lenp = q.param_by_index(rc, 1)

    def same_len(atom, pol):
        n = rc.N(atom)
        if n['k'] != 'BinaryOperator' or n.get('op') not in ('!=', '=='):
            return False
        if lenp not in rc.subtree_refs(atom):
            return False
        other = [r for r in rc.subtree_refs(atom) if r != lenp]
        ok_src = False
        for r in other:
            for (_, v) in rc.defs_of_var(r):
                if v is not None and any(rc.bcallee(j) == AR + '::next_chunk_size' for j in rc.calls(v)):
                    ok_src = True
        if any(rc.bcallee(j) == AR + '::next_chunk_size' for j in rc.calls(atom)):
            ok_src = True
        return ok_src and ((n['op'] == '!=' and pol is False) or (n['op'] == '==' and pol is True))
    g = rc.gate_edges(same_len)
    mc = [i for i in rc.calls() if rc.callee(i) == 'memcpy']
    ctx.check(len(mc) == 1 and rc.only_through(mc[0], g), R2, 'read_chunk:copy-only-if-length-matches', 'payload copied although the stored length differs from the requested one', rc.where)
    for name, hdr in ((AR + '::read_chunk', True), (AR + '::read_chunk_as_string', True)):
        f = P.fn(name)
        ws = q.field_writes(f, 'archive::ptr_')
        ctx.check(len(ws) >= 1 and q.always_before_exit(f, ws), R2, '%s:cursor-advances' % f.short, 'cursor not advanced past the chunk', f.where)
    wr = P.fn(AR + '::write_chunk')
    ap = [i for i in q.field_calls(wr, 'archive::buffer_', 'append')]
    ctx.check(len(ap) == 2 and wr.const_value(wr.args(ap[0])[1]) == 4 and q.param_by_index(wr, 1) in wr.subtree_refs(wr.args(ap[1])[1]) and q.before(wr, ap[0], ap[1]), R2,
              'write_chunk:4-byte-length-then-payload', 'writer does not emit a 4-byte length followed by len payload bytes', wr.where)
    ctx.floor(R2, 4)

    # R3
    pairs = {}
    for f in P.fns.values():
        if f.brecord == 'cppcms::archive_traits' and f.short in ('save', 'load'):
            pairs.setdefault(f.record, {})[f.short] = f
        elif f.bname in ('cppcms::details::archive_save_container', 'cppcms::details::archive_load_container'):
            targ = f.id.split('<', 1)[1].rsplit('>(', 1)[0]
            pairs.setdefault('container<%s>' % targ, {})['save' if 'save' in f.short else 'load'] = f
    n_pairs = 0
    for rec in sorted(pairs):
        pr = pairs[rec]
        if 'save' not in pr or 'load' not in pr:
            continue
        s, l = pr['save'], pr['load']
        isv, ilv = flat_interval(P, s, SAVE_EVENTS, {}), flat_interval(P, l, LOAD_EVENTS, {})
        n_pairs += 1
        short = rec.replace('cppcms::archive_traits', 'traits').replace('std::basic_string<char>', 'string')
        ctx.check(isv is not None and isv == ilv and isv[1] >= 1, R3, '%s:save/load-chunk-ops-agree' % short,
                  'save performs %s chunk operations per path, load %s (loop bodies counted once)' % (isv, ilv), l.where, detail={'save': isv, 'load': ilv})
    ctx.floor(R3, 40)
    ctx.stats['trait_pairs'] = n_pairs
