"""C19 — serialisation round-trips; damaged archives are rejected safely."""
import re
from vlib import build, model, q, linbound
from vlib.lin import Lin, ge
from vlib.build import AnalysisBroken, REPO, VERIF
from rules.C05 import load

AR = 'cppcms::archive'
SAVE_EVENTS = ('write_chunk', 'save', 'archive_save_container', 'operator<<', 'operator&')
LOAD_EVENTS = ('read_chunk', 'read_chunk_as_string', 'load', 'archive_load_container', 'operator>>', 'operator&')


PRIM_SAVE = ('write_chunk',)
PRIM_LOAD = ('read_chunk', 'read_chunk_as_string')


def chunk_events(f, names, P=None):
    """calls that perform (or may perform) chunk operations of the given direction: the archive primitives themselves, the
    traits / operators by name, and any other cppcms helper with a body (its own operations are counted by flat_interval)"""
    out = []
    prim = PRIM_SAVE if 'write_chunk' in names else PRIM_LOAD
    for i in f.calls():
        cn = f.bcallee(i) or ''
        sh = cn.rsplit('::', 1)[-1]
        if cn.startswith(AR + '::'):
            if sh in names:
                out.append(i)
            continue
        if sh in names and (cn.startswith('cppcms::archive_traits::') or cn.startswith('cppcms::details::') or cn.startswith('cppcms::operator')):
            out.append(i)
        elif P is not None and cn.startswith('cppcms::') and f.N(i).get('callee') in P.fns and P.fns[f.N(i)['callee']].entry is not None and \
                (cn.startswith('cppcms::details::') or cn.startswith('cppcms::archive_traits::')):
            out.append(i)
    return out


def flat_interval(P, f, names, memo, depth=0):
    """(min,max) primitive chunk operations per path, helper / nested-trait calls replaced by their own interval"""
    if f.id in memo:
        return memo[f.id]
    memo[f.id] = (1, 1)          # recursion guard (self-similar containers): count as one operation
    w = {}
    for i in chunk_events(f, names, P):
        g = P.fns.get(f.N(i).get('callee'))
        if g is not None and depth < 6 and not g.bname.startswith(AR + '::'):
            iv = flat_interval(P, g, names, memo, depth + 1)
            w[i] = iv if iv is not None else (1, 1)
        else:
            w[i] = (1, 1)
    r = q.event_interval(f, w, cap=12)
    memo[f.id] = r
    return r


def run(ctx):
    ctx.explanation = ('archive read path: forward propagation of linear constraints over ptr_, buffer_.size() and the chunk length with the callee next_chunk_size() inlined; '
                       'every memcpy / std::string(p,n) gets the obligation offset+length <= buffer size, proved by Fourier-Motzkin. Structural rules: the length check dominates the copy, '
                       'and for every archive_traits specialisation (macro-generated ones included) save and load perform the same number of chunk operations on every path.')
    ctx.units = ['src/archive.cpp', 'witness/c19_archive.cpp']
    P = model.Program(build.extract([REPO + '/src/archive.cpp', VERIF + '/witness/c19_archive.cpp'], include_re='^/repo/(src|cppcms)/(archive|serialization|json)'))
    ctx.stats['functions'] = len(P.fns)
    R1 = ctx.rule('C19.R1', 'archive reads stay inside the buffer: ptr_+4+len <= buffer_.size() proved at every copy')
    R2 = ctx.rule('C19.R2', 'read_chunk copies only after the stored length equals the requested one; cursor advances by header+payload')
    R4 = ctx.rule('C19.R4', 'archive_traits loaders: every read_chunk(p, n) writes inside the object p points to (n <= sizeof(T) for scalars, n <= v.size()*sizeof(T) for the resized vector)')
    R5 = ctx.rule('C19.R5', 'next_chunk_size rejects only what does not fit: every throw is reachable only when fewer than 4 header bytes remain or the announced length exceeds the remaining payload (a well-formed last chunk, also an empty one, is accepted)')
    R6 = ctx.rule('C19.R6', 'container loaders rebuild the container in archive order: elements are appended (no position, end() as position, or an insert_iterator); a fixed position such as begin() reverses the order of equal keys / of the sequence')
    R7 = ctx.rule('C19.R7', 'reader cursor arithmetic: the length word is the 4 bytes at the cursor, the payload handed out starts 4 bytes after the cursor position at which the length was read, and the cursor ends exactly 4 + payload bytes further')
    R8 = ctx.rule('C19.R8', 'archive state: str(s) installs s, load mode and cursor 0; mode(m) and reset() rewind to 0; assignment copies buffer, cursor and mode')
    R3 = ctx.rule('C19.R3', 'save and load of every archive_traits specialisation perform the same chunk operations on every path')

    E = linbound.Engine(P, inline_depth=2 if ctx.tier == 'quick' else 3)
    targets = [AR + '::next_chunk_size', AR + '::read_chunk', AR + '::read_chunk_as_string']
    for name in targets:
        f = P.fn(name)
        before = len(E.obligations)
        E.analyse(f)
    ctx.stats['paths'] = E.paths
    seen = {}
    for ob in E.obligations:
        top = ob.chain[0]
        base = '%s>%s:%s' % (top.short, ob.fn.short, ob.kind) if top is not ob.fn else '%s:%s' % (ob.fn.short, ob.kind)
        n = seen.get(base, 0)
        # several paths reach the same site: one obligation per (site, path); same key -> all must hold
        key = '%s@%s' % (base, ob.fn.N(ob.node)['k'])
        seen[base] = n + 1
        ctx.check(ob.proved, R1, key, 'not provable: ' + ob.desc, ob.fn.loc(ob.node), detail={'obligation': ob.desc, 'constraints': [repr(c[1]) + (' >= 0' if c[0] == 'ge' else ' == 0') for c in ob.cons][-12:]})
    ctx.assume('size_t sums of a 32-bit chunk length and a buffer offset do not wrap on the 64-bit target')
    ctx.floor(R1, 8)

    # R4: destination side of read_chunk in the (macro-generated) trivially copyable traits
    E4 = linbound.Engine(P, inline_depth=1)
    E4.byte_sinks = True
    E4.range_sinks = {AR + '::read_chunk': (0, 1)}
    loaders = sorted([f for f in P.fns.values() if f.short == 'load' and f.bname.startswith('cppcms::archive_traits') and any(f.bcallee(i) == AR + '::read_chunk' for i in f.calls())], key=lambda g: g.id)
    ctx.require(len(loaders) >= 20, 'C19.R4: archive_traits loaders calling read_chunk not found (%d)' % len(loaders))
    covered = 0
    for f in loaders:
        n0 = len(E4.obligations)
        E4.analyse(f)
        tname = f.id.split('::load(')[0].replace('cppcms::archive_traits', 'traits')
        for ob in E4.obligations[n0:]:
            covered += 1
            ctx.check(ob.proved, R4, '%s:read_chunk-destination' % tname, 'not provable: ' + ob.desc, ob.fn.loc(ob.node), detail={'obligation': ob.desc})
    ctx.floor(R4, 24)

    # R5: completeness of the acceptance test (round trip of archives that end with an empty chunk)
    from vlib.lin import infeasible as _infeasible
    ncs = P.fn(AR + '::next_chunk_size')
    E5 = linbound.Engine(P, inline_depth=2)
    PTR, BSZ = 'this.f:%s::ptr_' % AR, 'this.f:%s::buffer_.size()' % AR
    seen5 = []

    def at_throw(engine, fn, st, node, chain):
        n = fn.N(node)
        if n['k'] not in ('CXXConstructExpr', 'CXXTemporaryObjectExpr') or 'archive_error' not in (n.get('cn') or ''):
            return
        if not any(fn.N(a)['k'] == 'CXXThrowExpr' for a in fn.ancestors(node)):
            return
        ptr = st.env.get(PTR, Lin.atom(PTR))
        bsz = st.env.get(BSZ, Lin.atom(BSZ))
        rem = bsz - ptr
        # the announced length, if it was already read on this path: the local filled by memcpy(&size, ...)
        chunk = None
        for k_, v_ in st.env.items():
            if k_.startswith('v:size@') or k_.startswith('v:len@'):
                chunk = v_
        accept = [ge(ptr), ge(rem - Lin.const(4))]
        if chunk is not None:
            accept += [ge(chunk), ge(rem - Lin.const(4) - chunk)]
        seen5.append((fn, node, _infeasible(list(st.cons) + accept), chunk is not None, [repr(c[1]) for c in st.cons][-6:]))
    E5.site_hooks.append(at_throw)
    E5.analyse(ncs)
    ctx.check(len(seen5) >= 2, R5, 'next_chunk_size:throw-sites', 'expected the rejections of next_chunk_size to be explored', ncs.where)
    for k, (fn_, node, ok, has_len, cons_) in enumerate(seen5):
        ctx.check(ok, R5, 'next_chunk_size:throw@L%d#%d:only-when-chunk-does-not-fit' % (fn_.N(node)['l'] - ncs.line, k),
                  'an archive whose remaining bytes hold a complete chunk (>= 4 header bytes%s) can be rejected here' % (', announced length within the rest' if has_len else ''), fn_.loc(node), detail={'path': cons_})
    ctx.floor(R5, 3)

    # R2
    rc = P.fn(AR + '::read_chunk')
    lenp = q.param_by_index(rc, 1)

    def same_len(atom, pol):
        n = rc.N(atom)
        if n['k'] != 'BinaryOperator' or n.get('op') not in ('!=', '=='):
            return False
        if lenp not in rc.subtree_refs(atom):
            return False
        other = [r for r in rc.subtree_refs(atom) if r != lenp]
        ok_src = False
        for r in other:
            for (_, v) in rc.defs_of_var(r):
                if v is not None and any(rc.bcallee(j) == AR + '::next_chunk_size' for j in rc.calls(v)):
                    ok_src = True
        if any(rc.bcallee(j) == AR + '::next_chunk_size' for j in rc.calls(atom)):
            ok_src = True
        return ok_src and ((n['op'] == '!=' and pol is False) or (n['op'] == '==' and pol is True))
    g = rc.gate_edges(same_len)
    mc = [i for i in rc.calls() if rc.callee(i) == 'memcpy']
    ctx.check(len(mc) == 1 and rc.only_through(mc[0], g), R2, 'read_chunk:copy-only-if-length-matches', 'payload copied although the stored length differs from the requested one', rc.where)
    for name, hdr in ((AR + '::read_chunk', True), (AR + '::read_chunk_as_string', True)):
        f = P.fn(name)
        ws = q.field_writes(f, 'archive::ptr_')
        ctx.check(len(ws) >= 1 and q.always_before_exit(f, ws), R2, '%s:cursor-advances' % f.short, 'cursor not advanced past the chunk', f.where)
    wr = P.fn(AR + '::write_chunk')
    ap = [i for i in q.field_calls(wr, 'archive::buffer_', 'append')]
    ctx.check(len(ap) == 2 and wr.const_value(wr.args(ap[0])[1]) == 4 and q.param_by_index(wr, 1) in wr.subtree_refs(wr.args(ap[1])[1]) and q.before(wr, ap[0], ap[1]), R2,
              'write_chunk:4-byte-length-then-payload', 'writer does not emit a 4-byte length followed by len payload bytes', wr.where)
    ctx.floor(R2, 4)

    # R6: loaded elements are appended in archive order
    n6 = 0
    for f in sorted(P.fns.values(), key=lambda g: g.id):
        if not ((f.short == 'load' and f.bname.startswith('cppcms::archive_traits')) or f.bname == 'cppcms::details::archive_load_container'):
            continue
        cont = q.param_by_index(f, 0)
        tname = f.id.split('(')[0].replace('cppcms::archive_traits', 'traits').replace('std::basic_string<char>', 'string')
        for L in q.loops(f):
            for i in f.calls(f.N(L)['body']):
                sh = q.short_of(f.bcallee(i) or '')
                o = f.obj(i)
                if sh not in ('insert', 'emplace_hint', 'emplace', 'push_back', 'push_front') or o is None or f.ref_of(o) != cont:
                    continue
                a = [x for x in f.args(i) if f.N(x)['k'] != 'CXXDefaultArgExpr']
                n6 += 1
                if sh in ('push_back',) or (sh in ('insert', 'emplace') and len(a) == 1):
                    ctx.check(True, R6, '%s:%s:appends' % (tname, sh), '', f.loc(i))
                    continue
                ctype = (f.types[f.params[0]['t']] or '').replace('const ', '')
                if ctype.startswith(('std::map<', 'std::set<')):
                    ctx.check(True, R6, '%s:%s:unique-keys-position-is-only-a-hint' % (tname, sh), '', f.loc(i))
                    continue
                pos_end = len(a) >= 2 and any(q.short_of(f.bcallee(c) or '') in ('end', 'cend') and f.obj(c) is not None and f.ref_of(f.obj(c)) == cont for c in f.calls(a[0]))
                ctx.check(sh != 'push_front' and pos_end, R6, '%s:%s:position-is-end' % (tname, sh), 'loaded elements are inserted at a fixed position other than end(): order of the saved container is not reproduced', f.loc(i))
        for i in f.calls():
            if q.short_of(f.bcallee(i) or '') == 'insert_iterator' and f.N(i)['k'] in ('CXXConstructExpr', 'CXXTemporaryObjectExpr'):
                n6 += 1
                lp = [L for L in q.loops(f) if f.contains(L, i)]
                ctx.check(not lp, R6, '%s:insert_iterator:created-once-before-the-loop' % tname, 'the insert position is reset on every element', f.loc(i))
    ctx.check(n6 >= 4, R6, 'container-loaders-found', 'expected the insert sites of the map / multimap / sequence loaders (%d found)' % n6, AR)
    ctx.floor(R6, 4)

    # R7: cursor arithmetic of the readers
    from vlib.lin import Lin as _L19
    PTR = 'this.f:' + AR + '::ptr_'
    CSTR = 'this.f:' + AR + '::buffer_.c_str()'

    def cursor_at(f, S_, node):
        """symbolic advance of ptr_ (relative to its value on entry) at `node`; None if a write neither dominates nor is excluded, or is not an increment"""
        tot = _L19.const(0)
        for w in q.field_writes(f, 'archive::ptr_'):
            n_ = f.N(w)
            if node is not None and not q.reaches(f, w, node):
                continue
            if node is not None and not q.before(f, w, node):
                return None
            if node is None and not q.always_before_exit(f, [w]):
                return None
            if n_['k'] == 'CompoundAssignOperator' and n_.get('op') == '+=':
                tot = tot + S_.lin(n_['ch'][1])
            elif n_['k'] == 'BinaryOperator' and n_.get('op') == '=':
                d_ = S_.lin(n_['ch'][1]) - _L19.atom(PTR)
                if PTR in d_.t:
                    return None
                tot = tot + d_
            else:
                return None
        return tot

    def offset_of(e):
        """e == c_str() + ptr_ + k  ->  k (a Lin without those two atoms), else None"""
        if e.t.get(CSTR) != 1 or e.t.get(PTR) != 1:
            return None
        return e - _L19.atom(CSTR) - _L19.atom(PTR)
    ncs = P.fn(AR + '::next_chunk_size')
    Sn = q.symb_with_locals(ncs)
    mcs = [i for i in ncs.calls() if ncs.callee(i) == 'memcpy']
    okn = len(mcs) == 1
    if okn:
        a = ncs.args(mcs[0])
        off = offset_of(Sn.lin(a[1]))
        adv = cursor_at(ncs, Sn, mcs[0])
        okn = off is not None and adv is not None and (off + adv).is_const() and (off + adv).c == 0 and ncs.const_value(a[2]) == 4 and not q.field_writes(ncs, 'archive::ptr_')
        szv = [r for r in ncs.subtree_refs(a[0]) if r.startswith('v:')]
        rets = [r for r in ncs.returns() if ncs.ret_value(r) is not None]
        okn = okn and len(szv) == 1 and bool(rets) and all(ncs.ref_of(ncs.ret_value(r)) == szv[0] for r in rets) and (ncs.types[[d['t'] for i in ncs.all_nodes() if ncs.N(i)['k'] == 'DeclStmt' for d in ncs.N(i)['decls'] if d['ref'] == szv[0]][0]] or '') in ('uint32_t', 'unsigned int')
    ctx.check(okn, R7, 'next_chunk_size:length-word-is-the-4-bytes-at-the-cursor', 'the chunk length is not read as the 32-bit word at the cursor (or the cursor moves while peeking)', ncs.where)
    Sr = q.symb_with_locals(rc)
    mcr = [i for i in rc.calls() if rc.callee(i) == 'memcpy']
    okr = len(mcr) == 1
    if okr:
        a = rc.args(mcr[0])
        off, adv, end_ = offset_of(Sr.lin(a[1])), cursor_at(rc, Sr, mcr[0]), cursor_at(rc, Sr, None)
        okr = off is not None and adv is not None and end_ is not None and (off + adv - _L19.const(4)).is_const() and (off + adv - _L19.const(4)).c == 0 and \
            rc.ref_of(a[2]) == lenp and (end_ - _L19.const(4) - _L19.atom(lenp)).is_const() and (end_ - _L19.const(4) - _L19.atom(lenp)).c == 0 and rc.ref_of(a[0]) == q.param_by_index(rc, 0)
    ctx.check(okr, R7, 'read_chunk:payload-at-cursor+4:cursor-advances-4+len', 'read_chunk copies from the wrong offset or leaves the cursor somewhere else than behind the chunk', rc.where)
    rs_ = P.fn(AR + '::read_chunk_as_string')
    Ss = q.symb_with_locals(rs_)
    sc_ = [i for i in rs_.calls() if rs_.N(i)['k'] in ('CXXConstructExpr', 'CXXTemporaryObjectExpr') and 'basic_string' in (rs_.callee(i) or '') and len([x for x in rs_.args(i) if rs_.N(x)['k'] != 'CXXDefaultArgExpr']) == 2]
    oks = len(sc_) == 1
    if oks:
        a = rs_.args(sc_[0])
        NS = 'this.next_chunk_size()'
        off, adv, end_ = offset_of(Ss.lin(a[0])), cursor_at(rs_, Ss, sc_[0]), cursor_at(rs_, Ss, None)
        ln_ = Ss.lin(a[1])
        oks = off is not None and adv is not None and end_ is not None and (off + adv - _L19.const(4)).is_const() and (off + adv - _L19.const(4)).c == 0 and \
            ln_.t == {NS: 1} and ln_.c == 0 and (end_ - _L19.const(4) - ln_).is_const() and (end_ - _L19.const(4) - ln_).c == 0 and len([i for i in rs_.calls() if rs_.bcallee(i) == AR + '::next_chunk_size']) == 1
    ctx.check(oks, R7, 'read_chunk_as_string:payload-at-cursor+4:cursor-advances-4+size', 'read_chunk_as_string takes the text from the wrong offset / length or leaves the cursor somewhere else than behind the chunk', rs_.where)
    ctx.floor(R7, 3)

    # R8: state installation and copies
    def classify(f, rhs):
        if f.params and f.ref_of(rhs) == f.params[0]['ref']:
            return 'p'
        if f.const_value(rhs) is not None and not [r for r in f.subtree_refs(rhs) if r.startswith('e:')]:
            return f.const_value(rhs)
        en = [r.rsplit('::', 1)[-1] for r in f.subtree_refs(rhs) if r.startswith('e:')]
        return en[0] if len(en) == 1 else None

    def effects(f, depth=0):
        """field -> value class ('p' = the single parameter, an int constant, an enumerator name) set on every path, directly or through
        setters of the class called on this; a field written twice keeps the later write"""
        eff = {}
        events = []
        for fld in ('buffer_', 'ptr_', 'mode_'):
            for w in q.field_writes(f, 'archive::' + fld):
                if q.always_before_exit(f, [w]):
                    events.append((f.point_of(w), fld, classify(f, f.N(w)['ch'][-1])))
        if depth < 2:
            for c in f.calls():
                g = P.fns.get(f.N(c).get('callee') or '')
                o = f.obj(c) if f.N(c)['k'] == 'CXXMemberCallExpr' else None
                if g is None or g is f or g.brecord != AR or g.entry is None or o is None or f.N(f.strip(o))['k'] != 'CXXThisExpr' or not q.always_before_exit(f, [c]):
                    continue
                for fld, v in effects(g, depth + 1).items():
                    if v == 'p':
                        v = classify(f, f.args(c)[0]) if f.args(c) else None
                    events.append((f.point_of(c), fld, v))
        for (pt, fld, v) in sorted(events, key=lambda e_: (e_[0] is None, e_[0])):
            eff[fld] = v
        return eff
    for nm_, want in (('str', {'buffer_': 'p', 'ptr_': 0, 'mode_': 'load_from_archive'}), ('mode', {'ptr_': 0, 'mode_': 'p'}), ('reset', {'ptr_': 0})):
        fs_ = [f for f in P.by_bname.get(AR + '::' + nm_, []) if f.entry is not None and ((nm_ == 'reset') or len(f.params) == 1)]
        ctx.check(len(fs_) == 1, R8, '%s:setter-found' % nm_, 'setter not found', AR)
        for f in fs_:
            eff = effects(f)
            for fld, w_ in sorted(want.items()):
                ctx.check(eff.get(fld, 'unset') == w_, R8, '%s:%s' % (nm_, fld), '%s() does not set %s to %s (it is %s)' % (nm_, fld, 'its argument' if w_ == 'p' else w_, eff.get(fld, 'left as it was')), f.where)
    for f in [g for g in P.fns.values() if g.brecord == AR and g.short == 'operator=' and g.entry is not None]:
        oth = f.params[0]['ref']
        mv = '&&' in (f.types[f.params[0]['t']] or '')
        for fld in ('buffer_', 'ptr_', 'mode_'):
            ws_ = [w for w in q.field_writes(f, 'archive::' + fld)]
            okw = len(ws_) == 1
            if okw:
                rhs = f.N(ws_[0])['ch'][-1]
                okw = oth in f.subtree_refs(rhs) and any(model.strip_targs(r).endswith('archive::' + fld) for r in f.subtree_refs(rhs))
                g_self = f.gate_edges(lambda atom, pol, f=f: f.N(atom)['k'] == 'BinaryOperator' and f.N(atom).get('op') in ('!=', '==') and any(f.N(j)['k'] == 'CXXThisExpr' for j in f.walk(atom)) and
                                      ((f.N(atom)['op'] == '!=' and pol is False) or (f.N(atom)['op'] == '==' and pol is True)))
                reach = f.reachable_blocks(cut_blocks=q.blocks_of(f, ws_), cut_edges=g_self)
                okw = okw and f.exit not in reach
            ctx.check(okw, R8, 'operator=(%s):%s-copied' % ('move' if mv else 'copy', fld), 'assignment does not carry %s over' % fld, f.where)
    ctx.floor(R8, 10)

    # R3
    pairs = {}
    for f in P.fns.values():
        if f.brecord == 'cppcms::archive_traits' and f.short in ('save', 'load'):
            pairs.setdefault(f.record, {})[f.short] = f
        elif f.bname in ('cppcms::details::archive_save_container', 'cppcms::details::archive_load_container'):
            targ = f.id.split('<', 1)[1].rsplit('>(', 1)[0]
            pairs.setdefault('container<%s>' % targ, {})['save' if 'save' in f.short else 'load'] = f
    n_pairs = 0
    for rec in sorted(pairs):
        pr = pairs[rec]
        if 'save' not in pr or 'load' not in pr:
            continue
        s, l = pr['save'], pr['load']
        isv, ilv = flat_interval(P, s, SAVE_EVENTS, {}), flat_interval(P, l, LOAD_EVENTS, {})
        n_pairs += 1
        short = rec.replace('cppcms::archive_traits', 'traits').replace('std::basic_string<char>', 'string')
        ctx.check(isv is not None and isv == ilv and isv[1] >= 1, R3, '%s:save/load-chunk-ops-agree' % short,
                  'save performs %s chunk operations per path, load %s (loop bodies counted once)' % (isv, ilv), l.where, detail={'save': isv, 'load': ilv})
    # smart-pointer traits (two macros of archive_traits.h, instantiated for the six pointer types in the analysis-only unit): load leaves the destination as saved on
    # every path - reset / null when the archive says "empty", a fresh object otherwise; a destination that keeps its old target reads a saved null back as non-null
    ploads = sorted([f for f in P.fns.values() if f.brecord == 'cppcms::archive_traits' and f.short == 'load' and f.body is not None and len(f.params) == 2 and
                     'c19w::node>' in (f.record or '')], key=lambda g: g.id)
    ctx.require(len(ploads) >= 6 or ctx.violations, 'C19.R3: smart-pointer archive_traits loaders not found (%d)' % len(ploads))
    for f in ploads:
        dref = q.param_by_index(f, 0)
        wr = [i for i in f.all_nodes() if (f.N(i)['k'] == 'CXXMemberCallExpr' and q.short_of(f.callee(i) or '') == 'reset' and f.obj(i) is not None and f.ref_of(f.obj(i)) == dref) or
              (f.N(i)['k'] in ('CXXOperatorCallExpr', 'BinaryOperator') and f.N(i).get('op') == '=' and f.ref_of((f.args(i) if f.N(i)['k'] == 'CXXOperatorCallExpr' else f.N(i)['ch'])[0]) == dref)]
        news = [i for i in f.all_nodes() if f.N(i)['k'] == 'CXXNewExpr']
        rd = [i for i in f.calls() if q.short_of(f.callee(i) or '') == 'read_chunk']
        ok_ = len(wr) >= 2 and bool(news) and bool(rd) and q.always_before_exit(f, wr) and any(not any(f.contains(w_, n_) for n_ in news) for w_ in wr)
        ctx.check(ok_, R3, '%s:load-assigns-the-destination-on-every-path' % (f.record or '').replace('cppcms::archive_traits', 'traits').replace('c19w::node', 'V'),
                  'a path through load leaves the destination pointer as it was (a saved null pointer loads back as whatever the destination held), or there is no path that nulls it', f.where)
    ctx.floor(R3, 46)
    ctx.stats['trait_pairs'] = n_pairs
