"""C19 — serialisation round-trips; damaged archives are rejected safely."""
import re
from vlib import build, model, q, linbound
from vlib.lin import Lin, ge
from vlib.build import AnalysisBroken, REPO, VERIF
from rules.C05 import load

AR = 'cppcms::archive'
SAVE_EVENTS = ('write_chunk', 'save', 'archive_save_container', 'operator<<', 'operator&')
LOAD_EVENTS = ('read_chunk', 'read_chunk_as_string', 'load', 'archive_load_container', 'operator>>', 'operator&')


PRIM_SAVE = ('write_chunk',)
PRIM_LOAD = ('read_chunk', 'read_chunk_as_string')


def chunk_events(f, names, P=None):
    """calls that perform (or may perform) chunk operations of the given direction: the archive primitives themselves, the
    traits / operators by name, and any other cppcms helper with a body (its own operations are counted by flat_interval)"""
    out = []
    prim = PRIM_SAVE if 'write_chunk' in names else PRIM_LOAD
    for i in f.calls():
        cn = f.bcallee(i) or ''
        sh = cn.rsplit('::', 1)[-1]
        if cn.startswith(AR + '::'):
            if sh in names:
                out.append(i)
            continue
        if sh in names and (cn.startswith('cppcms::archive_traits::') or cn.startswith('cppcms::details::') or cn.startswith('cppcms::operator')):
            out.append(i)
        elif P is not None and cn.startswith('cppcms::') and f.N(i).get('callee') in P.fns and P.fns[f.N(i)['callee']].entry is not None and \
                (cn.startswith('cppcms::details::') or cn.startswith('cppcms::archive_traits::')):
            out.append(i)
    return out


def flat_interval(P, f, names, memo, depth=0):
    """(min,max) primitive chunk operations per path, helper / nested-trait calls replaced by their own interval"""
    if f.id in memo:
        return memo[f.id]
    memo[f.id] = (1, 1)          # recursion guard (self-similar containers): count as one operation
    w = {}
    for i in chunk_events(f, names, P):
        g = P.fns.get(f.N(i).get('callee'))
        if g is not None and depth < 6 and not g.bname.startswith(AR + '::'):
            iv = flat_interval(P, g, names, memo, depth + 1)
            w[i] = iv if iv is not None else (1, 1)
        else:
            w[i] = (1, 1)
    r = q.event_interval(f, w, cap=12)
    memo[f.id] = r
    return r


def run(ctx):
    ctx.explanation = ('archive read path: forward propagation of linear constraints over ptr_, buffer_.size() and the chunk length with the callee next_chunk_size() inlined; '
                       'every memcpy / std::string(p,n) gets the obligation offset+length <= buffer size, proved by Fourier-Motzkin. Structural rules: the length check dominates the copy, '
                       'and for every archive_traits specialisation (macro-generated ones included) save and load perform the same number of chunk operations on every path.')
    ctx.units = ['src/archive.cpp', 'witness/c19_archive.cpp']
    P = model.Program(build.extract([REPO + '/src/archive.cpp', VERIF + '/witness/c19_archive.cpp'], include_re='^/repo/(src|cppcms)/(archive|serialization|json)'))
    ctx.stats['functions'] = len(P.fns)
    R1 = ctx.rule('C19.R1', 'archive reads stay inside the buffer: ptr_+4+len <= buffer_.size() proved at every copy')
    R2 = ctx.rule('C19.R2', 'read_chunk copies only after the stored length equals the requested one; cursor advances by header+payload')
    R4 = ctx.rule('C19.R4', 'archive_traits loaders: every read_chunk(p, n) writes inside the object p points to (n <= sizeof(T) for scalars, n <= v.size()*sizeof(T) for the resized vector)')
    R5 = ctx.rule('C19.R5', 'next_chunk_size rejects only what does not fit: every throw is reachable only when fewer than 4 header bytes remain or the announced length exceeds the remaining payload (a well-formed last chunk, also an empty one, is accepted)')
    R6 = ctx.rule('C19.R6', 'container loaders rebuild the container in archive order: elements are appended (no position, end() as position, or an insert_iterator); a fixed position such as begin() reverses the order of equal keys / of the sequence')
    R3 = ctx.rule('C19.R3', 'save and load of every archive_traits specialisation perform the same chunk operations on every path')

    E = linbound.Engine(P, inline_depth=2 if ctx.tier == 'quick' else 3)
    targets = [AR + '::next_chunk_size', AR + '::read_chunk', AR + '::read_chunk_as_string']
    for name in targets:
        f = P.fn(name)
        before = len(E.obligations)
        E.analyse(f)
    ctx.stats['paths'] = E.paths
    seen = {}
    for ob in E.obligations:
        top = ob.chain[0]
        base = '%s>%s:%s' % (top.short, ob.fn.short, ob.kind) if top is not ob.fn else '%s:%s' % (ob.fn.short, ob.kind)
        n = seen.get(base, 0)
        # several paths reach the same site: one obligation per (site, path); same key -> all must hold
        key = '%s@%s' % (base, ob.fn.N(ob.node)['k'])
        seen[base] = n + 1
        ctx.check(ob.proved, R1, key, 'not provable: ' + ob.desc, ob.fn.loc(ob.node), detail={'obligation': ob.desc, 'constraints': [repr(c[1]) + (' >= 0' if c[0] == 'ge' else ' == 0') for c in ob.cons][-12:]})
    ctx.assume('size_t sums of a 32-bit chunk length and a buffer offset do not wrap on the 64-bit target')
    ctx.floor(R1, 8)

    # R4: destination side of read_chunk in the (macro-generated) trivially copyable traits
    E4 = linbound.Engine(P, inline_depth=1)
    E4.byte_sinks = True
    E4.range_sinks = {AR + '::read_chunk': (0, 1)}
    loaders = sorted([f for f in P.fns.values() if f.short == 'load' and f.bname.startswith('cppcms::archive_traits') and any(f.bcallee(i) == AR + '::read_chunk' for i in f.calls())], key=lambda g: g.id)
    ctx.require(len(loaders) >= 20, 'C19.R4: archive_traits loaders calling read_chunk not found (%d)' % len(loaders))
    covered = 0
    for f in loaders:
        n0 = len(E4.obligations)
        E4.analyse(f)
        tname = f.id.split('::load(')[0].replace('cppcms::archive_traits', 'traits')
        for ob in E4.obligations[n0:]:
            covered += 1
            ctx.check(ob.proved, R4, '%s:read_chunk-destination' % tname, 'not provable: ' + ob.desc, ob.fn.loc(ob.node), detail={'obligation': ob.desc})
    ctx.floor(R4, 24)

    # R5: completeness of the acceptance test (round trip of archives that end with an empty chunk)
    from vlib.lin import infeasible as _infeasible
    ncs = P.fn(AR + '::next_chunk_size')
    E5 = linbound.Engine(P, inline_depth=2)
    PTR, BSZ = 'this.f:%s::ptr_' % AR, 'this.f:%s::buffer_.size()' % AR
    seen5 = []

    def at_throw(engine, fn, st, node, chain):
        n = fn.N(node)
        if n['k'] not in ('CXXConstructExpr', 'CXXTemporaryObjectExpr') or 'archive_error' not in (n.get('cn') or ''):
            return
        if not any(fn.N(a)['k'] == 'CXXThrowExpr' for a in fn.ancestors(node)):
            return
        ptr = st.env.get(PTR, Lin.atom(PTR))
        bsz = st.env.get(BSZ, Lin.atom(BSZ))
        rem = bsz - ptr
        # the announced length, if it was already read on this path: the local filled by memcpy(&size, ...)
        chunk = None
        for k_, v_ in st.env.items():
            if k_.startswith('v:size@') or k_.startswith('v:len@'):
                chunk = v_
        accept = [ge(ptr), ge(rem - Lin.const(4))]
        if chunk is not None:
            accept += [ge(chunk), ge(rem - Lin.const(4) - chunk)]
        seen5.append((fn, node, _infeasible(list(st.cons) + accept), chunk is not None, [repr(c[1]) for c in st.cons][-6:]))
    E5.site_hooks.append(at_throw)
    E5.analyse(ncs)
    ctx.check(len(seen5) >= 2, R5, 'next_chunk_size:throw-sites', 'expected the rejections of next_chunk_size to be explored', ncs.where)
    for k, (fn_, node, ok, has_len, cons_) in enumerate(seen5):
        ctx.check(ok, R5, 'next_chunk_size:throw@L%d#%d:only-when-chunk-does-not-fit' % (fn_.N(node)['l'] - ncs.line, k),
                  'an archive whose remaining bytes hold a complete chunk (>= 4 header bytes%s) can be rejected here' % (', announced length within the rest' if has_len else ''), fn_.loc(node), detail={'path': cons_})
    ctx.floor(R5, 3)

    # R2
    rc = P.fn(AR + '::read_chunk')
    lenp = q.param_by_index(rc, 1)

    def same_len(atom, pol):
        n = rc.N(atom)
        if n['k'] != 'BinaryOperator' or n.get('op') not in ('!=', '=='):
            return False
        if lenp not in rc.subtree_refs(atom):
            return False
        other = [r for r in rc.subtree_refs(atom) if r != lenp]
        ok_src = False
        for r in other:
            for (_, v) in rc.defs_of_var(r):
                if v is not None and any(rc.bcallee(j) == AR + '::next_chunk_size' for j in rc.calls(v)):
                    ok_src = True
        if any(rc.bcallee(j) == AR + '::next_chunk_size' for j in rc.calls(atom)):
            ok_src = True
        return ok_src and ((n['op'] == '!=' and pol is False) or (n['op'] == '==' and pol is True))
    g = rc.gate_edges(same_len)
    mc = [i for i in rc.calls() if rc.callee(i) == 'memcpy']
    ctx.check(len(mc) == 1 and rc.only_through(mc[0], g), R2, 'read_chunk:copy-only-if-length-matches', 'payload copied although the stored length differs from the requested one', rc.where)
    for name, hdr in ((AR + '::read_chunk', True), (AR + '::read_chunk_as_string', True)):
        f = P.fn(name)
        ws = q.field_writes(f, 'archive::ptr_')
        ctx.check(len(ws) >= 1 and q.always_before_exit(f, ws), R2, '%s:cursor-advances' % f.short, 'cursor not advanced past the chunk', f.where)
    wr = P.fn(AR + '::write_chunk')
    ap = [i for i in q.field_calls(wr, 'archive::buffer_', 'append')]
    ctx.check(len(ap) == 2 and wr.const_value(wr.args(ap[0])[1]) == 4 and q.param_by_index(wr, 1) in wr.subtree_refs(wr.args(ap[1])[1]) and q.before(wr, ap[0], ap[1]), R2,
              'write_chunk:4-byte-length-then-payload', 'writer does not emit a 4-byte length followed by len payload bytes', wr.where)
    ctx.floor(R2, 4)

    # R6: loaded elements are appended in archive order
    n6 = 0
    for f in sorted(P.fns.values(), key=lambda g: g.id):
        if not ((f.short == 'load' and f.bname.startswith('cppcms::archive_traits')) or f.bname == 'cppcms::details::archive_load_container'):
            continue
        cont = q.param_by_index(f, 0)
        tname = f.id.split('(')[0].replace('cppcms::archive_traits', 'traits').replace('std::basic_string<char>', 'string')
        for L in q.loops(f):
            for i in f.calls(f.N(L)['body']):
                sh = q.short_of(f.bcallee(i) or '')
                o = f.obj(i)
                if sh not in ('insert', 'emplace_hint', 'emplace', 'push_back', 'push_front') or o is None or f.ref_of(o) != cont:
                    continue
                a = [x for x in f.args(i) if f.N(x)['k'] != 'CXXDefaultArgExpr']
                n6 += 1
                if sh in ('push_back',) or (sh in ('insert', 'emplace') and len(a) == 1):
                    ctx.check(True, R6, '%s:%s:appends' % (tname, sh), '', f.loc(i))
                    continue
                ctype = (f.types[f.params[0]['t']] or '').replace('const ', '')
                if ctype.startswith(('std::map<', 'std::set<')):
                    ctx.check(True, R6, '%s:%s:unique-keys-position-is-only-a-hint' % (tname, sh), '', f.loc(i))
                    continue
                pos_end = len(a) >= 2 and any(q.short_of(f.bcallee(c) or '') in ('end', 'cend') and f.obj(c) is not None and f.ref_of(f.obj(c)) == cont for c in f.calls(a[0]))
                ctx.check(sh != 'push_front' and pos_end, R6, '%s:%s:position-is-end' % (tname, sh), 'loaded elements are inserted at a fixed position other than end(): order of the saved container is not reproduced', f.loc(i))
        for i in f.calls():
            if q.short_of(f.bcallee(i) or '') == 'insert_iterator' and f.N(i)['k'] in ('CXXConstructExpr', 'CXXTemporaryObjectExpr'):
                n6 += 1
                lp = [L for L in q.loops(f) if f.contains(L, i)]
                ctx.check(not lp, R6, '%s:insert_iterator:created-once-before-the-loop' % tname, 'the insert position is reset on every element', f.loc(i))
    ctx.check(n6 >= 4, R6, 'container-loaders-found', 'expected the insert sites of the map / multimap / sequence loaders (%d found)' % n6, AR)
    ctx.floor(R6, 4)

    # R3
    pairs = {}
    for f in P.fns.values():
        if f.brecord == 'cppcms::archive_traits' and f.short in ('save', 'load'):
            pairs.setdefault(f.record, {})[f.short] = f
        elif f.bname in ('cppcms::details::archive_save_container', 'cppcms::details::archive_load_container'):
            targ = f.id.split('<', 1)[1].rsplit('>(', 1)[0]
            pairs.setdefault('container<%s>' % targ, {})['save' if 'save' in f.short else 'load'] = f
    n_pairs = 0
    for rec in sorted(pairs):
        pr = pairs[rec]
        if 'save' not in pr or 'load' not in pr:
            continue
        s, l = pr['save'], pr['load']
        isv, ilv = flat_interval(P, s, SAVE_EVENTS, {}), flat_interval(P, l, LOAD_EVENTS, {})
        n_pairs += 1
        short = rec.replace('cppcms::archive_traits', 'traits').replace('std::basic_string<char>', 'string')
        ctx.check(isv is not None and isv == ilv and isv[1] >= 1, R3, '%s:save/load-chunk-ops-agree' % short,
                  'save performs %s chunk operations per path, load %s (loop bodies counted once)' % (isv, ilv), l.where, detail={'save': isv, 'load': ilv})
    ctx.floor(R3, 40)
    ctx.stats['trait_pairs'] = n_pairs
